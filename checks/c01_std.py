"""C01 helper - stream c01.std: labelled fuzzing of std-library calls (NOT a proof).

`run_std(ctx, elk)` parses the method signatures of /repo/headers/*.elh, and for the receiver
families Int, Float, String, Char, ArrayList, HashMap, the eight range classes and Regex builds
one-call programs whose receiver and arguments are BOUNDARY values of the declared parameter
types.  Every call sits inside its own `do ... catch e ... end`, so any Elk-level error is fine;
what gates is the host process dying: Go `panic:`, Go `fatal error:` (other than a clean
out-of-memory under the address-space limit the stream sets), or death by signal.

Call source (what is reported as `case`, what the corpus file holds) = a `;`-separated
statement sequence on one line, e.g. `(1) << (4611686018427387904)` or
`v0 := "ab"; v1 := 2; v0 * v1`.  The last statement is the call; when it has a value it is
bound to `r` and `r.inspect` is printed (so a native that returns a value of another class
than the header promises is exercised too).

Failure keys (seed-stable classes): `std:<Receiver>#<method>:<panic site>` with panic site = first
elk frame after the runtime panic frames (`value.String.RepeatSmallInt`, `vm.initString.funcN`), or
`msg:<panic message class>` when the trace has none; `std:header-method-missing-at-runtime` for
every "tried to call an invalid method" panic (per-method counts are in the distribution).

Execution: corpus lines and calls that may legitimately be slow (huge Int into ** * << rjust grow ...)
run alone and first; the other calls go through batch files that only act as a filter (see
batch_program) - every call that is not provably clean there is re-run alone and that run is the
one classified.  Quick tier: 250 calls, 10 s timeout, no new round after 25 s (calls not run are
counted in `not_run_time_budget`); thorough: 20000 calls, 20 s timeout, 900 s.

Corpus file corpus/C01.std.txt: `Receiver#method<TAB>call source` (label optional), replayed
first on every run through the same wrapper.
"""
import hashlib
import os
import re
import time

import vlib

STREAM = "c01.std"
HEADERS = os.path.join(vlib.REPO, "headers")
CORPUS = os.path.join(vlib.ROOT, "corpus", "C01.std.txt")
ELK_MODULE = "github.com/elk-language/elk/"
# "tried to call an invalid method: <nil> (:name) of class: ..." = the header declares a method (usually through an
# included mixin: Collection::Base#remove_all, Iterable::FiniteBase#take on HashMap, Value#=~ on ranges ...) that
# the native class does not have at run time.  All of them are ONE finding class:
MISSING_KEY = "std:header-method-missing-at-runtime"
CHILD_ENV = {"GOMAXPROCS": "2"}     # 16 parallel runs x 16 GC workers each only fight for the cores
MEM_LIMIT_KB = 2000000      # ulimit -v for every run: a huge allocation ends as a clean OOM, not a dead machine
TIMEOUT_S = 20

RULE = (
    "Labelled fuzzing, not proof. The .elh headers are parsed (class/mixin nesting, include chains with "
    "generic substitution, def/sig/alias lines, operators); for every method reachable on the receiver "
    "families Int, Float, String, Char, ArrayList, HashMap, Closed/Open/LeftOpen/RightOpen/Endless*/Beginless* "
    "ranges and Regex whose parameter types the generator can inhabit (methods taking closures, or types with "
    "no literal form, are skipped and counted) one-call programs are generated: receiver drawn from a fixed "
    "boundary pool of its type, each argument drawn from the boundary pool of its declared type (Int: 0, 1, -1, "
    "2, 63, 64, 65, 2^31, 2^62, 2^63-1, 2^63, -2^63, 2^64, +-10^30; AnyInt adds sized-int literals; Float: +-0.0, "
    "1.5, +-1e308, INF, NEG_INF, NAN; String: empty, 1-2 chars, non-ASCII, digits, 1000 chars; Char; Bool; nil for "
    "nilable; small lists, tuples, maps, records, ranges), optional parameters sometimes omitted, operators "
    "printed infix, half of the calls with receiver/arguments first bound to locals (defeats constant folding, "
    "so both the compiler's folder and the VM are hit). Each program is `do <call>; println(r.inspect) catch e "
    "... end` run by `elk run` under ulimit -v 2 GB and a timeout (10 s quick tier, 20 s thorough); the corpus of known crashers is replayed "
    "first. A program the checker rejects is counted as rejected and is not an evaluation. GATE: a Go panic, a "
    "Go fatal error other than out-of-memory, or death by signal, each reported once per canonical class "
    "std:<Receiver>#<method>:<first elk frame after the panic>; the panic 'tried to call an invalid method' (a method "
    "the header declares but the native class lacks) is one class, std:header-method-missing-at-runtime, with "
    "per-method counts in the distribution. Timeouts and out-of-memory are counted, not gated. Calls are first "
    "filtered through batch files (10 calls, each in its own do/catch with markers); only calls whose end marker "
    "is printed by a process that exits 0 are taken from a batch, every other call is re-run alone and that run "
    "is the one classified."
)

# ------------------------------------------------------------------ header parser

MODS = r"(?:(?:sealed|abstract|noinit|primitive|immutable|default|native|pure|overload|async|macro)\s+)*"
SCOPE_RE = re.compile(r"^" + MODS + r"(class|mixin|module|interface|struct)\s+((?:::)?[A-Za-z_][\w:]*)(.*)$")
DEF_RE = re.compile(r"^(" + MODS + r")(def|sig)\s+(.*)$")
NAME_RE = re.compile(r"(\[\]=?|[A-Za-z_]\w*[?!]?|[-+*/%<>=!~&|^@]+)")
INCLUDE_RE = re.compile(r"^include\s+(.*)$")
ALIAS_RE = re.compile(r"^alias\s+(.*)$")


class Klass:
    def __init__(self, name):
        self.name = name
        self.generics = []
        self.includes = []      # (name as written, [type args])
        self.methods = []       # Method, in declaration order
        self.aliases = []       # (new, old)


class Method:
    def __init__(self):
        self.name = ""
        self.generics = []      # (name, bound type or None)
        self.params = []        # (name, type, optional?, kind) kind in normal/rest/named_rest
        self.ret = None
        self.closure = False
        self.overload = False
        self.abstract = False
        self.sig = False
        self.raw = ""
        self.owner = ""


def strip_comments(text):
    text = re.sub(r"##\[.*?\]##", "", text, flags=re.S)
    text = re.sub(r"#\[.*?\]#", "", text, flags=re.S)
    out = []
    for line in text.splitlines():
        line = re.sub(r"(^|\s)#.*$", "", line)
        out.append(line.strip())
    return out


def match_bracket(s, i):
    """s[i] is an opening bracket; index just past its partner (pipes are not brackets)"""
    pairs = {"[": "]", "(": ")", "{": "}"}
    stack = []
    j = i
    while j < len(s):
        c = s[j]
        if c in pairs:
            stack.append(pairs[c])
        elif stack and c == stack[-1]:
            stack.pop()
            if not stack:
                return j + 1
        j += 1
    return len(s)


def split_top(s, sep=","):
    parts, depth, cur = [], 0, []
    i = 0
    while i < len(s):
        c = s[i]
        if c in "[({":
            depth += 1
        elif c in "])}":
            depth -= 1
        if depth == 0 and s.startswith(sep, i):
            parts.append("".join(cur).strip())
            cur = []
            i += len(sep)
            continue
        cur.append(c)
        i += 1
    last = "".join(cur).strip()
    if last or parts:
        parts.append(last)
    return parts


def parse_generics(s):
    """'[K, V := Val, E = never]' (with brackets) -> [(name, bound)]"""
    out = []
    for p in split_top(s[1:-1]):
        m = re.match(r"^[+-]?([A-Za-z_]\w*)\s*(?:(:=|=|<|>)\s*(.*))?$", p)
        if m:
            out.append((m.group(1), m.group(3).strip() if m.group(3) else None))
    return out


def parse_def(mods, kind, rest, owner):
    m = Method()
    m.raw = (mods + kind + " " + rest).strip()
    m.owner = owner
    m.overload = "overload" in mods.split()
    m.abstract = "abstract" in mods.split()
    m.sig = kind == "sig"
    rest = re.sub(r";?\s*end\s*$", "", rest).strip() if kind == "def" else rest.strip()
    nm = NAME_RE.match(rest)
    if not nm:
        return None
    m.name = nm.group(1)
    rest = rest[nm.end():]
    if rest.startswith("=") and re.match(r"[A-Za-z_]", m.name) and rest.startswith("=("):
        m.name += "="           # setter
        rest = rest[1:]
    if rest.startswith("["):
        e = match_bracket(rest, 0)
        m.generics = parse_generics(rest[:e])
        rest = rest[e:]
    if rest.startswith("("):
        e = match_bracket(rest, 0)
        plist = rest[1:e - 1]
        rest = rest[e:]
        if re.search(r"(:|^|,)\s*&?\|", plist):
            m.closure = True
        else:
            for p in split_top(plist):
                if not p:
                    continue
                kind_ = "normal"
                if p.startswith("**"):
                    kind_, p = "named_rest", p[2:]
                elif p.startswith("*"):
                    kind_, p = "rest", p[1:]
                pm = re.match(r"^([A-Za-z_]\w*)\s*(?::\s*(.*?))?\s*(?:=\s*([^=].*))?$", p)
                if not pm:
                    m.params.append((p, None, False, kind_))
                    continue
                m.params.append((pm.group(1), pm.group(2), pm.group(3) is not None, kind_))
    rm = re.match(r"^\s*:\s*(.*)$", rest)
    if rm:
        ret = rm.group(1)
        ret = split_top(ret, "!")[0].strip() if "!" in ret else ret.strip()
        m.ret = ret or None
    return m


def parse_headers(hdir=HEADERS):
    """-> ({class name without the Std:: prefix: Klass}, [problems])"""
    classes, problems = {}, []
    files = []
    for root, _, fs in os.walk(hdir):
        for f in fs:
            if f.endswith(".elh"):
                files.append(os.path.join(root, f))
    for path in sorted(files):
        try:
            lines = strip_comments(open(path, encoding="utf-8").read())
        except OSError as e:
            problems.append("%s: %s" % (path, e))
            continue
        stack = []      # (kind, full name or None)

        def cur_class():
            for k, n in reversed(stack):
                if k == "singleton":
                    return None
                if k == "class":
                    return n
            return None
        pending_alias = False
        for line in lines:
            if not line:
                continue
            if pending_alias:
                pending_alias = line.endswith(",")
                c = cur_class()
                if c:
                    parse_alias(classes[c], line.rstrip(","))
                continue
            sm = SCOPE_RE.match(line)
            if sm:
                name, tail = sm.group(2), sm.group(3)
                if name.startswith("::"):
                    full = name[2:]
                else:
                    parent = cur_class()
                    full = (parent + "::" + name) if parent else name
                full = re.sub(r"^Std::", "", full)
                k = classes.setdefault(full, Klass(full))
                if tail.startswith("["):
                    e = match_bracket(tail, 0)
                    k.generics = [g[0] for g in parse_generics(tail[:e])]
                if not re.search(r";\s*end\s*$", line):
                    stack.append(("class", full))
                continue
            if line == "singleton" or line.startswith("singleton "):
                stack.append(("singleton", None))
                continue
            if line.startswith("extend where"):
                stack.append(("extend", None))
                continue
            if line == "end":
                if stack:
                    stack.pop()
                else:
                    problems.append("%s: unbalanced end" % os.path.basename(path))
                continue
            c = cur_class()
            if c is None:
                continue
            dm = DEF_RE.match(line)
            if dm:
                if dm.group(2) == "def" and not re.search(r"\bend\s*$", line):
                    problems.append("%s: multi-line def %s" % (os.path.basename(path), line[:60]))
                    stack.append(("def", None))
                    continue
                meth = parse_def(dm.group(1), dm.group(2), dm.group(3), c)
                if meth is None:
                    problems.append("%s: unparsed %s" % (os.path.basename(path), line[:60]))
                else:
                    classes[c].methods.append(meth)
                continue
            im = INCLUDE_RE.match(line)
            if im:
                for inc in split_top(im.group(1)):
                    nm = re.match(r"^((?:::)?[A-Za-z_][\w:]*)(\[.*\])?$", inc)
                    if nm:
                        args = split_top(nm.group(2)[1:-1]) if nm.group(2) else []
                        classes[c].includes.append((nm.group(1), args))
                continue
            am = ALIAS_RE.match(line)
            if am:
                body = am.group(1)
                pending_alias = body.endswith(",")
                parse_alias(classes[c], body.rstrip(","))
                continue
        if stack:
            problems.append("%s: %d unclosed scopes" % (os.path.basename(path), len(stack)))
    return classes, problems


def parse_alias(k, body):
    for pair in split_top(body):
        p = pair.split()
        if len(p) == 2:
            k.aliases.append((p[0], p[1]))


def resolve_name(classes, name, frm):
    if name.startswith("::"):
        n = re.sub(r"^Std::", "", name[2:])
        return n if n in classes else None
    name = re.sub(r"^Std::", "", name)
    parts = frm.split("::")
    for i in range(len(parts), -1, -1):
        cand = "::".join(parts[:i] + [name])
        if cand in classes:
            return cand
    return None


def subst(t, env):
    """replace generic names in a type expression (parenthesised when the replacement is a union/nilable)"""
    if t is None or not env:
        return t

    def rep(m):
        w = m.group(0)
        if w not in env or env[w] == w:
            return w
        v = env[w]
        return "(" + v + ")" if re.search(r"[|&?]", v) else v
    return re.sub(r"(?<![\w:])[A-Za-z_]\w*(?!\w|::)", rep, t)


def collect_methods(classes, cname, env):
    """methods callable on an instance of `cname` whose generics are bound by env:
    {method name: [(Method, env at the declaring class)]}; the first class in the include order
    that declares a name wins (all of its overloads are kept)."""
    found = {}
    order = []
    seen = set()

    def walk(cn, e):
        if (cn, tuple(sorted(e.items()))) in seen:
            return
        seen.add((cn, tuple(sorted(e.items()))))
        k = classes.get(cn)
        if k is None:
            return
        order.append((k, e))
        for iname, args in k.includes:
            tgt = resolve_name(classes, iname, cn)
            if tgt is None:
                continue
            tk = classes[tgt]
            e2 = {}
            for i, g in enumerate(tk.generics):
                if i < len(args):
                    e2[g] = subst(args[i], e)
            walk(tgt, e2)
    walk(cname, dict(env))
    if "Value" in classes:
        walk("Value", {})
    for k, e in order:
        here = {}
        for m in k.methods:
            here.setdefault(m.name, []).append((m, e))
        for new, old in k.aliases:
            src = here.get(old) or found.get(old)
            if src and new not in here:
                here[new] = [(alias_of(m, new), e2) for m, e2 in src]
        for name, lst in here.items():
            if name not in found:
                found[name] = lst
    return found


def alias_of(m, new):
    a = Method()
    a.__dict__.update(m.__dict__)
    a.name = new
    a.raw = "alias %s %s  # %s" % (new, m.name, m.raw)
    return a


# ------------------------------------------------------------------ boundary pools

INT_POOL = [0, 1, -1, 2, 63, 64, 65, 2 ** 31, 2 ** 62, 2 ** 63 - 1, 2 ** 63, -(2 ** 63), 2 ** 64,
            4611686018427387904, 10 ** 30, -10 ** 30]
SIZED_INTS = ["0i8", "127i8", "-127i8", "255u8", "65535u16", "-1i16", "2147483647i32", "4294967295u32",
              "9223372036854775807i64", "-1i64", "18446744073709551615u64", "64u64", "0u", "18446744073709551615u",
              "63i64", "65u8"]
FLOAT_POOL = ["0.0", "-0.0", "1.5", "1e308", "-1e308", "Float::INF", "Float::NEG_INF", "-Float::INF", "Float::NAN"]
BIGFLOAT_POOL = ["1.5bf", "0.0bf", "-1.5bf", "1e308bf"]
LONG = "x" * 1000
STRING_POOL = ['""', '"a"', '"ab"', '"é"', '"' + LONG + '"', '"12"', '"0x1f"', '"-5"', '" "', '"a\\nb"']
CHAR_POOL = ["`a`", "`é`", "`\\n`", "`\\x00`", "`\\U0010FFFF`", "`0`", "`Z`"]
SYMBOL_POOL = [":a", ":foo"]
REGEX_POOL = ["%/a/", "%//", "%/a*b/", "%/(x|y)+/"]
RANGE_OPS = ["...", "..<", "<..", "<.<"]
RANGE_INTS = [0, 1, -1, 2, 5, 2 ** 31, 2 ** 63 - 1, 2 ** 63, -(2 ** 63), 10 ** 30]
SIMPLE_TYPES = ["Int", "String", "Float", "Char", "Bool", "nil", "Symbol"]
SIZED = {"Int8": ["0i8", "127i8", "-127i8"], "Int16": ["0i16", "32767i16", "-1i16"],
         "Int32": ["0i32", "2147483647i32", "-1i32"], "Int64": ["0i64", "9223372036854775807i64", "-1i64", "64i64"],
         "UInt8": ["0u8", "255u8", "65u8"], "UInt16": ["0u16", "65535u16"], "UInt32": ["0u32", "4294967295u32"],
         "UInt64": ["0u64", "18446744073709551615u64", "64u64"], "UInt": ["0u", "18446744073709551615u", "1u"],
         "Float64": ["0.0f64", "1.5f64"], "Float32": ["0.0f32", "1.5f32"]}


def int_src(v):
    return str(v)


def paren(e):
    """wrap unless obviously atomic"""
    if re.match(r"^[A-Za-z_][\w:]*$|^\d[\w.]*$|^\"[^\"]*\"$|^`[^`]*`$|^:\w+$|^v\d+$", e):
        return e
    return "(" + e + ")"


class Gen:
    """type-directed boundary value generator; every choice comes from self.r"""

    def __init__(self, rng):
        self.r = rng
        self.big = False        # did the current call get an Int of magnitude >= 2^31 (schedule first)

    def int_(self):
        v = self.r.choice(INT_POOL)
        if abs(v) >= 2 ** 31:
            self.big = True
        return int_src(v)

    def range_(self, elem, env, probe):
        if probe:
            return "" if self.supported(elem, env) else None
        e = elem.strip()
        if e == "Int":
            def b():
                v = self.r.choice(RANGE_INTS)
                if abs(v) >= 2 ** 31:
                    self.big = True
                return paren(int_src(v))
        else:
            def b():
                return paren(self.gen(e, env))
        c = self.r.below(10)
        op = self.r.choice(RANGE_OPS)
        if c < 7:
            return "(" + b() + op + b() + ")"
        if c < 8:
            return "(" + b() + self.r.choice(["...", "<.."]) + ")"
        return "(" + self.r.choice(["...", "..<"]) + b() + ")"

    def supported(self, t, env):
        return self.gen(t, env, probe=True) is not None

    def gen(self, t, env, probe=False, depth=0):
        """source text of a boundary value of type t (None: cannot inhabit). env: generic name -> type"""
        if t is None:
            return None
        t = t.strip()
        while t.startswith("(") and match_bracket(t, 0) == len(t):
            t = t[1:-1].strip()
        if depth > 6:
            return None
        alts = split_top(t, "|")
        if len(alts) > 1:
            ok = [a for a in alts if self.gen(a, env, True, depth + 1) is not None]
            if not ok:
                return None
            return "" if probe else self.gen(self.r.choice(ok), env, False, depth + 1)
        if len(split_top(t, "&")) > 1:
            return None
        if t.endswith("?"):
            inner = t[:-1]
            if self.gen(inner, env, True, depth + 1) is None:
                return None
            if probe:
                return ""
            return "nil" if self.r.chance(1, 4) else self.gen(inner, env, False, depth + 1)
        if t.startswith("^") or t.startswith("&") or t.startswith("*"):
            return None
        m = re.match(r"^((?:::)?[A-Za-z_][\w:]*)(\[.*\])?$", t)
        if not m:
            return None
        name = re.sub(r"^(::)?(Std::)?", "", m.group(1))
        args = split_top(m.group(2)[1:-1]) if m.group(2) else []
        if name in env and not args:
            if env[name] == name:
                return None
            return self.gen(env[name], {k: v for k, v in env.items() if k != name}, probe, depth + 1)
        r = self.r
        simple = {
            "Float": FLOAT_POOL, "BigFloat": BIGFLOAT_POOL, "String": STRING_POOL, "Char": CHAR_POOL,
            "Bool": ["true", "false"], "bool": ["true", "false"], "true": ["true"], "false": ["false"],
            "True": ["true"], "False": ["false"], "nil": ["nil"], "Nil": ["nil"], "Symbol": SYMBOL_POOL,
            "Regex": REGEX_POOL,
        }
        simple.update(SIZED)
        if name in simple:
            return "" if probe else r.choice(simple[name])
        if name == "Int":
            return "" if probe else self.int_()
        if name == "AnyInt":
            if probe:
                return ""
            return self.int_() if r.chance(2, 3) else r.choice(SIZED_INTS)
        if name == "AnyFloat":
            return "" if probe else r.choice(FLOAT_POOL + BIGFLOAT_POOL)
        if name == "CoercibleNumeric":
            if probe:
                return ""
            c = r.below(7)
            return self.int_() if c < 3 else r.choice(FLOAT_POOL) if c < 6 else r.choice(BIGFLOAT_POOL)
        if name in ("any", "Value", "Object", "Inspectable", "Hashable", "String::Convertible"):
            if probe:
                return ""
            pick = r.choice(["Int", "Float", "String", "Char", "Bool", "nil", "Symbol", "ArrayList[Int]",
                             "HashMap[String, Int]", "Range[Int]", "Regex", "Tuple[Int]"])
            if name in ("Hashable",) and pick not in ("Int", "Float", "String", "Char", "Symbol"):
                pick = "Int"
            if name == "String::Convertible" and pick in ("nil", "Regex", "Range[Int]"):
                pick = "String"
            return self.gen(pick, env, False, depth + 1)
        if name in ("Range", "ClosedRange") and len(args) == 1:
            return self.range_(args[0], env, probe)
        if name in ("Tuple", "List", "ArrayList", "ArrayTuple", "ImmutableCollection", "Collection", "Iterable",
                    "PrimitiveIterable") and len(args) >= 1:
            el = args[0]
            if self.gen(el, env, True, depth + 1) is None:
                return None
            if probe:
                return ""
            n = r.below(4)
            els = [self.gen(el, env, False, depth + 1) for _ in range(n)]
            immut = name in ("Tuple", "ArrayTuple", "ImmutableCollection", "Iterable", "PrimitiveIterable") and r.chance(1, 2)
            if name == "ArrayTuple":
                immut = True
            if name in ("List", "ArrayList", "Collection"):
                immut = False
            if n == 0 and not immut:
                ts = self.type_src(el, env)
                if ts:
                    return "ArrayList::[%s]()" % ts
                els = [self.gen(el, env, False, depth + 1)]
            return ("%[" if immut else "[") + ", ".join(els) + "]"
        if name in ("Record", "Map", "HashMap", "HashRecord") and len(args) == 2:
            if self.gen(args[0], env, True, depth + 1) is None or self.gen(args[1], env, True, depth + 1) is None:
                return None
            if probe:
                return ""
            n = r.below(3)
            ents = ["%s => %s" % (self.gen(args[0], env, False, depth + 1), self.gen(args[1], env, False, depth + 1))
                    for _ in range(n)]
            immut = name in ("Record", "HashRecord") and r.chance(1, 2)
            if name == "HashRecord":
                immut = True
            if n == 0 and not immut:
                # no empty-map expression: `HashMap::[K, V]()` builds an object no HashMap native accepts
                # (replayed from the corpus as HashMap#init), and a bare `{}` has no element types
                ents = ["%s => %s" % (self.gen(args[0], env, False, depth + 1), self.gen(args[1], env, False, depth + 1))]
            return ("%{" if immut else "{") + ", ".join(ents) + "}"
        if name == "Pair" and len(args) == 2:
            a = self.gen(args[0], env, probe, depth + 1)
            b = self.gen(args[1], env, probe, depth + 1)
            if a is None or b is None:
                return None
            return "" if probe else "Pair(%s, %s)" % (a, b)
        if name == "Comparable" or name == "Incrementable" or name == "Decrementable":
            return "" if probe else self.gen(r.choice(["Int", "Float", "String", "Char"]), env, False, depth + 1)
        return None

    def type_src(self, t, env):
        """an Elk type expression for t with the generics substituted"""
        return subst(t, env)


# receiver families: (label used in keys, header class, [(generic env, [receiver sources])])
def receiver_families():
    big = [int_src(v) for v in INT_POOL]
    fams = [
        ("Int", "Int", [({}, big)]),
        ("Float", "Float", [({}, FLOAT_POOL)]),
        ("String", "String", [({}, STRING_POOL)]),
        ("Char", "Char", [({}, CHAR_POOL)]),
        ("ArrayList", "ArrayList", [
            ({"Val": "Int"}, ["[1, 2, 3]", "[0]", "ArrayList::[Int]()", "[-1, 9223372036854775807, 9223372036854775808]",
                              "[1, 1, 1, 1, 1, 1, 1, 1, 1]"]),
            ({"Val": "String"}, ['["a", "b"]', '[""]', "ArrayList::[String]()"]),
            ({"Val": "Float"}, ["[Float::NAN, 0.0, -0.0]"]),
            ({"Val": "Int?"}, ["var e0: ArrayList[Int?] = [nil, 1] ;; e0"]),
        ]),
        ("HashMap", "HashMap", [
            ({"Key": "Int", "Value": "String"}, ['{1 => "a", 2 => "b"}', "var e0: HashMap[Int, String] = {} ;; e0",
                                                 '{9223372036854775808 => "", -1 => "x"}']),
            ({"Key": "String", "Value": "Int"}, ['{"a" => 1}', '{"" => 0, "é" => 18446744073709551616}', "var e0: HashMap[String, Int] = {} ;; e0"]),
            ({"Key": "Float", "Value": "Int"}, ["{Float::NAN => 1, 0.0 => 2, -0.0 => 3}"]),
            ({"Key": "Int?", "Value": "Int?"}, ["var e0: HashMap[Int?, Int?] = {nil => nil, 1 => nil} ;; e0"]),
        ]),
        ("Regex", "Regex", [({}, REGEX_POOL)]),
    ]
    iv = ["0", "1", "5", "(-1)", "9223372036854775807", "9223372036854775808", "(-9223372036854775808)"]
    fv = ["0.0", "1.5", "Float::NAN", "Float::INF", "(-0.0)"]
    sv = ['"a"', '"c"', '""', '"é"']
    cv = ["`a`", "`z`", "`\\x00`"]
    two = {"ClosedRange": "...", "OpenRange": "<.<", "LeftOpenRange": "<..", "RightOpenRange": "..<"}
    for cls, op in two.items():
        fams.append((cls, cls, [
            ({"Val": "Int"}, ["(%s%s%s)" % (a, op, b) for a in iv[:5] for b in (iv[1], iv[3], iv[5])]),
            ({"Val": "Float"}, ["(%s%s%s)" % (a, op, b) for a in fv for b in (fv[1], fv[2])]),
            ({"Val": "String"}, ["(%s%s%s)" % (a, op, b) for a in sv[:3] for b in sv[1:]]),
            ({"Val": "Char"}, ["(%s%s%s)" % (a, op, b) for a in cv for b in cv[:2]]),
        ]))
    for cls, op in {"EndlessClosedRange": "...", "EndlessOpenRange": "<.."}.items():
        fams.append((cls, cls, [
            ({"Val": "Int"}, ["(%s%s)" % (a, op) for a in iv]),
            ({"Val": "Float"}, ["(%s%s)" % (a, op) for a in fv]),
            ({"Val": "String"}, ["(%s%s)" % (a, op) for a in sv]),
        ]))
    for cls, op in {"BeginlessClosedRange": "...", "BeginlessOpenRange": "..<"}.items():
        fams.append((cls, cls, [
            ({"Val": "Int"}, ["(%s%s)" % (op, a) for a in iv]),
            ({"Val": "Float"}, ["(%s%s)" % (op, a) for a in fv]),
            ({"Val": "String"}, ["(%s%s)" % (op, a) for a in sv]),
        ]))
    return fams


# methods never generated, with the reason (none of the receiver families above declares a method
# that blocks, sleeps, reads stdin, exits or spawns threads; the list is a guard for header changes)
BLOCKLIST = {
    "sleep": "sleeps", "exit": "exits the process", "gets": "reads stdin", "readln": "reads stdin",
    "read_line": "reads stdin", "wait": "blocks", "await": "blocks", "await_sync": "blocks", "join": "blocks",
    "lock": "blocks", "spawn": "spawns a thread", "times": "runs a closure Int times",
}
UNARY_PREFIX = {"+@": "+", "-@": "-", "~": "~"}
BINARY_OPS = {"+", "-", "*", "/", "**", "%", "<=>", ">=", ">", "<=", "<", "==", "!=", "=~", "!~", "===", "!==", "<<", ">>",
              "<<<", ">>>", "&", "|", "^", "&~", "&&", "||"}


class Target:
    """one (receiver family, method overload) the generator can call"""

    def __init__(self, fam, method, menv, variants):
        self.fam = fam
        self.m = method
        self.menv = menv            # generic env at the declaring class (class generics -> types over the receiver's generics)
        self.variants = variants    # [(receiver env, [sources])]


def method_env(g, m, menv, renv, probe):
    """env for m's parameter types: receiver generics, the declaring class's generics, method generics"""
    env = dict(renv)
    for k, v in menv.items():
        env[k] = subst(v, renv)
    for name, bound in m.generics:
        if bound and bound != "never":
            env[name] = subst(bound, env)
        else:
            env[name] = "Int" if probe else g.r.choice(SIMPLE_TYPES)
    return env


def build_targets(classes, g):
    targets, skipped = [], {}

    def skip(why, fam, name):
        skipped.setdefault(why, []).append("%s#%s" % (fam, name))
    for fam, cls, variants in receiver_families():
        if cls not in classes:
            skip("header-class-missing", fam, "*")
            continue
        # group variants by generic env: the method table depends on it only through substitution
        table = collect_methods(classes, cls, {k: k for k in classes[cls].generics})
        for name in sorted(table):
            for m, menv in table[name]:
                if name in BLOCKLIST:
                    skip("blocklist: " + BLOCKLIST[name], fam, name)
                    continue
                if m.closure:
                    skip("closure-parameter", fam, name)
                    continue
                okv = []
                bad = None
                for renv, srcs in variants:
                    env = method_env(g, m, menv, renv, True)
                    fine = True
                    for pn, pt, opt, kind in m.params:
                        if kind == "named_rest" or pt is None or not g.supported(pt, env):
                            fine = False
                            bad = pt if pt is not None else "untyped"
                            break
                    if fine:
                        okv.append((renv, srcs))
                if not okv:
                    skip("cannot-inhabit-parameter-type: " + re.sub(r"\s+", " ", str(bad))[:40], fam, name)
                    continue
                targets.append(Target(fam, m, menv, okv))
    return targets, skipped


def render_call(name, recv, args, nparams):
    """recv/args are already atomic or parenthesised"""
    if name in UNARY_PREFIX and not args:
        return UNARY_PREFIX[name] + recv
    if name == "[]" and len(args) >= 1:
        return recv + "[" + ", ".join(args) + "]"
    if name == "[]=" and len(args) == 2:
        return recv + "[" + args[0] + "] = " + args[1]
    if name in BINARY_OPS and len(args) == 1:
        return recv + " " + name + " " + args[0]
    if re.match(r"^[A-Za-z_]\w*=$", name) and len(args) == 1:
        return recv + "." + name[:-1] + " = " + args[0]
    if not args:
        return recv + "." + name
    return recv + "." + name + "(" + ", ".join(args) + ")"


def gen_call(g, t):
    """-> (call source, has_value)"""
    g.big = False
    renv, srcs = g.r.choice(t.variants)
    recv = g.r.choice(srcs)
    prelude = []
    if " ;; " in recv:          # receiver that needs a typed local first
        pre, recv = recv.split(" ;; ", 1)
        prelude = [pre]
    if t.fam == "Int" and abs(int(recv)) >= 2 ** 31:
        g.big = True
    env = method_env(g, t.m, t.menv, renv, False)
    args = []
    params = t.m.params
    for i, (pn, pt, opt, kind) in enumerate(params):
        if kind == "rest":
            for _ in range(g.r.below(4)):
                args.append(g.gen(pt, env))
            continue
        if opt and all(o for (_, _, o, _) in params[i:]) and g.r.chance(1, 3):
            break
        args.append(g.gen(pt, env))
    args = ["nil" if a is None else a for a in args]
    ret = t.m.ret
    has_value = ret is not None and ret.strip() not in ("void", "never", "")
    if has_value and re.search(r"\?|\bnil\b|\bany\b", subst(ret, env)):
        has_value = "nilable"       # `r.inspect` does not type-check on a nilable: print it under `if r`
    if g.r.chance(1, 2):
        stmts = ["v0 := " + recv] + ["v%d := %s" % (i + 1, a) for i, a in enumerate(args)]
        call = render_call(t.m.name, "v0", ["v%d" % (i + 1) for i in range(len(args))], len(params))
        return "; ".join(prelude + stmts + [call]), has_value
    return "; ".join(prelude + [render_call(t.m.name, paren(recv), [paren(a) for a in args], len(params))]), has_value


# ------------------------------------------------------------------ programs, classification, keys

def split_stmts(src):
    """split a call source at top-level `;` (not inside strings, chars, regex literals or brackets)"""
    parts, cur, depth = [], [], 0
    i, n = 0, len(src)
    quote = None
    while i < n:
        c = src[i]
        if quote:
            cur.append(c)
            if c == "\\" and i + 1 < n:
                cur.append(src[i + 1])
                i += 2
                continue
            if c == quote:
                quote = None
            i += 1
            continue
        if c in "\"`'":
            quote = c
        elif c == "%" and i + 1 < n and src[i + 1] == "/":
            cur.append("%/")
            quote = "/"
            i += 2
            continue
        elif c in "([{":
            depth += 1
        elif c in ")]}":
            depth -= 1
        if c == ";" and depth == 0:
            parts.append("".join(cur).strip())
            cur = []
        else:
            cur.append(c)
        i += 1
    parts.append("".join(cur).strip())
    return [p for p in parts if p]


ASSIGN_RE = re.compile(r"^(?:(?:var|val|const)\s+\w+|\w+\s*(?::=|=(?!=|~)|[-+*/%&|^]=)|\w+\[.*\]\s*=(?!=|~))")


def program(src, has_value=None, tag=""):
    """the wrapper around one call; tag distinguishes the calls of a batch file"""
    stmts = split_stmts(src)
    last = stmts[-1] if stmts else "nil"
    if has_value is None:
        has_value = not ASSIGN_RE.match(last)
    mark = (" " + tag) if tag != "" else ""
    lines = ["do"] + ["  " + s for s in stmts[:-1]]
    if has_value == "nilable":
        lines += ["  r := " + last, "  if r", "    println(r.inspect)", "  end"]
    elif has_value:
        lines += ["  r := " + last, "  println(r.inspect)"]
    else:
        lines += ["  " + last]
    lines += ['  println("c01:ok%s")' % mark, "catch e", '  println("c01:err%s")' % mark, "end", ""]
    return "\n".join(lines)


def batch_program(members):
    """several calls in one file, each in its own do/catch with begin/end markers. Only used as a FILTER:
    calls whose end marker appears while the process exits 0 are clean (ok / caught Elk error); the first
    call without an end marker is re-run alone (that run is the one that is classified), the calls after it
    go into a later batch; a batch that printed no marker at all (rejected by the checker, or the compiler
    itself panicked) is re-run call by call."""
    parts = []
    for j, c in enumerate(members):
        parts.append('println("c01:b %d")' % j)
        parts.append(program(c["src"], c["hv"], tag=str(j)))
    return "\n".join(parts)


MARK_RE = re.compile(r"^c01:(ok|err|b) (\d+)$", re.M)


def first_panic_line(out):
    for l in out.splitlines():
        if l.startswith("panic:") or l.startswith("fatal error:"):
            return re.sub(r"\s*\[recovered.*?\]\s*$", "", l.strip())[:200]
    for l in out.splitlines():
        if "panic:" in l or "fatal error:" in l or "[signal " in l:
            return l.strip()[:200]
    return (out.strip().splitlines() or ["(no output)"])[0][:200]


def clean_func(f):
    f = f.strip()
    if f.startswith("created by "):
        f = f[len("created by "):]
    f = re.sub(r"\([^()]*\)$", "", f)           # call arguments
    f = re.sub(r" in goroutine \d+$", "", f)
    if f.startswith(ELK_MODULE):
        f = f[len(ELK_MODULE):]
    f = f.replace("[...]", "")
    f = re.sub(r"\.func\d+(\.\d+)*", ".funcN", f)
    f = re.sub(r"\.\d+$", "", f)
    return f


def panic_site(out):
    """first elk-module frame after the last runtime `panic(` frame of the first goroutine trace;
    otherwise the panic message class"""
    lines = out.splitlines()
    start = None
    for i, l in enumerate(lines):
        if l.startswith("goroutine ") and l.rstrip().endswith(":"):
            start = i + 1
            break
    if start is not None:
        frames = []
        i = start
        while i < len(lines) and lines[i].strip():
            fn = lines[i]
            loc = lines[i + 1] if i + 1 < len(lines) and lines[i + 1].startswith("\t") else ""
            if not fn.startswith("\t"):
                frames.append((fn, loc))
            i += 2 if loc else 1
        lastp = -1
        for j, (fn, loc) in enumerate(frames):
            if fn.startswith("panic(") or fn.startswith("runtime.gopanic") or fn.startswith("runtime.sigpanic") \
                    or fn.startswith("runtime.panic") or fn.startswith("runtime.goPanic"):
                lastp = j
        for fn, loc in frames[lastp + 1:]:
            if fn.startswith(ELK_MODULE) and not fn.startswith(ELK_MODULE + "vm.(*Thread).run.func"):
                return clean_func(fn)
        for fn, loc in frames[lastp + 1:]:
            if not fn.startswith("runtime.") and not fn.startswith("panic("):
                return clean_func(fn)
    msg = first_panic_line(out)
    msg = re.sub(r"^(panic|fatal error):\s*", "", msg)
    msg = re.sub(r"0x[0-9a-fA-F]+|\d+", "N", msg)
    return "msg:" + re.sub(r"\s+", " ", msg)[:60]


OOM_RE = re.compile(r"out of memory|cannot allocate memory|failed to reserve|runtime: cannot allocate|mmap.*errno=12|errno=12")


def classify(rc, out):
    if "[FAIL]" in out and "panic:" not in out and "fatal error:" not in out and "goroutine " not in out:
        return "rejected"
    if "tried to call an invalid method" in out:
        return "missing_method"
    if rc == 124:
        return "timeout"
    if ("fatal error:" in out or "runtime:" in out) and OOM_RE.search(out):
        return "oom"
    c = vlib.classify_elk(rc, out)
    if c == "ok":
        return "ok" if "c01:ok" in out else "elk_error"
    return c


def read_corpus(path=CORPUS):
    """-> [(label 'Receiver#method', call source)]"""
    out = []
    try:
        text = open(path, encoding="utf-8").read()
    except OSError:
        return out
    for line in text.splitlines():
        if not line.strip() or line.lstrip().startswith("#"):
            continue
        if "\t" in line:
            label, src = line.split("\t", 1)
            label, src = label.strip(), src.strip()
        else:
            src = line.strip()
            label = "Corpus#" + hashlib.sha1(src.encode()).hexdigest()[:8]
        if "#" not in label:
            label = "Corpus#" + label
        if src:
            out.append((label, src))
    return out


def limited_elk(elk, workdir):
    """a wrapper that applies the address-space limit and then execs elk (same pid, so timeouts kill it)"""
    path = os.path.join(workdir, "elk-limited.sh")
    text = "#!/bin/sh\nulimit -v %d 2>/dev/null\nulimit -c 0 2>/dev/null\nexec %s \"$@\"\n" % (MEM_LIMIT_KB, elk)
    vlib.write_if_changed(path, text)
    os.chmod(path, 0o755)
    return path


# ------------------------------------------------------------------ the stream

BATCH = 10
MAX_ROUNDS = 3        # batch rounds; afterwards whatever is left runs alone
# calls that may legitimately run for long / allocate a lot when given a huge Int: never batched, started first
HEAVY_METHODS = {"**", "*", "repeat", "rjust", "ljust", "grow", "<<", ">>", "<<<", ">>>", "times"}


def run_std(ctx, elk):
    t0 = time.time()
    rng = ctx.rng(STREAM)
    g = Gen(rng)
    classes, problems = parse_headers()
    targets, skipped = build_targets(classes, g)
    work = os.path.join(ctx.workdir, "std")
    os.makedirs(work, exist_ok=True)
    runner = limited_elk(elk, work)

    cases = []
    seen = set()
    for i, (label, src) in enumerate(read_corpus()):
        cases.append(dict(id="k%04d" % i, label=label, src=src, hv=None, heavy=True, origin="corpus"))
        seen.add(src)
    n_corpus = len(cases)

    n = ctx.n(250, 20000)
    timeout = ctx.n(10, TIMEOUT_S)
    gen_fail = 0
    if targets:
        # schedule: every callable method once per round (methods with parameters three times), shuffled
        sched = []
        for t in targets:
            sched += [t] * (3 if t.m.params else 1)
        rng.shuffle(sched)
        made, tries, pos = 0, 0, 0
        while made < n and tries < 12 * n + 1000:
            t = sched[pos % len(sched)]
            pos += 1
            if pos % len(sched) == 0:
                rng.shuffle(sched)
            tries += 1
            try:
                src, hv = gen_call(g, t)
            except Exception:       # a generator bug must not hide the stream; counted
                gen_fail += 1
                continue
            if src in seen:
                continue
            seen.add(src)
            cases.append(dict(id="g%06d" % made, label="%s#%s" % (t.fam, t.m.name), src=src, hv=hv,
                              heavy=g.big and t.m.name in HEAVY_METHODS, origin="gen"))
            made += 1
    else:
        ctx.broke("c01.std: no callable std method found in the headers", "; ".join(problems)[:2000])

    # ---- execution: corpus and heavy calls alone (started first so that 20 s timeouts overlap with the rest),
    # everything else through batch files as a filter (see batch_program); every non-clean call runs alone
    final = {}          # case id -> (class, rc, out) - out kept only for non-clean classes
    singles = [c for c in cases if c["heavy"]]
    pending = [c for c in cases if not c["heavy"]]
    retried = set()
    stats = dict(processes=0, batch_files=0, single_runs=0, rounds=0, batch_files_without_markers=0,
                 batch_files_timed_out_before_start=0)
    rnd = 0
    budget = ctx.n(25, 900)     # seconds after which no further round is started (what is left is counted as dropped)
    dropped = 0
    while singles or pending:
        if rnd > 0 and time.time() - t0 > budget:
            dropped = len(singles) + len(pending)
            for c in singles + pending:
                final[c["id"]] = ("dropped_over_budget", 0, "")
            break
        batches = []
        if rnd < MAX_ROUNDS:
            for i in range(0, len(pending), BATCH):
                batches.append(pending[i:i + BATCH])
        else:
            singles += pending
        pending = []
        progs = [(c["id"], program(c["src"], c["hv"])) for c in singles]
        progs += [("b%d_%05d" % (rnd, i), batch_program(b)) for i, b in enumerate(batches)]
        stats["processes"] += len(progs)
        stats["batch_files"] += len(batches)
        stats["single_runs"] += len(singles)
        stats["rounds"] += 1
        res = vlib.run_programs(runner, progs, work, workers=16, timeout=timeout, env=CHILD_ENV)
        nxt = []
        for c in singles:
            rc, out, _ = res[c["id"]]
            cls = classify(rc, out)
            if cls == "timeout" and c["id"] not in retried and (c["origin"] == "corpus" or (not c["heavy"] and not ctx.quick())):
                retried.add(c["id"])        # most likely machine load: once more
                nxt.append(c)
                continue
            final[c["id"]] = (cls, rc, out if cls not in ("ok", "elk_error") else "")
        for i, b in enumerate(batches):
            rc, out, _ = res["b%d_%05d" % (rnd, i)]
            ended = {}
            for m in MARK_RE.finditer(out):
                if m.group(1) != "b":
                    ended[int(m.group(2))] = m.group(1)
            clean_exit = rc == 0 and "panic:" not in out and "fatal error:" not in out and "[FAIL]" not in out
            j = 0
            while j < len(b) and j in ended:
                j += 1
            if not ended and not clean_exit:
                begun = [int(m.group(2)) for m in MARK_RE.finditer(out) if m.group(1) == "b"]
                if rc == 124 and not begun:
                    stats["batch_files_timed_out_before_start"] += 1
                    pending += b            # machine load: the file did not even start; batch again (or drop over budget)
                    continue
                if rc == 124:
                    nxt.append(b[0])        # the first call was running when the time was up
                    pending += b[1:]
                    continue
                stats["batch_files_without_markers"] += 1
                nxt += b                    # rejected / compiler crashed: nothing attributable, each call alone
                continue
            if j == len(b) and not clean_exit:
                j = len(b) - 1              # all markers but a bad exit: distrust the last call
            for c in b[:j]:
                final[c["id"]] = ("ok" if ended[b.index(c)] == "ok" else "elk_error", 0, "")
            if j < len(b):
                nxt.append(b[j])
                pending += b[j + 1:]
        singles = nxt
        rnd += 1

    outcomes, per_recv, fails, foreign = {}, {}, {}, {}
    executed = set()
    evaluations = 0
    rejected = 0
    rejected_examples = []
    for c in cases:
        cls, rc, out = final[c["id"]]
        src, label, origin = c["src"], c["label"], c["origin"]
        if cls == "dropped_over_budget":
            continue
        if cls == "rejected":
            rejected += 1
            if len(rejected_examples) < 5 and len(src) < 200:
                rejected_examples.append(src)
            continue
        evaluations += 1
        executed.add(src)
        outcomes[cls] = outcomes.get(cls, 0) + 1
        fam = label.split("#", 1)[0]
        per_recv[fam] = per_recv.get(fam, 0) + 1
        if cls == "missing_method":
            foreign[label] = foreign.get(label, 0) + 1
            f = fails.get(MISSING_KEY)
            if f is None:
                fails[MISSING_KEY] = dict(count=1, src=src, cls="go_panic", line=first_panic_line(out), origin=origin)
            else:
                f["count"] += 1
                if f["origin"] != "corpus" and origin == "corpus":
                    f.update(src=src, line=first_panic_line(out), origin=origin)
        if cls in ("go_panic", "go_fatal", "signal"):
            site = panic_site(out) if cls != "signal" or "goroutine " in out else "signal:%d" % (-rc)
            key = "std:%s:%s" % (label, site)
            f = fails.get(key)
            if f is None:
                fails[key] = dict(count=1, src=src, cls=cls, line=first_panic_line(out), origin=origin)
            else:
                f["count"] += 1
                if f["origin"] != "corpus" and (origin == "corpus" or len(src) < len(f["src"])):
                    f.update(src=src, cls=cls, line=first_panic_line(out), origin=origin)
    try:        # per-case log of the last run, for diagnosis only
        with open(os.path.join(work, "last_run.tsv"), "w", encoding="utf-8") as fh:
            for c in cases:
                src = c["src"]
                fh.write("%s\t%s\t%s\t%s\n" % (c["id"], final[c["id"]][0], c["label"], src if len(src) < 400 else src[:400] + "..."))
    except OSError:
        pass
    for key in sorted(fails):
        f = fails[key]
        ctx.fail(key, "%s -> %s: %s" % (f["src"][:300], f["cls"], f["line"]), stream=STREAM, case=f["src"],
                 impl=f["line"], model="no Go panic/fatal",
                 oracle="a type-checked std call must not kill the host process")

    short = [c["src"] for c in cases[n_corpus:] if c["src"] in executed and len(c["src"]) < 120]
    samples = []
    if short:
        for k in (0, len(short) // 2, len(short) - 1):
            if short[k] not in samples:
                samples.append(short[k])
    dist = {
        "outcomes": dict(sorted(outcomes.items())),
        "per_receiver": dict(sorted(per_recv.items())),
        "rejected_by_checker": rejected,
        "rejected_examples": rejected_examples,
        "corpus_lines": n_corpus,
        "generated": len(cases) - n_corpus,
        "callable_method_overloads": len(targets),
        "header_classes_parsed": len(classes),
        "header_parse_problems": problems[:10],
        "skipped_methods": {k: len(v) for k, v in sorted(skipped.items())},
        "skipped_examples": {k: sorted(set(v))[:6] for k, v in sorted(skipped.items())},
        "generator_exceptions": gen_fail,
        "failing_keys": {k: fails[k]["count"] for k in sorted(fails)},
        "header_methods_missing_at_runtime": dict(sorted(foreign.items())),
        "timeouts_retried_once": len(retried),
        "not_run_time_budget": dropped,
        "execution": stats,
        "wall_s": round(time.time() - t0, 1),
    }
    ctx.stream(STREAM, evaluations, len(executed), RULE, samples, dist)
    return dist
