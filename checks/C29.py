"""C29 — compiled bytecode is structurally valid (verified validator, translation validation)."""
import json
import os
import re
import vlib

GEN = os.path.join(vlib.COQ, "Gen", "C29_Opcodes.v")


def regen_table(h):
    """coq/Gen/C29_Opcodes.v is rewritten from the implementation on every run."""
    rc, out = vlib.sh([h, "-extra", "gen"], timeout=300, env=vlib.elk_env())
    problems = [l for l in out.splitlines() if l.startswith("TABLE-PROBLEM")]
    text = "\n".join(l for l in out.splitlines() if not l.startswith("TABLE-PROBLEM")) + "\n"
    if "Definition optable" not in text:
        raise vlib.BuildError("c29 -extra gen produced no table:\n" + out[-2000:])
    with vlib.Lock("coq"):
        vlib.write_if_changed(GEN, text)
    return problems


def opnames():
    names = {}
    for m in re.finditer(r"mkop (\d+) .*\(\* (\w+) \*\)", open(GEN).read()):
        names[int(m.group(1))] = m.group(2)
    return names


def run_cases(ctx, h, m, args, timeout=3000):
    rc, out = vlib.sh([h] + args, timeout=timeout, env=vlib.elk_env())
    ids, inputs, obs = vlib.parse_case_lines(out)
    if rc != 0:
        ctx.broke("harness %s exited %d" % (" ".join(args[:4]), rc), out[-2000:])
    fids = [i for i in ids if inputs[i][:2] in ("F ", "OP")]
    rc2, exp, mout = vlib.run_model(m, fids, inputs, timeout=timeout)
    if rc2 != 0:
        ctx.broke("model driver exited %d" % rc2, mout[-2000:])
    return ids, inputs, obs, exp


def optable_stream(ctx, h, m, stream="c29.optable"):
    ids, inputs, obs, exp = run_cases(ctx, h, m, ["-extra", "optable"])
    mism = 0
    for i in ids:
        name = inputs[i].split()[2]
        e = exp.get(i)
        if e is None or e == "none":
            ctx.broke("%s: opcode %s has no entry in the table" % (stream, name))
        elif e != obs[i]:
            mism += 1
            o = obs[i].split(" panic:")[0].replace(" ", ",")
            ctx.fail("optable:%s:%s" % (name, "panic" if "panic" in o else o),
                     "opcode %s: the VM reads %s but DisassembleInstruction reports %s" % (name, e, obs[i]),
                     stream=stream, case=inputs[i], impl=obs[i], model=e,
                     oracle="the disassembler must step over every opcode exactly as the VM consumes it")
    ctx.stream(stream, len(ids), len(ids),
               "one case per opcode the implementation defines: size reported by stepping the real "
               "DisassembleInstruction (0x00 and 0xff operand fill; descriptor list for CLOSURE) vs the "
               "operand layout the VM reads (hand table)",
               [{"input": inputs[i], "observed": obs[i]} for i in ids[:2] + ids[-2:]],
               {"opcodes": len(ids)}, mismatches=mism)
    return len(ids)


def verify_stream(ctx, h, m, stream, n, extra_args=(), names=None, judge=None, corpus=None, nwide=0, nwiderand=0):
    """export every function, validate with the extracted model, compare with the Go oracle."""
    args = ["-extra", "export", "-n", str(n), "-nwide", str(nwide), "-nwiderand", str(nwiderand),
            "-seed", str(ctx.sseed(stream)), "-repo", vlib.REPO] + list(extra_args)
    tmp = None
    if ctx.replay:
        rp = json.load(open(ctx.replay))
        case = rp.get("case") or ""
        tmp = os.path.join(ctx.workdir, "replay_case.txt")
        with open(tmp, "w") as f:
            f.write("r0\t%s\n" % case)
        args = ["-extra", "replay", "-input", tmp, "-repo", vlib.REPO] + list(extra_args)
    elif corpus and os.path.exists(corpus):
        args += ["-input", corpus]
    ids, inputs, obs, exp = run_cases(ctx, h, m, args)
    names = names or {}
    dist = {"functions": 0, "programs_compiled": 0, "programs_rejected_by_checker": 0, "compiler_panics": 0,
            "origin_repo": 0, "origin_generated": 0, "origin_corpus": 0, "origin_wide": 0,
            "origin_wide_generated": 0, "functions_pool_over_255": 0, "functions_code_over_64k": 0}
    widetags = {}
    progs = set()
    distinct = set()
    tags = {}
    compared = 0
    samples = []
    for i in ids:
        inp = inputs[i]
        if inp.startswith("N "):
            if "panic" in inp:
                dist["compiler_panics"] += 1
            else:
                dist["programs_rejected_by_checker"] += 1
            continue
        if not inp.startswith("F "):
            continue
        dist["functions"] += 1
        origin = i.split("#")[0]
        progs.add(origin)
        k = ("origin_repo" if origin.startswith("repo:") else "origin_generated" if origin.startswith("gen")
             else "origin_wide_generated" if origin.startswith("widegen")
             else "origin_wide" if origin.startswith("wide") else "origin_corpus")
        dist[k] += 1
        mv = re.search(r";vals=([^;]*)", inp)
        if mv and mv.group(1).count(",") >= 256:
            dist["functions_pool_over_255"] += 1
        if len(inp.split(";", 1)[0]) > 2 * 65536:
            dist["functions_code_over_64k"] += 1
        if origin.startswith("wide:"):
            for t in origin[5:].split("/")[:2]:
                widetags[t] = widetags.get(t, 0) + 1
        mt = re.match(r"(?:wide)?gen\d+\[(.*)\]", origin)
        if mt:
            for t in mt.group(1).split(","):
                tags[t] = tags.get(t, 0) + 1
        e = exp.get(i)
        if e is None:
            ctx.broke("%s: model gave no verdict for %s" % (stream, i))
            continue
        compared += 1
        body = inp.split(";name=")[0]
        mnb = re.search(r"nb=(\d+)", e)
        if mnb and int(mnb.group(1)) >= 4:
            distinct.add(body)
        if len(samples) < 4 and mnb and int(mnb.group(1)) >= 6:
            samples.append({"input": inp[:300], "observed": obs[i], "model": e})
        judge(ctx, stream, i, inp, obs[i], e, names)
    dist["programs_compiled"] = len(progs)
    dist["generated_construct_tags"] = tags
    dist["wide_shape_tags"] = widetags
    ctx.stream(stream, compared, len(distinct), None, samples, dist)
    return compared, len(progs), dist


def judge_c29(ctx, stream, cid, inp, go, model, names):
    if not model.startswith("ok"):
        mo = re.search(r"op=(\d+)", model)
        opn = names.get(int(mo.group(1)), mo.group(1)) if mo else "-"
        clause = model.split()[1] if len(model.split()) > 1 else "unknown"
        if clause == "target-is-end-of-code":
            # one class per control-flow kind, not per comparison opcode
            opn = "jump" if opn == "JUMP" else ("branch" if opn.startswith(("JUMP_", "FOR_IN")) else opn)
        ctx.fail("verify:%s:%s" % (clause, opn),
                 "a compiled function is rejected by the proved validator: %s (%s)" % (model, cid),
                 stream=stream, case=inp, impl=go, model=model,
                 oracle="jumps/catch ranges on instruction boundaries, indices in range")
    elif go != model and go != "replay":
        mu = re.search(r"uses=(\S*)", go)
        cls = mu.group(1) if mu and mu.group(1) else re.sub(r"[0-9]+", "N", go.split(" uses=")[0])[:60]
        ctx.fail("disasm:%s" % cls,
                 "the implementation's own disassembler fails or walks different instruction boundaries "
                 "than the VM executes: %s (validator: %s) (%s)" % (go, model, cid),
                 stream=stream, case=inp, impl=go, model=model,
                 oracle="every compiled function disassembles without error")


def run(ctx):
    ctx.level = "translation_validation"
    ctx.explanation = (
        "PROVED (Coq, closed): the validator `verify` is sound - if it accepts an abstract function then every offset "
        "reachable from the entry by any number of steps along ordinary, exception-handler and finally edges is the start "
        "of exactly one instruction inside the byte array, all its index operands are in range (local slot < "
        "1+params+PREP_LOCALS, upvalue < UpvalueCount, value-pool index < pool size) and all its successors are instruction "
        "starts (C29_verify_sound); every pool operand names an entry of the KIND the opcode makes the VM cast it to - "
        "CallSiteInfo / BytecodeCallSiteInfo / NativeCallSiteInfo / inline Symbol (C29_pool_kinds_sound; kinds are exported "
        "by the harness from the Go type of each pool entry); catch From/To/JumpAddress are instruction starts (entries with "
        "To<=From cover nothing: the generator marker entry); the decoder terminates and its output is contiguous and covers "
        "the bytes; the regenerated opcode table is total. VALIDATED PER FUNCTION (not proved): the compiler - every "
        "BytecodeFunction reachable from what checker.CheckSource/CheckFile return for main.elk.test (std kernel + all "
        "repository .elk.test files), seeded generated programs (second generation: method-to-method calls to earlier, "
        "current and LATER-defined methods in value, ignored and TAIL position, bodies whose value is an if/switch/do with "
        "returning branches), and WIDE programs - systematic container x construct x pad shapes and random programs whose "
        "bodies are preceded by 244..530 pool-filling statements (strings, floats, native / static / deferred call sites) "
        "and/or > 255 locals, literals with > 255 elements, > 255 arguments / ivars / upvalues, code > 64 KiB (thorough), so "
        "that the 16-bit opcode variants are emitted - is decoded and validated by the extracted code, and the real "
        "Disassemble must succeed and step over the same boundaries. TRUSTED: the hand-written per-opcode operand "
        "roles/kinds (harness/cfgx/optable.go, from vm/thread.go) - only their WIDTHS are cross-checked against the real "
        "disassembler (c29.optable); the modelling of JUMP_TO_FINALLY targets (offset constants loaded by LOAD_VALUE two "
        "instructions before a JUMP_TO_FINALLY). NOT BUILT: the stack-depth dataflow pass (depth >= 0 and consistent at "
        "joins) and the c29.depth stream - that clause of the property is not covered, so defects that keep the stream "
        "decodable but unbalance the stack (e.g. INSTANTIATE8 emitted with a 2-byte operand for > 255 constructor "
        "arguments, whose stray low byte happens to be a 1-byte opcode) are NOT detected; the kind of the function a "
        "CLOSURE instruction pops, ivar indices and NEW_* element counts are not checked.")
    ctx.trusted_base += [
        "hand-written opcode table (operand roles, control-flow kinds) in harness/cfgx/optable.go, from vm/thread.go",
        "Go exporter (harness/cfgx/export.go) and OCaml parser (ocaml/C29/cfgio.ml) of the function dump",
        "handler-edge model: an entry covers an instruction when From < ip <= To for some ip in (offset, offset+size]",
    ]
    h = vlib.build_harness("c29")
    problems = regen_table(h)
    for p in problems:
        ctx.broke("opcode table: " + p)
    ctx.run_proof_gate()
    m = vlib.build_model("C29")
    names = opnames()
    nops = 0
    if not ctx.replay:
        nops = optable_stream(ctx, h, m)
    compared, nprogs, dist = verify_stream(
        ctx, h, m, "c29.verify", ctx.n(80, 6000), names=names, judge=judge_c29,
        corpus=os.path.join(vlib.ROOT, "corpus", "C29.verify.txt"),
        nwide=ctx.n(70, 1200), nwiderand=ctx.n(25, 1500))
    ctx.streams["c29.verify"]["rule"] = (
        "corpus programs, then main.elk.test (imports std + every *.elk.test), standalone *.elk, wide-frame programs and "
        "wide corners (> 255 locals / upvalues / arguments / ivars), systematic wide shapes (8 containers x 34 constructs "
        "x 6 pad kinds, pad 246..520 pool entries and/or > 255 locals in front of the construct: tail/self/later/earlier/"
        "native/dynamic calls, closures, for-in, break/continue/return through finally, switch, literals ...), random "
        "programs in the wide profile, then seeded generated programs (methods, generators, async, classes, modules, macros; "
        "calls between methods incl. tail calls and deferred static binding; nested/labelled loops of every kind, "
        "do/catch/finally with break/continue/return, switch patterns, closures; final expressions with returning "
        "branches); EVERY BytecodeFunction reachable through value pools is one evaluation; non-trivial = distinct "
        "(code, tables) with >= 4 instructions")
    if compared == 0:
        ctx.broke("c29.verify: no function was validated")
    ctx.extra["programs"] = compared
    ctx.extra["disagreements_checked"] = compared + nops
    ctx.extra["source_programs_compiled"] = nprogs


def setup_gen():
    """called by setup.sh: write coq/Gen/C29_Opcodes.v before the full make"""
    regen_table(vlib.build_harness("c29"))
