"""C24 — lists and tuples behave as sequences."""
import os
import re
import vlib

BIG = 2 ** 31


def arg_class(tok):
    try:
        z = int(tok)
    except ValueError:
        return tok
    if z >= 2 ** 63 or z < -2 ** 63:
        return "bigint"
    if abs(z) >= BIG:
        return "huge"
    return "neg" if z < 0 else "nonneg"


def out_class(s):
    s = s.strip()
    if s.startswith("panic"):
        return "go_panic"
    if s.startswith("fatal"):
        return "go_fatal"
    if s.startswith("timeout"):
        return "timeout"
    if s.startswith("uncaught"):
        return "uncaught"
    if s.startswith("err"):
        return "err" + s.split()[1] if len(s.split()) > 1 else "err"
    if s.startswith("ok"):
        return "ok"
    return "value"


def first_diff(inp, obs, exp):
    items = [x for x in inp.split(";") if x.strip()]
    a, b = obs.split("|"), exp.split("|")
    for k in range(max(len(a), len(b))):
        x = a[k] if k < len(a) else "<missing>"
        y = b[k] if k < len(b) else "<missing>"
        if x != y:
            return k, (items[k] if k < len(items) else "?"), x, y
    return None


def keyfn(inp, obs, exp):
    """canonical class of a failing history: the first item whose result differs, reduced to
    item kind + argument classes + (implementation outcome class -> model outcome class)"""
    d = first_diff(inp, obs, exp)
    if d is None:
        return "none"
    k, item, x, y = d
    f = item.split()
    if f[0] == "dump":
        # the state differs after the preceding operation
        items = [t for t in inp.split(";") if t.strip()]
        prev = items[k - 1].split() if k > 0 else ["?"]
        return "%s:state-differs" % prev[0]
    if f[0] == "slice":
        return "slice:%s:%s->%s" % (f[2], out_class(x), out_class(y))
    if f[0] in ("grow", "repeat"):
        return "%s:%s:%s->%s" % (f[0], arg_class(f[-1]), out_class(x), out_class(y))
    if f[0] in ("get", "set", "removeat", "appendat"):
        return "%s:%s:%s->%s" % (f[0], arg_class(f[2]), out_class(x), out_class(y))
    return "%s:%s->%s" % (f[0], out_class(x), out_class(y))


def shrink(h, m, inp, args, want_key):
    """delta-debug a failing history: cut after the failing item, then drop chunks of items
    while the first difference keeps its key. All candidates of a round run in ONE harness
    process and ONE model process (at most 6 rounds)."""
    def evaluate(cands):
        text = "".join("k%d\t%s\n" % (n, c) for n, c in enumerate(cands))
        rc, out = vlib.sh([h, "-n", "0", "-input", "/dev/stdin"] + args, inp=text, timeout=300, env=vlib.elk_env())
        ids, inputs, obs = vlib.parse_case_lines(out)
        if not ids:
            return []
        rc2, exp, _ = vlib.run_model(m, ids, inputs)
        return [inputs[i] for i in ids if obs[i] != exp.get(i, obs[i]) and keyfn(inputs[i], obs[i], exp[i]) == want_key]
    items = [x for x in inp.split(";") if x.strip()]
    chunk = max(1, len(items) // 2)
    for _ in range(6):
        cands = [";".join(items[:k] + items[k + chunk:]) for k in range(0, len(items), chunk) if len(items) > chunk]
        good = evaluate(cands) if cands else []
        if good:
            items = min(good, key=len).split(";")
        elif chunk == 1:
            break
        chunk = max(1, min(chunk // 2, len(items) // 2))
    return ";".join(items)


def tolerated(inp, obs, want):
    """A range that selects no index may be answered with an out-of-range error instead of the
    empty tuple (the property does not fix that choice); everything after it must still agree."""
    d = first_diff(inp, obs, want)
    return d is not None and d[1].startswith("slice") and d[2].startswith("err 3") and d[3] == "ok T[]"


def relax(inp, obs, want):
    """replace tolerated slice answers by the expected ones so later items are still compared"""
    n = 0
    while obs != want and tolerated(inp, obs, want) and n < 10000:
        k = first_diff(inp, obs, want)[0]
        a = obs.split("|")
        a[k] = want.split("|")[k]
        obs = "|".join(a)
        n += 1
    return obs, n


MAX_ALONE = 12      # at most this many no-verdict cases per stream are re-run alone
ALONE_TRIES = 2     # re-runs (alone) of a case that timed out / lost its output


def hist_stream(ctx, name, h, m, n, variant, corpus):
    args = ["-extra", variant]
    cmd = [h, "-seed", str(ctx.sseed(name)), "-n", str(n), "-tier", ctx.tier] + args
    if corpus and os.path.exists(corpus):
        cmd += ["-input", corpus]
    rc, out = vlib.sh(cmd, timeout=2400, env=vlib.elk_env())
    ids, inputs, obs = vlib.parse_case_lines(out)
    if rc != 0 or not ids:
        ctx.broke("correspondence %s: harness exited %d" % (name, rc), out[-3000:])
        if not ids:
            return
    rc2, exp, mout = vlib.run_model(m, ids, inputs)
    rc3, sexp, sout = vlib.run_model(m, ids, inputs, args=["spec"])
    if rc2 != 0 or rc3 != 0:
        ctx.broke("correspondence %s: model driver exited %d/%d" % (name, rc2, rc3), (mout + sout)[-3000:])
    # A history in which an item was answered "timeout" (the harness's CPU-time watchdog) has no
    # verdict yet: it is re-run ALONE, in a fresh process with much larger limits, up to 2 times.
    # Only a history that times out in isolation too is reported (key hang:...); its partial
    # output is never compared item by item.
    hangs = {}
    rerun = 0
    for i in [j for j in ids if "timeout" in obs[j]]:
        confirmed = len([1 for v in hangs.values() if v is not None])
        if rerun >= MAX_ALONE or confirmed >= 3:
            hangs[i] = None       # no verdict, not classified (counted in the evidence)
            continue
        rerun += 1
        got = None
        for _ in range(ALONE_TRIES if confirmed < 2 else 1):
            rc4, out4 = vlib.sh([h, "-n", "0", "-input", "/dev/stdin"] + args, inp="k0\t%s\n" % inputs[i], timeout=1500,
                                env=vlib.elk_env({"C24_GUARD_CPU_MS": "60000", "C24_GUARD_WALL_MS": "600000"}))
            ids4, _, obs4 = vlib.parse_case_lines(out4)
            if rc4 == 0 and ids4 and "timeout" not in obs4[ids4[0]]:
                got = obs4[ids4[0]]
                break
        if got is not None:
            obs[i] = got
        else:
            hangs[i] = obs[i]
    items = 0
    dist = {}
    distinct = set()
    mism = 0
    shrunk = {}
    tol = 0
    for i in ids:
        its = [x for x in inputs[i].split(";") if x.strip()]
        items += len(its)
        for t in its:
            k = t.split()[0]
            dist[k] = dist.get(k, 0) + 1
        if len(its) > 3:
            distinct.add(inputs[i])
        e = exp.get(i)
        if e is None:
            ctx.broke("correspondence %s: model gave no answer for case %s" % (name, i))
            continue
        if i in hangs:
            if hangs[i] is not None:
                k0 = max(0, len(hangs[i].split("|")) - 1)
                t = its[min(k0, len(its) - 1)].split()
                ctx.fail("hang:%s:%s" % (t[0], arg_class(t[-1])), "history item %r does not return (60 s of CPU time, run alone, %d times)" % (" ".join(t), ALONE_TRIES),
                         stream=name, case=";".join(its[:k0 + 1]), impl="timeout", model=e.split("|")[min(k0, len(e.split("|")) - 1)][:300],
                         oracle="every sequence operation terminates")
            items -= len(its)
            continue
        obs[i], nt = relax(inputs[i], obs[i], e)
        tol += nt
        # second oracle: the plain-sequence (spec) layer replayed on the same history must agree
        # with what the implementation printed
        for oracle, want in (("implementation differs from the proved impl-layer model", e),
                             ("implementation differs from the plain-sequence specification", sexp.get(i, e))):
            if want != obs[i]:
                mism += 1
                key = keyfn(inputs[i], obs[i], want)
                if key not in shrunk and len(shrunk) < 5 and oracle.endswith("model") and "timeout" not in key:
                    k0 = first_diff(inputs[i], obs[i], want)[0]
                    shrunk[key] = shrink(h, m, ";".join(its[:k0 + 1]), args, key)
                d = first_diff(inputs[i], obs[i], want)
                if mism <= 400:
                    ctx.fail(key, "history item %r: implementation %s, expected %s (minimised history: %s)" % (d[1], d[2][:80], d[3][:80], shrunk.get(key, "-")),
                             stream=name, case=shrunk.get(key, inputs[i]), impl=d[2][:300], model=d[3][:300], oracle=oracle)
                break
        # property evaluated directly on the implementation's own output
        if "CAP<LEN" in obs[i]:
            ctx.fail("capacity-below-length", "capacity < length observed", stream=name, case=inputs[i], impl=obs[i][:300], oracle="capacity >= length")
        if re.search(r"\bpanic\b|\bfatal\b", obs[i]):
            d = [(t, o) for t, o in zip(its, obs[i].split("|")) if re.match(r"panic|fatal", o)]
            if d and e == obs[i]:
                # model and implementation agree on a Go panic: the property oracle still fails
                t, o = d[0]
                f = t.split()
                key = "%s:%s:%s" % (f[0], arg_class(f[-1]), out_class(o))
                ctx.fail(key, "history item %r ends in a Go panic: %s" % (t, o[:80]), stream=name, case=t, impl=o[:200], model=o[:200],
                         oracle="out-of-range arguments raise an Elk error, never a crash")
    ctx.stream(name, items, len(distinct),
               "seeded histories of 1..80 operations (3 of 4 histories at most 12) over 3 registers holding lists/tuples of Ints 0..4, "
               "index/range arguments in [-n-2, n+2] plus 64-bit and BigInt boundary values, a full dump of all registers after every "
               "operation and 0-2 random queries (len, [], slice by all 8 range kinds, ==, contains, iteration); evaluations = history "
               "items executed; non-trivial = distinct histories with more than 3 items; variant=" + variant,
               [{"input": inputs[i][:300], "observed": obs[i][:300]} for i in ids[:2] + ids[-1:]], dist,
               histories=len(ids), mismatches=mism, minimised=shrunk, tolerated_empty_selection_errors=tol,
               histories_rerun_alone_after_timeout=rerun, histories_hanging_alone=len([1 for v in hangs.values() if v is not None]),
               histories_without_verdict_not_classified=len([1 for v in hangs.values() if v is None]))


RANGE_FMT = {"cc": "%s...%s", "oc": "%s<..%s", "co": "%s..<%s", "oo": "%s<.<%s",
             "bc": "...%s", "bo": "..<%s", "ec": "%s...", "eo": "%s<.."}
CATCH = "catch Std::IndexError() as e\n  println(\"err 3\")\ncatch Std::OutOfRangeError() as e\n  println(\"err 3\")\nend\n"


def lit(z):
    return "(%s)" % z if str(z).startswith("-") else str(z)


def elk_item(f):
    """one history item (list registers only) as Elk statements printing the model's vocabulary"""
    k = f[0]
    r = lambda x: "r" + x
    if k == "new":
        vs = [] if f[3] == "-" else f[3].split(",")
        return "%s = [%s]\nprintln(\"ok\")" % (r(f[1]), ", ".join(vs))
    if k == "copy":
        return "%s = %s * 1\nprintln(\"ok\")" % (r(f[1]), r(f[2]))
    if k == "push":
        return "%s << %s\nprintln(\"ok\")" % (r(f[1]), f[2])
    if k == "append":
        return "%s.append(%s)\nprintln(\"ok\")" % (r(f[1]), ", ".join(f[2].split(",")))
    if k == "set":
        return "%s[%s] = %s\nprintln(\"ok\")" % (r(f[1]), lit(f[2]), f[3])
    if k == "pop":
        return "println(\"ok \" + %s.pop.inspect)" % r(f[1])
    if k == "remove":
        return "println(\"ok \" + %s.remove(%s).inspect)" % (r(f[1]), f[2])
    if k == "removeat":
        return "%s.remove_at(%s)\nprintln(\"ok\")" % (r(f[1]), lit(f[2]))
    if k == "grow":
        return "%s.grow(%s)\nprintln(\"ok\")" % (r(f[1]), lit(f[2]))
    if k == "clear":
        return "%s.clear\nprintln(\"ok\")" % r(f[1])
    if k == "mapadd":
        return "%s.map_mut(|x| -> x + %s)\nprintln(\"ok\")" % (r(f[1]), f[2])
    if k == "concat":
        return "%s = %s + %s\nprintln(\"ok\")" % (r(f[1]), r(f[2]), r(f[3]))
    if k == "repeat":
        return "%s = %s * %s\nprintln(\"ok\")" % (r(f[1]), r(f[2]), lit(f[3]))
    if k == "len":
        return "println(\"ok \" + %s.length.inspect)" % r(f[1])
    if k == "get":
        return "println(\"ok \" + %s[%s].inspect)" % (r(f[1]), lit(f[2]))
    if k == "slice":
        b = tuple(lit(x) for x in (f[3], f[4]) if x != "_")
        return "println(\"ok \" + %s[%s].inspect)" % (r(f[1]), RANGE_FMT[f[2]] % b)
    if k == "eq":
        return "println(\"ok \" + (%s == %s).inspect)" % (r(f[1]), r(f[2]))
    if k == "contains":
        return "println(\"ok \" + %s.contains(%s).inspect)" % (r(f[1]), f[2])
    if k == "iter":
        return "acc = []\nfor x in %s\n  acc << x\nend\nprintln(\"ok \" + acc.inspect)" % r(f[1])
    if k == "dump":
        return "println(r0.inspect + r1.inspect + r2.inspect)"
    raise ValueError(k)


def canon_elk(line):
    line = re.sub(r"\]:\d+", "]", line)
    line = line.replace(", ", ",")
    line = re.sub(r"%\[", "T[", line)
    line = re.sub(r"(?<![TL])\[", "L[", line)
    return line.strip()


def logical_lines(out):
    """`inspect` breaks a long list/tuple over several physical lines ("[", "  4,", ..., "]").
    Every item prints exactly one logical line: a physical line that starts with white space or
    with a closing bracket continues the previous one."""
    res = []
    for l in out.splitlines():
        if res and (l[:1] in (" ", "\t", "]") or l == ""):
            if l.strip():
                res[-1] += l.strip()
        else:
            res.append(l)
    return [canon_elk(l) for l in res]


def gen_history(rng, maxops):
    lens = [0, 0, 0]
    items = []

    def idx(n):
        if rng.chance(1, 25):
            return rng.choice(["9223372036854775807", "-9223372036854775808", "9223372036854775808", "-18446744073709551616"])
        return str(rng.range(-n - 2, n + 2))

    def query():
        r = rng.below(3)
        n = lens[r]
        c = rng.below(9)
        if c == 0:
            return "len %d" % r
        if c <= 3:
            return "get %d %s" % (r, idx(n))
        if c <= 5:
            kind = rng.choice(sorted(RANGE_FMT))
            s_, e_ = idx(n), idx(n)
            if kind[0] == "b":
                s_ = "_"
            if kind[0] == "e":
                e_ = "_"
            return "slice %d %s %s %s" % (r, kind, s_, e_)
        if c == 6:
            return "eq %d %d" % (r, rng.below(3))
        if c == 7:
            return "contains %d %d" % (r, rng.range(0, 5))
        return "iter %d" % r
    for _ in range(rng.range(1, maxops)):
        r = rng.below(3)
        n = lens[r]
        c = rng.below(22)
        if c == 0:
            k = rng.range(0, 5)
            lens[r] = k
            items.append("new %d L %s" % (r, ",".join(str(rng.range(0, 4)) for _ in range(k)) or "-"))
        elif c == 1:
            a = rng.below(3)
            lens[r] = lens[a]
            items.append("copy %d %d" % (r, a))
        elif c <= 5:
            lens[r] += 1
            items.append("push %d %d" % (r, rng.range(0, 4)))
        elif c <= 7:
            k = rng.range(1, 4)
            lens[r] += k
            items.append("append %d %s" % (r, ",".join(str(rng.range(0, 4)) for _ in range(k))))
        elif c <= 9:
            items.append("set %d %s %d" % (r, idx(n), rng.range(0, 4)))
        elif c <= 11:
            lens[r] = max(0, n - 1)
            items.append("pop %d" % r)
        elif c == 12:
            items.append("remove %d %d" % (r, rng.range(0, 4)))
        elif c <= 14:
            items.append("removeat %d %s" % (r, idx(n)))
        elif c == 15:
            items.append("grow %d %s" % (r, rng.choice(["-1", "0", "1", "3", "9223372036854775807", "18446744073709551616"])))
        elif c == 16:
            if rng.chance(1, 2):
                lens[r] = 0
                items.append("clear %d" % r)
            else:
                items.append("mapadd %d %d" % (r, rng.range(-1, 2)))
        elif c <= 18:
            a, b = rng.below(3), rng.below(3)
            if lens[a] + lens[b] <= 40:
                lens[r] = lens[a] + lens[b]
                items.append("concat %d %d %d" % (r, a, b))
        elif c == 19:
            a = rng.below(3)
            k = rng.choice(["-1", "0", "1", "2", "3", "4611686018427387904", "9223372036854775808"])
            if len(k) < 3 and int(k) >= 0 and lens[a] * int(k) <= 40:
                lens[r] = lens[a] * int(k)
            elif len(k) < 3 and int(k) >= 0:
                k = "1"
                lens[r] = lens[a]
            items.append("repeat %d %d %s" % (r, a, k))
        else:
            items.append(query())
            continue
        items.append("dump")
        if rng.chance(1, 2):
            items.append(query())
    return ";".join(items)


END_MARK = "c24-end-of-program"


def elk_program(hist):
    out = ["var r0: ArrayList[Int] = []", "var r1: ArrayList[Int] = []", "var r2: ArrayList[Int] = []", "var acc: ArrayList[Int] = []"]
    for it in hist.split(";"):
        out.append("do\n" + "\n".join("  " + l for l in elk_item(it.split()).split("\n")) + "\n" + CATCH.rstrip("\n"))
    out.append('println("%s")' % END_MARK)
    return "\n".join(out) + "\n"


def has_verdict(r):
    """an `elk run` has a verdict iff the process ended by itself (any exit status: normal end, an
    uncaught Elk error, a Go panic/fatal error) or printed the end-of-program sentinel. A run
    that was killed at the wall-clock limit or by a signal without the sentinel has none."""
    rcode, out, cls = r
    if END_MARK in out:
        return True
    return rcode != 124 and rcode >= 0 and cls != "timeout" and cls != "signal"


def run_with_verdicts(elk, progs, workdir, first_timeout=150, alone_timeout=400):
    """Run all programs 16-way parallel with a generous limit; every program left without a
    verdict is then re-run ALONE (nothing else of this check running) up to ALONE_TRIES times
    with a longer limit. Returns (results, hangs, stats): results only holds programs with a
    verdict; hangs holds the programs that hit the limit in isolation too; programs beyond
    MAX_ALONE that never got a verdict are in neither (they are only counted)."""
    res = vlib.run_programs(elk, progs, workdir, timeout=first_timeout)
    src = dict(progs)
    pending = [i for i, _ in progs if not has_verdict(res[i])]
    hangs = {}
    stats = {"programs_without_verdict_in_parallel_pass": len(pending), "programs_rerun_alone": 0,
             "programs_hanging_alone": 0, "programs_without_verdict_not_classified": 0}
    for n, i in enumerate(pending):
        if n >= MAX_ALONE:
            stats["programs_without_verdict_not_classified"] += 1
            del res[i]
            continue
        if stats["programs_hanging_alone"] >= 3:
            # a hang class is established; do not spend more hours confirming further members
            stats["programs_without_verdict_not_classified"] += 1
            del res[i]
            continue
        stats["programs_rerun_alone"] += 1
        r = res[i]
        for _ in range(ALONE_TRIES if stats["programs_hanging_alone"] < 2 else 1):
            r = vlib.run_programs(elk, [(i, src[i])], workdir, workers=1, timeout=alone_timeout)[i]
            if has_verdict(r):
                break
        if has_verdict(r):
            res[i] = r
        else:
            hangs[i] = r
            del res[i]
            stats["programs_hanging_alone"] += 1
    return res, hangs, stats


def last_started_item(its, out):
    """index of the item a hanging program was executing: every finished item printed one line"""
    n = 0
    for l in logical_lines(out):
        if re.match(r"(ok|err|[LT]\[)", l):
            n += 1
        else:
            break
    return min(n, len(its) - 1)


PROBES = [
    ("view:invalid-method", "l := [1, 2, 3]\nprintln(l.view(0...1).inspect)\n", "ArrayList#view is declared in headers/array_list.elh but calling it is a Go panic (invalid method)"),
    ("list-slice-is-tuple", "l := [1, 2, 3]\nx := l[0...1]\nx << 5\nprintln(x.inspect)\n", "l[range] is typed ArrayList but returns an ArrayTuple: `l[0...1] << 5` is a Go panic"),
]


def elk_stream(ctx, m):
    name = "c24.elk"
    elk = vlib.build_elk()
    rng = ctx.rng(name)
    n = ctx.n(16, 1500)
    hists = []
    corpus = os.path.join(vlib.ROOT, "corpus", "C24.elk.txt")
    if os.path.exists(corpus):
        hists += [l.strip() for l in open(corpus) if l.strip() and not l.startswith("#")]
    ncorp = len(hists)
    hists += [gen_history(rng, 25) for _ in range(n)]
    ids = ["e%d" % i for i in range(len(hists))]
    inputs = dict(zip(ids, hists))
    rc, exp, mout = vlib.run_model(m, ids, inputs)
    rc2, sexp, _ = vlib.run_model(m, ids, inputs, args=["spec"])
    progs = [(i, elk_program(inputs[i])) for i in ids] + [("p%d" % k, src + 'println("%s")\n' % END_MARK) for k, (_, src, _) in enumerate(PROBES)]
    res, hangs, stats = run_with_verdicts(elk, progs, os.path.join(ctx.workdir, "elk"))
    items = 0
    mism = 0
    tol = 0
    dist = {}
    for i in ids:
        its = inputs[i].split(";")
        if i in hangs:
            # no answer even when run alone with a long limit: a genuine hang. The partial output
            # only tells which item was running; it is not compared.
            k0 = last_started_item(its, hangs[i][1])
            t = its[k0].split()
            ctx.fail("elk:hang:%s:%s" % (t[0], arg_class(t[-1])), "program item %r: `elk run` does not finish (run alone, %d times)" % (" ".join(t), ALONE_TRIES),
                     stream=name, case=";".join(its[:k0 + 1]), impl="timeout", model="".join(exp.get(i, "").split("|")[k0:k0 + 1])[:300],
                     oracle="every sequence operation terminates")
            continue
        if i not in res:
            continue                      # never got a verdict and was not classified (counted in stats)
        rcode, out, cls = res[i]
        lines = logical_lines(out)
        complete = END_MARK in lines
        if complete:
            lines = lines[:lines.index(END_MARK)]
        items += len(its)
        for t in its:
            dist[t.split()[0]] = dist.get(t.split()[0], 0) + 1
        if not complete and cls in ("go_panic", "go_fatal"):
            keep = []
            for l in lines:
                if re.match(r"(ok|err|[LT]\[)", l):
                    keep.append(l)
                else:
                    break
            lines = keep + [{"go_panic": "panic", "go_fatal": "fatal"}[cls]]
        elif not complete:
            # the process ended by itself without reaching the end: an uncaught Elk error (or a
            # compile error). The output is complete as far as it goes; mark where it stopped.
            keep = []
            for l in lines:
                if re.match(r"(ok|err|[LT]\[)", l):
                    keep.append(l)
                else:
                    break
            rest = [l for l in lines[len(keep):] if l.strip()]
            lines = keep + ["uncaught " + (rest[0] if rest else "exit %d" % rcode)]
        obs = "|".join(lines)
        w0 = exp.get(i, "").split("|")
        if lines and lines[-1] == "panic" and len(w0) >= len(lines) and w0[len(lines) - 1].startswith("panic "):
            # model and program agree on a Go panic (the program ends there): compare the prefix,
            # and report the crash itself through the property oracle
            t = its[len(lines) - 1].split()
            ctx.fail("%s:%s:go_panic" % (t[0], arg_class(t[-1])), "program item %r ends in a Go panic" % " ".join(t), stream=name,
                     case=";".join(its[:len(lines)]), impl=out[:200], model=w0[len(lines) - 1],
                     oracle="out-of-range arguments raise an Elk error, never a crash")
            lines[-1] = w0[len(lines) - 1]
            obs = "|".join(lines)
            exp[i] = "|".join(w0[:len(lines)])
            sexp[i] = "|".join(sexp.get(i, "").split("|")[:len(lines)])
        for oracle, want in (("elk program output differs from the proved impl-layer model", exp.get(i, "")),
                             ("elk program output differs from the plain-sequence specification", sexp.get(i, ""))):
            obs, nt = relax(inputs[i], obs, want)
            tol += nt
            if obs != want:
                mism += 1
                d = first_diff(inputs[i], obs, want)
                ctx.fail("elk:" + keyfn(inputs[i], obs, want), "program item %r: elk printed %s, expected %s" % (d[1], d[2][:80], d[3][:80]),
                         stream=name, case=";".join(its[:d[0] + 1]), impl=d[2][:300], model=d[3][:300], oracle=oracle)
                break
        if re.search(r"panic 104", exp.get(i, "")) and obs == exp.get(i):
            pass
    for k, (key, src, what) in enumerate(PROBES):
        if "p%d" % k in hangs:
            ctx.fail("elk:hang:probe:" + key, "probe program does not finish (run alone, %d times)" % ALONE_TRIES, stream=name, case=src, impl="timeout",
                     oracle="a declared list method never crashes the interpreter")
            continue
        if "p%d" % k not in res:
            continue
        rcode, out, cls = res["p%d" % k]
        if cls in ("go_panic", "go_fatal"):
            ctx.fail(key + ":" + cls, what, stream=name, case=src, impl=out[:200], oracle="a declared list method never crashes the interpreter")
    ctx.stream(name, items, len(set(hists[ncorp:])),
               "seeded histories of 1..25 operations over three ArrayList[Int] variables printed as one Elk program each (every item in "
               "its own do/catch IndexError/OutOfRangeError block), run with `elk run`; output lines compared with the extracted model "
               "(impl and spec layer); plus %d fixed probe programs. Every program ends by printing a sentinel; a run that hits the wall-clock "
               "limit (150 s) or is killed without the sentinel has no verdict, is re-run alone (400 s, up to 2 times) and is reported only "
               "if it does not finish in isolation either (key elk:hang:...); partial output is never compared. evaluations = items of "
               "programs with a verdict; non-trivial = distinct generated histories" % len(PROBES),
               [{"input": inputs[i][:300], "observed": res[i][1][:200]} for i in ids[:2] if i in res], dist,
               programs=len(progs), mismatches=mism, tolerated_empty_selection_errors=tol, **stats)


def cpu_children(resource):
    r = resource.getrusage(resource.RUSAGE_CHILDREN)
    return r.ru_utime + r.ru_stime


def run(ctx):
    ctx.explanation = (
        "Proved in Coq (unbounded, all histories by induction over fold_left): the impl layer of Model/C24_Seq.v, which mirrors the Go "
        "functions with index arithmetic, loops and Go's panic conditions, equals the plain-list specification layer on every "
        "operation and every observable, and no index panic or runaway loop is reachable; only `make` can panic (P_ALLOC) for "
        "capacities above 2^44. Differential-tested only: that the model matches value/array_list_of_value.go, "
        "value/array_tuple_of_value.go, the native variants and the vm wrappers (stream c24.hist through the VM method "
        "wrappers via Thread.CallMethodByName, for the OfValue and the NativeArray[SmallInt] variants) and through Elk programs (c24.elk).")
    ctx.trusted_base += [
        "Go append growth policy enters as the Section variable growcap (no hypothesis needed for the proved statements)",
        "make() modelled to panic iff the capacity is negative, below the length or above 2^44; out-of-memory not modelled",
        "slice storage sharing is not modelled (no Elk-visible operation shares storage; `view` is unimplemented)",
        "elements are Ints (integer equality); Elk nil is the reserved integer -1000003",
        "SmallInt.MultiplyOverflow taken from Model/C06_Int.v (proved exact there)",
    ]
    import time
    t = [time.time()]

    import resource
    c = [cpu_children(resource)]

    def lap(what):
        t.append(time.time())
        c.append(cpu_children(resource))
        ctx.extra.setdefault("phase_seconds", {})[what] = round(t[-1] - t[-2], 1)
        # CPU time of the child processes of the phase: wall time on an idle machine is about
        # cpu for the single-process phases and cpu/16 for c24.elk (16 programs in parallel)
        ctx.extra.setdefault("phase_cpu_seconds", {})[what] = round(c[-1] - c[-2], 1)
    ctx.run_proof_gate()
    lap("proof_gate")
    h = vlib.build_harness("c24")
    lap("build_harness")
    m = vlib.build_model("C24")
    lap("build_model")
    corpus = os.path.join(vlib.ROOT, "corpus", "C24.hist.txt")
    hist_stream(ctx, "c24.hist", h, m, ctx.n(600, 40000), "of", corpus)
    lap("c24.hist")
    hist_stream(ctx, "c24.hist.native", h, m, ctx.n(300, 20000), "native",
                os.path.join(vlib.ROOT, "corpus", "C24.hist.native.txt"))
    lap("c24.hist.native")
    elk_stream(ctx, m)
    lap("c24.elk")
