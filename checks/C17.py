"""C17 — hash maps, hash records and hash sets behave as finite maps and sets."""
import json
import os
import vlib

STREAM = "c17.api"
FIELDS = ["ret", "len", "gets", "has", "iter", "eq"]
BULK = ("cat", "cpy", "cln", "ctab", "int")


# ---------------------------------------------------------------- second oracle: python dict/set replay
def dict_replay(inp):
    """the finite-map semantics of a history, in the harness's observable vocabulary"""
    f = inp.split(" ")
    kind, univ, ops = f[0], f[1], f[2:]
    isset = kind == "set"
    keys = [int(e.split(":")[0]) for e in univ[2:].split(",") if e]
    reg = {"a": {}, "b": {}}

    def snap(m):
        gets = "" if isset else ",".join(str(m[k]) if k in m else "-" for k in keys)
        has = "".join("1" if k in m else "0" for k in keys)
        it = ",".join((str(k) if isset else "%d=%d" % (k, m[k])) for k in sorted(m))
        return "%d/%s/%s/%s" % (len(m), gets, has, it)

    def eq(x, y):
        return "1" if (set(x) == set(y) if isset else x == y) else "0"

    toks = []
    for o in ops:
        p = o.split(":")
        name, r = p[0], p[1]
        oth = "b" if r == "a" else "a"
        ret = "-"
        if name == "new":
            reg[r] = {}
        elif name == "set":
            k, v = int(p[2]), int(p[3])
            if isset:
                ret = "0" if k in reg[r] else "1"
            reg[r][k] = v
        elif name == "del":
            k = int(p[2])
            ret = "1" if k in reg[r] else "0"
            reg[r].pop(k, None)
        elif name == "cat":
            n = dict(reg[r])
            n.update(reg[oth])
            reg[r] = n
        elif name == "int":
            if isset:
                reg[r] = {k: 0 for k in reg[r] if k in reg[oth]}
        elif name in ("cpy", "ctab"):
            reg[r].update(reg[oth])
        elif name == "cln":
            reg[r] = dict(reg[oth])
        elif name == "grow":
            pass
        else:
            raise ValueError(o)
        toks.append("%s|%s|%s|%s%s" % (ret, snap(reg["a"]), snap(reg["b"]), eq(reg["a"], reg["b"]), eq(reg["b"], reg["a"])))
    return ";".join(toks)


def split_tok(t):
    """token -> dict field -> text (both registers merged per field)"""
    if t == "panic":
        return {"panic": "panic"}
    ret, sa, sb, e = t.split("|")
    a, b = sa.split("/"), sb.split("/")
    return {"ret": ret, "len": a[0] + " " + b[0], "gets": a[1] + " " + b[1], "has": a[2] + " " + b[2],
            "iter": a[3] + " " + b[3], "eq": e}


def first_diff(obs, exp):
    """(index of first differing op, field name) or None"""
    a, b = obs.split(";"), exp.split(";")
    for j in range(max(len(a), len(b))):
        x = a[j] if j < len(a) else None
        y = b[j] if j < len(b) else None
        if x == y:
            continue
        if x is None or y is None:
            return j, "missing"
        if x == "panic" or y == "panic":
            return j, "panic"
        dx, dy = split_tok(x), split_tok(y)
        for fld in FIELDS:
            if dx[fld] != dy[fld]:
                return j, fld
        return j, "other"
    return None


def key_of(inp, obs, exp):
    d = first_diff(obs, exp)
    f = inp.split(" ")
    if d is None:
        return "%s:none" % f[0]
    j, fld = d
    ops = f[2:]
    name = ops[j].split(":")[0] if j < len(ops) else "end"
    return "%s:%s:%s" % (f[0], name, fld)


class Runner:
    def __init__(self, ctx, h, m):
        self.ctx, self.h, self.m = ctx, h, m
        self.n = 0

    def run(self, inputs):
        """inputs: list of input lines -> list of (normalised input, impl observed, model expected)"""
        self.n += 1
        path = os.path.join(self.ctx.workdir, "batch%d.txt" % (self.n % 4))
        with open(path, "w") as f:
            f.write("".join(i + "\n" for i in inputs))
        rc, out = vlib.sh([self.h, "-seed", "0", "-n", "0", "-input", path], timeout=600, env=vlib.elk_env())
        ids, ins, obs = vlib.parse_case_lines(out)
        rc2, exp, _ = vlib.run_model(self.m, ids, ins, timeout=600)
        return [(ins[i], obs[i], exp.get(i, "no-model-output")) for i in ids]

    def shrink_all(self, cases, bads):
        """cases: {class: truncated input}; bads: {class: predicate}. Delta-debugging on the op lists of all classes at once
        (one harness+model invocation per round). bad(norm_input, obs, exp) -> bool.
        Returns {class: (norm_input, obs, exp)}"""
        st = {}
        bad = lambda k, *r: bads[k](*r)
        for k, inp in cases.items():
            f = inp.split(" ")
            st[k] = {"head": f[:2], "ops": f[2:], "done": False}
        for _ in range(15):
            todo = [k for k in st if not st[k]["done"]]
            if not todo:
                break
            # round 1: every single removal
            batch, owner = [], []
            for k in todo:
                ops = st[k]["ops"]
                for i in range(len(ops)):
                    if len(ops) > 1:
                        batch.append(" ".join(st[k]["head"] + ops[:i] + ops[i + 1:]))
                        owner.append((k, i))
            if not batch:
                break
            res = self.run(batch)
            rem = {k: [] for k in todo}
            for (k, i), (ni, o, e) in zip(owner, res):
                if bad(k, ni, o, e):
                    rem[k].append(i)
            # round 2: all individually removable ops at once
            batch, owner = [], []
            for k in todo:
                if not rem[k]:
                    st[k]["done"] = True
                elif len(rem[k]) > 1:
                    ops = [o for i, o in enumerate(st[k]["ops"]) if i not in set(rem[k])]
                    if ops:
                        batch.append(" ".join(st[k]["head"] + ops))
                        owner.append(k)
            ok = {}
            if batch:
                for k, (ni, o, e) in zip(owner, self.run(batch)):
                    ok[k] = bad(k, ni, o, e)
            for k in todo:
                if st[k]["done"]:
                    continue
                ops = st[k]["ops"]
                if ok.get(k):
                    st[k]["ops"] = [o for i, o in enumerate(ops) if i not in set(rem[k])]
                else:
                    i = rem[k][0]
                    st[k]["ops"] = ops[:i] + ops[i + 1:]
        # drop universe keys the ops never mention
        batch, owner = [], []
        for k in st:
            used = set()
            for o in st[k]["ops"]:
                p = o.split(":")
                if p[0] in ("set", "del"):
                    used.add(p[2])
            head = st[k]["head"]
            u = [e.split(":")[0] for e in head[1][2:].split(",") if e and e.split(":")[0] in used]
            batch.append(" ".join(head + st[k]["ops"]))
            owner.append((k, False))
            if u:
                batch.append(" ".join([head[0], "U=" + ",".join(u)] + st[k]["ops"]))
                owner.append((k, True))
        out = {}
        for (k, small), r in zip(owner, self.run(batch) if batch else []):
            if not small:
                out[k] = r
            elif bad(k, *r):
                out[k] = r
        return out


def one_chunk(ctx, cmd, m, c, dist, distinct, cnt, bykey, samples):
    rc, out = vlib.sh(cmd, timeout=3000, env=vlib.elk_env())
    ids, inputs, obs = vlib.parse_case_lines(out)
    del out
    if rc != 0 or not ids:
        ctx.broke("correspondence %s: harness exited %d" % (STREAM, rc), "")
        if not ids:
            return False
    rc2, exp, mout = vlib.run_model(m, ids, inputs, timeout=3000)
    if rc2 != 0:
        ctx.broke("correspondence %s: model driver exited %d" % (STREAM, rc2), mout[-3000:])
    rc3, spec, sout = vlib.run_model(m, ids, inputs, args=["-spec"], timeout=3000)
    del mout, sout
    cnt["evals"] += len(ids)
    if len(samples) < 4:
        samples.extend({"input": inputs[i], "observed": obs[i][:300]} for i in ids[:2])
    for i in ids:
        inp, o = inputs[i], obs[i]
        f = inp.split(" ")
        ops = f[2:]
        dist["kind"][f[0]] = dist["kind"].get(f[0], 0) + 1
        b = "%d-%d" % (len(ops) // 10 * 10, len(ops) // 10 * 10 + 9)
        dist["len"][b] = dist["len"].get(b, 0) + 1
        for op in ops:
            nm = op.split(":")[0]
            dist["ops"][nm] = dist["ops"].get(nm, 0) + 1
        if i.startswith("c") and c == 0:
            dist["corpus_cases"] += 1
        if o.endswith("panic"):
            dist["impl_panics"] += 1
        toks = o.split(";")
        deleted = any(t.startswith("1|") for t, op in zip(toks, ops) if op.startswith("del"))
        if deleted and any(op.split(":")[0] in BULK for op in ops):
            distinct.add(hash(" ".join(ops)))
        e = exp.get(i)
        if e is None:
            ctx.broke("correspondence %s: model gave no answer for %s" % (STREAM, inp))
            continue
        # the proved spec and the extracted model must agree (sanity of the tie itself)
        if spec.get(i) != e:
            cnt["smism"] += 1
            if cnt["smism"] <= 3:
                ctx.fail("model-vs-spec:" + key_of(inp, e, spec.get(i) or ""), "extracted model and extracted spec disagree on %s" % inp,
                         stream=STREAM, case=inp, impl=e, model=spec.get(i), oracle="model = spec (proved; should be impossible)")
        d = dict_replay(inp)
        bad_model = e != o
        bad_dict = d != o
        if bad_model:
            cnt["mism"] += 1
        if bad_dict:
            cnt["omism"] += 1
        if d != e:
            ctx.broke("python dict oracle and Coq model disagree on %s" % inp, "dict=%s\nmodel=%s" % (d, e))
        if bad_model or bad_dict:
            k = key_of(inp, o, e if bad_model else d)
            keep(bykey, k, ((len(ops), inp, o, e, bad_model, bad_dict)))
            if o.endswith("panic") and not e.endswith("panic"):
                # a Go panic may be masked by an earlier, different disagreement: own class
                j = len(toks) - 1
                pk = "%s:%s:panic" % (f[0], ops[j].split(":")[0] if j < len(ops) else "end")
                if pk != k:
                    keep(bykey, pk, ((len(ops), inp, o, e, bad_model, bad_dict)))
    return True


def keep(bykey, k, item):
    """per class: count and the shortest history"""
    e = bykey.setdefault(k, [0, item])
    e[0] += 1
    if item < e[1]:
        e[1] = item


def colliding_keys(ctx, h, k=3):
    """ask the harness for the real hashes of -400..400 and pick k keys equal modulo 40"""
    path = os.path.join(ctx.workdir, "hashes_in.txt")
    with open(path, "w") as f:
        f.write("map U=" + ",".join(str(i) for i in range(-400, 401)) + "\n")
    rc, out = vlib.sh([h, "-seed", "0", "-n", "0", "-input", path], timeout=600, env=vlib.elk_env())
    ids, ins, _ = vlib.parse_case_lines(out)
    cls = {}
    for e in ins[ids[0]].split(" ")[1][2:].split(","):
        kk, hh = e.split(":")
        cls.setdefault(int(hh) % 40, []).append(int(kk))
    best = max(cls.values(), key=len)
    return best[:k]


def exhaustive(ctx, h, m, bykey):
    keys = colliding_keys(ctx, h)
    L = ctx.n(3, 4)
    alpha = []
    for i, k in enumerate(keys):
        alpha += ["set:a:%d:%d" % (k, i + 1), "del:a:%d" % k]
    alpha += ["set:b:%d:7" % keys[0], "set:b:%d:8" % keys[1], "del:b:%d" % keys[0],
              "cat:a", "cpy:a", "cpy:b", "cln:b", "ctab:a", "int:a"]
    u = "U=" + ",".join(str(k) for k in keys)
    path = os.path.join(ctx.workdir, "exh_in.txt")
    n = 0
    with open(path, "w") as f:
        def rec(prefix):
            nonlocal n
            if prefix:
                for kind in ("map", "set"):
                    ops = [o for o in prefix if kind == "set" or not o.startswith("int")]
                    if len(ops) == len(prefix):
                        f.write("%s %s %s\n" % (kind, u, " ".join(ops)))
                        n += 1
            if len(prefix) < L:
                for o in alpha:
                    rec(prefix + [o])
        rec([])
    dist = {"kind": {}, "ops": {}, "len": {}, "impl_panics": 0, "corpus_cases": 0}
    distinct, samples = set(), []
    cnt = {"mism": 0, "omism": 0, "smism": 0, "evals": 0}
    one_chunk(ctx, [h, "-seed", "0", "-n", "0", "-input", path], m, 1, dist, distinct, cnt, bykey, samples)
    ctx.stream("c17.exh", cnt["evals"], cnt["evals"],
               "every history of length <= %d over the alphabet {set/del of 3 keys colliding modulo 40 in a, two sets and a del in b, "
               "cat, cpy both ways, cln, ctab, int} for kinds map and set; same observables and oracles as c17.api; all histories distinct" % L,
               samples, dist, mismatches=cnt["mism"], dict_oracle_mismatches=cnt["omism"], keys=keys)


def run(ctx):
    ctx.explanation = (
        "Proved in Coq (generic key type with hash/eqb section hypotheses, unbounded tables and histories): the model of "
        "HashMapOfValue/HashSetOfValue/HashRecordOfValue (open addressing with tombstones, resize, copy, concat, union, "
        "intersection, equality) keeps its invariant and every observable of every operation history equals the one of a "
        "duplicate-free association list modulo eqb; theorems named *_partial are weaker than the full statement (see Props/C17.v). "
        "The Go code is tied to the model only by the seeded differential stream c17.api (Go API level, Int keys chosen "
        "to collide); a Python dict replay checks the finite-map property directly on the implementation's outputs. "
        "Native (Go-map backed) variants and Elk-level method dispatch are not covered.")
    ctx.trusted_base += [
        "section hypotheses: key equality is an equivalence and equal keys hash equally (for Int keys: value.SmallInt ==/Hash, not proved here)",
        "Go slices/ints modelled as Coq lists/Z (no overflow of counters); float64 load-factor test modelled as exact rational 3/4",
        "harness/cmd/c17 (drives vm.HashMapOfValue*/HashRecordOfValue*/HashSetOfValue* with a nil VM), ocaml/C17 driver, python dict oracle and shrinker",
    ]
    ctx.run_proof_gate()
    h = vlib.build_harness("c17")
    m = vlib.build_model("C17")
    rn = Runner(ctx, h, m)

    corpus = os.path.join(vlib.ROOT, "corpus", "C17.api.txt")
    total = ctx.n(2000, 150000)
    chunk = 4000
    dist = {"kind": {}, "ops": {}, "len": {}, "impl_panics": 0, "corpus_cases": 0}
    distinct = set()
    cnt = {"mism": 0, "omism": 0, "smism": 0, "evals": 0}
    bykey = {}
    samples = []
    nchunks = 1 if ctx.replay else max(1, (total + chunk - 1) // chunk)
    for c in range(nchunks):
        n = min(chunk, total - c * chunk)
        cmd = [h, "-seed", str(ctx.sseed(STREAM if c == 0 else "%s#%d" % (STREAM, c))), "-n", str(n), "-tier", ctx.tier]
        if ctx.replay:
            case = json.load(open(ctx.replay)).get("case")
            rp = os.path.join(ctx.workdir, "replay_input.txt")
            with open(rp, "w") as f:
                f.write(str(case) + "\n")
            cmd = [h, "-seed", "0", "-n", "0", "-input", rp]
        elif c == 0 and os.path.exists(corpus):
            cmd += ["-input", corpus]
        if not one_chunk(ctx, cmd, m, c, dist, distinct, cnt, bykey, samples):
            return
    mism, omism, smism = cnt["mism"], cnt["omism"], cnt["smism"]

    # exhaustive small scope: every history of length <= L over 3 keys that collide modulo 5, 8 and 40
    if not ctx.replay:
        exhaustive(ctx, h, m, bykey)

    # minimise one representative (the shortest) per preliminary class, then key by the minimised case
    cases, bads = {}, {}
    any_bad = lambda ni, oo, ee: oo != ee or oo != dict_replay(ni)
    panic_bad = lambda ni, oo, ee: oo.endswith("panic") and not ee.endswith("panic")
    for k in sorted(bykey)[:60]:
        ln, inp, o, e, bm, bd = bykey[k][1]
        f = inp.split(" ")
        if k.endswith(":panic"):
            j = len(o.split(";")) - 1
            bads[k] = panic_bad
        else:
            j = first_diff(o, e if bm else dict_replay(inp))[0]
            bads[k] = any_bad
        cases[k] = " ".join(f[:2] + f[2:][:j + 1])
    shrunk = rn.shrink_all(cases, bads) if cases else {}
    for k in sorted(shrunk):
        ni, oo, ee = shrunk[k]
        dd = dict_replay(ni)
        ref = ee if oo != ee else dd
        key = key_of(ni, oo, ref)
        if k.endswith(":panic") and oo.endswith("panic"):
            key = "%s:%s:panic" % (ni.split(" ")[0], ni.split(" ")[-1].split(":")[0])
        oracles = []
        if oo != ee:
            oracles.append("implementation differs from the proved model")
        if oo != dd:
            oracles.append("finite-map property (python dict replay) fails on the implementation's own outputs")
        dj = first_diff(oo, ref)
        at = ""
        if dj:
            a, b = oo.split(";"), ref.split(";")
            at = " at op %d: implementation %s, expected %s" % (dj[0] + 1, a[dj[0]] if dj[0] < len(a) else "-", b[dj[0]] if dj[0] < len(b) else "-")
        ctx.fail(key, "%s%s (%d histories of preliminary class %s in the run)" % (ni, at, bykey[k][0], k),
                 stream=STREAM, case=ni, impl=oo, model=ee, oracle="; ".join(oracles))

    ctx.stream(STREAM, cnt["evals"], len(distinct),
               "seeded histories (<= 60 ops) over 3-11 Int keys chosen to collide modulo small capacities, two registers, "
               "kinds map/rec/set, ops new/set/del/cat(union)/int/cpy/cln/ctab/grow; after every op: length, get and contains "
               "for every universe key, sorted iteration, equality both ways, for both registers; compared with the extracted "
               "Coq model and with a python dict replay; non-trivial = history deletes a present key and uses a bulk op; distinct by op list",
               samples, dist, mismatches=mism, dict_oracle_mismatches=omism, model_vs_spec_mismatches=smism)
