"""c01.proto - protocol SEQUENCES on the stateful std objects a checker-accepted program can hold.

A case = 1-2 objects + a seeded sequence of 1-8 method calls on them, printed as a small typed program in
which every delivered value flows into a typed operation (Int arithmetic / String concatenation / UInt8
addition / Pair accessors) so that a value of the wrong kind dies visibly.  Families:

  gen       generator methods (0-2 parameters, 0-3 locals initialised from the parameters, optionally an
            instance method reading an instance variable; bodies: yields, assignments, if, counted while loops
            with yields, helper calls, conditional throw / early return): next / reset / for-in / for-in with
            break.  REFERENCE-CHECKED against the extracted Model/C01_Proto.v (generators run on the machine of
            Model/C15_Gen.v; reset = start over).
  gen+clo   the same with a closure in the body that captured a local: CRASH-ONLY (the closure's copy of the
            local and the generator's own slot diverge after a suspension; that is C15's concern).
  iter      iterators of ArrayList / ArrayTuple / HashSet / HashMap / HashRecord / the six range kinds / Int /
            String chars, bytes, graphemes: next / reset / for-in (with break).  REFERENCE-CHECKED (position in
            the element list; for hash collections the element order is the one the collection's own for-in
            printed in the same run).
  chan      buffered Channel[Int]: push / << / pop / next / close / length+left_capacity+capacity / for-in,
            kept within capacity so that the only thread never waits.  REFERENCE-CHECKED (queue model).
  prom      promises of async methods (resolving / rejecting) and Promise.resolved: await any number of times.
            REFERENCE-CHECKED.
  once      Sync::Once#call / Once.fn / Once.memo with a closure bumping a captured local.  REFERENCE-CHECKED.
  wg        Sync::WaitGroup add/start/end/remove/wait with a non-negative counter: CRASH-ONLY.
  promwait  Promise.wait(...) awaited into a typed use: CRASH-ONLY.

Gate for every family: outcome class go_panic / go_fatal / signal (C01's observable).  Reference-checked
families also compare the whole stdout with the lines predicted by the model."""
import json
import os
import re
import vlib

STREAM = "c01.proto"
FUEL = 4000
CORPUS = os.path.join(vlib.ROOT, "corpus", "C01.proto.txt")


def sx_str(x):
    if isinstance(x, str):
        return x
    return "(" + " ".join(sx_str(y) for y in x) + ")"


HELPERS = '''def h0(a: Int, b: Int): Int
  a + 1
end
def h1(a: Int, b: Int): Int
  c := h0(a, 0)
  c + b
end
def h2(a: Int, b: Int): Int ! String
  t := h0(a, b)
  if a < 0
    throw "t0"
  end
  t - 1
end
def h3(a: Int, b: Int): Int
  t := h1(a, a)
  t - 1 - b
end
'''
ASYNC = '''async def af(a: Int): Int
  k := a + 1
  k
end
async def af2(a: Int): Int ! String
  if a < 0
    throw "t0"
  end
  a + 1
end
'''


# ------------------------------------------------------------------ generator bodies (syntax of ocaml/C15)

def uses(s, head):
    if isinstance(s, str):
        return False
    if s and s[0] == head:
        return True
    return any(uses(y, head) for y in s[1:])


def calls_h2(s):
    if isinstance(s, str):
        return False
    if s and s[0] == "h" and s[1] == "2":
        return True
    return any(calls_h2(y) for y in s[1:])


class BodyGen:
    def __init__(self, r, np_, nl):
        self.r = r
        self.np = np_
        self.nl = nl
        self.free = list(range(np_, np_ + nl))     # locals that may be assigned (not a busy loop counter)
        self.yields = 0

    def expr(self, d, nvars=None):
        nvars = self.np + self.nl if nvars is None else nvars
        c = self.r.below(10)
        if d <= 0 or c < 4:
            if nvars and self.r.chance(3, 5):
                return ["v", str(self.r.below(nvars))]
            return ["c", str(self.r.range(-3, 9))]
        if c < 8:
            return [self.r.choice(["+", "-", "*", "+"]), self.expr(d - 1, nvars), self.expr(d - 1, nvars)]
        return ["h", str(self.r.below(4)), self.expr(d - 1, nvars), self.expr(d - 1, nvars)]

    def cond(self):
        c = [self.r.choice(["lt", "le", "eq", "lt"]), self.expr(1), self.expr(1)]
        if self.r.chance(1, 5):
            c = ["not", c]
        return c

    def stmt(self, d):
        c = self.r.below(100)
        if c < 38:
            self.yields += 1
            return ["yield", self.expr(2)]
        if c < 55 and self.free:
            x = self.r.choice(self.free)
            if self.r.chance(1, 3):
                return ["bump", str(x), self.expr(1)]
            return ["set", str(x), self.expr(2)]
        if c < 70 and d > 0:
            return ["if", self.cond(), self.block(d - 1, self.r.range(1, 2)), self.block(d - 1, self.r.range(0, 2))]
        if c < 85 and d > 0 and self.free:
            k = self.free.pop(self.r.below(len(self.free)))
            n = self.r.range(1, 3)
            body = self.block(d - 1, self.r.range(1, 2))
            if not uses(body, "yield") and self.r.chance(2, 3):
                self.yields += 1
                body = ["seq", ["yield", self.expr(1)], body]
            self.free.append(k)
            return ["seq", ["set", str(k), ["c", "0"]],
                    ["while", ["lt", ["v", str(k)], ["c", str(n)]],
                     ["seq", body, ["set", str(k), ["+", ["v", str(k)], ["c", "1"]]]]]]
        if c < 91:
            return ["if", ["lt", self.expr(1), ["c", "0"]], ["throw", str(self.r.range(1, 3))], "skip"]
        # no early `return` in the bodies: what it delivers is C15's question, not a protocol matter
        self.yields += 1
        return ["yield", self.expr(1)]

    def block(self, d, n):
        ss = [self.stmt(d) for _ in range(n)]
        if not ss:
            return "skip"
        return ["seq"] + ss


def gen_spec(r, clo=False):
    np_ = r.range(0, 2)
    recv = r.chance(1, 4)
    if recv:
        np_ += 1                 # the last parameter is the instance variable @b
    nl = r.choice([0, 0, 1, 1, 2, 3])
    if clo and nl == 0:
        nl = 1
    bg = BodyGen(r, np_, nl)
    inits = [bg.expr(1, np_ + i) for i in range(nl)]
    body = bg.block(2, r.range(1, 4))
    if bg.yields == 0:
        body = ["seq", ["yield", bg.expr(1)], body]
    return dict(fam="gen", np=np_, inits=inits, body=body, final=bg.expr(1), args=[r.range(-2, 5) for _ in range(np_)],
                recv=recv, clo=clo)


class GenPrinter:
    def __init__(self, spec):
        self.s = spec
        self.np = spec["np"]
        self.recv = spec["recv"]
        self.clo = spec["clo"]

    def var(self, k):
        if self.recv and int(k) == self.np - 1:
            return "@b"
        return "x" + str(k)

    def expr(self, e):
        k = e[0]
        if k == "c":
            return "(%s)" % e[1] if e[1].startswith("-") else e[1]
        if k == "v":
            return self.var(e[1])
        if k in "+-*":
            return "(%s %s %s)" % (self.expr(e[1]), k, self.expr(e[2]))
        if k == "h":
            return "h%s(%s, %s)" % (e[1], self.expr(e[2]), self.expr(e[3]))
        raise ValueError(e)

    def cond(self, c):
        k = c[0]
        if k in ("lt", "le", "eq"):
            return "(%s %s %s)" % (self.expr(c[1]), {"lt": "<", "le": "<=", "eq": "=="}[k], self.expr(c[2]))
        if k == "not":
            return "(!%s)" % self.cond(c[1])
        raise ValueError(c)

    def stmt(self, s, ind, out):
        pad = "  " * ind
        if s == "skip":
            out.append(pad + "nil")
            return
        k = s[0]
        if k == "set":
            out.append("%s%s = %s" % (pad, self.var(s[1]), self.expr(s[2])))
        elif k == "bump":
            if self.clo:
                out.append("%sb%s.(%s)" % (pad, s[1], self.expr(s[2])))
            else:
                out.append("%s%s = (%s + %s)" % (pad, self.var(s[1]), self.var(s[1]), self.expr(s[2])))
        elif k == "seq":
            if len(s) == 1:
                out.append(pad + "nil")
            for y in s[1:]:
                self.stmt(y, ind, out)
        elif k == "if":
            out.append("%sif %s" % (pad, self.cond(s[1])))
            self.stmt(s[2], ind + 1, out)
            if s[3] != "skip":
                out.append(pad + "else")
                self.stmt(s[3], ind + 1, out)
            out.append(pad + "end")
        elif k == "while":
            out.append("%swhile %s" % (pad, self.cond(s[1])))
            self.stmt(s[2], ind + 1, out)
            out.append(pad + "end")
        elif k == "yield":
            out.append("%syield %s" % (pad, self.expr(s[1])))
        elif k == "ret":
            out.append("%sreturn %s" % (pad, self.expr(s[1])))
        elif k == "throw":
            out.append('%sthrow "t%s"' % (pad, s[1]))
        else:
            raise ValueError(s)

    def can_throw(self):
        s = self.s
        whole = [s["body"], s["final"]] + s["inits"]
        return any(uses(x, "throw") or calls_h2(x) for x in whole)

    def method(self, name, ind):
        s = self.s
        pad = "  " * ind
        nparams = self.np - (1 if self.recv else 0)
        params = ", ".join("x%d: Int" % i for i in range(nparams))
        out = ["%sdef *%s%s: Int%s" % (pad, name, "(" + params + ")" if params else "", " ! String" if self.can_throw() else "")]
        bumped = set()

        def find_bumps(x):
            if isinstance(x, str):
                return
            if x and x[0] == "bump":
                bumped.add(x[1])
            for y in x[1:]:
                find_bumps(y)
        find_bumps(s["body"])
        for i, e in enumerate(s["inits"]):
            x = str(self.np + i)
            out.append("%s  x%s := %s" % (pad, x, self.expr(e)))
            if self.clo and (x in bumped or i == 0):
                out.append("%s  b%s := |d: Int| -> x%s = x%s + d" % (pad, x, x, x))
        self.stmt(s["body"], ind + 1, out)
        out.append("%s  %s" % (pad, self.expr(s["final"])))
        out.append(pad + "end")
        return out


# ------------------------------------------------------------------ element kinds

def _int_show(t):
    return "(%s * 2 + 1).inspect" % t


ELEM = {
    "int": dict(ty="Int", show=_int_show, add=lambda t: t, exp=lambda o, k: str(2 * k + 1), w=lambda k: k),
    "char": dict(ty="Char", show=lambda t: '(%s + "x").inspect' % t, add=lambda t: "1",
                 exp=lambda o, k: '"%sx"' % chr(k), w=lambda k: 1),
    "byte": dict(ty="UInt8", show=lambda t: "(%s + 1u8).inspect" % t, add=lambda t: "1",
                 exp=lambda o, k: "%du8" % (k + 1), w=lambda k: 1),
    "graph": dict(ty="String", show=lambda t: '(%s + "!").inspect' % t, add=lambda t: "1",
                  exp=lambda o, k: '"%s!"' % o.table[k], w=lambda k: 1),
    "pair": dict(ty="Pair[Int, Int]", show=lambda t: "(%s.key * 1000 + %s.value).inspect" % (t, t),
                 add=lambda t: "(%s.key * 1000 + %s.value)" % (t, t), exp=lambda o, k: str(k), w=lambda k: k),
}

WORDS = ["ab", "héy", "z", "", "ßa", "xyz"]
ITER_COLLS = ["list", "list", "tuple", "set", "map", "rec", "crange", "orange", "lorange", "rorange", "erange", "elrange",
              "int", "chars", "bytes", "graphemes"]


def iter_spec(r):
    coll = r.choice(ITER_COLLS)
    if coll in ("list", "tuple"):
        data = [r.range(-3, 9) for _ in range(r.range(0, 4))]
    elif coll == "set":
        data = sorted(set(r.range(0, 9) for _ in range(r.range(0, 4))), key=lambda x: (x * 7) % 10)
    elif coll in ("map", "rec"):
        keys = sorted(set(r.range(0, 9) for _ in range(r.range(0, 3))), key=lambda x: (x * 7) % 10)
        data = [[k, r.range(0, 99)] for k in keys]
    elif coll in ("crange", "orange", "lorange", "rorange"):
        lo = r.range(-2, 4)
        data = [lo, lo + r.range(-1, 4)]
    elif coll in ("erange", "elrange"):
        data = [r.range(-2, 4)]
    elif coll == "int":
        data = [r.range(0, 4)]
    else:
        data = [r.below(len(WORDS))]
    return dict(fam="iter", coll=coll, data=data)


# ------------------------------------------------------------------ objects

class Obj:
    """one object of a case: how to declare / create it in Elk, how to describe it to the model"""

    def __init__(self, spec, idx):
        self.spec = spec
        self.idx = idx
        self.fam = spec["fam"]
        self.name = "o%d" % idx
        self.decls = []          # top-level definitions
        self.pre = []            # statements before the creation (in the scope of the creation)
        self.elem = "int"
        self.table = None
        self.order_probe = None  # (collection expr, element show) when the element order is learnt from the run
        self.checked = True
        self.err = False         # static error type String on next / await
        self.can_reset = True
        f = self.fam
        if f == "gen":
            gp = GenPrinter(spec)
            self.err = gp.can_throw()
            self.checked = not spec["clo"]
            args = [str(a) if a >= 0 else "(%d)" % a for a in spec["args"]]
            if spec["recv"]:
                cls = "K%d" % idx
                self.decls = ["class %s" % cls, "  var @b: Int", "  init(@b); end"] + gp.method("gen", 1) + ["end"]
                self.create = "%s(%s).gen%s" % (cls, args[-1], "(" + ", ".join(args[:-1]) + ")" if args[:-1] else "")
            else:
                self.decls = gp.method("g%d" % idx, 0)
                self.create = "g%d(%s)" % (idx, ", ".join(args))
            self.type = "Generator[Int, String]" if self.err else "Generator[Int]"
        elif f == "iter":
            self.mk_iter()
        elif f == "chan":
            self.create = "Channel::[Int](%d)" % spec["cap"]
            self.type = "Channel[Int]"
        elif f == "prom":
            how, v = spec["how"], spec["v"]
            lit = str(v) if v >= 0 else "(%d)" % v
            if how == "resolved":
                self.create = "Promise.resolved(%s)" % lit
                self.type = "Promise[Int]"
            elif how == "async":
                self.create = "af(%s)" % lit
                self.type = "Promise[Int]"
            else:
                self.create = "af2(%s)" % lit
                self.type = "Promise[Int, String]"
                self.err = True
        elif f == "once":
            how = spec["how"]
            self.pre = ["n%d := 0" % idx]
            if how == "call":
                self.create = "Sync::Once()"
            elif how == "fn":
                self.create = "Sync::Once.fn(-> n%d = n%d + %d)" % (idx, idx, spec["d"])
            else:
                self.create = "Sync::Once.memo(-> n%d + %d)" % (idx, spec["d"])
            self.type = None
        elif f == "wg":
            self.create = "Sync::WaitGroup()"
            self.type = None
            self.checked = False
        elif f == "promwait":
            self.create = "Promise.wait(af(%d), af(%d))" % (spec["a"], spec["b"])
            self.type = None
            self.checked = False
        else:
            raise ValueError(f)

    def mk_iter(self):
        s = self.spec
        coll, d = s["coll"], s["data"]

        def lit(v):
            return str(v) if v >= 0 else "(%d)" % v
        self.elems = None
        if coll == "list":
            self.create = ("[%s].iter" % ", ".join(lit(v) for v in d)) if d else "ArrayList::[Int]().iter"
            self.elems = list(d)
        elif coll == "tuple":
            d = d or [0]
            self.create = "%%[%s].iter" % ", ".join(lit(v) for v in d)
            self.elems = list(d)
        elif coll == "set":
            d = d or [4]      # HashSet::[Int]() is not a usable set at run time (constructor defect, c01.std's HashMap#init finding)
            self.coll_expr = "^[%s]" % ", ".join(lit(v) for v in d)
            self.pre = ["s%d := %s" % (self.idx, self.coll_expr)]
            self.create = "s%d.iter" % self.idx
            self.order_probe = ("s%d" % self.idx, lambda t: "%s.inspect" % t)
            self.members = sorted(d)
        elif coll in ("map", "rec"):
            body = ", ".join("%s => %s" % (lit(k), lit(v)) for k, v in d)
            if not d:
                d = [[7, 7]]
                body = "7 => 7"
            self.coll_expr = ("{ %s }" if coll == "map" else "%%{ %s }") % body
            self.pre = ["s%d := %s" % (self.idx, self.coll_expr)]
            self.create = "s%d.iter" % self.idx
            self.elem = "pair"
            self.order_probe = ("s%d" % self.idx, lambda t: "(%s.key * 1000 + %s.value).inspect" % (t, t))
            self.members = sorted(k * 1000 + v for k, v in d)
        elif coll in ("crange", "orange", "lorange", "rorange"):
            lo, hi = d
            op = {"crange": "...", "orange": "<.<", "lorange": "<..", "rorange": "..<"}[coll]
            self.create = "(%s%s%s).iter" % (lit(lo), op, lit(hi))
            a = lo if coll in ("crange", "rorange") else lo + 1
            b = hi if coll in ("crange", "lorange") else hi - 1
            self.elems = list(range(a, b + 1))
        elif coll in ("erange", "elrange"):
            lo = d[0]
            self.create = "(%s%s).iter" % (lit(lo), "..." if coll == "erange" else "<..")
            self.endless_from = lo if coll == "erange" else lo + 1
        elif coll == "int":
            self.create = "%d.iter" % d[0]
            self.elems = list(range(d[0]))
            self.can_reset = False
        else:
            w = WORDS[d[0]]
            if coll == "chars":
                self.create = '"%s".iter' % w
                self.elem = "char"
                self.elems = [ord(c) for c in w]
            elif coll == "bytes":
                self.create = '"%s".byte_iter' % w
                self.elem = "byte"
                self.elems = list(w.encode("utf-8"))
            else:
                self.create = '"%s".grapheme_iter' % w
                self.elem = "graph"
                self.table = list(w)
                self.elems = list(range(len(w)))
        e = ELEM[self.elem]["ty"]
        self.type = ("ResettableIterator[%s]" if self.can_reset else "Iterator[%s]") % e
        if self.elem in ("char", "byte", "graph"):
            self.type = None     # the checker does not see the String iterators as ResettableIterator[...]: always inline

    def model(self, order=None):
        """s-expression of the object for ocaml/C01 (None: not modelled)"""
        s = self.spec
        f = self.fam
        if f == "gen":
            return ["gen", str(s["np"]), list(s["inits"]), s["body"], s["final"], [str(a) for a in s["args"]]]
        if f == "iter":
            if hasattr(self, "endless_from"):
                return ["from", str(self.endless_from)]
            if self.order_probe is not None:
                if order is None or sorted(order) != self.members:
                    return None
                return ["list"] + [str(k) for k in order]
            return ["list"] + [str(k) for k in self.elems]
        if f == "chan":
            return ["chan", str(s["cap"])]
        if f == "prom":
            if s["how"] == "resolved":
                return ["prom", "r", str(s["v"])]
            if s["how"] == "async":
                return ["prom", "r", str(s["v"] + 1)]
            return ["prom", "e", "0"] if s["v"] < 0 else ["prom", "r", str(s["v"] + 1)]
        if f == "once":
            return ["once"]
        return None


# ------------------------------------------------------------------ op sequences

def gen_ops(r, objs):
    """ops: [name, slot, arg]; the generator keeps channels within capacity and WaitGroup counters non-negative"""
    n = r.range(1, 8)
    st = {}
    for o in objs:
        if o.fam == "chan":
            st[o.idx] = dict(len=0, closed=False, cap=o.spec["cap"])
        if o.fam == "wg":
            st[o.idx] = 0
    ops = []
    for _ in range(n):
        o = r.choice(objs)
        f = o.fam
        i = o.idx
        if f in ("gen", "iter"):
            c = r.below(100)
            endless = hasattr(o, "endless_from")
            if c < 52:
                ops.append(["next", i])
            elif c < 78 and o.can_reset:
                ops.append(["reset", i])
            elif c < 88 and not endless:
                ops.append(["forin", i])
            elif c < 100:
                ops.append(["forin", i, r.range(1, 3)])
        elif f == "chan":
            s = st[i]
            c = r.below(100)
            if c < 35 and (s["len"] < s["cap"] or s["closed"]):
                how = "push" if s["closed"] or r.chance(1, 2) else "shl"
                ops.append([how, i, r.range(-3, 9)])
                if not s["closed"]:
                    s["len"] += 1
            elif c < 55 and (s["len"] > 0 or s["closed"]):
                ops.append(["pop", i])
                s["len"] = max(0, s["len"] - 1)
            elif c < 68 and (s["len"] > 0 or s["closed"]):
                ops.append(["next", i])
                s["len"] = max(0, s["len"] - 1)
            elif c < 80:
                ops.append(["close", i])
                s["closed"] = True
            elif c < 90:
                ops.append(["len", i])
            elif s["closed"]:
                ops.append(["forin", i])
                s["len"] = 0
            elif s["len"] > 0:
                k = r.range(1, s["len"])
                ops.append(["forin", i, k])
                s["len"] -= k
            else:
                ops.append(["len", i])
        elif f == "prom":
            ops.append(["await", i])
        elif f == "once":
            d = o.spec.get("d")
            ops.append(["call", i, d if d is not None else r.range(1, 9)])
        elif f == "wg":
            c = r.below(100)
            cnt = st[i]
            if c < 30:
                k = r.range(0, 3)
                ops.append(["wadd", i, k])
                st[i] += k
            elif c < 45:
                ops.append(["wstart", i])
                st[i] += 1
            elif c < 65 and cnt > 0:
                ops.append(["wend", i])
                st[i] -= 1
            elif c < 80 and cnt > 0:
                k = r.range(0, cnt)
                ops.append(["wremove", i, k])
                st[i] -= k
            elif cnt == 0:
                ops.append(["wwait", i])
            else:
                ops.append(["wadd", i, 0])
        elif f == "promwait":
            ops.append(["await", i])
    if not ops:
        ops.append(["next", objs[0].idx] if objs[0].fam in ("gen", "iter") else ["len", objs[0].idx])
    return ops


MODEL_OP = {"shl": "push"}


def model_input(objs, ops, orders):
    ms = []
    for o in objs:
        m = o.model(orders.get(o.idx))
        if m is None:
            return None
        ms.append(m)
    mops = []
    for op in ops:
        name = MODEL_OP.get(op[0], op[0])
        mops.append([name] + [str(a) for a in op[1:]])
    return sx_str(["proto", str(FUEL), ms, mops])


# ------------------------------------------------------------------ printing a case as an Elk program

def helper_next(o):
    """a method that performs `next` on the object it is handed and feeds the element to typed operations"""
    e = ELEM[o.elem]
    ty = o.type
    if o.fam == "gen":
        ty = "Generator[Int, String]"
    out = ["def nx%d(g: %s, acc: Int): Int" % (o.idx, ty), "  do", "    t := g.next",
           '    println("V " + %s)' % e["show"]("t"), "    acc + %s" % e["add"]("t"),
           "  catch :stop_iteration", '    println("S")', "    acc"]
    if o.fam == "gen":
        out += ["  catch String() as e", '    println("E " + e)', "    acc"]
    out += ["  end", "end"]
    return out


def render_op(k, op, o, inline, pad):
    name = op[0]
    e = ELEM[o.elem]
    v = o.name
    L = []
    if name == "next":
        if inline:
            t = "t%d" % k
            L += ["do", "  %s := %s.next" % (t, v), '  println("V " + %s)' % e["show"](t), "  acc = acc + %s" % e["add"](t),
                  "catch :stop_iteration", '  println("S")']
            if o.err:
                L += ["catch String() as e", '  println("E " + e)']
            L += ["end"]
        else:
            L += ["acc = nx%d(%s, acc)" % (o.idx, v)]
    elif name == "reset":
        L += ["%s.reset" % v, 'println("K")']
    elif name == "forin":
        lim = op[2] if len(op) > 2 else None
        body = ["for v%d in %s" % (k, v), '  println("F " + %s)' % e["show"]("v%d" % k), "  acc = acc + %s" % e["add"]("v%d" % k)]
        if lim is not None:
            L += ["c%d := 0" % k]
            body += ["  c%d = c%d + 1" % (k, k), "  break if c%d >= %d" % (k, lim)]
        body += ["end"]
        if o.err:
            L += ["do"] + ["  " + x for x in body] + ["catch String() as e", '  println("E " + e)', "end"]
        else:
            L += body
        L += ['println("D")']
    elif name in ("push", "shl"):
        lit = str(op[2]) if op[2] >= 0 else "(%d)" % op[2]
        if name == "shl":
            L += ["%s << %s" % (v, lit), 'println("K")']
        else:
            L += ["do", "  %s.push(%s)" % (v, lit), '  println("K")', "catch Channel::ClosedError() as e", '  println("C")', "end"]
    elif name == "pop":
        t = "t%d" % k
        L += ["do", "  %s := %s.pop" % (t, v), '  println("V " + %s)' % _int_show(t), "  acc = acc + %s" % t,
              "catch Channel::ClosedError() as e", '  println("C")', "end"]
    elif name == "close":
        L += ["do", "  %s.close" % v, '  println("K")', "catch Channel::ClosedError() as e", '  println("C")', "end"]
    elif name == "len":
        L += ['println("V " + %s)' % _int_show("(%s.length * 100 + %s.left_capacity * 10 + %s.capacity)" % (v, v, v))]
    elif name == "await":
        t = "t%d" % k
        body = ["%s := await %s" % (t, v), 'println("V " + %s)' % _int_show(t), "acc = acc + %s" % t]
        if o.err:
            L += ["do"] + ["  " + x for x in body] + ["catch String() as e", '  println("E " + e)', "end"]
        else:
            L += body
    elif name == "call":
        n = "n%d" % o.idx
        how = o.spec["how"]
        if how == "call":
            L += ["%s.call(-> %s = %s + %d)" % (v, n, n, op[2]), 'println("V " + %s)' % _int_show(n)]
        elif how == "fn":
            L += ["%s.()" % v, 'println("V " + %s)' % _int_show(n)]
        else:
            L += ["t%d := %s.()" % (k, v), 'println("V " + %s)' % _int_show("t%d" % k)]
    elif name == "wadd":
        L += ["%s.add(%d)" % (v, op[2]), 'println("K")']
    elif name == "wremove":
        L += ["%s.remove(%d)" % (v, op[2]), 'println("K")']
    elif name == "wstart":
        L += ["%s.start" % v, 'println("K")']
    elif name == "wend":
        L += ["%s.end" % v, 'println("K")']
    elif name == "wwait":
        L += ["%s.wait" % v, 'println("K")']
    else:
        raise ValueError(op)
    return [pad + x for x in L]


def program(case):
    objs = [Obj(s, i) for i, s in enumerate(case["objs"])]
    ops = case["ops"]
    inl = case["inl"]
    place = case["place"]
    out = []
    src_all = json.dumps(case["objs"])
    if '"h"' in src_all:
        out.append(HELPERS)
    if any(o.fam in ("prom", "promwait") for o in objs):
        out.append(ASYNC)
    for o in objs:
        out += o.decls
    used_helpers = set()
    for k, op in enumerate(ops):
        o = objs[op[1]]
        if op[0] == "next" and not inl[k] and o.type is not None:
            used_helpers.add(o.idx)
    for o in objs:
        if o.idx in used_helpers:
            out += helper_next(o)
    body = []
    creation = []
    for o in objs:
        creation += o.pre
        if o.order_probe is not None:
            coll, show = o.order_probe
            creation += ['ord%d := ""' % o.idx, "for q%d in %s" % (o.idx, coll),
                         "  ord%d = ord%d + %s + \",\"" % (o.idx, o.idx, show("q%d" % o.idx)), "end",
                         'println("ORDER %d " + ord%d)' % (o.idx, o.idx)]
        creation.append("%s := %s" % (o.name, o.create))
    for k, op in enumerate(ops):
        o = objs[op[1]]
        inline = inl[k] or o.idx not in used_helpers
        body += render_op(k, op, o, inline, "")
    if place == "top":
        out += creation + ["acc := 0"] + body + ['println("A " + acc.inspect)']
    elif place == "meth":
        out += ["def drive: Int"] + ["  " + x for x in creation + ["acc := 0", "pad := 7"] + body + ["acc + pad - 7"]] + ["end",
                'println("A " + drive().inspect)']
    else:   # "param": objects are created at top level and handed to a method with locals of its own
        typed = all(o.type is not None for o in objs)
        if not typed or any(o.pre for o in objs if o.fam == "once"):
            out += creation + ["acc := 0"] + body + ['println("A " + acc.inspect)']
        else:
            params = ", ".join("%s: %s" % (o.name, o.type) for o in objs)
            out += ["def drive(%s): Int" % params] + ["  " + x for x in ["acc := 0", "pad := 7"] + body + ["acc + pad - 7"]] + ["end"]
            out += creation + ['println("A " + drive(%s).inspect)' % ", ".join(o.name for o in objs)]
    return "\n".join(out) + "\n", objs


# ------------------------------------------------------------------ expected output from the model's events

def expected_lines(objs, ops, res):
    """res = the model's `out=` field; -> (lines, acc)"""
    per_op = res.split("|")
    lines = []
    acc = 0
    for op, evs in zip(ops, per_op):
        o = objs[op[1]]
        e = ELEM[o.elem]
        name = op[0]
        for ev in (evs.split(",") if evs else []):
            if ev[0] == "V":
                k = int(ev[1:])
                if name in ("next", "forin"):
                    lines.append(("F " if name == "forin" else "V ") + e["exp"](o, k))
                    acc += e["w"](k)
                else:
                    lines.append("V " + str(2 * k + 1))
                    if name in ("pop", "await"):
                        acc += k
            elif ev == "S":
                lines.append("S")
            elif ev[0] == "E":
                lines.append("E t" + ev[1:])
            elif ev == "C":
                lines.append("C")
            elif ev == "K":
                lines.append("K")
        if name == "forin":
            lines.append("D")
    lines.append("A " + str(acc))
    return lines


# ------------------------------------------------------------------ generation of cases

FAMILIES = [("gen", 44), ("genclo", 5), ("iter", 24), ("chan", 12), ("prom", 7), ("once", 5), ("wg", 2), ("promwait", 1)]


def obj_spec(r, fam):
    if fam == "gen":
        return gen_spec(r)
    if fam == "genclo":
        return gen_spec(r, clo=True)
    if fam == "iter":
        return iter_spec(r)
    if fam == "chan":
        return dict(fam="chan", cap=r.range(1, 3))
    if fam == "prom":
        return dict(fam="prom", how=r.choice(["async", "async_throw", "resolved"]), v=r.range(-2, 5))
    if fam == "once":
        how = r.choice(["call", "fn", "memo"])
        return dict(fam="once", how=how, **({} if how == "call" else {"d": r.range(1, 9)}))
    if fam == "wg":
        return dict(fam="wg")
    return dict(fam="promwait", a=r.range(0, 3), b=r.range(0, 3))


def pick_family(r):
    tot = sum(w for _, w in FAMILIES)
    c = r.below(tot)
    for f, w in FAMILIES:
        if c < w:
            return f
        c -= w
    return FAMILIES[0][0]


def gen_case(r):
    fams = [pick_family(r)]
    if r.chance(1, 5):
        fams.append(pick_family(r))
    specs = [obj_spec(r, f) for f in fams]
    objs = [Obj(s, i) for i, s in enumerate(specs)]
    ops = gen_ops(r, objs)
    inl = [r.chance(3, 5) for _ in ops]
    place = r.choice(["top", "meth", "meth", "param"])
    return dict(objs=specs, ops=ops, inl=inl, place=place)


def family_of(case):
    names = []
    for s in case["objs"]:
        f = s["fam"]
        if f == "gen" and s.get("clo"):
            f = "gen+clo"
        if f == "iter":
            f = "iter." + s["coll"]
        if f not in names:
            names.append(f)
    return "+".join(names)


def shape_of(case):
    two = len(case["objs"]) > 1
    return "-".join((op[0] + (str(op[1]) if two else "")) + ("@%d" % op[2] if op[0] == "forin" and len(op) > 2 else "")
                    for op in case["ops"])


def read_corpus():
    out = []
    if os.path.exists(CORPUS):
        for n, line in enumerate(open(CORPUS)):
            line = line.strip()
            if not line or line.startswith("#"):
                continue
            out.append(("k%d" % n, json.loads(line)))
    return out


# ------------------------------------------------------------------ running

CRASH = ("go_panic", "go_fatal", "signal")


def evaluate(elk, m, cases, workdir, tag):
    """-> {id: dict(cls, out, verdict, detail, src, checked)}; verdict in ok / crash / mismatch / rejected / timeout /
    unmodelled / fuel / elk_error"""
    progs, objsof = [], {}
    for cid, case in cases:
        src, objs = program(case)
        progs.append((cid, src))
        objsof[cid] = objs
    res = vlib.run_programs(elk, progs, os.path.join(workdir, tag), timeout=60, env={"GOMAXPROCS": "4"})
    srcs = dict(progs)
    verdicts = {}
    ids, inputs = [], {}
    for cid, case in cases:
        rc, out, cls = res[cid]
        objs = objsof[cid]
        v = dict(cls=cls, out=out, src=srcs[cid], checked=all(o.checked for o in objs), verdict="ok", detail="")
        verdicts[cid] = v
        if cls in CRASH:
            v["verdict"] = "crash"
            continue
        if "[FAIL]" in out or "[ERROR]" in out and cls != "ok":
            v["verdict"] = "rejected"
            m_ = re.search(r"\[FAIL\] ([^\n]*)", out)
            v["detail"] = re.sub(r"`[^`]*`", "`..`", m_.group(1))[:80] if m_ else "?"
            continue
        if cls == "timeout":
            v["verdict"] = "timeout"
            continue
        if not v["checked"]:
            continue
        orders = {}
        for mm in re.finditer(r"^ORDER (\d+) ([-\d,]*)$", out, re.M):
            orders[int(mm.group(1))] = [int(x) for x in mm.group(2).split(",") if x]
        mi = model_input(objs, case["ops"], orders)
        if mi is None:
            if any(o.order_probe is not None for o in objs):
                v["verdict"] = "mismatch"
                v["detail"] = "the collection's own for-in did not print its members exactly once: " + out[:200]
            else:
                v["verdict"] = "unmodelled"
            continue
        ids.append(cid)
        inputs[cid] = mi
    rc, exp, mout = vlib.run_model(m, ids, inputs)
    casemap = dict(cases)
    for cid in ids:
        v = verdicts[cid]
        e = exp.get(cid, "")
        mm = re.match(r"wt=(\d) res=(\w+) acc=(-?\d+) out=(.*)$", e)
        if rc != 0 or not mm:
            v["verdict"] = "model-broken"
            v["detail"] = e or mout[-300:]
            continue
        if mm.group(1) != "1" or mm.group(2) in ("crash", "block"):
            v["verdict"] = "model-broken"
            v["detail"] = "generator produced a history the model rejects: " + e
            continue
        if mm.group(2) == "fuel":
            v["verdict"] = "fuel"
            continue
        want = expected_lines(objsof[cid], casemap[cid]["ops"], mm.group(4))
        got = [l for l in v["out"].splitlines() if not l.startswith("ORDER ")]
        v["model"] = want
        if v["cls"] != "ok":
            v["verdict"] = "elk_error"
            v["detail"] = v["out"].strip()[-200:]
        elif got != want:
            v["verdict"] = "mismatch"
            k = 0
            while k < len(got) and k < len(want) and got[k] == want[k]:
                k += 1
            v["detail"] = "line %d: implementation %r, model %r" % (k + 1, got[k] if k < len(got) else None,
                                                                    want[k] if k < len(want) else None)
    return verdicts


def shrink(elk, m, case, bad, workdir):
    """greedy reduction while the same verdict persists: drop one object, drop single operations, drop a break
    limit, move to the top level.  All candidates of a round run as one parallel batch; <= 12 rounds."""
    cur = case
    for _ in range(12):
        cands = []
        if len(cur["objs"]) > 1:
            for keep in (0, 1):
                ops = [[op[0], 0] + op[2:] for op in cur["ops"] if op[1] == keep]
                inl = [i for i, op in zip(cur["inl"], cur["ops"]) if op[1] == keep]
                if ops:
                    cands.append(dict(objs=[cur["objs"][keep]], ops=ops, inl=inl, place=cur["place"]))
        if len(cur["ops"]) > 1:
            for k in range(len(cur["ops"]) - 1, -1, -1):
                cands.append(dict(cur, ops=cur["ops"][:k] + cur["ops"][k + 1:], inl=cur["inl"][:k] + cur["inl"][k + 1:]))
        for k, op in enumerate(cur["ops"]):
            if op[0] == "forin" and len(op) > 2:
                cands.append(dict(cur, ops=cur["ops"][:k] + [op[:2]] + cur["ops"][k + 1:]))
        if cur["place"] != "top":
            cands.append(dict(cur, place="top"))
        if not all(cur["inl"]):
            cands.append(dict(cur, inl=[True] * len(cur["inl"])))
        if not cands:
            break
        named = [("s%d" % i, c) for i, c in enumerate(cands)]
        vs = evaluate(elk, m, named, workdir, "shrink")
        nxt = None
        for cid, c in named:
            if vs[cid]["verdict"] == bad:
                nxt = c
                break
        if nxt is None:
            break
        cur = nxt
    return cur


def op_names(case, slot):
    return [op[0] for op in case["ops"] if op[1] == slot]


def embeds(small, case):
    """the minimal failing sequence [small] (one object) occurs as a subsequence of the operations on an object of the
    same family in [case]: taken as the same class without shrinking again"""
    if len(small["objs"]) != 1:
        return False
    want = op_names(small, 0)
    f = family_of(dict(objs=small["objs"]))
    for i, s in enumerate(case["objs"]):
        if family_of(dict(objs=[s])) != f:
            continue
        it = iter(op_names(case, i))
        if all(any(x == y for y in it) for x in want):
            return True
    return False


def panic_line(out):
    m_ = re.search(r"(panic: [^\n]*|fatal error: [^\n]*)", out)
    return m_.group(1)[:200] if m_ else (out.strip().splitlines() or ["?"])[0][:200]


def run_proto(ctx, elk, m):
    r = ctx.rng(STREAM)
    corpus = read_corpus()
    n = ctx.n(260, 9000)
    cases = list(corpus) + [("p%d" % i, gen_case(r)) for i in range(n)]
    st = dict(evaluations=0, distinct=set(), verdicts={}, families={}, ops={}, places={}, reject_reasons={}, checked=0,
              crash_only=0, lengths={})
    verd = evaluate(elk, m, cases, ctx.workdir, "proto")
    reported = set()
    samples = []
    minimal = []
    for cid, case in cases:
        v = verd[cid]
        fam = family_of(case)
        vd = v["verdict"]
        st["verdicts"][vd] = st["verdicts"].get(vd, 0) + 1
        if vd == "rejected":
            st["reject_reasons"][v["detail"]] = st["reject_reasons"].get(v["detail"], 0) + 1
            continue
        if vd == "model-broken":
            ctx.broke("correspondence %s: the model driver gave no usable answer" % STREAM, v["detail"] + "\n" + json.dumps(case))
            continue
        if vd in ("timeout", "fuel", "unmodelled"):
            continue
        st["evaluations"] += 1
        st["distinct"].add(json.dumps(case, sort_keys=True))
        st["families"][fam] = st["families"].get(fam, 0) + 1
        st["places"][case["place"]] = st["places"].get(case["place"], 0) + 1
        st["lengths"][len(case["ops"])] = st["lengths"].get(len(case["ops"]), 0) + 1
        for op in case["ops"]:
            st["ops"][op[0]] = st["ops"].get(op[0], 0) + 1
        if v["checked"]:
            st["checked"] += 1
        else:
            st["crash_only"] += 1
        if len(samples) < 2 and cid.startswith("p"):
            samples.append(v["src"])
        if vd in ("crash", "mismatch", "elk_error"):
            st["failing_cases"] = st.get("failing_cases", 0) + 1
            if any(b == vd and embeds(sm, case) for b, sm in minimal):
                continue                      # same class as an already minimised failure
            if len(minimal) >= 8:
                small, sv = case, v           # enough shrinking for one run: report as is
            else:
                small = shrink(elk, m, case, vd, ctx.workdir)
                sv = evaluate(elk, m, [("f", small)], ctx.workdir, "final")["f"]
                if sv["verdict"] != vd:
                    small, sv = case, v
                minimal.append((vd, small))
            fam = family_of(small)
            shape = shape_of(small)
            if vd == "crash":
                key = "proto:%s:%s:crash" % (fam, shape)
                what = "checker-accepted program kills the interpreter (%s): %s" % (sv["cls"], panic_line(sv["out"]))
                oracle = "a program the checker accepts must not end in a Go panic / fatal error / signal"
            else:
                key = "proto:%s:%s:%s" % (fam, shape, vd)
                what = "protocol sequence %s on %s: %s" % (shape, fam, sv["detail"])
                oracle = "printed values must equal those of the extracted protocol model (Model/C01_Proto.v; reset = start over)"
            if key in reported:
                continue
            reported.add(key)
            ctx.fail(key, what, stream=STREAM, case=json.dumps(small), impl=(sv["cls"] + ": " + sv["out"][-600:]),
                     model="\n".join(sv.get("model", [])) or "(crash-only family)", oracle=oracle)
    ctx.stream(STREAM, st["evaluations"], len(st["distinct"]),
               "seeded method-call sequences (1-8 operations) on 1-2 stateful std objects inside a small typed program "
               "(top level / inside a method with locals / objects passed to a method; each `next` inline in do/catch or "
               "through a typed helper method): generator methods with and without parameters, locals, an instance-variable "
               "receiver (next, reset before the first next / mid-iteration / after exhaustion, for-in, for-in with break), "
               "iterators of ArrayList, ArrayTuple, HashSet, HashMap, HashRecord, the six range kinds, Int, String "
               "chars/bytes/graphemes (next, reset, for-in), buffered channels within capacity (push, <<, pop, next, close, "
               "length, for-in), promises awaited repeatedly, Sync::Once call/fn/memo; every delivered value feeds a typed "
               "operation. Gate 1 (all families): outcome class not go_panic/go_fatal/signal. Gate 2 (families gen, iter, chan, "
               "prom, once): the whole stdout equals the lines predicted by the extracted model Model/C01_Proto.v (generators on "
               "the machine of Model/C15_Gen.v, reset = start over). Crash-only: gen+clo (closure capturing a generator local), "
               "wg, promwait. Failing cases are shrunk (drop operations / second object / break limit / placement); the key is "
               "family + remaining operation sequence + verdict. Corpus first.",
               samples,
               dict(families=st["families"], operations=st["ops"], placements=st["places"], sequence_lengths=st["lengths"],
                    verdicts=st["verdicts"], reference_checked=st["checked"], crash_only=st["crash_only"], failing_cases=st.get("failing_cases", 0),
                    checker_rejected=st["verdicts"].get("rejected", 0), reject_reasons=st["reject_reasons"],
                    corpus_cases=len(corpus)))
    tot = len(cases)
    skipped = sum(st["verdicts"].get(k, 0) for k in ("rejected", "timeout", "fuel", "unmodelled"))
    if tot and skipped * 2 > tot:
        ctx.broke("correspondence %s: more than half of the generated programs were not evaluated" % STREAM, str(st["verdicts"]) + str(st["reject_reasons"]))
