"""C25 — channels and sync primitives keep their contracts under any schedule."""
import itertools
import os
import re
import vlib

CORPUS_MISUSE = os.path.join(vlib.ROOT, "corpus", "C25.misuse.txt")
CORPUS_ELK = os.path.join(vlib.ROOT, "corpus", "C25.elk.txt")


# ---------------------------------------------------------------- shared helpers

def tok_class(t):
    """ok / ok:v -> ok ; err:251 -> err251 ; panic:203 -> panic203 ; fatal:301 -> fatal301 ; blocked ; missing"""
    if t is None:
        return "missing"
    p = t.split(":")
    if p[0] == "ok":
        return "ok" if len(p) == 1 else "okval"
    if p[0] in ("err", "panic", "fatal"):
        return p[0] + (p[1] if len(p) > 1 else "")
    return p[0]


def op_name(op):
    f = op.split(":")
    if f[0] == "sel":
        kinds = "".join(sorted(set(c[0] for c in f[1].split(",") if c)))
        return "sel-" + {"S": "send", "R": "recv", "RS": "mixed"}.get(kinds, "none")
    return f[0]


def first_diff(ops, obs, exp):
    for i in range(max(len(obs), len(exp))):
        a = obs[i] if i < len(obs) else None
        b = exp[i] if i < len(exp) else None
        if a != b:
            return i, a, b
    return None


def mismatch_key(prefix, kind, ops, obs, exp):
    d = first_diff(ops, obs, exp)
    if d is None:
        return None
    i, a, b = d
    op = op_name(ops[i]) if i < len(ops) else "end"
    if a is not None and a.split(":")[0] in ("panic", "fatal"):
        return "%s:%s:%s:%s" % (prefix, kind, op, tok_class(a))
    return "%s:%s:%s:exp-%s:got-%s" % (prefix, kind, op, tok_class(b), tok_class(a))


def run_model_lines(m, lines, fx="1"):
    """lines: list of (id, input) -> {id: [tokens]}"""
    inp = "".join("%s\t%s\n" % (i, x) for i, x in lines)
    rc, out = vlib.sh([m, fx], inp=inp, timeout=3000)
    res = {}
    for l in out.splitlines():
        p = l.split("\t")
        if len(p) >= 2:
            res[p[0]] = p[1].split()
    return rc, res, out


# ---------------------------------------------------------------- c25.misuse (Go API, exhaustive short sequences)

def enum_sequences(maxlen):
    """every op sequence of length <= maxlen per primitive; push values are made distinct later"""
    cases = []
    alph = {
        "mutex": ["lock", "unlock"],
        "rw": ["lock", "unlock", "rlock", "runlock"],
        "ro": ["lock", "unlock", "rlock", "runlock"],
        "wg": ["add:1", "add:-1", "rem:1", "rem:2", "end", "wait"],
    }
    lens = {"mutex": maxlen + 2, "rw": maxlen, "ro": maxlen, "wg": maxlen}
    for kind, ops in alph.items():
        for n in range(1, lens[kind] + 1):
            for seq in itertools.product(ops, repeat=n):
                cases.append((kind, "", list(seq)))
    for kind in ("chan", "nchan"):
        for cap in (0, 1, 2):
            for n in range(1, maxlen + 1):
                for seq in itertools.product(["push", "pop", "next", "close"], repeat=n):
                    ops, k = [], 0
                    for o in seq:
                        if o == "push":
                            ops.append("push:0:%d" % (10 + k))
                            k += 1
                        else:
                            ops.append(o + ":0")
                    cases.append((kind, str(cap), ops))
    # boundary operands of WaitGroup
    for seq in (["add:2147483647", "add:1"], ["add:2147483648"], ["add:-2147483648"], ["add:2147483647", "start"],
                ["add:3", "rem:-1", "rem:0", "rem:3", "wait"], ["add:3", "rem:4", "rem:3", "wait"], ["start", "start", "rem:2147483648", "rem:2", "wait"],
                ["add:9223372036854775807"], ["add:1", "add:-9223372036854775807"], ["rem:9223372036854775807"]):
        cases.append(("wg", "", seq))
    return cases


def case_input(kind, params, ops):
    return ("%s %s | %s" % (kind, params, " ".join(ops))).replace("  ", " ")


def model_input(inp):
    # NativeChannel and ROMutex have the contracts of ChannelOfValue and RWMutex's read side
    if inp.startswith("nchan"):
        return inp[1:]
    if inp.startswith("ro "):
        return "rw " + inp[3:]
    return inp


FATALS = [("sync: unlock of unlocked mutex", "fatal:301"), ("sync: Unlock of unlocked RWMutex", "fatal:302"),
          ("sync: RUnlock of unlocked RWMutex", "fatal:303"), ("all goroutines are asleep", "fatal:398")]


def fatal_token(out):
    for pat, tok in FATALS:
        if pat in out:
            return tok
    return "fatal:399"


def run_harness_resilient(h, mode, lines, workdir, name, timeout=600):
    """lines: [(id, input, bidx)].  Runs the harness; when the process dies at a case the death is recorded for that
    case (fatal token appended to the outcomes it had printed... none: the whole case is 'fatal') and the harness is
    restarted on the remaining cases.  Returns {id: observed string}, number of process deaths."""
    obs = {}
    deaths = 0
    rest = list(lines)
    rounds = 0
    while rest and rounds < 5000:
        rounds += 1
        path = os.path.join(workdir, "%s.in" % name)
        with open(path, "w") as f:
            for i, inp, b in rest:
                f.write("%s\t%s\t%d\n" % (i, inp, b))
        rc, out = vlib.sh([h, "-extra", mode, "-input", path], timeout=timeout, env=vlib.elk_env())
        started = None
        for l in out.splitlines():
            p = l.split("\t")
            if p[0] == "start" and len(p) >= 2:
                started = p[1]
            elif len(p) >= 3 and p[0] == started:
                obs[p[0]] = p[2]
                started = None
        done = set(obs)
        if started is not None and started not in done:
            deaths += 1
            obs[started] = fatal_token(out) if rc != 124 else "timeout"
            done.add(started)
        new_rest = [x for x in rest if x[0] not in done]
        if len(new_rest) == len(rest):
            break      # no progress: the harness cannot run at all
        rest = new_rest
    return obs, deaths, rest


def stream_misuse(ctx, h, m):
    stream = "c25.misuse"
    maxlen = ctx.n(4, 5)
    cases = []
    seen = set()
    if os.path.exists(CORPUS_MISUSE):
        for l in open(CORPUS_MISUSE):
            l = l.strip()
            if l and not l.startswith("#"):
                cases.append(l)
                seen.add(l)
    ncorpus = len(cases)
    for kind, params, ops in enum_sequences(maxlen):
        inp = case_input(kind, params, ops)
        if inp not in seen:
            seen.add(inp)
            cases.append(inp)
    ids = ["m%d" % i for i in range(len(cases))]
    rc, exp, mout = run_model_lines(m, [(i, model_input(c)) for i, c in zip(ids, cases)])
    if rc != 0 or len(exp) != len(cases):
        ctx.broke("correspondence %s: model driver failed (rc %d, %d/%d answers)" % (stream, rc, len(exp), len(cases)), mout[-2000:])
        return
    # keep a sequence only when the model runs it to its last op (an earlier block makes the rest unreachable)
    todo = []
    for i, c in zip(ids, cases):
        nops = len(c.split("|")[1].split())
        e = exp[i]
        if len(e) != nops:
            continue
        todo.append((i, c, e.index("blocked") if "blocked" in e else -1))
    shards = [todo[k::8] for k in range(8)]

    def one(a):
        k, sh = a
        return run_harness_resilient(h, "misuse", sh, ctx.workdir, "misuse%d" % k)
    results = vlib.parallel_map(one, list(enumerate(shards)), workers=8)
    obs, deaths, unrun = {}, 0, 0
    for o, d, rest in results:
        obs.update(o)
        deaths += d
        unrun += len(rest)
    if unrun:
        ctx.broke("correspondence %s: harness could not run %d sequences" % (stream, unrun))
    dist, nfail, distinct = {}, 0, 0
    keys_seen = {}
    for i, c, b in todo:
        kind = c.split()[0]
        ops = c.split("|")[1].split()
        o = (obs.get(i) or "missing").split()
        e = exp[i]
        dist[kind] = dist.get(kind, 0) + 1
        if any(t.startswith(("err", "blocked")) for t in e):
            distinct += 1
        if len(o) == 1 and o[0].startswith(("fatal", "timeout", "missing")) and len(ops) > 1:
            # the process died somewhere in this sequence: locate the op with the model's help (first op whose
            # fixed-model outcome is an error is where an unguarded wrapper crashes)
            j = next((k for k, t in enumerate(e) if t.startswith("err")), len(e) - 1)
            o = e[:j] + [o[0]]
        if o != e:
            nfail += 1
            key = mismatch_key("misuse", kind, ops, o, e)
            keys_seen[key] = keys_seen.get(key, 0) + 1
            if keys_seen[key] <= 3:
                d = first_diff(ops, o, e)
                ctx.fail(key, "%s: implementation [%s], model [%s] (first difference at op %d `%s`)" %
                         (c, " ".join(o), " ".join(e), d[0] + 1, ops[d[0]] if d[0] < len(ops) else "-"),
                         stream=stream, case=c, impl=" ".join(o), model=" ".join(e),
                         oracle="wrapper outcome differs from the proved model / wrapper crashed instead of returning an Elk error")
    ctx.stream(stream, len(todo), distinct,
               "every op sequence of length <= %d (Mutex <= %d) per primitive, single-threaded on fresh objects through the value-package "
               "wrappers: ChannelOfValue and NativeChannel[Float] with capacity 0/1/2 (push pop next close), Mutex (lock unlock), RWMutex and "
               "ROMutex (lock unlock rlock runlock), WaitGroup (add 1, add -1, remove 1, remove 2, end, wait + boundary operands around 2^31 "
               "and 2^63); sequences the model blocks before their last op are dropped (duplicates of their prefix); every op runs under a "
               "watchdog (60 s; 40 ms for the one op the model expects to block); a process death (Go fatal) is attributed to its sequence "
               "and the harness restarted; outcome per op (ok, value, error code, panic, fatal, blocked) compared with the extracted model of "
               "the fixed wrappers; non-trivial = the sequence contains an error return or a blocking op; distinct by input" % (maxlen, maxlen + 2),
               [{"input": c, "observed": obs.get(i), "model": " ".join(exp[i])} for i, c, b in todo[:2] + todo[-2:]],
               dist, mismatches=nfail, process_deaths=deaths, corpus_cases=ncorpus, failure_classes=keys_seen)


# ---------------------------------------------------------------- c25.sched (Go API, controlled multi-thread scripts)

CORPUS_SCHED = os.path.join(vlib.ROOT, "corpus", "C25.sched.txt")
SCHED_OPS = {"rw": ["lock", "unlock", "rlock", "runlock"], "ro": ["lock", "unlock", "rlock", "runlock"], "mutex": ["lock", "unlock"]}


def sched_input(kind, steps):
    return "sched %s | %s" % (kind, " ".join("%d:%s" % (t, o) for t, o in steps))


def sched_parse(inp):
    head, body = inp.split("|")
    return head.split()[1], [(int(x.split(":")[0]), x.split(":")[1]) for x in body.split()]


def growth_strings(n, maxthreads):
    """thread assignments up to renaming: thread k+1 appears only after thread k"""
    def rec(prefix, used):
        if len(prefix) == n:
            yield list(prefix)
            return
        for t in range(min(used + 1, maxthreads)):
            prefix.append(t)
            yield from rec(prefix, max(used, t + 1))
            prefix.pop()
    yield from rec([], 0)


def sched_tok(t):
    """'ok+1,2' -> ('ok', [1, 2])"""
    imm, _, w = t.partition("+")
    return imm, sorted(int(x) for x in w.split(",") if x)


def sched_property(kind, steps, toks):
    """the property evaluated on the implementation's own outcomes, without the model: holders are counted from the calls that
    RETURNED ok; returns the first violated clause or None"""
    w = r = 0
    pending = {}

    def grant(op):
        nonlocal w, r
        if op == "lock":
            if w or r:
                return "lock-granted-while-held"
            w += 1
        elif op == "rlock":
            if w:
                return "read-lock-granted-under-writer"
            r += 1
        elif op == "unlock":
            if not w:
                return "unlock-of-unheld-lock-succeeded"
            w -= 1
        elif op == "runlock":
            if not r:
                return "read-unlock-of-unheld-lock-succeeded"
            r -= 1
        return None
    if len(toks) != len(steps) + 1 or not toks[-1].startswith("end:"):
        return "crash-or-truncated"
    for (t, op), tok in zip(steps, toks):
        imm, woken = sched_tok(tok)
        if imm == "busy":
            continue
        if imm == "blocked":
            if op in ("unlock", "runlock"):
                return "unlock-blocked"
            pending[t] = op
        elif imm == "ok":
            bad = grant(op)
            if bad:
                return bad
        elif imm.startswith("err:"):
            if op in ("lock", "rlock"):
                return "lock-returned-error"
            if (op == "unlock" and w) or (op == "runlock" and r):
                return "unlock-of-held-lock-refused"
            if imm != {"mutex": "err:255"}.get(kind, "err:256" if op == "unlock" else "err:257"):
                return "wrong-error"
        else:
            return "crash-or-truncated"
        for x in sorted(woken, key=lambda x: pending.get(x) == "lock"):     # readers first
            if x not in pending:
                return "woken-call-was-not-blocked"
            bad = grant(pending.pop(x))
            if bad:
                return bad
    writers_waiting = any(o == "lock" for o in pending.values())
    for t, op in pending.items():
        if op == "rlock" and not w and not writers_waiting:
            return "blocked-reader-never-woken"
        if op == "lock" and not w and not r:
            return "blocked-lock-never-woken"
    return None


def sched_state_class(steps, toks, upto):
    """kinds of the calls blocked before step `upto` according to the token list"""
    pending = {}
    for (t, op), tok in list(zip(steps, toks))[:upto]:
        imm, woken = sched_tok(tok)
        if imm == "blocked":
            pending[t] = op
        for x in woken:
            pending.pop(x, None)
    ks = "".join(sorted(set("W" if o == "lock" else "R" for o in pending.values())))
    return "blocked-" + (ks or "none")


def sched_key(kind, steps, o, alts):
    """canonical class of the first difference against the closest model alternative"""
    def common(a):
        n = 0
        while n < len(a) and n < len(o) and a[n] == o[n]:
            n += 1
        return n
    e = max(alts, key=common)
    i = common(e)
    a = o[i] if i < len(o) else None
    b = e[i] if i < len(e) else None
    op = steps[i][1] if i < len(steps) else "end"
    ctx_ = sched_state_class(steps, e, i)
    if a is None or a.split(":")[0] in ("panic", "fatal", "timeout", "missing"):
        return "sched:%s:%s:%s:%s" % (kind, op, tok_class(a), ctx_), i, e
    if op == "end":
        cnt = lambda x: len([y for y in x[4:].split(",") if y and y != "-"])
        return "sched:%s:end:still-blocked-exp%d-got%d" % (kind, cnt(b), cnt(a)), i, e
    ia, wa = sched_tok(a)
    ib, wb = sched_tok(b)
    if ia != ib:
        return "sched:%s:%s:exp-%s:got-%s:%s" % (kind, op, tok_class(ib), tok_class(ia), ctx_), i, e
    return "sched:%s:%s:woken-exp%d-got%d:%s" % (kind, op, len(wb), len(wa), ctx_), i, e


def stream_sched(ctx, h, m):
    stream = "c25.sched"
    rng = ctx.rng(stream)
    thorough = ctx.tier == "thorough"
    cases, seen = [], set()

    def add(inp, fam):
        if inp not in seen:
            seen.add(inp)
            cases.append((inp, fam))
    if os.path.exists(CORPUS_SCHED):
        for l in open(CORPUS_SCHED):
            l = l.strip()
            if l and not l.startswith("#"):
                add(l, "corpus")
    ncorpus = len(cases)
    # family A: every call on its own thread (no step is ever refused as busy), every op sequence up to a length
    la = {"rw": ctx.n(5, 6), "ro": ctx.n(4, 6), "mutex": ctx.n(7, 10)}
    for kind in ("rw", "ro", "mutex"):
        for n in range(1, la[kind] + 1):
            for seq in itertools.product(SCHED_OPS[kind], repeat=n):
                add(sched_input(kind, list(enumerate(seq))), "own-thread")
    # family B: 2-3 (thorough: up to 4) named threads that are reused; assignments up to renaming
    cand = []
    if thorough:
        for kind in ("rw", "ro"):
            for n in range(2, 6):
                for g in growth_strings(n, 3):
                    if max(g) + 1 < n:
                        for seq in itertools.product(SCHED_OPS[kind], repeat=n):
                            cand.append(sched_input(kind, list(zip(g, seq))))
        for n in range(2, 9):
            for g in growth_strings(n, 3):
                if max(g) + 1 < n:
                    for seq in itertools.product(SCHED_OPS["mutex"], repeat=n):
                        cand.append(sched_input("mutex", list(zip(g, seq))))
    nrand = ctx.n(2600, 30000)
    for _ in range(nrand):
        kind = rng.choice(["rw", "rw", "rw", "ro", "ro", "mutex"])
        n = rng.range(3, 7 if thorough else 6)
        nt = rng.range(2, 4 if thorough else 3)
        g, used = [], 0
        for _i in range(n):
            t = rng.below(min(used + 1, nt))
            used = max(used, t + 1)
            g.append(t)
        cand.append(sched_input(kind, [(t, rng.choice(SCHED_OPS[kind])) for t in g]))
    cand = [c for c in dict.fromkeys(cand) if c not in seen]
    rc, expc, mout = run_model_lines(m, [("b%d" % i, c) for i, c in enumerate(cand)])
    if rc != 0 or len(expc) != len(cand):
        ctx.broke("correspondence %s: model driver failed on the candidate scripts (rc %d, %d/%d answers)" % (stream, rc, len(expc), len(cand)), mout[-2000:])
        return
    nbusy = 0
    for i, c in enumerate(cand):
        if "busy" in expc["b%d" % i]:
            nbusy += 1          # some step addresses a thread that is still inside a call: not a run of real threads
        else:
            add(c, "named-threads")
    ids = ["s%d" % i for i in range(len(cases))]
    rc, out = vlib.sh([m, "1"], inp="".join("%s\t%s\n" % (i, c) for i, (c, _) in zip(ids, cases)), timeout=3000)
    alts = {}
    for l in out.splitlines():
        p = l.split("\t")
        if len(p) >= 2:
            alts[p[0]] = [a.split() for a in p[1].split(" || ")]
    rc2, out2 = vlib.sh([m, "1"], inp="".join("%s\t%s\n" % (i, c.replace("sched ", "sched-early ", 1)) for i, (c, _) in zip(ids, cases) if not c.startswith("sched mutex")), timeout=3000)
    early = {}
    for l in out2.splitlines():
        p = l.split("\t")
        if len(p) >= 2:
            early[p[0]] = [a.split() for a in p[1].split(" || ")]
    if rc != 0 or rc2 != 0 or len(alts) != len(cases) or any(a and a[0] and a[0][0].startswith("exn") for a in alts.values()):
        ctx.broke("correspondence %s: model driver failed (rc %d/%d, %d/%d answers)" % (stream, rc, rc2, len(alts), len(cases)), (out + out2)[-2000:])
        return
    nsh = 8
    shards = [[(i, c, -1) for i, (c, _) in list(zip(ids, cases))[k::nsh]] for k in range(nsh)]

    def one(a):
        k, sh = a
        return run_harness_resilient(h, "sched", sh, ctx.workdir, "sched%d" % k, timeout=1500)
    results = vlib.parallel_map(one, list(enumerate(shards)), workers=nsh)
    obs, deaths, unrun = {}, 0, 0
    for o, d, rest in results:
        obs.update(o)
        deaths += d
        unrun += len(rest)
    if unrun:
        ctx.broke("correspondence %s: harness could not run %d scripts" % (stream, unrun))
    dist, nfail, keys_seen = {}, 0, {}
    n_block, n_mis_blocked, n_sep, n_nondet = 0, 0, 0, 0
    for i, (c, fam) in zip(ids, cases):
        kind, steps = sched_parse(c)
        o = (obs.get(i) or "missing").split()
        al = alts[i]
        dk = "%s/%s" % (kind, fam)
        dist[dk] = dist.get(dk, 0) + 1
        e0 = al[0]
        has_block = any(t.startswith("blocked") for t in e0)
        n_block += has_block
        # misuse while some call is blocked: an UnlockedError step with a non-empty blocked set before it
        mis = any(e0[j].startswith("err") and sched_state_class(steps, e0, j) != "blocked-none" for j in range(len(steps)))
        n_mis_blocked += mis
        n_nondet += len(al) > 1
        if i in early and early[i] != al:
            n_sep += 1
        if o not in al:
            nfail += 1
            key, j, e = sched_key(kind, steps, o, al)
            keys_seen[key] = keys_seen.get(key, 0) + 1
            if keys_seen[key] <= 3:
                ctx.fail(key, "%s: implementation [%s], model [%s] (first difference at step %d `%s`)" %
                         (c, " ".join(o), " || ".join(" ".join(a) for a in al), j + 1, "%d:%s" % steps[j] if j < len(steps) else "end"),
                         stream=stream, case=c, impl=" ".join(o), model=" || ".join(" ".join(a) for a in al),
                         oracle="outcome of every call (ok / UnlockedError / blocked), the blocked calls each step releases, and the calls still blocked at "
                                "the end must be a run of the extracted script machine (Model/C25_Sched.v)")
        bad = sched_property(kind, steps, o)
        if bad:
            nfail += 1
            key = "sched-prop:%s:%s" % (kind, bad)
            keys_seen[key] = keys_seen.get(key, 0) + 1
            if keys_seen[key] <= 3:
                ctx.fail(key, "%s: implementation [%s] violates `%s` (holders counted from the calls that returned)" % (c, " ".join(o), bad),
                         stream=stream, case=c, impl=" ".join(o), model=" || ".join(" ".join(a) for a in al),
                         oracle="property evaluated on the implementation's own outcomes, no model: a lock is granted only when free (readers share), an "
                                "unlock succeeds iff a matching lock call has returned and was not yet released, otherwise the documented UnlockedError; "
                                "at the end no call is left blocked on a free lock (no lost wake-up)")
    ctx.stream(stream, len(cases), n_mis_blocked,
               "controlled multi-thread scripts on Mutex, RWMutex and ROMutex through the value-package wrappers: a scheduler goroutine hands "
               "the calls of a script (thread:op, op in lock unlock read_lock read_unlock) one at a time to named thread goroutines and, after each "
               "step, waits until every call in flight has returned or is parked inside the Go runtime on the sync primitive (wait reason read "
               "from an all-goroutine stack dump; no grace period), so calls that BLOCK stay in flight while the script goes on. Family own-thread: "
               "every op sequence of length <= %d (RWMutex), <= %d (ROMutex), <= %d (Mutex) with each call on a fresh thread; family named-threads: "
               "%s scripts over 2-%d reused threads, thread assignments up to renaming, scripts that address a thread still inside a call dropped "
               "(%d). Oracle 1: per step the call's outcome (ok / UnlockedError code / blocked), the blocked calls released by the step, and the "
               "calls still blocked at the end must equal one of the runs of the extracted script machine of Model/C25_Sched.v (alternatives = "
               "which blocked writer is served). Oracle 2: the property on the implementation's own outcomes (exclusion, unlock succeeds iff "
               "held else UnlockedError, no call left blocked on a free lock). non-trivial = the model run contains an unlock of an unheld lock "
               "(UnlockedError) WHILE another call is blocked; distinct by input"
               % (la["rw"], la["ro"], la["mutex"], "every script of length <= 5 (Mutex <= 8) on 3 threads + seeded random" if thorough else "seeded random",
                  4 if thorough else 3, nbusy),
               [{"input": c, "observed": obs.get(i), "model": " || ".join(" ".join(a) for a in alts[i])} for i, (c, _) in list(zip(ids, cases))[:2] + list(zip(ids, cases))[-2:]],
               dist, mismatches=nfail, process_deaths=deaths, corpus_cases=ncorpus, failure_classes=keys_seen,
               scripts_with_a_blocked_call=n_block, scripts_with_misuse_while_blocked=n_mis_blocked,
               scripts_with_several_allowed_runs=n_nondet, scripts_separating_the_refuted_readlock_order=n_sep)


# ---------------------------------------------------------------- c25.elk (misuse through `elk run`, with select)

ERR_RE = re.compile(r'(Std::[\w:]+)\{&: 0x[0-9a-f]+, message: "([^"]*)"')


def err_token(text):
    mm = ERR_RE.search(text)
    if not mm:
        return "err:298"
    cls, msg = mm.group(1), mm.group(2)
    if cls == "Std::Channel::ClosedError":
        return "err:251" if "push" in msg else ("err:252" if "pop" in msg else "err:253")
    if cls == "Std::Sync::Mutex::UnlockedError":
        return "err:255"
    if cls == "Std::Sync::RWMutex::UnlockedError":
        return "err:256" if "for writing" in msg else "err:257"
    if cls == "Std::OutOfRangeError":
        return "err:258" if "negative WaitGroup counter" in msg else "err:259"
    return "err:299"


def result_token(text):
    mm = re.search(r"Std::Result\{value: (-?\d+), err: nil\}", text)
    if mm:
        return "ok:" + mm.group(1)
    return err_token(text)


def wrap(i, body_lines, extra_catch=""):
    return ("do\n" + "".join("  " + l + "\n" for l in body_lines) + extra_catch +
            "catch Error() as e\n  println \"R %d err \" + e.inspect\nend\n" % i)


def elk_program(kind, params, ops):
    src = ["using Std::Sync::*"]
    if kind == "chan":
        for k, c in enumerate(params.split(",")):
            src.append("c%d := Channel::[Int](%s)" % (k, c))
    elif kind == "mutex":
        src.append("m := Mutex()")
    elif kind in ("rw", "ro"):
        src.append("m := RWMutex()")
        src.append("ro := ROMutex(m)")
    elif kind == "wg":
        src.append("w := WaitGroup()")
    elif kind == "once":
        src.append("o := Once()")
    out = "\n".join(src) + "\n"
    for i, op in enumerate(ops):
        f = op.split(":")
        ok = 'println "R %d ok"' % i
        if kind == "chan":
            if f[0] == "push":
                out += wrap(i, ["c%s << %s" % (f[1], f[2]), ok])
            elif f[0] == "pop":
                if i % 2 == 0:
                    out += wrap(i, ["v%d := try c%s.pop" % (i, f[1]), 'println "R %d ok ${v%d}"' % (i, i)])
                else:
                    out += wrap(i, ["r%d := <<c%s" % (i, f[1]), 'println "R %d res " + r%d.inspect' % (i, i)])
            elif f[0] == "next":
                out += wrap(i, ["v%d := try c%s.next" % (i, f[1]), 'println "R %d ok ${v%d}"' % (i, i)],
                            'catch :stop_iteration\n  println "R %d stop"\n' % i)
            elif f[0] == "close":
                out += wrap(i, ["c%s.close" % f[1], ok])
            elif f[0] == "sel":
                body = ["select"]
                for j, c in enumerate([x for x in f[1].split(",") if x]):
                    if c[0] == "S":
                        ch, v = c[1:].split("=")
                        body += ["case c%s << %s" % (ch, v), '  println "R %d sel %d ok"' % (i, j)]
                    else:
                        body += ["case s%d_%d := <<c%s" % (i, j, c[1:]), '  println "R %d sel %d " + s%d_%d.inspect' % (i, j, i, j)]
                if f[2] == "1":
                    body += ["else", '  println "R %d sel d"' % i]
                body += ["end"]
                out += wrap(i, body)
        elif kind == "mutex":
            out += wrap(i, ["m.%s" % f[0], ok])
        elif kind in ("rw", "ro"):
            name = {"lock": "m.lock", "unlock": "m.unlock", "rlock": "m.read_lock", "runlock": "m.read_unlock"}[f[0]]
            if kind == "ro" and f[0] in ("rlock", "runlock"):
                name = "ro.lock" if f[0] == "rlock" else "ro.unlock"
            out += wrap(i, [name, ok])
        elif kind == "wg":
            call = {"add": "w.add(%s)", "rem": "w.remove(%s)", "start": "w.start", "end": "w.end", "wait": "w.wait"}[f[0]]
            out += wrap(i, [call % f[1] if "%s" in call else call, ok])
        elif kind == "once":
            out += wrap(i, ['o.call(|| -> println("R %d body"))' % i, ok])
    out += 'println "END"\n'
    return out


class Shadow:
    """generator-side copy of the channel rules, used only to avoid generating programs that block"""

    def __init__(self, caps):
        self.buf = [[] for _ in caps]
        self.cap = list(caps)
        self.closed = [False] * len(caps)

    def send_ready(self, c):
        return self.closed[c] or len(self.buf[c]) < self.cap[c]

    def recv_ready(self, c):
        return bool(self.buf[c]) or self.closed[c]


def gen_chan_seq(rng, maxlen):
    caps = [rng.choice([0, 1, 1, 2]), rng.choice([0, 1, 2])]
    sh = Shadow(caps)
    ops = []
    val = 10
    n = rng.range(2, maxlen)
    tries = 0
    while len(ops) < n and tries < 60:
        tries += 1
        k = rng.below(10)
        c = rng.below(2)
        if k < 3:
            if not sh.send_ready(c):
                continue
            ops.append("push:%d:%d" % (c, val))
            if not sh.closed[c]:
                sh.buf[c].append(val)
            val += 1
        elif k < 5:
            if not sh.recv_ready(c):
                continue
            ops.append(("pop:%d" if rng.below(3) else "next:%d") % c)
            if sh.buf[c]:
                sh.buf[c].pop(0)
        elif k < 6:
            ops.append("close:%d" % c)
            sh.closed[c] = True
        else:
            ncase = rng.range(1, 2)
            cs, ready = [], []
            for j in range(ncase):
                cc = rng.below(2)
                if rng.below(2):
                    cs.append("S%d=%d" % (cc, val))
                    ready.append(sh.send_ready(cc))
                    val += 1
                else:
                    cs.append("R%d" % cc)
                    ready.append(sh.recv_ready(cc))
            dflt = rng.below(2)
            nready = sum(ready)
            if nready == 0 and not dflt:
                continue
            ops.append("sel:%s:%d:?" % (",".join(cs), dflt))
            if nready >= 2:
                break          # the state after it depends on the (random) choice: make it the last op
            if nready == 1:
                cse = cs[ready.index(True)]
                cc = int(cse[1])
                if cse[0] == "S":
                    if not sh.closed[cc]:
                        sh.buf[cc].append(int(cse.split("=")[1]))
                elif sh.buf[cc]:
                    sh.buf[cc].pop(0)
    return "chan", "%d,%d" % tuple(caps), ops


def parse_elk_run(kind, ops, out):
    """-> (tokens, ops with the observed select choices filled in, bodies printed by once)"""
    lines = {}
    for l in out.splitlines():
        mm = re.match(r"R (\d+) (.*)$", l)
        if mm:
            lines.setdefault(int(mm.group(1)), []).append(mm.group(2))
    toks, ops2 = [], []
    for i, op in enumerate(ops):
        ls = lines.get(i)
        if not ls:
            break
        f = op.split(":")
        if kind == "once":
            toks.append("ran" if "body" in ls else "skip")
            ops2.append(op)
            continue
        l = ls[-1]
        choice = None
        if l == "ok":
            t = "ok"
        elif l.startswith("ok "):
            t = "ok:" + l[3:].strip()
        elif l.startswith("res "):
            t = result_token(l)
        elif l == "stop":
            t = "err:254"
        elif l.startswith("sel d"):
            t, choice = "ok", "d"
        elif l.startswith("sel "):
            mm = re.match(r"sel (\d+) (.*)$", l)
            choice = mm.group(1)
            t = "ok" if mm.group(2) == "ok" else result_token(mm.group(2))
        elif l.startswith("err "):
            t = err_token(l)
            if f[0] == "sel":
                # a thrown push error: some send case was chosen (the program cannot tell which); the model is asked
                # about every send case and one of them must explain the run
                choice = "?S"
        else:
            t = "unparsed"
        toks.append(t)
        if f[0] == "sel":
            ops2.append("sel:%s:%s:%s" % (f[1], f[2], choice if choice is not None else "d"))
        else:
            ops2.append(op)
    return toks, ops2


def stream_elk(ctx, elk, m):
    stream = "c25.elk"
    rng = ctx.rng(stream)
    n = ctx.n(28, 800)
    cases = []
    ncorpus = 0
    if os.path.exists(CORPUS_ELK):
        for l in open(CORPUS_ELK):
            l = l.strip()
            if l and not l.startswith("#"):
                head, ops = l.split("|")
                h = head.split()
                cases.append((h[0], h[1] if len(h) > 1 else "", ops.split()))
                ncorpus += 1
    # deterministic kinds: random sequences truncated where the model blocks
    det = []
    alph = {"mutex": ["lock", "unlock"], "rw": ["lock", "unlock", "rlock", "runlock"], "ro": ["lock", "unlock", "rlock", "runlock"],
            "wg": ["add:1", "add:2", "add:-1", "add:-3", "rem:1", "rem:2", "rem:-1", "start", "end", "wait", "add:2147483648"],
            "once": ["call"]}
    while len(det) + len(cases) < n // 2:
        kind = rng.choice(["mutex", "rw", "ro", "wg", "wg", "once"])
        det.append((kind, "", [rng.choice(alph[kind]) for _ in range(rng.range(1, 6))]))
    rc, exp, mout = run_model_lines(m, [("d%d" % i, model_input(case_input(k, p, o))) for i, (k, p, o) in enumerate(det)])
    for i, (k, p, o) in enumerate(det):
        e = exp.get("d%d" % i, [])
        keep = len(e) - 1 if (e and e[-1] == "blocked") else len(e)
        if keep > 0:
            cases.append((k, p, o[:keep]))
    while len(cases) < n:
        cases.append(gen_chan_seq(rng, 7))
    progs = [("e%d" % i, elk_program(k, p, [re.sub(r":\?$", ":d", x) for x in o])) for i, (k, p, o) in enumerate(cases)]
    res = vlib.run_programs(elk, progs, os.path.join(ctx.workdir, "elk"), workers=12, timeout=120)
    lines, parsed = [], {}
    for i, (k, p, o) in enumerate(cases):
        pid = "e%d" % i
        rc_, out, cls = res[pid]
        toks, ops2 = parse_elk_run(k, o, out)
        parsed[pid] = (toks, ops2, cls, out)
        variants = [ops2 if ops2 else o[:1]]
        for j, x in enumerate(variants[0]):
            if x.endswith(":?S"):
                cs = [c for c in x.split(":")[1].split(",") if c]
                variants = [v[:j] + [x[:-2] + str(jj)] + v[j + 1:] for v in variants for jj, c in enumerate(cs) if c[0] == "S"] or variants
        for vi, v in enumerate(variants):
            lines.append(("%s#%d" % (pid, vi), model_input(case_input(k, p, v))))
    rc, exp_all, mout = run_model_lines(m, lines)
    exp = {}
    for pid in parsed:
        cands = [exp_all[x] for x in sorted(exp_all) if x.split("#")[0] == pid]
        exp[pid] = next((c for c in cands if c == parsed[pid][0]), cands[0] if cands else [])
    if rc != 0:
        ctx.broke("correspondence %s: model driver exited %d" % (stream, rc), mout[-2000:])
    dist, nfail, distinct, keys_seen = {}, 0, set(), {}
    for i, (k, p, o) in enumerate(cases):
        pid = "e%d" % i
        toks, ops2, cls, out = parsed[pid]
        inp = case_input(k, p, o)
        dist[k] = dist.get(k, 0) + 1
        if any(x.startswith(("sel", "close")) or x in ("unlock", "runlock", "end") for x in o):
            distinct.add(inp)
        key = None
        if cls in ("go_fatal", "go_panic", "signal", "timeout") or "END" not in out:
            j = len(toks)
            crash = cls if cls not in ("ok", "elk_error") else "died"
            if cls == "go_fatal":
                crash = tok_class(fatal_token(out))
            elif cls == "go_panic":
                mm = re.search(r"panic: ([^\n\[]*)", out)
                crash = "panic-" + re.sub(r"[^a-z]+", "-", (mm.group(1) if mm else "").strip().lower())[:40]
            key = "elk:%s:%s:%s" % (k, op_name(o[j]) if j < len(o) else "end", crash)
            what = "%s: `elk run` crashed at op %d (%s): %s" % (inp, j + 1, o[j] if j < len(o) else "-", out.strip().splitlines()[0][:160] if out.strip() else cls)
        else:
            e = exp.get(pid, [])
            if toks != e:
                key = mismatch_key("elk", k, ops2, toks, e)
                what = "%s: observed [%s], model [%s] (ops with observed select choices: %s)" % (inp, " ".join(toks), " ".join(e), " ".join(ops2))
        if key:
            nfail += 1
            keys_seen[key] = keys_seen.get(key, 0) + 1
            if keys_seen[key] <= 3:
                ctx.fail(key, what, stream=stream, case=inp, impl=" ".join(toks) + " / " + cls, model=" ".join(exp.get(pid, [])),
                         oracle="outcome of every call in a generated Elk program vs the proved model (select: the observed choice must be enabled in the model)")
    # constructor guards (outside the Coq model): an Elk error, never a Go crash
    ctor = [("k0", "ch := Channel::[Int](-1)\nprintln \"made\"\n", "chan:new-negative"),
            ("k1", "using Std::Sync::*\nw := WaitGroup(-1)\nprintln \"made\"\n", "wg:new-negative"),
            ("k2", "using Std::Sync::*\nw := WaitGroup(2)\nw.remove(2)\nw.wait\nprintln \"made\"\n", "wg:new-2")]
    cres = vlib.run_programs(elk, [(a, b) for a, b, _ in ctor], os.path.join(ctx.workdir, "elk"), workers=3, timeout=120)
    for a, b, name in ctor:
        rc_, out, cls = cres[a]
        good = (cls == "elk_error" and "OutOfRangeError" in out) if name.endswith("negative") else (cls == "ok" and "made" in out)
        if not good:
            nfail += 1
            ctx.fail("elk:%s:%s" % (name, cls), "%s -> %s: %s" % (b.strip().replace("\n", "; "), cls, out.strip()[:200]), stream=stream, case=b,
                     impl=cls, model="an OutOfRangeError" if name.endswith("negative") else "ok", oracle="constructors reject a negative size with an Elk error")
    ctx.stream(stream, len(cases) + len(ctor), len(distinct),
               "generated single-threaded Elk programs, one call sequence each (1-7 calls; every call in its own do/catch printing its outcome), run "
               "with `elk run`: two channels (capacity 0-2) with <<, pop, <<ch, next, close and select (1-2 cases, with/without else; only "
               "sequences that cannot block, a select with two ready cases is the last call), Mutex, RWMutex, ROMutex, WaitGroup, Once; the "
               "observed select choice is handed to the extracted model, which must accept it (case enabled) and give the same outcome, value "
               "or error (class and message) for every call; a crash of the interpreter is a failure; plus constructor probes "
               "(Channel(-1), WaitGroup(-1)); non-trivial = contains select, close or an unlock/end; distinct by input",
               [{"input": case_input(*cases[i]), "observed": " ".join(parsed["e%d" % i][0])} for i in list(range(min(2, len(cases)))) + [len(cases) - 1]],
               dist, failures=nfail, corpus_cases=ncorpus, failure_classes=keys_seen)


# ---------------------------------------------------------------- c25.conc (generated concurrent Elk programs)

def conc_program(rng):
    P = rng.range(1, 3)
    K = rng.range(1, 3)
    cap = rng.choice([0, 0, 1, 2, 3])
    items = rng.range(3, 12)
    L = rng.range(0, 3)
    liters = rng.range(5, 40)
    lockkind = rng.choice(["mutex", "rw"])
    readers = rng.range(0, 2) if lockkind == "rw" else 0
    use_ro = rng.below(2) == 1
    cons_lock = rng.below(2) == 1
    pstyles = [rng.choice(["push", "push", "select"]) for _ in range(P)]
    cstyles = [rng.choice(["forin", "popres", "trypop", "select"]) for _ in range(K)]
    sleeps = rng.below(3) == 0
    nthreads = P + K + L + readers
    s = ["using Std::Sync::*", "ch := Channel::[Int](%d)" % cap, "idle_s := Channel::[Int]()", "idle_r := Channel::[Int]()", "wg := WaitGroup(%d)" % nthreads,
         "pw := WaitGroup(%d)" % P, "m := Mutex()", "rw := RWMutex()", "ro := ROMutex(rw)", "cnt := [0, 0]", "once := Once()"]
    lock, unlock = ("m.lock", "m.unlock") if lockkind == "mutex" else ("rw.lock", "rw.unlock")

    def section(tag, ind):
        return [ind + lock, ind + "cnt[1] = cnt[1] + 1", ind + "if cnt[1] != 1", ind + '  println("%s OVERLAP")' % tag, ind + "end",
                ind + "cnt[0] = cnt[0] + 1", ind + "cnt[1] = cnt[1] - 1", ind + unlock]
    t = 0
    for p in range(P):
        t += 1
        tag = "T%d" % t
        s += ["go", "  for i in 0..<%d" % items]
        if pstyles[p] == "push":
            s += ["    ch << %d + i" % (t * 1000)]
        else:
            s += ["    select", "    case ch << %d + i" % (t * 1000), "      cnt.length", "    case idle_s << -1",
                  '      println("%s SELBAD")' % tag, "    end"]
        s += ['    println("%s push ${%d + i}")' % (tag, t * 1000)]
        if sleeps and rng.below(2):
            s += ["    sleep 1.milliseconds"]
        s += ["  end", '  once.call(|| -> println("ONCE"))', "  pw.end", '  println("%s done")' % tag, "  wg.end", "end"]
    for k in range(K):
        t += 1
        tag = "T%d" % t
        body = ['println("%s pop ${v}")' % tag] + ([x.strip() for x in section(tag, "")] if cons_lock else [])
        if sleeps and rng.below(2):
            body += ["sleep 1.milliseconds"]
        st = cstyles[k]
        s += ["go"]
        if st == "forin":
            s += ["  for v in ch"] + ["    " + b for b in body] + ["  end"]
        elif st == "popres":
            s += ["  loop", "    r := <<ch", "    if r.err != nil", "      break", "    end", "    v := r.unwrap"] + ["    " + b for b in body] + ["  end"]
        elif st == "trypop":
            s += ["  var going = true", "  while going", "    do", "      v := try ch.pop"] + ["      " + b for b in body] + \
                 ["    catch Error() as e", "      going = false", "    end", "  end"]
        else:
            s += ["  var going = true", "  while going", "    select", "    case r := <<ch", "      if r.err != nil", "        going = false", "      else",
                  "        v := r.unwrap"] + ["        " + b for b in body] + ["      end", "    case r2 := <<idle_r", '      println("%s SELBAD")' % tag,
                                                                              "      going = false", "    end", "  end"]
        s += ['  println("%s closed")' % tag, "  wg.end", "end"]
    for l in range(L):
        t += 1
        tag = "T%d" % t
        s += ["go", "  for i in 0..<%d" % liters] + section(tag, "    ") + ["  end", '  println("%s done")' % tag, "  wg.end", "end"]
    for r in range(readers):
        t += 1
        tag = "T%d" % t
        rl, ru = ("ro.lock", "ro.unlock") if use_ro else ("rw.read_lock", "rw.read_unlock")
        s += ["go", "  for i in 0..<%d" % liters, "    " + rl, "    if cnt[1] != 0", '      println("%s RVIOL")' % tag, "    end", "    " + ru, "  end",
              '  println("%s done")' % tag, "  wg.end", "end"]
    s += ["pw.wait", "ch.close", "wg.wait", 'println("M count ${cnt[0]}")', 'println("M end")']
    meta = dict(P=P, K=K, cap=cap, items=items, L=L, liters=liters, lock=lockkind, readers=readers, cons_lock=cons_lock,
                pstyles=pstyles, cstyles=cstyles, sleeps=sleeps, nthreads=nthreads)
    return "\n".join(s) + "\n", meta


def linearise(prod_seqs, cons_logs):
    """a total order of the values that extends every producer's push order and every consumer's pop order
    (Kahn's algorithm on the union of the chains); None when the union has a cycle"""
    succ, indeg = {}, {}
    for chain in list(prod_seqs) + list(cons_logs):
        for v in chain:
            succ.setdefault(v, [])
            indeg.setdefault(v, 0)
        for a, b in zip(chain, chain[1:]):
            succ[a].append(b)
            indeg[b] += 1
    ready = sorted(v for v in indeg if indeg[v] == 0)
    order = []
    while ready:
        v = ready.pop(0)
        order.append(v)
        for w in succ[v]:
            indeg[w] -= 1
            if indeg[w] == 0:
                ready.append(w)
    return order if len(order) == len(indeg) else None


def conc_check(meta, out):
    """property evaluated on the program's own output; returns [(clause, detail)], logs for the model"""
    bad = []
    pushes, pops, closed, done = {}, {}, set(), set()
    once = 0
    count = None
    for l in out.splitlines():
        mm = re.match(r"T(\d+) (push|pop) (-?\d+)$", l)
        if mm:
            (pushes if mm.group(2) == "push" else pops).setdefault(int(mm.group(1)), []).append(int(mm.group(3)))
            continue
        mm = re.match(r"T(\d+) (closed|done)$", l)
        if mm:
            (closed if mm.group(2) == "closed" else done).add(int(mm.group(1)))
            continue
        if l == "ONCE":
            once += 1
        elif l.startswith("M count "):
            count = int(l[8:])
        elif "OVERLAP" in l:
            bad.append(("mutual-exclusion", l))
        elif "RVIOL" in l:
            bad.append(("reader-saw-writer", l))
        elif "SELBAD" in l:
            bad.append(("select-took-unready-case", l))
    P, K = meta["P"], meta["K"]
    prod_seqs = [[(p + 1) * 1000 + i for i in range(meta["items"])] for p in range(P)]
    for p in range(P):
        if pushes.get(p + 1, []) != prod_seqs[p]:
            bad.append(("producer-log", "T%d logged %s" % (p + 1, pushes.get(p + 1))))
    sent = sorted(v for s in prod_seqs for v in s)
    cons_logs = [pops.get(P + k + 1, []) for k in range(K)]
    got = sorted(v for l in cons_logs for v in l)
    if got != sent:
        lost = [v for v in sent if v not in got]
        dup = sorted(set(v for v in got if got.count(v) > 1))
        alien = [v for v in got if v not in sent]
        bad.append(("exactly-once", "lost %s duplicated %s never-sent %s" % (lost[:5], dup[:5], alien[:5])))
    for k, log in enumerate(cons_logs):
        for p in range(P):
            sub = [v for v in log if v // 1000 == p + 1]
            if sub != sorted(sub):
                bad.append(("fifo-per-producer", "consumer T%d received producer %d's values as %s" % (P + k + 1, p + 1, sub[:8])))
    order = None
    if not any(b[0] in ("exactly-once", "fifo-per-producer", "producer-log") for b in bad):
        order = linearise(prod_seqs, cons_logs)
        if order is None:
            bad.append(("no-linearisation", "push orders and pop orders cannot be merged into one channel order"))
    if once != 1:
        bad.append(("once", "body printed %d times" % once))
    want = meta["L"] * meta["liters"] + (P * meta["items"] if meta["cons_lock"] else 0)
    if count != want:
        bad.append(("lost-update", "counter %s, expected %d" % (count, want)))
    for k in range(K):
        if P + k + 1 not in closed:
            bad.append(("consumer-not-released", "T%d did not see the close" % (P + k + 1)))
    if "M end" not in out:
        bad.append(("main-not-finished", "no final line"))
    return bad, order


def stream_conc(ctx, elk, m):
    stream = "c25.conc"
    rng = ctx.rng(stream)
    n = ctx.n(24, 1200)
    progs, metas = [], {}
    for i in range(n):
        src, meta = conc_program(rng)
        meta["procs"] = rng.choice(["1", "2", "16", ""])
        pid = "p%d" % i
        progs.append((pid, src))
        metas[pid] = meta
    res = {}
    for procs in ("1", "2", "16", ""):
        grp = [(pid, src) for pid, src in progs if metas[pid]["procs"] == procs]
        if grp:
            res.update(vlib.run_programs(elk, grp, os.path.join(ctx.workdir, "conc"), workers=10, timeout=180,
                                         env={"GOMAXPROCS": procs} if procs else None))
    src_of = dict(progs)
    reruns = 0
    nfail, dist, distinct, keys_seen = 0, {}, 0, {}
    model_lines, model_expect = [], {}
    for pid, src in progs:
        meta = metas[pid]
        rc_, out, cls = res[pid]
        tries = 0
        # a watchdog expiry may be load; a deadlock verdict needs a second, longer run
        while cls == "timeout" and tries < 1:
            tries += 1
            reruns += 1
            rc_, out, cls = vlib.run_programs(elk, [(pid, src)], os.path.join(ctx.workdir, "conc"), workers=1, timeout=400,
                                              env={"GOMAXPROCS": meta["procs"]} if meta["procs"] else None)[pid]
        shape = "P%dK%dcap%s%s" % (meta["P"], meta["K"], "0" if meta["cap"] == 0 else "+", "" if meta["L"] + meta["readers"] == 0 else "+" + meta["lock"])
        dist[shape] = dist.get(shape, 0) + 1
        if meta["P"] + meta["K"] + meta["L"] + meta["readers"] >= 3:
            distinct += 1
        fails = []
        if cls != "ok":
            first = next((l for l in out.splitlines() if l.startswith(("panic:", "fatal error:", "Error!"))), cls)
            fails.append(("crash-" + cls if cls != "timeout" else "deadlock-or-timeout", first[:200]))
        else:
            bad, order = conc_check(meta, out)
            fails += bad
            if order is not None:
                ops = []
                for v in order:
                    ops += ["rdv:0:%d" % v] if meta["cap"] == 0 else ["push:0:%d" % v, "pop:0"]
                ops += ["close:0"] + ["next:0" if st == "forin" else "pop:0" for st in meta["cstyles"]] + ["close:0", "push:0:1"]
                e = []
                for v in order:
                    e += ["ok:%d" % v] if meta["cap"] == 0 else ["ok", "ok:%d" % v]
                e += ["ok"] + ["err:254" if st == "forin" else "err:252" for st in meta["cstyles"]] + ["err:253", "err:251"]
                model_lines.append((pid, "chan %d | %s" % (meta["cap"], " ".join(ops))))
                model_expect[pid] = e
        for clause, detail in fails:
            nfail += 1
            key = "conc:" + clause
            keys_seen[key] = keys_seen.get(key, 0) + 1
            if keys_seen[key] <= 3:
                ctx.fail(key, "program %s (GOMAXPROCS=%s, %s): %s" % (pid, meta["procs"] or "default", shape, detail), stream=stream,
                         case=src_of[pid], impl=out[-1500:], model="see oracle", oracle="property evaluated on the program's own log: " + clause)
    if model_lines:
        rc, exp, mout = run_model_lines(m, model_lines)
        for pid, _ in model_lines:
            if exp.get(pid) != model_expect[pid]:
                nfail += 1
                ctx.fail("conc:model-replay", "program %s: the linearisation of the observed log is not a run of the model" % pid, stream=stream,
                         case=src_of[pid], impl=" ".join(model_expect[pid])[:600], model=" ".join(exp.get(pid) or [])[:600],
                         oracle="the merged push/pop order replayed on the extracted channel model must give the observed values and the observed closed-channel results")
    ctx.stream(stream, len(progs), distinct,
               "generated Elk programs: 1-3 producers (`ch << v` or a select with a never-ready second case) push 3-12 tagged values each "
               "into one channel (capacity 0-3), 1-3 consumers (for-in, `<<ch`, `try ch.pop`, select with a never-ready second case) log what "
               "they receive, 0-3 lockers (+0-2 readers) increment a shared counter non-atomically inside Mutex or RWMutex/ROMutex sections with an "
               "in-section flag, all threads started with `go`, joined with WaitGroups, a shared Once body, optional sleeps, GOMAXPROCS 1/2/16/default; "
               "oracles on the real output: multiset received = multiset sent (exactly once), per-producer order inside every consumer, one total order "
               "merging all push and pop orders exists (FIFO), that order replayed on the extracted model gives the observed values and closed-channel "
               "results, no critical-section overlap, no lost counter update, no reader inside a write section, Once body printed once, every consumer "
               "released by close, no select took a never-ready case, exit 0; a timeout is re-run once with a 400 s watchdog before it counts; "
               "non-trivial = at least 3 threads; schedules are whatever the Go scheduler produced (not enumerated)",
               [{"input": "program %s: %s" % (pid, {k: v for k, v in metas[pid].items() if k in ("P", "K", "cap", "items", "L", "lock", "readers", "procs")}),
                 "observed": res[pid][2]} for pid, _ in progs[:3]],
               dist, failures=nfail, timeout_reruns=reruns, failure_classes=keys_seen)


# ---------------------------------------------------------------- c25.goconc / c25.race (Go API, real goroutines)

def run_goconc(ctx, stream, exe, n, race=False):
    seed = ctx.sseed(stream)
    obs, inputs, order = {}, {}, []
    start, deaths, races, outs = 0, 0, 0, ""
    env = vlib.elk_env({"GORACE": "halt_on_error=0"})
    while start < n and deaths < 400:
        rc, out = vlib.sh([exe, "-seed", str(seed), "-n", str(n), "-extra", "conc:%d" % start], timeout=3000, env=env)
        races += out.count("WARNING: DATA RACE")
        outs += out[-3000:] if "DATA RACE" in out else ""
        started = None
        for l in out.splitlines():
            p = l.split("\t")
            if p[0] == "start" and len(p) >= 2:
                started = p[1]
            elif len(p) >= 3 and p[0] == started:
                obs[p[0]], inputs[p[0]] = p[2], p[1]
                order.append(p[0])
                started = None
        if started is not None:
            deaths += 1
            obs[started], inputs[started] = fatal_token(out), "(died before reporting its parameters)"
            order.append(started)
            start = int(started[1:]) + 1
        else:
            break
    dist, nfail, distinct, keys_seen = {}, 0, 0, {}
    for cid in order:
        inp, o = inputs[cid], obs[cid]
        kind = inp.split()[0] if inp and not inp.startswith("(") else ["pc", "mx", "rw", "pc"][int(cid[1:]) % 4]
        dist[kind] = dist.get(kind, 0) + 1
        distinct += 1
        fails = []
        if o.startswith("fatal") or o == "timeout":
            fails.append(("%s:%s" % (kind, tok_class(o)), "process died: " + o))
        elif kind == "pc":
            f = dict(x.split("=", 1) for x in inp.split()[2:])
            P, K, items = int(f["P"]), int(f["K"]), int(f["items"])
            g = dict(x.split("=", 1) for x in o.split())
            logs = [[int(v) for v in l.split(",") if v] for l in g["logs"].split(";")]
            prod = [[(p + 1) * 1000 + i for i in range(items)] for p in range(P)]
            if sorted(v for l in logs for v in l) != sorted(v for s in prod for v in s):
                fails.append(("pc:exactly-once", o[:300]))
            elif linearise(prod, logs) is None:
                fails.append(("pc:fifo", o[:300]))
            if g["perr"] != "0" or g["endok"] != str(P):
                fails.append(("pc:push-or-waitgroup-error", "perr=%s endok=%s" % (g["perr"], g["endok"])))
            if g["close"] != "ok,err:253":
                fails.append(("pc:close", g["close"]))
        else:
            f = dict(x.split("=", 1) for x in inp.split()[1:])
            g = dict(x.split("=", 1) for x in o.split())
            want = int(f["G"]) * int(f["iters"]) if kind == "mx" else int(f["W"]) * int(f["iters"])
            if int(g["count"]) != want:
                fails.append((kind + ":lost-update", "count %s expected %d" % (g["count"], want)))
            if g.get("overlap", g.get("viol")) != "0":
                fails.append((kind + ":mutual-exclusion", o))
            if g["uerr"] != "0":
                fails.append((kind + ":unlock-of-held-lock-refused", o))
            if g["extra"] != ("err:255" if kind == "mx" else "err:256,err:257"):
                fails.append((kind + ":unlock-after-run:" + tok_class(g["extra"].split(",")[0]), "unlock of the released lock gave " + g["extra"]))
        for clause, detail in fails:
            nfail += 1
            key = ("race:" if race else "goconc:") + clause
            keys_seen[key] = keys_seen.get(key, 0) + 1
            if keys_seen[key] <= 3:
                ctx.fail(key, "%s %s: %s" % (cid, inp, detail), stream=stream, case="%s seed=%d %s" % (cid, seed, inp), impl=o[:1500], model="see oracle",
                         oracle="contract evaluated on the merged results of real goroutines: " + clause)
    if race and races:
        nfail += 1
        mm = re.search(r"WARNING: DATA RACE[\s\S]{0,1500}", outs)
        ctx.fail("race:data-race", "race detector reports %d data race(s) in the wrappers under contention" % races, stream=stream, case="seed=%d" % seed,
                 impl=mm.group(0) if mm else "", model="race-free", oracle="lock-protected plain variables and the wrappers' own state must be race-free")
    ctx.stream(stream, len(order), distinct,
               ("harness built with -race; " if race else "") +
               "seeded scenarios on the value-package wrappers with real goroutines: producers/consumers (1-3 x 1-3, capacity 0/1/2/5, 1-40 values "
               "each, ChannelOfValue and NativeChannel, producers joined through the WaitGroup wrapper, double close), 2-8 lockers x 20-400 "
               "iterations incrementing a plain variable under Mutex, 1-3 writers + 1-5 readers under RWMutex/ROMutex with writer/reader indicators, "
               "then an unlock of the released lock; oracles: exactly once + a merged FIFO order exists, counter exact, no overlap, no refused unlock "
               "of a held lock, unlock of the released lock = UnlockedError" + (", no data race report" if race else "") + "; distinct by seeded parameters",
               [{"input": inputs[c], "observed": obs[c][:200]} for c in order[:3]], dist, failures=nfail, process_deaths=deaths,
               race_reports=races if race else None, failure_classes=keys_seen)


# ---------------------------------------------------------------- entry point

def run(ctx):
    import time
    t_start = time.time()
    ctx.explanation = (
        "Proved (Coq, for every schedule = every list of (thread, action) steps, any number of threads, induction over the step sequence) on "
        "Model/C25_Sync.v: per channel the completed pushes equal the pops so far followed by the buffer, which never exceeds the capacity "
        "(FIFO, exactly once, including select cases and rendezvous); a closed channel rejects push and close with the closed errors, drains, "
        "then rejects pop, never blocks, stays closed and accepts no further push; no channel call of the fixed wrappers panics; a select step "
        "exists only for a ready case (else only when none is ready) and select never blocks when a case is ready; the fixed Mutex and "
        "RWMutex/ROMutex wrappers (lock state tracked with compare-and-swap next to the native lock, two micro-steps per call) keep at most one "
        "holder / no reader with a writer, never reach Go's fatal unlock, and return UnlockedError for an unlock nobody holds; the fixed "
        "WaitGroup counter is the sum of the accepted deltas, stays in 0..MaxInt32, never panics, and Wait returns only at zero; Once runs its body "
        "at most once and every call returns after that run completed. The wrappers as found are refuted by witnesses (fatal unlocks, "
        "WaitGroup panic, select send on a closed channel). Only differential-tested: that Go's chan/sync primitives behave as the base "
        "transition systems, that the Go wrappers are these models (c25.misuse: every short sequence through the Go API; c25.elk: the same "
        "through `elk run`, with select), and behaviour under real concurrency (c25.conc Elk programs with `go`, c25.goconc Go goroutines, "
        "thorough: -race), where schedules are sampled by the Go scheduler, not enumerated. Blocked calls as state (Model/C25_Sched.v): scripts of "
        "(thread, call) steps in which a call that blocks stays in flight while the script continues and later releases wake it (Go's "
        "discipline: Unlock serves all blocked readers, then one blocked writer, which is pending while readers hold; new readers wait behind "
        "a pending writer). Proved for every script, any number of threads, every resolution of the which-writer choice: each script state is a "
        "state of the proved micro-step machine; the mirrored writer flag / reader counter equal the native holders and the lock calls that "
        "returned and were not released, whatever is blocked (C25_mirror_agrees at micro-step level: native = mirror + calls between their two "
        "halves); hence an unlock is refused with UnlockedError exactly when no matching lock call has returned. The variant that bumps the reader "
        "counter before the native RLock is refuted by a witness. No lost wake-up in the script machine (calls are blocked only while a writer holds or is "
        "pending, a writer is pending only while readers hold) is proved for every script. Differential: c25.sched drives the real wrappers through such scripts under a deterministic scheduler (a call counts as blocked "
        "when its goroutine is parked on the sync primitive) and compares every outcome, every wake-up and the finally blocked set with the "
        "extracted script machine; Go's wake-up discipline itself is trusted, confirmed only by this stream.")
    ctx.trusted_base += [
        "Go channels, sync.Mutex, sync.RWMutex, sync.WaitGroup, sync.Once modelled as transition systems (blocking = disabled step; send/close of a closed "
        "channel and a negative WaitGroup counter = panic; unlock of an unlocked lock = fatal); RWMutex writer preference and WaitGroup's "
        "Add-concurrent-with-Wait misuse detection are not modelled",
        "rendezvous on an unbuffered channel is one joint step (CRdv); a select taking part in a rendezvous is represented by that step",
        "threads are anonymous (the Go primitives have no owner): calls in progress are counted, thread ids are labels in the ghost trace",
        "atomic.Bool/Int64 operations and each wrapper micro-step are atomic and sequentially consistent (Go memory model not modelled)",
        "the Python program generators, log parsers and linearisation search (Kahn) of c25.conc",
        "c25.sched: Go's sync.RWMutex/sync.Mutex wake-up discipline as written in Model/C25_Sched.v (all blocked readers, then any one blocked "
        "writer; writer pending on readers; readers wait behind a pending writer), read off sync/rwmutex.go, not proved; the harness classifies a "
        "call as blocked when runtime.Stack reports its goroutine parked with a sync wait reason (fallback 700 ms); in the script machine every "
        "call runs both its micro-steps at once (the step boundary is covered by the micro-step theorems, not by the scripts)",
    ]
    ctx.run_proof_gate()
    try:
        m = vlib.build_model_exact("C25")
    except vlib.BuildError as e:
        ctx.broke("model build failed", str(e)[-2000:])
        return
    try:
        h = vlib.build_harness("c25")
    except vlib.BuildError as e:
        ctx.broke("harness build failed", str(e)[-2000:])
        h = None
    tm = ctx.extra.setdefault("phase_wall_s", {})
    t0 = t_start

    def lap(name):
        nonlocal t0
        tm[name] = round(time.time() - t0, 1)
        t0 = time.time()
    lap("proof_gate_and_builds")
    if h:
        stream_misuse(ctx, h, m)
        lap("c25.misuse")
        stream_sched(ctx, h, m)
        lap("c25.sched")
        run_goconc(ctx, "c25.goconc", h, ctx.n(120, 1200))
        lap("c25.goconc")
    try:
        elk = vlib.build_elk()
    except vlib.BuildError as e:
        ctx.broke("elk build failed", str(e)[-2000:])
        elk = None
    lap("build_elk")
    if elk:
        stream_elk(ctx, elk, m)
        lap("c25.elk")
        stream_conc(ctx, elk, m)
        lap("c25.conc")
    if ctx.tier == "thorough":
        try:
            hr = vlib.build_harness("c25", race=True)
        except vlib.BuildError as e:
            hr = None
            ctx.extra["race_detector"] = "race build not possible here: " + str(e)[-400:]
        if hr:
            ctx.extra["race_detector"] = "available"
            run_goconc(ctx, "c25.race", hr, 300, race=True)
