"""C34 — the test runner runs exactly the selected cases and reports failures.

Stream c34.run: seeded suite trees are rendered as .elk.test files and run with
`elk test --main <file> [--grep re] [--path pat:line]...`; every case body and every hook
appends a unique tag to a global list that the root after_all hook prints, so the multiset
of executed bodies/hooks is read from stdout independently of the reporter format.
Oracle 1: the extracted Coq model (registration walk, run, exit code) on a textual encoding of
the same tree and filters.  Oracle 2: the property evaluated directly in Python on the
implementation's own output (selected = every filter satisfied; exit 1 iff something that ran
failed)."""
import json
import os
import re
import shutil

import vlib

FILE = "t.elk.test"
WORDS = ["foo", "bar", "baz", "alpha", "beta", "one", "two", "qux", "a", "b"]
HOOKS = ("ba", "be", "ae", "aa")
HOOKNAME = {"ba": "before_all", "be": "before_each", "ae": "after_each", "aa": "after_all"}
RULE = ("seeded suite trees (nesting <= 4, 1-30 cases, it/test/should, describe/context, pass/fail/error outcomes, "
        "optional before_all/before_each/after_each/after_all hooks with pass/fail/error) x filter sets of 0-1 --grep "
        "(the CLI accepts one) and 0-2 --path (lines: suite first/last line, case first/interior/last line, hook line, "
        "blank line, 0, -1, out of file; patterns: literal, **, **/name, non-matching); non-trivial = at least one "
        "filter given and the tree has >= 2 cases; distinct by (tree, filter set)")


# ------------------------------------------------------------------ generation

def gen_tree(rng):
    """returns the root node: dict(kids=[...], hooks={...}); layout decisions are part of the tree"""
    budget = [rng.range(1, 30) if rng.chance(3, 4) else rng.range(1, 6)]
    ids = {"c": 0, "s": 0}

    def name():
        n = rng.choice(WORDS)
        if rng.chance(1, 3):
            n += " " + rng.choice(WORDS)
        return n

    def hooks(p_num):
        h = {}
        for k in HOOKS:
            if rng.chance(p_num, 10):
                h[k] = rng.choice(["p", "p", "p", "f", "e"])
        return h

    def case():
        ids["c"] += 1
        budget[0] -= 1
        return {"k": "C", "id": ids["c"], "kw": rng.choice(["it", "it", "test", "should"]), "name": name(),
                "out": rng.choice(["p", "p", "p", "f", "e"]), "extra": rng.below(3), "blank": rng.below(2)}

    def suite(depth):
        ids["s"] += 1
        node = {"k": "S", "id": ids["s"], "kw": rng.choice(["describe", "describe", "context"]), "name": name(),
                "hooks": hooks(1 if rng.chance(1, 2) else 0), "blank": rng.below(2), "kids": []}
        n = rng.range(1, 4)
        for i in range(n):
            if budget[0] <= 0 and node["kids"]:
                break
            if depth < 4 and rng.chance(1, 3) and budget[0] > 1:
                node["kids"].append(suite(depth + 1))
            else:
                node["kids"].append(case())
        return node

    root = {"k": "R", "id": 0, "hooks": {}, "kids": []}
    if rng.chance(1, 8):
        for k in ("be", "ae"):
            if rng.chance(1, 2):
                root["hooks"][k] = rng.choice(["p", "f", "e"])
    if rng.chance(1, 8):
        root["hooks"]["ba"] = "p"     # a failing root before_all would silence the tag printer
    first = True
    while budget[0] > 0 or first:
        first = False
        if rng.chance(3, 4):
            root["kids"].append(suite(1))
        else:
            root["kids"].append(case())
    return root


def case_label(c):
    return c["name"] if c["kw"] == "test" else c["kw"] + " " + c["name"]


def render(root):
    """write the .elk.test text; annotates every node with l1/l2 and returns (text, info) where info lists
    interesting lines"""
    L = ["import \"std/test\"", "using Std::Test::Assertions::*", "using Std::Test::*", "",
         "const LOG: ArrayList[String] = ArrayList::[String]()"]
    hooklines = []
    blanks = []

    def fail_line(o, ind):
        if o == "f":
            L.append(ind + "assert! 1 == 2")
        elif o == "e":
            L.append(ind + "throw \"boom\"")

    def hook(k, sid, o, ind, extra=None):
        L.append(ind + HOOKNAME[k] + "() ->")
        hooklines.append(len(L))
        L.append(ind + "\tLOG << \"%s%d\"" % (k, sid))
        if extra:
            L.append(ind + "\t" + extra)
        fail_line(o, ind + "\t")
        L.append(ind + "end")

    # root hooks; the root after_all prints the tags
    for k in ("ba", "be", "ae"):
        if k in root["hooks"]:
            hook(k, 0, root["hooks"][k], "")
    hook("aa", 0, "p", "", extra="println(\"\\n<<EXEC \" + LOG.inspect + \">>\")")
    root["hooks"]["aa"] = "p"

    def node(n, ind):
        for _ in range(n["blank"]):
            L.append("")
            blanks.append(len(L))
        if n["k"] == "C":
            L.append("%s%s \"%s\", ->" % (ind, n["kw"], n["name"]))
            n["l1"] = len(L)
            L.append(ind + "\tLOG << \"c%d\"" % n["id"])
            for _ in range(n["extra"]):
                L.append(ind + "\tassert! 2 == 2")
            fail_line(n["out"], ind + "\t")
            L.append(ind + "end")
            n["l2"] = len(L)
        else:
            L.append("%s%s \"%s\", ->" % (ind, n["kw"], n["name"]))
            n["l1"] = len(L)
            for k in HOOKS:
                if k in n["hooks"]:
                    hook(k, n["id"], n["hooks"][k], ind + "\t")
            for kid in n["kids"]:
                node(kid, ind + "\t")
            L.append(ind + "end")
            n["l2"] = len(L)

    for kid in root["kids"]:
        node(kid, "")
    return "\n".join(L) + "\n", {"hooklines": hooklines, "blanks": blanks, "nlines": len(L)}


def walk(root):
    """yields (case, ancestors outermost first (without root))"""
    out = []

    def go(n, anc):
        if n["k"] == "C":
            out.append((n, anc))
        else:
            for k in n["kids"]:
                go(k, anc + [n] if n["k"] == "S" else anc)
    go(root, [])
    return out


def suites_of(root):
    out = []

    def go(n):
        if n["k"] == "S":
            out.append(n)
        if n["k"] != "C":
            for k in n["kids"]:
                go(k)
    go(root)
    return out


def full_name(case, anc):
    """Case.FullNameWithSeparator: '<outer suites joined by space> > <innermost suite> > <case label>'"""
    if not anc:
        sfx = ""
    else:
        pf = ""
        for a in anc[:-1]:
            pf = a["name"] if pf == "" else pf + " " + a["name"]
        sfx = anc[-1]["name"] if pf == "" else pf + " > " + anc[-1]["name"]
    return sfx + " > " + case_label(case)


def gen_filter_sets(rng, root, info, count):
    cs = walk(root)
    ss = suites_of(root)
    sets = [[]]

    def pat():
        return rng.choice([FILE, FILE, "**", "**/" + FILE, "**/" + FILE, "other.elk.test", "**/zzz.elk.test"])

    def line_near(c=None, s=None):
        kinds = ["sfirst", "slast", "cfirst", "cin", "clast", "hook", "blank", "zero", "neg", "out", "noline"]
        k = rng.choice(kinds)
        if k == "sfirst" and (s or ss):
            return (s or rng.choice(ss))["l1"]
        if k == "slast" and (s or ss):
            return (s or rng.choice(ss))["l2"]
        c = c or rng.choice(cs)[0]
        if k == "cfirst":
            return c["l1"]
        if k == "cin":
            return rng.range(c["l1"], c["l2"])
        if k == "clast":
            return c["l2"]
        if k == "hook" and info["hooklines"]:
            return rng.choice(info["hooklines"])
        if k == "blank" and info["blanks"]:
            return rng.choice(info["blanks"])
        if k == "zero":
            return 0
        if k == "neg":
            return -1
        if k == "out":
            return info["nlines"] + rng.range(1, 50)
        if k == "noline":
            return None
        return c["l1"]

    def grep_for(c=None, anc=None):
        if rng.chance(1, 8):
            return "zzz"
        if c is None:
            c, anc = rng.choice(cs)
        fn = full_name(c, anc)
        n = rng.range(1, min(8, len(fn)))
        i = rng.below(len(fn) - n + 1)
        g = fn[i:i + n]
        if g.strip() == "" or g.startswith("-"):
            g = rng.choice(WORDS)
        return g

    # the combinations the finding lives in: suite first line (+ grep of a case inside / + second path)
    if ss:
        s = rng.choice(ss)
        inner = [(c, a) for (c, a) in cs if s in a]
        sets.append([("P", FILE, s["l1"])])
        if inner:
            c, a = rng.choice(inner)
            sets.append([("G", grep_for(c, a)), ("P", FILE, s["l1"])])
            sets.append([("P", "**", s["l1"]), ("P", FILE, rng.range(c["l1"], c["l2"]))])
            sets.append([("P", FILE, c["l1"]), ("P", "**/" + FILE, s["l1"])])
            sets.append([("G", grep_for(c, a)), ("P", FILE, s["l1"]), ("P", FILE, rng.choice([x for x in a]) ["l1"])])
    while len(sets) < count:
        fs = []
        if rng.chance(1, 2):
            fs.append(("G", grep_for()))
        for _ in range(rng.choice([0, 1, 1, 2, 2])):
            fs.append(("P", pat(), line_near()))
        sets.append(fs)
    return sets[:max(count, 1)]


# ------------------------------------------------------------------ encoding for the model / spec

def enc_name(s):
    return "^" if s == "" else s.replace(" ", "~")


def encode(root, fs):
    t = []
    for f in fs:
        if f[0] == "P":
            t += ["P", enc_name(f[1]), str(-1 if f[2] is None else f[2])]
        else:
            t += ["G", enc_name(f[1])]
    t.append(";")

    def hk(n):
        return [n["hooks"].get(k, "-") for k in HOOKS]

    def node(n):
        if n["k"] == "C":
            t.extend(["C", str(n["id"]), enc_name(case_label(n)), FILE, str(n["l1"]), str(n["l2"]), n["out"]])
        else:
            t.extend(["S", str(n["id"]), enc_name(n["name"]), FILE, str(n["l1"]), str(n["l2"])] + hk(n) + [str(len(n["kids"]))])
            for k in n["kids"]:
                node(k)
    t.extend(["R"] + hk(root) + [str(len(root["kids"]))])
    for k in root["kids"]:
        node(k)
    return " ".join(t)


def glob_match(pat, f):
    if pat == "**":
        return True
    if pat.startswith("**/"):
        return f == pat[3:] or f.endswith("/" + pat[3:])
    return pat == f


def spec_satisfies(f, c, anc):
    if f[0] == "G":
        return f[1] in full_name(c, anc)
    line = -1 if f[2] is None else f[2]
    return glob_match(f[1], FILE) and (line < 0 or c["l1"] <= line <= c["l2"] or any(a["l1"] == line for a in anc))


def spec_eval(root, fs):
    """the property, evaluated without the model: (selected ids, expected executed ids)"""
    sel, exe = [], []
    for c, anc in walk(root):
        if all(spec_satisfies(f, c, anc) for f in fs):
            sel.append(c["id"])
            chain = [root] + anc
            if not any(a["hooks"].get("ba", "p") != "p" or a["hooks"].get("be", "p") != "p" for a in chain):
                exe.append(c["id"])
    return sel, exe


def line_class(root, line):
    if line is None or line < 0:
        return "noline"
    for s in suites_of(root):
        if s["l1"] == line:
            return "suite-first"
    for c, _ in walk(root):
        if c["l1"] <= line <= c["l2"]:
            return "case"
    for s in suites_of(root):
        if s["l1"] <= line <= s["l2"]:
            return "suite-inside"
    return "outside"


def filter_class(root, fs):
    parts = []
    for f in fs:
        parts.append("G" if f[0] == "G" else "P@" + line_class(root, f[2]))
    return "+".join(parts) if parts else "nofilter"


def cli_args(fs):
    a = []
    for f in fs:
        if f[0] == "G":
            a += ["--grep", f[1]]
        else:
            a += ["--path", f[1] if f[2] is None else "%s:%d" % (f[1], f[2])]
    return a


EXEC_RE = re.compile(r"<<EXEC \[(.*?)\](?::\d+)?>>", re.S)


def parse_output(rc, out):
    tags = []
    m = EXEC_RE.search(out)
    if m:
        tags = re.findall(r"\"(\w+)\"", m.group(1))
    return "exit=%d ev=%s" % (rc, ",".join(sorted(tags)))


# ------------------------------------------------------------------ the check

def run(ctx):
    ctx.explanation = (
        "Proved in Coq for ALL suite trees with nested source locations, ALL filter lists (any number and order of "
        "path/grep filters) and ALL outcomes, for arbitrary glob and regex matchers (section variables, no law assumed): "
        "the registration walk + run of the model executes exactly the cases that satisfy every filter and are not "
        "stopped by a failing before_all/before_each hook, each once (C34_exact), and exits 1 iff a body or hook that "
        "ran failed, provided at least one case was selected (C34_exit_partial; the empty selection exits 1: "
        "C34_exit_refuted, recorded finding). The filter combination of the model mirrors the code after "
        "fixes/C34-filter-combination.patch. That the model is the code is NOT proved: it is differential-tested by "
        "c34.run through the real CLI (one --grep at most, grep registered before the paths, one file, literal regexes "
        "and three glob shapes only; the real runner shuffles cases, so only multisets are compared; at most one hook "
        "of each kind per suite). Interrupts, compile errors in test files and multi-file imports are not modelled.")
    ctx.trusted_base += [
        "doublestar glob and Elk regex matching are section variables in the proofs; the executable instance used by the "
        "stream is substring matching for metacharacter-free regexes and {literal, **, **/name} for globs",
        "closure Location() spans (first line of `->`, line of `end`) as rendered by checks/C34.py",
        "tag side channel: a global ArrayList printed by the root after_all hook"]
    ctx.run_proof_gate()
    elk = vlib.build_elk()
    m = vlib.build_model("C34")
    stream = "c34.run"
    rng = ctx.rng(stream)
    work = os.path.join(ctx.workdir, "run")
    shutil.rmtree(work, ignore_errors=True)
    os.makedirs(work, exist_ok=True)

    jobs = []   # (jid, root, fs, dirname)
    trees = []
    corpus = os.path.join(vlib.ROOT, "corpus", "C34.run.txt")
    ncorpus = 0
    if ctx.replay:
        rp = json.load(open(ctx.replay))
        case = rp.get("case")
        if isinstance(case, str):
            case = json.loads(case)
        if case:
            trees.append((case["tree"], [[tuple(f) for f in case["filters"]]]))
    else:
        if os.path.exists(corpus):
            for l in open(corpus):
                l = l.strip()
                if l and not l.startswith("#"):
                    case = json.loads(l)
                    trees.append((case["tree"], [[tuple(f) for f in case["filters"]]]))
                    ncorpus += 1
        ntrees = ctx.n(40, 400)
        nsets = ctx.n(10, 20)
        for i in range(ntrees):
            root = gen_tree(rng)
            trees.append((root, None, nsets))
    texts = []
    for ti, tr in enumerate(trees):
        root = tr[0]
        text, info = render(root)
        sets = tr[1] if tr[1] is not None else gen_filter_sets(rng, root, info, tr[2])
        d = os.path.join(work, "t%d" % ti)
        texts.append((d, text))
        for si, fs in enumerate(sets):
            jobs.append(("t%d.%d" % (ti, si), root, fs, d))
    for d, text in texts:
        os.makedirs(d, exist_ok=True)
        with open(os.path.join(d, FILE), "w") as f:
            f.write(text)

    def one(job):
        jid, root, fs, d = job
        rc, out = vlib.sh([elk, "test", "--main", FILE] + cli_args(fs), cwd=d, env=vlib.elk_env(), timeout=60)
        return jid, rc, out

    results = vlib.parallel_map(one, jobs, workers=16)
    ids = [j[0] for j in jobs]
    inputs = {j[0]: encode(j[1], j[2]) for j in jobs}
    rc2, exp, mout = vlib.run_model(m, ids, inputs)
    if rc2 != 0:
        ctx.broke("correspondence %s: model driver exited %d" % (stream, rc2), mout[-3000:])

    distinct = set()
    dist = {}
    mism = 0
    samples = []
    for job, (jid, rc, out) in zip(jobs, results):
        _, root, fs, d = job
        case = {"tree": root, "filters": [list(f) for f in fs]}
        fclass = filter_class(root, fs)
        dist[fclass] = dist.get(fclass, 0) + 1
        ncases = len(walk(root))
        if fs and ncases >= 2:
            distinct.add(inputs[jid])
        if rc not in (0, 1) or "panic:" in out or "[FAIL]" in out or "Summary:" not in out:
            ctx.fail("runner-crash:" + vlib.classify_elk(rc, out), "elk test %s: rc=%d, no summary / crash: %s" % (
                " ".join(cli_args(fs)), rc, out[-300:]), stream=stream, case=case, impl=out[-2000:], oracle="runner must finish")
            continue
        obs = parse_output(rc, out)
        if len(samples) < 4 and fs:
            samples.append({"filters": cli_args(fs), "cases": ncases, "observed": obs})
        otags = obs.split("ev=", 1)[1].split(",") if obs.split("ev=", 1)[1] else []
        ocases = sorted(int(t[1:]) for t in otags if t[0] == "c")
        e = exp.get(jid)
        sel, exe = spec_eval(root, fs)
        # oracle 2a: executed multiset = selected (and startable) cases, each once
        if ocases != sorted(exe):
            missing = sorted(set(exe) - set(ocases))
            extra = sorted(set(ocases) - set(exe))
            dup = len(ocases) != len(set(ocases))
            kind = "+".join(k for k, v in (("missing", missing), ("extra", extra), ("dup", dup)) if v)
            ctx.fail("exec:%s:%s" % (kind, fclass),
                     "elk test %s on a %d-case tree: ran cases %s, selected %s (missing %s, extra %s)" % (
                         " ".join(cli_args(fs)), ncases, ocases, sorted(exe), missing, extra),
                     stream=stream, case=case, impl=obs, model=e,
                     oracle="executed cases must be exactly the cases satisfying every filter, each once")
            mism += 1
            continue
        # oracle 2b: exit status from what actually ran
        badhooks = set()
        for s in [root] + suites_of(root):
            for k in HOOKS:
                if s["hooks"].get(k, "p") != "p":
                    badhooks.add("%s%d" % (k, s["id"]))
        outs = {c["id"]: c["out"] for c, _ in walk(root)}
        something_failed = any(outs[i] != "p" for i in ocases) or any(t in badhooks for t in otags)
        if (rc == 1) != something_failed:
            if not sel and rc == 1:
                key = "exit:empty-selection"
                what = "elk test %s selects no case, nothing fails, exit status 1" % " ".join(cli_args(fs))
            else:
                key = "exit:%s:rc=%d" % ("failed" if something_failed else "nofailure", rc)
                what = "elk test %s: exit %d but failure-among-what-ran=%s" % (" ".join(cli_args(fs)), rc, something_failed)
            ctx.fail(key, what, stream=stream, case=case, impl=obs, model=e,
                     oracle="exit status is failure exactly when a case (or hook) that ran failed or errored")
            if key != "exit:empty-selection":
                mism += 1
        # oracle 1: the proved model
        if e is None:
            ctx.broke("correspondence %s: model gave no answer for %s" % (stream, jid))
        elif e != obs:
            mism += 1
            ecases = [t for t in e.split("ev=", 1)[1].split(",") if t.startswith("c")]
            if sorted(ecases) != sorted(t for t in otags if t[0] == "c"):
                key = "model-exec:" + fclass
            elif e.split(" ")[0] != obs.split(" ")[0]:
                key = "model-exit:" + fclass
            else:
                key = "model-hooks:" + fclass
            ctx.fail(key, "elk test %s: implementation %s, model %s" % (" ".join(cli_args(fs)), obs, e),
                     stream=stream, case=case, impl=obs, model=e, oracle="implementation differs from the proved model")
    ctx.stream(stream, len(jobs), len(distinct), RULE, samples, dist, mismatches=mism, corpus_cases=ncorpus,
               trees=len(trees))
    shutil.rmtree(work, ignore_errors=True)
