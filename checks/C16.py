"""C16 — awaiting never loses a wake-up or deadlocks the runtime.

Proof gate: Props/C16.v (protocol model, all interleavings, every N >= 1, Q >= 1).
Stream c16.run: generated Elk async programs (tree / chain / fan shapes of tasks that start and await each
other) are run with the real `elk run` under ELK_DEFAULT_THREAD_POOL_SIZE x ELK_DEFAULT_THREAD_POOL_QUEUE_SIZE
with a watchdog; outcome class and the printed tags are compared with the extracted model's exhaustive
exploration of the same program under the same (N, Q).
Flood family (same stream): a `mid` task starts one or two leaves (and optionally co-awaiters of the same leaf),
then k short filler tasks (k from Q+1 / 2Q+3 / 40 for the queue sizes used) before and between its awaits, so that
promises WITH continuations settle while the bounded queue is full and fallback senders keep it full.  Small
floods (<= FLOOD_EXH_TASKS tasks) are explored exhaustively by the model; large ones are predicted by the model's
deterministic first-enabled scheduler (all interleavings of 40 interchangeable fillers are not enumerable)."""
import json
import os
import re
import signal
import subprocess
import time

import vlib

NS = (1, 2, 4)
QS = (1, 2, 3, 256)
WATCHDOG = 3       # seconds before the watchdog starts asking whether the process is blocked
HARD = 90          # a process that is still consuming CPU after this long is reported as "busy", not as a deadlock
TAG = re.compile(r"<[^<>\n]*>")
FLOOD_CFGS = ((1, 1), (1, 2), (1, 8), (2, 1), (2, 2), (2, 8))
FLOOD_KS_SMALL = (2, 3, 4)            # Q+1 for Q = 1, 2, 3; total tasks stay explorable
FLOOD_KS_BIG = (5, 7, 9, 19, 40)      # 2Q+3 for Q = 1, 2, 3, 8; Q+1 for Q = 8; 40
FLOOD_EXH_TASKS = 6                   # floods with more tasks than this are not explored exhaustively


# ------------------------------------------------------------------ programs
# a program is (main_body, [task bodies]); body = list of ("s", j) / ("a", j)

def gen_body(rng, children, allow_double=True):
    """random valid order: every child started once, awaited at least once after its start"""
    body = []
    todo = list(children)
    started = []        # started, not yet awaited
    awaited = []
    eager = rng.chance(1, 3)   # spawn-then-immediately-await style
    while todo or started:
        can_spawn = bool(todo)
        can_await = bool(started)
        if can_spawn and (not can_await or (not eager and rng.chance(1, 2))):
            j = todo.pop(0)
            body.append(("s", j))
            started.append(j)
        else:
            j = started.pop(rng.below(len(started)))
            body.append(("a", j))
            awaited.append(j)
            if allow_double and awaited and rng.chance(1, 8):
                body.append(("a", rng.choice(awaited)))
    return body


def gen_program(rng, max_tasks):
    n = rng.range(2, max_tasks)
    shape = rng.choice(["tree", "tree", "chain", "fan", "fan2"])
    parent = []
    for j in range(n):
        if shape == "chain":
            p = j - 1
        elif shape == "fan":
            p = -1
        elif shape == "fan2":                 # main starts a `mid` that awaits leaves while main floods the queue
            p = -1 if (j == 0 or rng.chance(1, 2)) else 0
        else:
            p = rng.range(-1, j - 1)
        parent.append(p)
    kids = {i: [] for i in range(-1, n)}
    for j, p in enumerate(parent):
        kids[p].append(j)
    main = gen_body(rng, kids[-1])
    tasks = [gen_body(rng, kids[i]) for i in range(n)]
    return shape, (main, tasks)


def gen_flood(rng, big):
    """mid(0) starts leaves, optional co-awaiters of leaf 1, then k fillers before / between its awaits.
    Returns (shape, program, coawait) - coawait: some task awaits a promise started by its parent before it (outside
    the Coq wf class of C16_quiescent_complete, still inside the invariants and the exploration)."""
    k = rng.choice(FLOOD_KS_BIG if big else FLOOD_KS_SMALL)
    nleaf = 1 if not big else rng.choice([1, 1, 2])
    ncoaw = rng.choice([0, 0, 1, 2]) if big else rng.choice([0, 0, 0, 1])
    nested = big and k <= 19 and rng.chance(1, 3)
    nmain = rng.choice([0, 0, 1, 2]) if big else 0
    if not big and 1 + nleaf + ncoaw + k > FLOOD_EXH_TASKS:
        ncoaw = 0
    tasks = [[]]                       # 0 = mid
    leaves = list(range(1, 1 + nleaf))
    tasks += [[] for _ in leaves]
    coaw = list(range(len(tasks), len(tasks) + ncoaw))
    tasks += [[("a", leaves[0])] for _ in coaw]
    fillers = list(range(len(tasks), len(tasks) + k))
    tasks += [[] for _ in fillers]
    if nested:
        for f in fillers:
            if rng.chance(1, 2):
                g = len(tasks)
                tasks.append([])
                tasks[f] = [("s", g), ("a", g)]
    mainf = list(range(len(tasks), len(tasks) + nmain))
    tasks += [[] for _ in mainf]
    mid = [("s", j) for j in leaves] + [("s", j) for j in coaw]
    split = rng.choice([k, k, k - 1, (k + 1) // 2])     # fillers before the first await; the rest between awaits
    mid += [("s", j) for j in fillers[:split]]
    rest = fillers[split:]
    for i, lf in enumerate(leaves):
        mid.append(("a", lf))
        if i == 0 or not leaves[i + 1:]:
            mid += [("s", j) for j in rest]
            rest = []
    others = coaw + fillers
    while others:
        mid.append(("a", others.pop(rng.below(len(others)))))
    tasks[0] = mid
    main = [("s", 0)] + [("s", j) for j in mainf] + [("a", 0)] + [("a", j) for j in mainf]
    shape = "flood%s%s%s" % ("-big" if big else "", "-coaw" if coaw else "", "-nested" if nested else "")
    return shape, (main, tasks), bool(coaw)


def body_str(b):
    return " ".join("%s%d" % (k, j) for k, j in b)


def prog_str(p):
    return body_str(p[0]) + ";" + "/".join(body_str(b) for b in p[1])


def parse_prog(s):
    mainb, tasks = s.split(";")

    def pb(x):
        return [(t[0], int(t[1:])) for t in x.split()]
    return pb(mainb), [pb(x) for x in tasks.split("/")]


def elk_source(p):
    main, tasks = p
    n = len(tasks)
    out = ["const DUMMY: Promise[Int] = Promise.resolved(0)",
           "const REG: ArrayList[Promise[Int]] = ArrayList::[Promise[Int]]()",
           "for i in 0...%d then REG << DUMMY" % n]
    for t in range(n - 1, -1, -1):
        out.append("async def t%d: Int" % t)
        out.append('  println "<s%d>"' % t)
        k = 0
        for op, j in tasks[t]:
            if op == "s":
                out.append("  REG[%d] = t%d()" % (j, j))
            else:
                k += 1
                out.append("  await REG[%d]" % j)
                out.append('  println "<r%d.%d>"' % (t, k))
        out.append('  println "<f%d>"' % t)
        out.append("  %d" % t)
        out.append("end")
    k = 0
    for op, j in main:
        if op == "s":
            out.append("REG[%d] = t%d()" % (j, j))
        else:
            k += 1
            out.append("await REG[%d]" % j)
            out.append('println "<m.%d>"' % k)
    out.append('println "<done>"')
    return "\n".join(out) + "\n"


def expected_tags(p, final):
    """tags the model says are printed: from the final (pc, status) of every task"""
    main, tasks = p
    tags = []
    for ent in final.split(","):
        t, pc, st = ent.split(":")
        t, pc = int(t), int(pc)
        if st == "n":
            continue
        tags.append("<s%d>" % t)
        k = 0
        for op, j in tasks[t][:pc]:
            if op == "a":
                k += 1
                tags.append("<r%d.%d>" % (t, k))
        if st == "d":
            tags.append("<f%d>" % t)
    k = 0
    for op, j in main:
        if op == "a":
            k += 1
            tags.append("<m.%d>" % k)
    tags.append("<done>")
    return sorted(tags)


def order_ok(tags):
    """per-thread program order of the tags actually printed"""
    pos = {}
    for i, t in enumerate(tags):
        pos.setdefault(t, i)
    if tags and tags[-1] != "<done>":
        return False
    groups = {}
    for t in pos:
        m = re.match(r"<([srf])(\d+)(?:\.(\d+))?>", t)
        if m:
            rank = {"s": 0, "r": int(m.group(3) or 0), "f": 10 ** 6}[m.group(1)]
            groups.setdefault(m.group(2), []).append((rank, pos[t]))
        m = re.match(r"<m\.(\d+)>", t)
        if m:
            groups.setdefault("main", []).append((int(m.group(1)), pos[t]))
    for g in groups.values():
        g.sort()
        if [x[1] for x in g] != sorted(x[1] for x in g):
            return False
    return True


def _proc_sample(pid):
    """(cpu ticks of the whole process, True if some thread is runnable or in disk wait)"""
    try:
        f = open("/proc/%d/stat" % pid).read()
        rest = f[f.rindex(")") + 2:].split()
        ticks = int(rest[11]) + int(rest[12])
        busy = False
        for t in os.listdir("/proc/%d/task" % pid):
            g = open("/proc/%d/task/%s/stat" % (pid, t)).read()
            if g[g.rindex(")") + 2:].split()[0] in ("R", "D"):
                busy = True
        return ticks, busy
    except (OSError, ValueError, IndexError):
        return None, False


def run_watch(cmd, cwd, env, soft=WATCHDOG, hard=HARD):
    """Run a process under a deadlock watchdog that does not mistake a slow machine for a hang: after `soft`
    seconds the process is declared blocked only when, over two samples 0.8 s apart, it consumed no CPU and none
    of its threads is runnable; otherwise it is given more time (up to `hard`).
    Returns (rc, output, verdict) with verdict in {exited, blocked, busy}."""
    p = subprocess.Popen(cmd, cwd=cwd, env=env, stdout=subprocess.PIPE, stderr=subprocess.STDOUT)
    t0 = time.time()
    verdict = "exited"
    try:
        out, _ = p.communicate(timeout=soft)
    except subprocess.TimeoutExpired:
        while True:
            a = _proc_sample(p.pid)
            try:
                out, _ = p.communicate(timeout=0.8)
                break
            except subprocess.TimeoutExpired:
                pass
            b = _proc_sample(p.pid)
            if a[0] is not None and b[0] is not None and b[0] - a[0] <= 0 and not a[1] and not b[1]:
                verdict = "blocked"
            elif time.time() - t0 > hard:
                verdict = "busy"
            if verdict == "blocked":
                # ask the Go runtime for a goroutine dump (SIGQUIT) before killing: used to classify the hang
                try:
                    p.send_signal(signal.SIGQUIT)
                    out, _ = p.communicate(timeout=10)
                    break
                except (subprocess.TimeoutExpired, OSError):
                    pass
            if verdict != "exited":
                p.kill()
                out, _ = p.communicate()
                break
    return p.returncode, out.decode("utf-8", "replace"), verdict


def split_dump(out):
    """(program output, goroutine dump) - the dump follows the runtime's 'SIGQUIT: quit' line"""
    for mark in ("SIGQUIT: quit", "fatal error: all goroutines are asleep"):
        i = out.find(mark)
        if i >= 0:
            return out[:i], out[i:]
    return out, ""


GOR = re.compile(r"^goroutine \d+ [^\[\n]*\[([^\]\n]*)\]:\n((?:.+\n)*)", re.M)


def dump_summary(dump):
    """wait reasons of the goroutines that are inside package vm: {'chan send': n, 'chan receive': n, ...}"""
    res = {}
    for m in GOR.finditer(dump):
        if "github.com/elk-language/elk/vm." not in m.group(2):
            continue
        st = m.group(1).split(",")[0].strip()
        res[st] = res.get(st, 0) + 1
    return res


def hang_kind(p, tags, dump):
    """Classify an observed hang from the implementation's own output.
    lost-wakeup  : some started task is suspended at `await j`, <fj> was printed (j's body ran to its end, Resolve
                   follows immediately) and no goroutine of package vm is blocked in a channel send or on a mutex -
                   the runtime is idle although an awaiter of a settled promise was never resumed;
    blocked-send : a goroutine inside package vm is blocked sending into the task queue / locking a promise;
    unclassified : neither."""
    main, tasks = p
    printed = set(tags)
    waiting = []
    for t, b in enumerate(tasks):
        if "<s%d>" % t not in printed or "<f%d>" % t in printed:
            continue
        k = 0
        for op, j in b:
            if op == "a":
                k += 1
                if "<r%d.%d>" % (t, k) not in printed:
                    waiting.append((t, j))
                    break
    lost = [(t, j) for t, j in waiting if "<f%d>" % j in printed]
    summ = dump_summary(dump)
    blocked = sum(v for k2, v in summ.items() if k2.startswith("chan send") or "Mutex" in k2)
    if not dump:
        return "no-goroutine-dump", lost, summ
    if blocked:
        return "blocked-send", lost, summ
    if lost:
        return "lost-wakeup", lost, summ
    return "unclassified", lost, summ


def outcome(rc, out, verdict):
    if verdict == "blocked" or "all goroutines are asleep" in out:
        return "deadlock"
    if verdict == "busy":
        return "busy-timeout"
    return vlib.classify_elk(rc, out)


def qclass(q):
    return "Q=%d" % q if q <= 8 else "Q=256"


# ------------------------------------------------------------------ the check

def run(ctx):
    ctx.explanation = (
        "Proved in Coq on a statement-granularity transition system of AWAIT / continuation registration / "
        "Resolve-Reject / bounded task queue (main thread + N workers + fallback goroutines, any static program "
        "table, all interleavings by induction over reachable states, every N>=1 and Q>=1): no lost wake-up and "
        "never twice (place-uniqueness invariant), resumed exactly once per suspension, settled once, the conservation "
        "law of the settle step (each send moves exactly the head continuation, exactly once, into queue-or-fallback; "
        "the fallback is per continuation) and progress of the enqueue protocol of the tree (non-blocking send with "
        "goroutine fallback, fixes/C16-nonblocking-enqueue.patch, applied). Two refuted designs by vm_compute witnesses at "
        "N=1,Q=1: blocking sends (the tree before the fix; progress proved only under the guard 'queue not full') and a "
        "batched fallback that skips the continuation whose send failed (C16_skip_one_fallback_refuted: lost wake-up). "
        "Progress means: a step exists or the runtime is quiescent (workers idle, "
        "nothing queued, main finished or waiting on an unsettled promise); C16_quiescent_complete proves that for "
        "well-formed programs (a body awaits only promises it started itself, task i starts only larger indices) a "
        "quiescent reachable state has the main thread finished and no started task unsettled - so no reachable state "
        "of the fixed protocol is a hang. That every run is finite is NOT proved in Coq (no decreasing measure was "
        "proved); finiteness and the verdict term/hang/mixed are re-observed per configuration by the extracted "
        "model's exhaustive breadth-first exploration in stream c16.run. "
        "The tie is differential: real `elk run` on generated tree/chain/fan programs under N in {1,2,4} x Q in "
        "{1,2,3,256}, and on a flood family (a task starts leaves and optional co-awaiters, then k in {2..40} short tasks "
        "before/between its awaits so that promises with continuations settle while the queue is full) under N in {1,2} x Q "
        "in {1,2,8}, with a watchdog; outcome class and tag multiset (each start/resume/finish tag exactly once, "
        "per-task order) are compared with the model's verdict for the same program and configuration. Floods with more "
        "than %d tasks are not explored exhaustively: their expected result is the model's first-enabled-scheduler run plus the "
        "implementation-level exactly-once tag oracle; co-awaiter programs are outside the wf class of "
        "C16_quiescent_complete (invariants and exploration still apply). Observed hangs are classified from the "
        "implementation's own tags and Go's SIGQUIT goroutine dump. Go's "
        "sync.Mutex, channel and select semantics are the modelled primitives (trusted). No yield-point trace stream "
        "(c16.trace) was built: schedules of the real runtime are whatever Go chooses under the small configurations."
        % FLOOD_EXH_TASKS)
    ctx.trusted_base += [
        "Go sync.Mutex / buffered channel / select-default / WaitGroup semantics as modelled (lock = holder's control state; blocking send or Lock = step not enabled)",
        "model reading of vm/thread.go AWAIT, vm/thread_pool.go executeBytecodePromise/AddTask, vm/promise.go Resolve/Reject/enqueueContinuations (validated only by stream c16.run)",
        "Elk program printer and tag parser in checks/C16.py; OCaml breadth-first explorer around the extracted step_fn (worker-symmetry reduction)",
    ]
    ctx.run_proof_gate()
    elk = vlib.build_elk()
    m = vlib.build_model("C16")
    stream = "c16.run"
    rng = ctx.rng(stream)
    cap = ctx.n(60000, 1500000)

    progs = []   # (pid, shape, program, configs, exhaustive, coawait)
    all_cfgs = [(n, q) for n in NS for q in QS]

    def ntasks(p):
        return len(p[1])

    def has_coawait(p):
        for t, b in enumerate(p[1]):
            mine = set()
            for op, j in b:
                if op == "s":
                    mine.add(j)
                elif j not in mine:
                    return True
        return False

    if ctx.replay:
        rj = json.load(open(ctx.replay))
        case = rj.get("case") or ""
        mm = re.match(r"N=(\d+) Q=(\d+) (.*)$", case)
        if not mm:
            ctx.broke("replay file has no C16 case", str(case))
            return
        rp = parse_prog(mm.group(3))
        progs.append(("replay", "replay", rp, [(int(mm.group(1)), int(mm.group(2)))], ntasks(rp) <= FLOOD_EXH_TASKS + 1,
                      has_coawait(rp)))
    else:
        corpus = os.path.join(vlib.ROOT, "corpus", "C16.run.txt")
        if os.path.exists(corpus):
            for i, line in enumerate(open(corpus)):
                line = line.split("#")[0].strip()
                if line:
                    cp = parse_prog(line)
                    small = ntasks(cp) <= FLOOD_EXH_TASKS + 1
                    progs.append(("c%d" % i, "corpus", cp, all_cfgs if small else list(FLOOD_CFGS), small, has_coawait(cp)))
        seen = set(prog_str(p[2]) for p in progs)
        want = len(progs) + ctx.n(20, 300)
        tries = 0
        while len(progs) < want and tries < want * 20:
            tries += 1
            shape, p = gen_program(rng, ctx.n(5, 7))
            s = prog_str(p)
            if s in seen:
                continue
            seen.add(s)
            progs.append(("g%d" % len(progs), shape, p, all_cfgs, True, False))
        # flood family: small floods explored exhaustively, large floods predicted by the first-enabled scheduler
        frng = ctx.rng(stream + ".flood")
        for big, cnt in ((False, ctx.n(6, 60)), (True, ctx.n(8, 120))):
            got = tries = 0
            while got < cnt and tries < cnt * 20:
                tries += 1
                shape, p, coaw = gen_flood(frng, big)
                s = prog_str(p)
                if s in seen:
                    continue
                seen.add(s)
                got += 1
                progs.append(("f%d" % len(progs), shape, p, list(FLOOD_CFGS), ntasks(p) <= FLOOD_EXH_TASKS, coaw))

    # ---- model: exhaustive exploration per (program, config), fixed protocol and protocol-as-found
    ids, inputs = [], {}
    for pid, shape, p, configs, exh, coaw in progs:
        for (n, q) in configs:
            for mode in (("F", "O") if exh else ("F",)):
                cid = "%s@N%dQ%d%s" % (pid, n, q, mode)
                ids.append(cid)
                inputs[cid] = "%s %d %d %d;%s" % (mode, n, q, cap if exh else 0, prog_str(p))
    # split the model work over 8 processes
    chunks = [ids[i::8] for i in range(8)]
    res = vlib.parallel_map(lambda ch: vlib.run_model(m, ch, inputs, timeout=2400) if ch else (0, {}, ""), chunks, workers=8)
    model = {}
    for rc, exp, mout in res:
        if rc != 0:
            ctx.broke("c16.run: model driver exited %d" % rc, mout[-2000:])
        model.update(exp)

    def mfield(cid, name):
        mm = re.search(r"\b%s=(\S+)" % name, model.get(cid, ""))
        return mm.group(1) if mm else None

    # ---- implementation: one elk process per (program, config)
    runs = []
    for pid, shape, p, configs, exh, coaw in progs:
        src = elk_source(p)
        for (n, q) in configs:
            runs.append((pid, shape, p, n, q, src, exh, coaw))

    def one(r):
        pid, shape, p, n, q, src, exh, coaw = r
        name = "%s_N%dQ%d" % (pid, n, q)
        path = os.path.join(ctx.workdir, name + ".elk")
        with open(path, "w") as f:
            f.write(src)
        env = vlib.elk_env({"ELK_DEFAULT_THREAD_POOL_SIZE": str(n), "ELK_DEFAULT_THREAD_POOL_QUEUE_SIZE": str(q)})
        res = run_watch([elk, "run", path], ctx.workdir, env)
        try:
            os.remove(path)
        except OSError:
            pass
        return res

    results = vlib.parallel_map(one, runs, workers=12)

    dist = {}
    distinct = set()
    samples = []
    n_dead = 0
    n_cap = 0
    n_nox = 0
    n_svar = 0
    for r, (rc, rawout, wverdict) in zip(runs, results):
        pid, shape, p, n, q, src, exh, coaw = r
        case = "N=%d Q=%d %s" % (n, q, prog_str(p))
        out, dump = split_dump(rawout)
        oc = outcome(rc, rawout, wverdict)
        tags = TAG.findall(out)
        cidF = "%s@N%dQ%dF" % (pid, n, q)
        cidO = "%s@N%dQ%dO" % (pid, n, q)
        vF = (model.get(cidF) or "missing").split(" ")[0]
        vO = (model.get(cidO) or "not-run").split(" ")[0]
        dist["%s/%s" % (shape, oc)] = dist.get("%s/%s" % (shape, oc), 0) + 1
        dist["model_fixed=" + vF] = dist.get("model_fixed=" + vF, 0) + 1
        dist["model_asfound=" + vO] = dist.get("model_asfound=" + vO, 0) + 1
        if any(op == "a" for b in p[1] for op, _ in b):
            distinct.add(case)
        if len(samples) < 6 and (len(samples) < 2 or oc != "ok" or (shape.startswith("flood") and len(samples) < 4)):
            samples.append({"input": case[:300], "observed": oc + " " + "".join(tags)[:120], "model_fixed": model.get(cidF, "")[:160],
                            "model_as_found": vO})
        if cidF not in model or vF in ("missing", "bad-input"):
            ctx.broke("c16.run: model gave no verdict for " + case, model.get(cidF, ""))
            continue
        if mfield(cidF, "wf") != "1" and not coaw:
            ctx.broke("c16.run: generator produced a program the model calls ill-formed: " + case)
            continue
        # model self-checks (the theorems, re-observed on this configuration)
        for cid, mode in ((cidF, "fixed"), (cidO, "as-found")):
            if cid in model and (mfield(cid, "exact") == "0" or mfield(cid, "det") == "0" or mfield(cid, "fexact") == "0"):
                ctx.broke("c16.run: explored model state violates exactly-once/determinism (%s protocol): %s" % (mode, case), model.get(cid, ""))
        if vF == "cap":
            n_cap += 1
        elif vF == "nox":
            # too many interchangeable tasks for the exhaustive exploration: the model's first-enabled scheduler
            # must run the program to completion (C16_progress + C16_quiescent_complete say every maximal run does)
            n_nox += 1
            if mfield(cidF, "first") != "term":
                ctx.fail("model-fixed-protocol-can-hang:first-enabled-scheduler",
                         "fixed-protocol model, first-enabled scheduler, does not finish " + case, stream=stream, case=case,
                         impl=oc, model=model.get(cidF), oracle="C16_progress re-observed on one schedule")
        elif vF != "term":
            ctx.fail("model-fixed-protocol-can-hang:%s" % mfield(cidF, "hang"),
                     "fixed-protocol model explores a stuck state for " + case, stream=stream, case=case,
                     impl=oc, model=model.get(cidF), oracle="C16_progress re-observed by exploration")
        final = mfield(cidF, "final")
        if vF == "nox" and mfield(cidF, "first") == "term":
            final = mfield(cidF, "ffinal")
        exp_tags = expected_tags(p, final) if final and final != "-" else None
        if oc == "deadlock":
            n_dead += 1
            kind, lost, summ = hang_kind(p, tags, dump)
            gsum = ", ".join("%s x%d" % kv for kv in sorted(summ.items())) or "no goroutine dump"
            how = ("Go runtime: all goroutines are asleep" if "all goroutines are asleep" in rawout
                   else "watchdog: after %ds no CPU used and no runnable thread" % WATCHDOG)
            if kind == "lost-wakeup":
                # optional: does the refuted 'skip one' variant of the model predict exactly this?
                svar = ""
                if exh and n_svar < 3:
                    n_svar += 1
                    sid = cidF[:-1] + "S"
                    src_, sexp, _ = vlib.run_model(m, [sid], {sid: "S %d %d %d;%s" % (n, q, cap, prog_str(p))}, timeout=600)
                    sres = sexp.get(sid, "")
                    sl = re.search(r"lost=(\S+)", sres)
                    svar = "; model variant step_fn_skip (C16_skip_one_fallback_refuted) explored on this input: %s, lost tasks %s" % (
                        sres.split(" ")[0] or "no-verdict", sl.group(1) if sl else "?")
                ctx.fail("hang-lost-wakeup:N=%d:%s" % (n, qclass(q)),
                         "%s hangs (%s) with the runtime idle: %s suspended and never resumed although the awaited promise's task "
                         "finished; goroutines in package vm: %s; printed %s%s" % (
                             case, how, ", ".join("task %d at `await %d`" % tj for tj in lost), gsum,
                             "".join(tags)[:400] or "nothing", svar),
                         stream=stream, case=case, impl=oc + " " + "".join(tags), model="term " + "".join(exp_tags or []),
                         oracle="an awaiting task is resumed exactly once after the awaited promise settles; the program "
                                "terminates when every task terminates (fixed-protocol model: term)")
                continue
            cls = mfield(cidO, "hang") if vO in ("mixed", "hang") else "not-predicted-by-model-of-code-as-found"
            ctx.fail("deadlock:N=%d:%s:%s" % (n, qclass(q), cls),
                     "%s hangs (%s; %s; goroutines in package vm: %s); printed %s; model of the code as found: %s" % (
                         case, how, kind, gsum, "".join(tags)[:400] or "nothing", model.get(cidO, "")[:120]),
                     stream=stream, case=case, impl=oc + " " + "".join(tags), model="term " + "".join(exp_tags or []),
                     oracle="the program terminates when every task terminates (fixed-protocol model: term)")
            continue
        if oc != "ok":
            ctx.fail("crash:%s" % oc, "%s: elk run ended with %s: %s" % (case, oc, out[-300:]), stream=stream, case=case,
                     impl=oc, model="term", oracle="implementation outcome class")
            continue
        # oracle 2: the property on the implementation's own output
        st = sorted(tags)
        dup = sorted(set(t for t in tags if tags.count(t) > 1))
        if dup:
            ctx.fail("resumed-twice", "%s: tags printed more than once: %s" % (case, " ".join(dup)), stream=stream, case=case,
                     impl="".join(tags), model="".join(exp_tags or []), oracle="each start/resume/finish tag exactly once")
        elif not order_ok(tags):
            ctx.fail("resume-order", "%s: a task's tags are out of program order: %s" % (case, "".join(tags)), stream=stream,
                     case=case, impl="".join(tags), model="".join(exp_tags or []), oracle="per-task order of tags")
        # oracle 1: model vs implementation
        if exp_tags is not None and st != exp_tags:
            missing = [t for t in exp_tags if t not in st]
            key = "lost-wakeup" if missing else "extra-resume"
            ctx.fail(key, "%s: printed tags differ from the model: missing %s extra %s" % (
                case, " ".join(missing), " ".join(t for t in st if t not in exp_tags)), stream=stream, case=case,
                impl="".join(st), model="".join(exp_tags), oracle="tag multiset equals the model's terminal state")
    ctx.extra["deadlocks_observed"] = n_dead
    ctx.extra["model_explorations_capped"] = n_cap
    ctx.extra["runs_predicted_by_first_enabled_scheduler_only"] = n_nox
    ctx.stream(stream, len(runs), len(distinct),
               "seeded tree/chain/fan task programs (2..%d tasks, every child awaited >= once by its parent, occasional double "
               "await) + corpus, each x N in {1,2,4} x Q in {1,2,3,256}; plus the FLOOD family x N in {1,2} x Q in {1,2,8}: a mid "
               "task starts 1-2 leaves (and 0-2 co-awaiters of the first leaf), then k fillers (k in %s explored exhaustively, k in "
               "%s predicted by the model's first-enabled scheduler only; some fillers nest a spawn+await) before/between its "
               "awaits, so promises with continuations settle while the bounded queue is full; real elk under a watchdog (after %ds: "
               "deadlock iff the process uses no CPU and has no runnable thread over 0.8 s, else it may run on up to %ds; a blocked "
               "process is asked for a goroutine dump, hang class = lost-wakeup when an awaiter of a finished task is suspended and "
               "no vm goroutine is blocked in a send/lock); model = breadth-first exploration of ALL interleavings of the extracted "
               "step_fn (cap %d states, worker symmetry reduced) for the fixed protocol (gating) and the blocking-send protocol "
               "(classifies blocked-send hangs); non-trivial = program with at least one await inside a task; distinct by "
               "(program, N, Q)" % (ctx.n(5, 7), list(FLOOD_KS_SMALL), list(FLOOD_KS_BIG), WATCHDOG, HARD, cap),
               samples, dist, programs=len(progs), configs=len(all_cfgs) + len(FLOOD_CFGS))
