"""C01 — programs the type checker accepts never crash the interpreter (partial).

Streams
  c01.prog  type-directed programs of the core language of coq/Model/C01_Core.v (union types over
            Int/true/false/nil/String, narrowing by truthiness, if/while, closures assigning captured
            locals, methods calling each other, recursion) -> `elk run` -> outcome class and stdout,
            compared with the extracted interpreter T; any go_panic/go_fatal/signal of a program the
            checker accepted is a violation.
  c01.sync  single-threaded lock/unlock/read_lock/read_unlock histories on Std::Sync::Mutex / RWMutex,
            compared per operation with the extracted wrapper model (fixed variant).
  c01.std   labelled fuzzing of std methods with boundary arguments (checks/c01_std.py), not proof.
  c01.proto seeded method-call SEQUENCES (1-8 operations) on the stateful std objects a program can hold
            (generators, collection/range/string iterators, channels, promises, Sync::Once, WaitGroup) inside small
            typed programs (checks/c01_proto.py): gate on go_panic/go_fatal/signal, and stdout compared with the
            extracted protocol model coq/Model/C01_Proto.v (generators on the machine of Model/C15_Gen.v).

Program representation = the s-expression fed to ocaml/C01 (see its header), as nested Python lists.
Types are bit masks: 1 Int, 2 true, 4 false, 8 nil, 16 String.
"""
import os
import re
import sys
import vlib

sys.path.insert(0, os.path.dirname(os.path.abspath(__file__)))

STREAM = "c01.prog"
I, T, F, N, S = 1, 2, 4, 8, 16
FALSY = F | N
TYNAME = {1: "Int", 6: "Bool", 16: "String", 9: "Int?", 24: "String?", 14: "Bool?", 17: "Int | String",
          25: "Int | String | nil", 8: "nil"}
DECL_TYPES = [1, 1, 1, 6, 16, 9, 9, 9, 24, 14, 17, 25]
FUEL = 20000


def sx_str(x):
    if isinstance(x, str):
        return x
    return "(" + " ".join(sx_str(y) for y in x) + ")"


def sx_parse(s):
    toks = re.findall(r"\(|\)|[^\s()]+", s)
    pos = [0]

    def item():
        t = toks[pos[0]]
        pos[0] += 1
        if t == "(":
            acc = []
            while toks[pos[0]] != ")":
                acc.append(item())
            pos[0] += 1
            return acc
        return t
    return item()


def sub(a, b):
    return a & ~b == 0


# ------------------------------------------------------------------ printing to Elk

def elk_expr(e):
    if e == "t":
        return "true"
    if e == "f":
        return "false"
    if e == "n":
        return "nil"
    k = e[0]
    if k == "i":
        return e[1] if not e[1].startswith("-") else "(" + e[1] + ")"
    if k == "s":
        return '"s%s"' % e[1]
    if k == "v":
        return "v" + e[1]
    op = {"+": "+", "-": "-", "*": "*", "<": "<", "=": "=="}[k]
    return "(%s %s %s)" % (elk_expr(e[1]), op, elk_expr(e[2]))


def elk_cond(c, top=True):
    k = c[0]
    if k == "cv":
        return "v" + c[1]
    if k == "clt":
        return "%s < %s" % (elk_expr(c[1]), elk_expr(c[2]))
    if k == "ceq":
        return "%s == %s" % (elk_expr(c[1]), elk_expr(c[2]))
    inner = c[1]
    if inner[0] == "cv":
        return "!v" + inner[1]
    # `if !(a < b)` + newline does not parse (a parser matter, C03); the parenthesised form does
    return "(!(" + elk_cond(inner, False) + "))"


def elk_stmt(s, ind, out):
    pad = "  " * ind
    if s == "skip":
        out.append(pad + "nil")
        return
    k = s[0]
    if k == "asg":
        out.append("%sv%s = %s" % (pad, s[1], elk_expr(s[2])))
    elif k == "seq":
        elk_stmt(s[1], ind, out)
        elk_stmt(s[2], ind, out)
    elif k == "if":
        out.append(pad + "if " + elk_cond(s[1]))
        elk_stmt(s[2], ind + 1, out)
        out.append(pad + "else")
        elk_stmt(s[3], ind + 1, out)
        out.append(pad + "end")
    elif k == "while":
        out.append(pad + "while " + elk_cond(s[1]))
        elk_stmt(s[2], ind + 1, out)
        out.append(pad + "end")
    elif k == "print":
        out.append("%sprintln((%s as ::Std::Value).inspect)" % (pad, elk_expr(s[1])))
    elif k == "cc":
        out.append("%sc%s.()" % (pad, s[1]))
    elif k == "call":
        out.append("%sv%s = m%s(%s)" % (pad, s[1], s[2], ", ".join(elk_expr(a) for a in s[3:])))
    else:
        raise ValueError(s)


def elk_program(prog):
    """prog = ['prog', fuel, meth...]"""
    out = []
    meths = prog[2:]
    for i in range(len(meths) - 1, -1, -1):       # callees first (textual order is irrelevant to Elk)
        _, ps, ls, cl, body, ret, rty = meths[i]
        params = ", ".join("v%d: %s" % (j, TYNAME[int(t)]) for j, t in enumerate(ps))
        out.append("def m%d%s: %s" % (i, "(" + params + ")" if ps else "", TYNAME[int(rty)]))
        for j, (t, v) in enumerate(ls):
            out.append("  var v%d: %s = %s" % (len(ps) + j, TYNAME[int(t)], elk_expr(v)))
        for k, b in enumerate(cl):
            out.append("  c%d := ->" % k)
            elk_stmt(b, 2, out)
            out.append("    nil")
            out.append("  end")
        elk_stmt(body, 1, out)
        out.append("  " + elk_expr(ret))
        out.append("end")
    out.append("println((m0() as ::Std::Value).inspect)")
    return "\n".join(out) + "\n"


# ------------------------------------------------------------------ generator (mirrors chk of the model)

class MethGen:
    """generates one method; keeps the checker's context (chains of types) while generating"""

    def __init__(self, rng, idx, sigs, directed, dist):
        self.r = rng
        self.idx = idx
        self.sigs = sigs          # signatures of all methods: (params, rty)
        self.directed = directed  # crash-directed: closures/loops may assign narrowed locals
        self.dist = dist
        ps, rty = sigs[idx]
        self.ps = ps
        self.rty = rty
        nloc = rng.range(2, 5)
        self.locals = []
        for _ in range(nloc):
            t = rng.choice(DECL_TYPES)
            self.locals.append((t, self.lit(t)))
        self.counters = []        # reserved Int loop counters
        for _ in range(2):
            self.counters.append(len(ps) + len(self.locals))
            self.locals.append((I, ["i", "0"]))
        self.decls = list(ps) + [t for t, _ in self.locals]
        self.G = [[t] for t in self.decls]
        self.reserved = set(self.counters)
        if idx > 0:
            self.reserved.add(0)  # recursion measure
        nil_able = [x for x, t in enumerate(self.decls) if t & FALSY and t & ~FALSY and x not in self.reserved]
        rng.shuffle(nil_able)
        half = (len(nil_able) + 1) // 2
        self.narrowable = set(nil_able[:half]) if not directed else set(nil_able)
        self.free_counters = list(self.counters)
        self.nclo = 0
        self.in_closure = False
        self.in_loop = 0

    def count(self, k):
        self.dist[k] = self.dist.get(k, 0) + 1

    def lit(self, t):
        tags = [g for g in (I, T, F, N, S) if t & g]
        g = self.r.choice(tags)
        if g == I:
            return ["i", str(self.r.range(-3, 9))]
        if g == S:
            return ["s", str(self.r.range(1, 3))]
        return {T: "t", F: "f", N: "n"}[g]

    def cur(self, x):
        return self.G[x][0]

    def int_expr(self, depth):
        c = self.r.below(10)
        ivars = [x for x in range(len(self.G)) if sub(self.cur(x), I) and self.cur(x)]
        if depth <= 0 or c < 3:
            if ivars and self.r.chance(2, 3):
                return ["v", str(self.r.choice(ivars))]
            return ["i", str(self.r.range(-3, 9))]
        if c < 6 and ivars:
            return ["v", str(self.r.choice(ivars))]
        return [self.r.choice(["+", "-", "*", "+"]), self.int_expr(depth - 1), self.int_expr(depth - 1)]

    def expr(self, t, depth=2):
        """an expression whose static type is a subtype of t"""
        cands = [x for x in range(len(self.G)) if sub(self.cur(x), t) and self.cur(x)]
        c = self.r.below(10)
        if cands and c < 4:
            return ["v", str(self.r.choice(cands))]
        if t & I and c < 7:
            return self.int_expr(depth)
        if sub(T | F, t) and c < 9:
            return [self.r.choice(["<", "="]), self.int_expr(1), self.int_expr(1)]
        return self.lit(t)

    def push(self, nv):
        self.G = [[(((ch[0] & ~FALSY) if nv[1] else (ch[0] & FALSY)) if nv and nv[0] == x else ch[0])] + ch
                  for x, ch in enumerate(self.G)]

    def pop(self):
        self.G = [ch[1:] if len(ch) > 1 else ch for ch in self.G]

    def widen(self, x, te):
        ch = self.G[x]
        for i, t in enumerate(ch):
            if sub(te, t):
                self.G[x] = [t] * i + ch[i:]
                return True
        return False

    def cond(self):
        """-> (cond, narrowed (var, polarity-when-true) or None)"""
        subj = [x for x in self.narrowable if self.cur(x) & FALSY and self.cur(x) & ~FALSY]
        if self.in_closure and not self.directed:
            subj = []             # closures of guarded programs never narrow: keeps subjects apart
        if subj and self.r.chance(3, 5):
            x = self.r.choice(subj)
            self.count("cond-narrow")
            if self.r.chance(1, 3):
                return ["not", ["cv", str(x)]], (x, False)
            return ["cv", str(x)], (x, True)
        self.count("cond-int")
        c = [self.r.choice(["clt", "ceq", "clt"]), self.int_expr(1), self.int_expr(1)]
        if self.r.chance(1, 4):
            c = ["not", c]
        return c, None

    def assignable(self):
        xs = [x for x in range(len(self.G)) if x not in self.reserved]
        if not self.directed and (self.in_closure or self.in_loop):
            xs = [x for x in xs if x not in self.narrowable]
        return xs

    def stmt(self, depth):
        c = self.r.below(100)
        if c < 22:
            xs = self.assignable()
            if xs:
                x = self.r.choice(xs)
                d = self.decls[x]
                t = d if self.r.chance(2, 3) else (d & FALSY if d & FALSY and self.r.chance(1, 2) else d & ~FALSY) or d
                e = self.expr(t)
                # the generator needs the static type of e to mirror widen: over-approximate by t
                self.widen(x, self.static_type(e))
                self.count("assign")
                return ["asg", str(x), e]
        if c < 40:
            self.count("print")
            x = self.r.below(len(self.G))
            if self.cur(x) and self.r.chance(1, 2):
                return ["print", ["v", str(x)]]
            return ["print", self.int_expr(2)]
        if c < 58 and depth > 0:
            cnd, nv = self.cond()
            self.count("if")
            self.push((nv[0], nv[1]) if nv else None)
            s1 = self.block(depth - 1, self.r.range(1, 3))
            self.pop()
            self.push((nv[0], not nv[1]) if nv else None)
            s2 = self.block(depth - 1, self.r.range(0, 2))
            self.pop()
            return ["if", cnd, s1, s2]
        if c < 68 and depth > 0 and self.free_counters and not self.in_closure:
            k = self.free_counters.pop()
            self.count("while")
            n = self.r.range(1, 3)
            self.push(None)
            self.in_loop += 1
            body = self.block(depth - 1, self.r.range(1, 3))
            self.in_loop -= 1
            self.pop()
            self.free_counters.append(k)
            loop = ["while", ["clt", ["v", str(k)], ["i", str(n)]],
                    ["seq", body, ["asg", str(k), ["+", ["v", str(k)], ["i", "1"]]]]]
            return ["seq", ["asg", str(k), ["i", "0"]], loop]
        if c < 80 and self.nclo > 0:
            self.count("closure-call")
            return ["cc", str(self.r.below(self.nclo))]
        if c < 95 and not self.in_closure:
            callees = [j for j in range(self.idx + 1, len(self.sigs))]
            xs = self.assignable()
            if callees and xs:
                j = self.r.choice(callees)
                ps, rt = self.sigs[j]
                targets = [x for x in xs if sub(rt, self.decls[x])]
                if targets:
                    x = self.r.choice(targets)
                    args = [["i", str(self.r.range(0, 2))]] + [self.expr(p) for p in ps[1:]]
                    self.widen(x, rt)
                    self.count("call")
                    return ["call", str(x), str(j)] + args
        self.count("print")
        return ["print", self.int_expr(1)]

    def static_type(self, e):
        if e == "t":
            return T
        if e == "f":
            return F
        if e == "n":
            return N
        k = e[0]
        if k == "i":
            return I
        if k == "s":
            return S
        if k == "v":
            return self.cur(int(e[1]))
        return I if k in "+-*" else T | F

    def block(self, depth, n):
        ss = [self.stmt(depth) for _ in range(n)]
        if not ss:
            return "skip"
        acc = ss[-1]
        for s in reversed(ss[:-1]):
            acc = ["seq", s, acc]
        return acc

    def build(self):
        clos = []
        ncl = self.r.range(0, 2)
        for k in range(ncl):
            self.in_closure = True
            saved = [list(ch) for ch in self.G]
            b = self.block(1, self.r.range(1, 3))
            # in crash-directed mode make most closures invalidate a narrowable local
            if self.directed and self.narrowable and self.r.chance(2, 3):
                x = self.r.choice(sorted(self.narrowable))
                b = ["seq", b, ["asg", str(x), self.lit(self.decls[x] & FALSY)]]
            self.G = saved           # closures are checked from the declared types; nothing persists
            self.in_closure = False
            clos.append(b)
            self.nclo = k + 1
        body = self.block(2, self.r.range(2, 5))
        if self.idx > 0:
            # self-recursion on the reserved first parameter
            xs = [x for x in range(len(self.G)) if x not in self.reserved and sub(self.rty, self.decls[x])
                  and (self.directed or x not in self.narrowable or True)]
            if xs and self.r.chance(1, 2):
                x = self.r.choice(xs)
                args = [["-", ["v", "0"], ["i", "1"]]] + [self.expr(p) for p in self.ps[1:]]
                self.count("recursion")
                self.push(None)
                self.widen(x, self.rty)
                self.pop()
                # the widening of x must be visible after the `if` as in chk: redo it outside
                self.widen(x, self.rty)
                body = ["seq", body, ["if", ["clt", ["i", "0"], ["v", "0"]],
                                      ["call", str(x), str(self.idx)] + args, "skip"]]
        ret = self.expr(self.rty)
        return ["meth", [str(t) for t in self.ps], [[str(t), v] for t, v in self.locals], clos, body, ret, str(self.rty)]


def gen_program(rng, directed, dist):
    nm = rng.range(1, 3)
    sigs = [([], rng.choice([1, 9, 25]))]
    for _ in range(1, nm):
        ps = [I] + [rng.choice(DECL_TYPES) for _ in range(rng.below(3))]
        sigs.append((ps, rng.choice(DECL_TYPES)))
    meths = [MethGen(rng, i, sigs, directed, dist).build() for i in range(nm)]
    return ["prog", str(FUEL)] + meths


# ------------------------------------------------------------------ classification

def panic_site(out):
    """canonical panic site: first frame in the implementation after the runtime/panic frames"""
    if "tried to call an invalid method" in out:
        return "invalid-method-call-site"
    m = re.search(r"fatal error: ([^\n]*)", out)
    if m:
        return "fatal:" + re.sub(r"[^A-Za-z ]+", "", m.group(1)).strip().replace(" ", "-")[:60]
    frames = re.findall(r"\n(github\.com/elk-language/elk/[\w./*()]+)\(", out)
    for fr in frames:
        name = fr.split("/")[-1]
        if "run.func1" in name or name.endswith(".run") or "runWithState" in name:
            continue
        return name
    m = re.search(r"panic: ([^\n]*)", out)
    return "panic:" + (re.sub(r"0x[0-9a-f]+|\d+", "#", m.group(1))[:60] if m else "unknown")


def assigned(s):
    if s == "skip":
        return set()
    k = s[0]
    if k in ("asg", "call"):
        return {s[1]}
    if k in ("seq",):
        return assigned(s[1]) | assigned(s[2])
    if k == "if":
        return assigned(s[2]) | assigned(s[3])
    if k == "while":
        return assigned(s[2])
    return set()


def subjects(s):
    if s == "skip":
        return set()
    k = s[0]

    def csub(c):
        while c[0] == "not":
            c = c[1]
        return {c[1]} if c[0] == "cv" else set()
    if k == "seq":
        return subjects(s[1]) | subjects(s[2])
    if k == "if":
        return csub(s[1]) | subjects(s[2]) | subjects(s[3])
    if k == "while":
        return csub(s[1]) | subjects(s[2])
    return set()


def unguarded_kind(prog):
    """which part of the guard a program violates: 'closure-call' / 'loop-back-edge'"""
    for m in prog[2:]:
        cl, body = m[3], m[4]
        nset = subjects(body)
        for b in cl:
            nset |= subjects(b)
        for b in cl:
            if assigned(b) & nset:
                return "closure-call"
    return "loop-back-edge"


def load_corpus(path):
    out = []
    if os.path.exists(path):
        for n, line in enumerate(open(path)):
            line = line.strip()
            if not line or line.startswith("#"):
                continue
            out.append(("k%d" % n, sx_parse(line)))
    return out


def run_progs(ctx, elk, m, cases, tag, st):
    """cases: [(id, prog)]"""
    ids = [cid for cid, _ in cases]
    inputs = {cid: sx_str(p) for cid, p in cases}
    rc, exp, mout = vlib.run_model(m, ids, inputs)
    if rc != 0:
        ctx.broke("correspondence %s: model driver exited %d" % (STREAM, rc), mout[-2000:])
    todo = []
    info = {}
    for cid, p in cases:
        e = exp.get(cid, "")
        mm = re.match(r"wt=(\d) guard=(\d) res=(\w+) out=(.*)$", e)
        if not mm:
            ctx.broke("correspondence %s: model gave no answer for %s (%s)" % (STREAM, cid, e))
            continue
        wt, guard, res, mo = mm.group(1) == "1", mm.group(2) == "1", mm.group(3), mm.group(4)
        if not wt:
            st["model_rejected"] += 1
            continue
        if res == "fuel":
            st["model_fuel"] += 1
            continue
        if guard and res == "crash":
            ctx.broke("the extracted interpreter crashed on a guarded well-typed program (contradicts C01_soundness_partial)",
                      inputs[cid])
            continue
        info[cid] = (p, guard, res, mo)
        todo.append((cid, elk_program(p)))
    res = vlib.run_programs(elk, todo, os.path.join(ctx.workdir, tag), timeout=60, env={"GOMAXPROCS": "4"})
    slow = [(cid, src) for cid, src in todo if res[cid][2] == "timeout"]
    if slow:
        res.update(vlib.run_programs(elk, slow, os.path.join(ctx.workdir, tag + "_slow"), workers=2, timeout=300,
                                     env={"GOMAXPROCS": "4"}))
    srcs = dict(todo)
    for cid, _ in todo:
        p, guard, mres, mo = info[cid]
        rc_, out, cls = res[cid]
        if "[FAIL]" in out and cls not in ("go_panic", "go_fatal", "signal"):
            st["rejected"] += 1
            m_ = re.search(r"\[FAIL\] ([^\n]*)", out)
            why = re.sub(r"`[^`]*`", "`..`", m_.group(1))[:80] if m_ else "?"
            st["reject_reasons"][why] = st["reject_reasons"].get(why, 0) + 1
            continue
        st["evaluations"] += 1
        st["distinct"].add(inputs[cid])
        st["outcomes"][cls] = st["outcomes"].get(cls, 0) + 1
        st["guarded" if guard else "unguarded"] += 1
        lines = [l for l in out.splitlines()]
        if mres == "crash":
            # wt, not guarded, interpreter T crashes: the modelled narrowing defect.  Whatever the VM
            # does with the mistyped value (usually a Go panic in op*Int), it is that finding.
            if cls == "ok" and ",".join(lines) == mo:
                continue
            st["narrowing_crashes"] += 1
            kind = unguarded_kind(p)
            ctx.fail("narrowing-not-invalidated:" + kind,
                     "accepted program relies on a narrowing that a %s invalidated: %s (%s)" % (
                         kind, cls, (out.strip().splitlines() or ["?"])[0][:160]),
                     stream=STREAM, case=inputs[cid], impl=cls + ":" + panic_site(out), model="crash (typed instruction on another representation)",
                     oracle="checker-accepted program must not crash; model predicts the crash from the checker's own rules")
            continue
        if cls in ("go_panic", "go_fatal", "signal"):
            site = panic_site(out)
            st["crashes"][site] = st["crashes"].get(site, 0) + 1
            ctx.fail("crash:" + site, "checker-accepted program kills the interpreter: %s" % (out.strip().splitlines() or ["?"])[0][:200],
                     stream=STREAM, case=inputs[cid], impl=cls + ":" + site, model="ok out=" + mo,
                     oracle="a program the checker accepts must not end in a Go panic / fatal error / signal")
            continue
        if cls == "timeout":
            st["timeouts"] += 1
            continue
        if cls != "ok":
            ctx.fail("mismatch:elk-error", "model runs to completion, implementation raised: %s" % out.strip()[-200:],
                     stream=STREAM, case=inputs[cid], impl=out[-300:], model="ok out=" + mo,
                     oracle="model/implementation disagreement")
            continue
        if ",".join(lines) != mo:
            ctx.fail("mismatch:stdout", "printed values differ: implementation %s, interpreter T %s" % (",".join(lines)[:200], mo[:200]),
                     stream=STREAM, case=inputs[cid], impl=",".join(lines)[:400], model=mo[:400],
                     oracle="model/implementation disagreement")
            continue
        st["agree"] += 1
        if lines:
            st["printing"] += 1
    return srcs


# ------------------------------------------------------------------ sync stream

SYNC = "c01.sync"
OPNAME = {"l": "lock", "u": "unlock", "rl": "read_lock", "ru": "read_unlock"}


def sync_program(kind, ops):
    out = ["m := ::Std::Sync::%s()" % kind]
    for o in ops:
        out += ["do", "  m.%s" % OPNAME[o], '  println("ok")', "catch ::Std::Value() as e", '  println("err")', "end"]
    return "\n".join(out) + "\n"


def run_sync(ctx, elk, m):
    rng = ctx.rng(SYNC)
    cases = []
    corpus = [("Mutex", ["u"]), ("RWMutex", ["u"]), ("RWMutex", ["ru"]), ("Mutex", ["l", "u", "u"]),
              ("RWMutex", ["rl", "ru", "ru"]), ("RWMutex", ["l", "ru"]), ("RWMutex", ["rl", "u"])]
    for kind, ops in corpus:
        cases.append((kind, ops))
    n = ctx.n(25, 1500)
    for _ in range(n):
        kind = rng.choice(["Mutex", "RWMutex"])
        alphabet = ["l", "u"] if kind == "Mutex" else ["l", "u", "rl", "ru"]
        ops = [rng.choice(alphabet) for _ in range(rng.range(1, 6))]
        cases.append((kind, ops))
    ids = ["s%d" % i for i in range(len(cases))]
    inputs = {i: sx_str(["mutex", "1"] + ops) for i, (_, ops) in zip(ids, cases)}
    rc, exp, mout = vlib.run_model(m, ids, inputs)
    if rc != 0:
        ctx.broke("correspondence %s: model driver exited %d" % (SYNC, rc), mout[-2000:])
    progs, keep = [], {}
    blocked = 0
    for i, (kind, ops) in zip(ids, cases):
        e = exp.get(i, "")
        if "fatal" in e:
            ctx.broke("the fixed wrapper model reached Fatal (contradicts C01_unlock_total)", inputs[i])
            continue
        if "block" in e:
            # the thread would wait for itself: cut the history before the blocking operation
            k = e.split(",").index("block")
            ops = ops[:k]
            e = ",".join(e.split(",")[:k])
            blocked += 1
            if not ops:
                continue
        keep[i] = (kind, ops, e)
        progs.append((i, sync_program(kind, ops)))
    res = vlib.run_programs(elk, progs, os.path.join(ctx.workdir, "sync"), timeout=60, env={"GOMAXPROCS": "4"})
    evals, distinct, agree, errs = 0, set(), 0, 0
    outcomes = {}
    for i, _ in progs:
        kind, ops, e = keep[i]
        rc_, out, cls = res[i]
        evals += 1
        distinct.add((kind, tuple(ops)))
        outcomes[cls] = outcomes.get(cls, 0) + 1
        case = kind + ":" + " ".join(OPNAME[o] for o in ops)
        if cls in ("go_panic", "go_fatal", "signal"):
            got = [l for l in out.splitlines() if l in ("ok", "err")]
            bad = ops[len(got)] if len(got) < len(ops) else "?"
            ctx.fail("sync:%s#%s:%s" % (kind, OPNAME.get(bad, bad), cls),
                     "%s dies with: %s" % (case, (out.strip().splitlines() or ["?"])[0][:160]), stream=SYNC, case=case,
                     impl=cls + ":" + panic_site(out), model=e,
                     oracle="mutex misuse must surface as Std::Sync::*::UnlockedError, not as a Go fatal error")
            continue
        got = ",".join(l for l in out.splitlines() if l in ("ok", "err"))
        if cls != "ok" or got != e:
            ctx.fail("sync:mismatch:%s" % kind, "%s: implementation %s (%s), wrapper model %s" % (case, got, cls, e), stream=SYNC,
                     case=case, impl=got, model=e, oracle="model/implementation disagreement")
            continue
        agree += 1
        errs += e.count("err")
    ctx.stream(SYNC, evals, len(distinct),
               "single-threaded histories (1-6 operations, corpus of misuse histories first) of lock/unlock on Std::Sync::Mutex and "
               "lock/unlock/read_lock/read_unlock on Std::Sync::RWMutex; each operation runs in do/catch and prints ok/err; "
               "histories are cut before an operation on which the thread would wait for itself (model says Block); gate: no Go "
               "fatal/panic, and the ok/err sequence equals the extracted wrapper model (variant with tracked lock state)",
               [k + ":" + " ".join(o) for k, o in cases[:3]],
               dict(outcomes=outcomes, agree=agree, unlocked_errors_expected=errs, cut_before_block=blocked))


# ------------------------------------------------------------------ entry point

def run(ctx):
    ctx.explanation = (
        "PARTIAL. Proved in Coq (Props/C01.v) for a small core language (Model/C01_Core.v: Int/true/false/nil/String tags, "
        "union types, locals with declared types, narrowing of a local by `if x` / `!x` / `while x`, assignment through the "
        "checker's shadow chain, closures that read and assign captured locals, methods calling each other and themselves): "
        "a program the core checker accepts never makes the typed-dispatch interpreter execute an Int-typed instruction on "
        "another representation (a Go panic in the VM), for all fuel - under the guard that no closure body and no loop body "
        "assigns a local that a condition of the same method narrows (C01_soundness_partial). Without the guard the checker's "
        "rules are unsound, shown by two machine-checked witnesses (C01_narrow_refuted: closure call, "
        "C01_narrow_loop_refuted: loop back edge) that also crash the real VM. For the Mutex/RWMutex wrappers: with the "
        "lock state tracked next to the native lock no single-threaded history reaches Go's fatal 'unlock of unlocked "
        "mutex' (C01_unlock_total); as found a fresh mutex does (C01_unlock_refuted). NOT proved: the ~500 opcodes and the "
        "natives outside the core, generators, async, the real checker (only its rules as transcribed), the compiler. "
        "Those are reached by differential testing only: c01.prog runs generated core programs through `elk run` and "
        "compares outcome and output with the extracted interpreter; c01.sync does the same for lock histories; c01.std is "
        "labelled fuzzing of std methods with boundary arguments and gates only on Go panic/fatal/signal. Protocol sequences on "
        "stateful std objects: C01_proto_sound (Model/C01_Proto.v: generators on the machine of Model/C15_Gen.v, collection and "
        "range iterators, buffered channels, settled promises, Sync::Once) - every history of next/reset/for-in/push/pop/close/"
        "await/call the checker accepts keeps the kind of every slot, so the typed-dispatch machine never meets another "
        "representation, for all fuel; C01_proto_reset_restarts: reset = start over. That theorem is about the model of the "
        "objects only: the compiler/VM code for suspension and reset is NOT proved and is reached by the stream c01.proto "
        "(seeded sequences of 1-8 method calls inside small typed programs): go_panic/go_fatal/signal gate for all families; "
        "stdout compared with the extracted model for generators, iterators, channels, promises, Once; crash-only for generator "
        "bodies with a closure over a local, WaitGroup and Promise.wait.")
    ctx.trusted_base += [
        "Python generator and printer core program -> Elk source (checks/C01.py), outcome classifier (vlib.classify_elk)",
        "transcription of the checker rules (narrow.go narrowLocal, checkLocalVariableAssignment, if/while environments) "
        "into Model/C01_Core.v chk; closures are declared right after the locals of a method",
        "Go sync.Mutex/RWMutex modelled as a writer flag and a reader count observed by one thread",
        "c01.std: header parser and argument generator (checks/c01_std.py); fuzzing, not proof",
        "c01.proto: Model/C15_Gen.v (generator machine, imported read-only), the Python printer of cases to Elk programs and of "
        "model events to expected lines (checks/c01_proto.py); generated generator bodies never assign parameters and initialise "
        "locals at the top, which makes `reset = start over` the reference for vm reset (ip rewind only)",
    ]
    ctx.run_proof_gate()
    elk = vlib.build_elk()
    m = vlib.build_model_exact("C01")
    rng = ctx.rng(STREAM)
    st = dict(evaluations=0, distinct=set(), rejected=0, reject_reasons={}, model_rejected=0, model_fuel=0, outcomes={},
              guarded=0, unguarded=0, narrowing_crashes=0, crashes={}, timeouts=0, agree=0, printing=0)
    corpus = load_corpus(os.path.join(vlib.ROOT, "corpus", "C01.prog.txt"))
    dist = {}
    cases = []
    n = ctx.n(110, 6000)
    for i in range(n):
        directed = rng.chance(1, 5)
        cases.append(("g%d" % i, gen_program(rng, directed, dist)))
    if corpus:
        run_progs(ctx, elk, m, corpus, "corpus", st)
    corpus_evals = st["evaluations"]
    srcs = run_progs(ctx, elk, m, cases, "gen", st)
    samples = [srcs[k] for k in list(srcs)[:2]]
    ctx.stream(STREAM, st["evaluations"], len(st["distinct"]),
               "seeded type-directed core programs (1-3 methods, 2-5 typed locals + loop counters, 0-2 closures per method, "
               "statements: assignment, println, if/else with narrowing or Int conditions, counted while loops, closure calls, "
               "method calls down the call graph, guarded self-recursion; one program in five is crash-directed: closures and "
               "loop bodies may assign narrowed locals); corpus first. evaluation = one program the real checker accepted and "
               "the VM ran: outcome class must not be go_panic/go_fatal/signal and stdout must equal the output of the "
               "extracted interpreter T; programs T runs out of fuel on, or the real checker rejects, are counted separately",
               samples,
               dict(statements=dist, outcomes=st["outcomes"], guarded=st["guarded"], unguarded=st["unguarded"],
                    agree=st["agree"], printing_programs=st["printing"], narrowing_crashes=st["narrowing_crashes"],
                    other_crash_sites=st["crashes"], checker_rejected=st["rejected"], reject_reasons=st["reject_reasons"],
                    generator_model_disagreements=st["model_rejected"], model_out_of_fuel=st["model_fuel"],
                    timeouts=st["timeouts"], corpus_evaluations=corpus_evals))
    tot = len(cases)
    if tot and (st["rejected"] + st["model_rejected"] + st["model_fuel"]) * 2 > tot:
        ctx.broke("correspondence %s: more than half of the generated programs were not executed (%d rejected by elk, %d by "
                  "the model, %d out of fuel, of %d)" % (STREAM, st["rejected"], st["model_rejected"], st["model_fuel"], tot))
    run_sync(ctx, elk, m)
    try:
        import c01_std
    except ImportError:
        c01_std = None
    try:
        import c01_proto
    except ImportError:
        c01_proto = None
    if c01_proto is not None:
        c01_proto.run_proto(ctx, elk, m)
    else:
        ctx.broke("c01.proto: checks/c01_proto.py is missing")
    if c01_std is not None:
        c01_std.run_std(ctx, elk)
    else:
        ctx.broke("c01.std: checks/c01_std.py is missing")
