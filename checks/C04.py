"""C04 - Lexing partitions the source faithfully; colouring never alters text."""
import json
import os
import re
import vlib

STREAM = "c04.lex"
EXH = "c04.exh"

RULE = ("sources built from a grammar of lexer constructs - identifiers (ASCII, 2-4 byte letters, sigils, quoted and raw-quoted), "
        "numbers with every base prefix and (in)valid size suffixes, all operators, double-quoted strings with valid and invalid "
        "escapes (\\x \\u \\U cut short, followed by multi-byte runes, backslash + multi-byte / newline / CRLF / invalid byte), "
        "${}/#{} interpolation nested up to 3 deep, $name/#name interpolation, raw strings, char and raw char literals, regex literals "
        "with escapes/interpolation/flags, word/symbol/hex/bin collection literals with Unicode blanks, line/block/doc comments "
        "(nested, unterminated), LF / CRLF / lone CR / folded newlines, stray and truncated UTF-8, ESC bytes - then mutated (byte "
        "deletion that cuts runes, insertion of significant symbols / escapes / bad bytes, truncation = unterminated literals), 10% "
        "rewritten with CRLF line endings; plus random symbol strings and random bytes; 10% in embellished-text mode "
        "(text with `code` / ``code`` / ```code```). Every token of every source is checked by the proved monitor (step condition L), "
        "the model of Colorize is compared with the real output, and the harness's own oracle re-derives partition, gaps, positions "
        "and regexp-stripped colouring. non-trivial = source has a non-ASCII byte, a CR, or a backslash; distinct by (mode, source)")
EXH_RULE = ("ALL strings of 1..k symbols over the 24-symbol alphabet  \" \\ x u e-acute euro LF CR ` ' $ { } # [ ] / * % w space 1 0xC3 a  "
            "(k=3 quick, k=4 thorough), normal mode; same three oracles per case")


def fields(s):
    return dict(f.split("=", 1) for f in s.split(";") if "=" in f)


def parse_input(inp):
    base, _, orc = inp.partition("|")
    kv = dict(f.split("=", 1) for f in base.split() if "=" in f)
    orc = orc.strip()
    toks = []
    if orc.startswith("toks=") and len(orc) > 5:
        for t in orc[5:].split("/"):
            p = t.split(",")
            toks.append((int(p[0]), int(p[1]), int(p[2]), int(p[3]), int(p[4]), int(p[5]), p[6], ",".join(p[7:])))
    return kv.get("m", "n"), bytes.fromhex(kv.get("s", "")), toks


def src_class(src):
    if all(b < 0x80 for b in src):
        return "ascii"
    try:
        src.decode("utf-8")
        return "valid-multibyte"
    except UnicodeDecodeError:
        return "invalid-utf8"


CONTENT = ("STRING_CONTENT", "DOLLAR_IDENTIFIER", "INSTANCE_VARIABLE", "PUBLIC_CONSTANT")


def tok_class(src, toks, i):
    """canonical class of the token at which a check first fails. A decision list that names the
    construct responsible (not the arbitrary victim): escape rewinds first, then token type, how an
    ERROR lexeme starts, and whether the lexeme spans a line end."""
    if i is None or i < 0 or i >= len(toks):
        return "none"
    st, en, typ = toks[i][0], toks[i][1], toks[i][7]
    lex = src[max(st, 0):max(en + 1, 0)]
    content = typ in CONTENT
    for k in range(3):      # the token ends (content) / starts (ERROR) on or inside the rune that follows a backslash
        p = en - k
        if content and st <= p and src[p:p + 1] == b"\\" and src[p + 1:p + 2] >= b"\x80" and all(b >= 0x80 for b in src[p + 1:en + 1]):
            return "escape-rewind:backslash-multibyte"
        p = st - 1 - k
        if typ == "ERROR" and p >= 0 and src[p:p + 1] == b"\\" and lex[:1] >= b"\x80" and all(b >= 0x80 for b in src[p + 1:st]):
            return "escape-rewind:backslash-multibyte"
    if content and src[en + 1:en + 3] == b"\\\n":
        return "escape-rewind:backslash-newline"
    if typ == "ERROR" and lex[:2] == b"\\\n":
        return "escape-rewind:backslash-newline"
    if typ == "ERROR":
        if lex[:1] == b'"':
            lead = "dq"
        elif lex[:2] == b"r`":
            lead = "rawchar"
        elif lex[:1] == b"`":
            lead = "char"
        elif lex[:1] == b"\\":
            lead = "backslash"
        elif lex[:1].isdigit() or (lex[:1] == b"." and lex[1:2].isdigit()):
            lead = "number"
        elif lex[:1] in b"#/":
            lead = "comment"
        else:
            lead = "other"
        typ = "ERROR-" + lead
    elif content:
        typ = "content"
    else:
        typ = re.sub(r"[^A-Za-z0-9_]", "", typ) or "punct"
    return "%s:%s" % (typ, "nl" if b"\n" in lex else "plain")


def tok_group(ty):
    """which lexing mode a token type witnesses (for the distribution in the evidence)"""
    if ty == "ERROR":
        return "error"
    if "STRING" in ty:
        return "string"
    if "REGEX" in ty:
        return "regex"
    if "COMMENT" in ty:
        return "doc-comment"
    if ty == "NEWLINE":
        return "newline"
    if "CHAR_LITERAL" in ty:
        return "char"
    if re.match(r"^[\\%^][wsxb]\[$", ty):
        return "collection"
    if ty in ("INT", "FLOAT", "BIG_FLOAT") or re.match(r"^U?INT\d+$|^FLOAT\d+$|^UINT$", ty):
        return "number"
    return None


CLAUSES = {1: "overlaps or precedes the previous token", 2: "negative length", 3: "span outside the input",
           4: "start is not on a rune boundary", 5: "start line/column disagree with the byte offset",
           6: "end+1 is not on a rune boundary", 7: "end line/column disagree with the byte offset"}


def show_src(src):
    return repr(src)[1:]


def run_batch(ctx, stream, h, m, args, acc, corpus=None):
    """run the harness and the model driver through files and compare line by line (bounded memory)"""
    wd = ctx.workdir
    hout = os.path.join(wd, stream + ".h.txt")
    min_ = os.path.join(wd, stream + ".in.txt")
    mout = os.path.join(wd, stream + ".m.txt")
    cmd = [h] + args
    if corpus and os.path.exists(corpus):
        cmd += ["-input", corpus]
    rc, log = vlib.sh("%s > %s" % (" ".join("'%s'" % c for c in cmd), hout), timeout=3000, env=vlib.elk_env())
    if rc != 0:
        ctx.broke("correspondence %s: harness exited %d" % (stream, rc), log[-3000:])
        return
    rc, log = vlib.sh("cut -f1,2 '%s' > '%s' && '%s' < '%s' > '%s'" % (hout, min_, m, min_, mout), timeout=3000)
    if rc != 0:
        ctx.broke("correspondence %s: model driver exited %d" % (stream, rc), log[-3000:])
        return
    n = 0
    with open(hout) as fh, open(mout) as fm:
        for lh in fh:
            lm = fm.readline()
            ph = lh.rstrip("\n").split("\t")
            pm = lm.rstrip("\n").split("\t")
            if len(ph) < 3 or len(pm) < 2 or ph[0] != pm[0]:
                ctx.broke("correspondence %s: harness and model output out of step at %r / %r" % (stream, lh[:80], lm[:80]))
                return
            n += 1
            one_case(ctx, stream, ph[0], ph[1], ph[2], pm[1], acc)
    for f in (hout, min_, mout):
        try:
            os.remove(f)
        except OSError:
            pass
    if n == 0:
        ctx.broke("correspondence %s: no cases produced" % stream)


def one_case(ctx, stream, cid, inp, obs, exp, acc):
    mode, src, toks = parse_input(inp)
    o = fields(obs)
    acc["n"] += 1
    cls = src_class(src)
    acc["dist"][mode + ":" + cls] = acc["dist"].get(mode + ":" + cls, 0) + 1
    if b"\r\n" in src:
        acc["dist"]["has-crlf"] = acc["dist"].get("has-crlf", 0) + 1
    acc["tokens"] += len(toks)
    for t in toks:
        g = tok_group(t[7])
        if g:
            acc["dist"]["tok:" + g] = acc["dist"].get("tok:" + g, 0) + 1
    if cls != "ascii" or b"\r" in src or b"\\" in src:
        acc["distinct"].add(hash((mode, src)))
    if len(acc["samples"]) < 4 and len(src) > 6 and (acc["n"] % 97 == 1):
        acc["samples"].append({"input": inp[:300], "observed": obs[:300]})
    base = "m=%s s=%s" % (mode, src.hex())
    fails = acc["fails"]

    def fail(key, what, impl=None, model=None, oracle=""):
        acc["mism"] += 1
        fails.append((len(src), key, what, base, impl, model, oracle))

    if exp.startswith("driver-error"):
        ctx.broke("correspondence %s: model driver failed on %s: %s" % (stream, base, exp[:200]))
        return
    e = fields(exp)
    end = o.get("end", "?")
    if end != "eof":
        fail("end:" + end.split(" ")[0] + ":" + cls, "lexing %s in mode %s ended with %s after %s tokens" % (show_src(src), mode, end, o.get("n")),
             impl=obs[:300], oracle="the lexer must reach END_OF_FILE on every byte string without panicking")
        return
    mon = e.get("mon", "?")
    if mon != "ok":
        mm = re.match(r"bad@(\d+):(\d+)", mon)
        i, c = (int(mm.group(1)), int(mm.group(2))) if mm else (None, 0)
        t = toks[i] if i is not None and i < len(toks) else None
        tc = tok_class(src, toks, i)
        fail("L:" + tc if tc.startswith("escape-rewind") else "L%d:%s" % (c, tc),
             "source %s (mode %s): token #%s %s violates the step condition: %s" % (show_src(src), mode, i, t, CLAUSES.get(c, mon)),
             impl="token %s" % (t,), model=mon, oracle="proved monitor: step condition L clause %d (%s)" % (c, CLAUSES.get(c, "?")))
    if e.get("col") != o.get("col"):
        fail("colorize:differs-from-model:" + cls, "Colorize(%s) differs from gap+escape+lexeme+escape over the lexer's own tokens" % show_src(src),
             impl=o.get("col", "")[:400], model=e.get("col", "")[:400], oracle="implementation differs from the model of Colorize")
    if e.get("strip") == "diff":
        fail("colorize:strip-differs:" + cls, "stripping the colour codes from Colorize(%s) does not give the source back" % show_src(src),
             impl=o.get("col", "")[:400], model=src.hex(), oracle="strip (Colorize src) = src")
    o2 = o.get("o2", "?")
    if o2 != "ok":
        mm = re.match(r"([a-z-]+)@(\d+)", o2)
        i = int(mm.group(2)) if mm else None
        reason = mm.group(1) if mm else o2
        tc = tok_class(src, toks, i) if i is not None else cls
        fail("o2:" + tc if tc.startswith("escape-rewind") else "o2:%s:%s" % (reason, tc),
             "source %s (mode %s): independent oracle in the harness reports %s" % (show_src(src), mode, o2),
             impl="tokens %s" % (toks[max(0, (i or 0) - 1):(i or 0) + 2],), oracle="partition / gaps / recounted positions / regexp-stripped colouring evaluated on the implementation's outputs: " + o2)
    if o.get("note"):
        acc["dist"]["note:" + o["note"]] = acc["dist"].get("note:" + o["note"], 0) + 1
    if len(fails) > 50000:
        trim(acc)


def trim(acc):
    acc["fails"].sort(key=lambda x: (x[0], x[1]))
    keep, cnt = [], {}
    for x in acc["fails"]:
        cnt[x[1]] = cnt.get(x[1], 0) + 1
        if cnt[x[1]] <= 3:
            keep.append(x)
    acc["fails"] = keep


def report(ctx, stream, acc, rule, **kw):
    trim(acc)
    seen = {}
    for sz, key, what, case, impl, model, oracle in acc["fails"]:
        seen[key] = seen.get(key, 0) + 1
        if seen[key] <= 2:
            ctx.fail(key, what, stream=stream, case=case, impl=impl, model=model, oracle=oracle)
    ctx.stream(stream, acc["n"], len(acc["distinct"]), rule, acc["samples"], acc["dist"],
               mismatches=acc["mism"], tokens_checked=acc["tokens"], failing_keys=sorted(seen), **kw)


def new_acc():
    return {"n": 0, "dist": {}, "distinct": set(), "samples": [], "fails": [], "mism": 0, "tokens": 0}


def run(ctx):
    ctx.explanation = (
        "Proved in Coq, for all byte strings and token streams of any length: if every step of a token stream satisfies the local "
        "step condition L (start >= previous end+1, end+1 >= start, end < |src|, start and end+1 on rune boundaries of Go's UTF-8 "
        "decoding, start line/column = recount of src[0..start) with lines ending at LF and one column per decoded rune, end "
        "line/column as tokenWithValue derives them), then all spans are in range, ordered and pairwise disjoint (C04_partition); "
        "the model of Colorize never panics and strip(Colorize src) = src whenever src has no ESC byte (C04_colorize_id/_total); the "
        "recount used by the monitor is sound and complete for 'rune boundary with the lexer's counting rule' (C04_pos_spec); any run "
        "of the cursor primitives (advance by rune, backupChars n by bytes, saveCursor/restoreCursor, emit) whose backups only cross "
        "single-byte non-newline advances and whose bare advances never consume LF keeps start <= cursor <= |src| on rune boundaries "
        "with line/column = recount (C04_cursor_inv), with two _refuted witnesses that the guard is necessary and that the lexer as "
        "found violated it. NOT proved: that the 2500-line lexer satisfies L on all inputs - that is sampled: the extracted monitor "
        "checks L on every token the real lexer emits for every generated source (all lexing modes, CRLF, invalid UTF-8, "
        "unterminated literals, embellished text) plus all strings of <= 3 (quick) / 4 (thorough) symbols over a 24-symbol alphabet; "
        "the model of Colorize applied to the real tokens is compared byte for byte with lexer.Colorize / ColorizeEmbellishedText; "
        "an independent oracle in the Go harness re-derives partition, gap contents, positions and regexp-stripped colouring. The "
        "cursor model is tied to the code by reading (call sites of backupChars/advanceChar), not by a trace correspondence.")
    ctx.trusted_base += [
        "Go unicode/utf8.DecodeRuneInString modelled by Base/Utf8.v (validated by C20's stream and by the span checks here, not proved)",
        "fatih/color v1.15 Sprint = ESC[<params>m text ESC[0m: modelled; the harness extracts the parameters of each token by wrapping a marker and checks this shape",
        "second oracle: Go code in harness/cmd/c04 (strings.Count / utf8.RuneCountInString recount, regexp ESC\\[[0-9;]*m strip, gap recogniser for blanks and comments; a lone '_' skipped inside \\x[ \\b[ collections is accepted and counted as note:underscore-gap)",
        "hook /repo/lexer/verif_c04.go (constructor for the unexported embellished-text mode)",
    ]
    ctx.run_proof_gate()
    h = vlib.build_harness("c04")
    m = vlib.build_model_exact("C04")
    corpus = os.path.join(vlib.ROOT, "corpus", "C04.lex.txt")

    if ctx.replay:
        rp = json.load(open(ctx.replay))
        case = rp.get("case") or ""
        tmp = os.path.join(ctx.workdir, "replay.txt")
        with open(tmp, "w") as f:
            f.write("r0\t%s\n" % case)
        acc = new_acc()
        run_batch(ctx, STREAM, h, m, ["-n", "0"], acc, corpus=tmp)
        report(ctx, STREAM, acc, "replay of " + os.path.basename(ctx.replay))
        return

    # c04.lex: seeded random sources; quick = one batch, thorough = 12 batches with derived seeds
    acc = new_acc()
    per = ctx.n(30000, 50000)
    nb = ctx.n(1, 12)
    for b in range(nb):
        seed = ctx.sseed(STREAM if b == 0 else "%s:%d" % (STREAM, b))
        run_batch(ctx, STREAM, h, m, ["-seed", str(seed), "-n", str(per), "-tier", ctx.tier], acc, corpus=corpus if b == 0 else None)
    report(ctx, STREAM, acc, RULE, batches=nb)

    # c04.exh: exhaustive short strings
    acc = new_acc()
    k = ctx.n(3, 4)
    run_batch(ctx, EXH, h, m, ["-n", "0", "-extra", "exh:%d" % k], acc)
    report(ctx, EXH, acc, EXH_RULE, max_symbols=k)
