"""C18 — equality, hashing and ordering are mutually consistent."""
import os
import vlib


NUM = ("I", "F", "D", "S", "i8", "i16", "i32", "i64", "u8", "u16", "u32", "u64", "u", "b")
FLT = {"F": 64, "D": 64, "S": 32}


def kind(tok):
    return tok.split(":", 1)[0]


def is_nan(tok):
    k, p = tok.split(":", 1)
    if k in ("F", "D"):
        b = int(p)
        return (b >> 52) & 0x7FF == 0x7FF and b & ((1 << 52) - 1) != 0
    if k == "S":
        b = int(p)
        return (b >> 23) & 0xFF == 0xFF and b & ((1 << 23) - 1) != 0
    if k == "b":
        return p.endswith(":nan")
    return False


def mag_class(tok):
    """operand class used in failure keys: kind + magnitude bucket (stable across seeds)"""
    k, p = tok.split(":", 1)
    if k in ("s", "c", "y", "yn"):
        return k[0]
    if k == "b":
        return "b"
    if is_nan(tok):
        return k + "nan"
    if k in FLT:
        b = int(p)
        w = FLT[k]
        ebits, fbits, bias = (11, 52, 1023) if w == 64 else (8, 23, 127)
        ex = (b >> fbits) & ((1 << ebits) - 1)
        fr = b & ((1 << fbits) - 1)
        if ex == (1 << ebits) - 1:
            return k + "inf"
        if ex == 0 and fr == 0:
            return k + ("-0" if b >> (w - 1) else "+0")
        e = ex - bias
        lim = 53 if w == 64 else 24
        return k + (">2^%d" % lim if e >= lim else "<=2^%d" % lim)
    z = abs(int(p))
    if z > 2 ** 64:
        return k + ">2^64"
    if z >= 2 ** 63:
        return k + ">=2^63"
    if z > 2 ** 53:
        return k + ">2^53"
    if z > 2 ** 24:
        return k + ">2^24"
    return k + "<=2^24"


def lax_link(a, b):
    """class of one refuted `a =~ b` link whose cause lies in the dispatch of the LEFT operand's kind on
    the RIGHT operand's kind, whatever the magnitudes (and, in a chain, whatever the middle value):
    BigFloat.LaxEqual switches over the operand kinds and has no case for UInt, so `<BigFloat> =~ <UInt>`
    is false for every pair of values.  None = no such class: the caller keys by operand classes."""
    if kind(a) == "b" and kind(b) == "u":
        return "b=~u"
    return None


FIELDS = ("eq", "lax", "seq", "lt", "le", "gt", "ge", "cmp", "ha", "hb")


def parse_obs(s):
    return dict(zip(FIELDS, s.split()))


def pair_oracle(a, b, o, ob):
    """property implications on the implementation's own outputs for the pair (a, b); ob = observation of (b, a) if known.
    yields (key, message)"""
    ka, kb = mag_class(a), mag_class(b)
    tag = "%s/%s" % (ka, kb)
    if o["eq"] == "t" and (o["ha"] != o["hb"] or o["ha"] == "-"):
        yield "eq-hash:" + tag, "a == b but hash(a)=%s hash(b)=%s" % (o["ha"], o["hb"])
    if o["seq"] == "t" and o["ha"] != o["hb"]:
        yield "seq-hash:" + tag, "a === b but hashes differ"
    if a == b and not is_nan(a):
        if o["eq"] != "t":
            yield "eq-refl:" + ka, "a == a is %s" % o["eq"]
        if kind(a) in NUM and o["lax"] != "t":
            yield "lax-refl:" + ka, "a =~ a is %s" % o["lax"]
    if o["eq"] == "t" and o["lax"] == "f":
        yield "eq-not-lax:" + tag, "a == b but not a =~ b"
    if ob is not None:
        if o["eq"] != ob["eq"]:
            yield "eq-sym:" + "/".join(sorted((ka, kb))), "a == b is %s but b == a is %s" % (o["eq"], ob["eq"])
        if o["lax"] != ob["lax"] and "u" not in (o["lax"], ob["lax"]):
            # the false direction is the refuted link
            link = lax_link(a, b) if o["lax"] == "f" else lax_link(b, a)
            yield "lax-sym:" + (link or "/".join(sorted((ka, kb)))), "a =~ b is %s but b =~ a is %s" % (o["lax"], ob["lax"])
    # coherence of the ordering operators on non-NaN numbers
    if kind(a) in NUM and kind(b) in NUM and not is_nan(a) and not is_nan(b):
        c = o["cmp"]
        if c in ("-1", "0", "1"):
            want = {"lt": c == "-1", "le": c != "1", "gt": c == "1", "ge": c != "-1", "lax": c == "0"}
            for f, w in want.items():
                if o[f] != ("t" if w else "f"):
                    yield "coherent:%s:%s" % (f, tag), "a <=> b is %s but a %s b is %s" % (c, f, o[f])
            if ob is not None and ob["cmp"] in ("-1", "0", "1") and int(ob["cmp"]) != -int(c):
                yield "coherent:antisym:" + "/".join(sorted((ka, kb))), "a <=> b is %s but b <=> a is %s" % (c, ob["cmp"])
        elif c in ("e", "u"):
            for f in ("lt", "le", "gt", "ge"):
                if o[f] not in ("e", "u"):
                    yield "coherent:defined:%s:%s" % (f, tag), "a <=> b is undefined but a %s b is %s" % (f, o[f])
        else:
            yield "coherent:cmp:" + tag, "a <=> b on non-NaN numbers is %s" % c
    elif kind(a) in NUM and kind(b) in NUM:
        # NaN involved: every relational operator is false (or an error), <=> is nil
        for f in ("lt", "le", "gt", "ge"):
            if o[f] == "t":
                yield "nan:%s:%s" % (f, tag), "NaN operand but a %s b is true" % f
        if o["lax"] == "t" or o["eq"] == "t":
            yield "nan:eq:" + tag, "NaN operand but equal"


def triple_oracle(a, b, c, ab, bc, ac):
    if any(kind(x) not in NUM or is_nan(x) for x in (a, b, c)):
        if ab["eq"] == "t" and bc["eq"] == "t" and ac["eq"] != "t":
            yield "eq-trans:%s/%s/%s" % (mag_class(a), mag_class(b), mag_class(c)), "a == b, b == c but not a == c"
        return
    tag = "%s/%s/%s" % (mag_class(a), mag_class(b), mag_class(c))
    if ab["lax"] == "t" and bc["lax"] == "t" and ac["lax"] != "t":
        yield "lax-trans:" + (lax_link(a, c) or tag), "a =~ b and b =~ c but a =~ c is %s" % ac["lax"]
    if ab["eq"] == "t" and bc["eq"] == "t" and ac["eq"] != "t":
        yield "eq-trans:" + tag, "a == b, b == c but not a == c"
    for f, g in (("le", "le"), ("lt", "lt"), ("ge", "ge"), ("gt", "gt"), ("le", "lt"), ("lt", "le")):
        if ab[f] == "t" and bc[g] == "t":
            strict = "lt" in (f, g)
            h = ("lt" if strict else "le") if f[0] == "l" else ("gt" if strict else "ge")
            if ac[h] == "f":
                yield "order-trans:%s:%s" % (h, tag), "a %s b and b %s c but a %s c is false" % (f, g, h)
    if ab["lax"] == "t" and bc["lt"] == "t" and ac["lt"] == "f":
        yield "order-trans:lax-lt:" + tag, "a =~ b and b < c but a < c is false"


def xx_batch(h, hexes):
    """xxhash64 of byte strings, computed by the harness helper (same function value.Hash applies)"""
    hexes = sorted(set(hexes))
    rc, out = vlib.sh([h, "-extra", "xx"], inp="".join(x + "\n" for x in hexes), timeout=3000, env=vlib.elk_env())
    res = {}
    for l in out.splitlines():
        p = l.split("\t")
        if len(p) >= 3:
            res[p[0]] = p[2]
    return res


def model_to_obs(exp, xx):
    """replace the model's hash byte strings by their xxhash64"""
    out = []
    for w in exp.split():
        out.append(xx.get(w[1:], "?") if w.startswith("x") else w)
    return " ".join(out)


def agree(obs, exp):
    """model/implementation comparison; '?' in the model = not modelled for this pair"""
    ow, ew = obs.split(), exp.split()
    if len(ow) != len(ew):
        return False
    return all(e == "?" or e == o for o, e in zip(ow, ew))


def run_stream(ctx, stream, h, m, n, extra, rule, corpus=None, with_model=True):
    cmd = [h, "-seed", str(ctx.sseed(stream)), "-n", str(n), "-tier", ctx.tier, "-extra", extra]
    if corpus and os.path.exists(corpus):
        cmd += ["-input", corpus]
    rc, out = vlib.sh(cmd, timeout=3000, env=vlib.elk_env())
    ids, inputs, obs = vlib.parse_case_lines(out)
    if rc != 0 or not ids:
        ctx.broke("correspondence %s: harness exited %d" % (stream, rc), out[-3000:])
        if not ids:
            return
    exp = {}
    if with_model:
        rc2, exp, mout = vlib.run_model(m, ids, inputs)
        if rc2 != 0:
            ctx.broke("correspondence %s: model driver exited %d" % (stream, rc2), mout[-3000:])
        hexes = [w[1:] for e in exp.values() for w in e.split() if w.startswith("x")]
        xx = xx_batch(h, hexes)
    distinct = set()
    dist = {}
    mism = 0
    oracle_fail = 0
    perkey = {}
    seen_pairs = {}
    for i in ids:
        inp = inputs[i]
        f = inp.split()
        toks = f[1:]
        ob = obs[i]
        if "panic" in ob:
            ctx.fail("panic:" + "/".join(mag_class(t) for t in toks), "%s: implementation panicked: %s" % (inp, ob),
                     stream=stream, case=inp, impl=ob, oracle="no Go panic")
            continue
        cls = "/".join(kind(t) for t in toks)
        dist[cls] = dist.get(cls, 0) + 1
        if len(set(toks)) > 1 or True:
            distinct.add(inp)
        parts = [parse_obs(p) for p in ob.split(" | ")]
        if with_model:
            e = exp.get(i)
            if e is None:
                ctx.broke("correspondence %s: model gave no answer for %s" % (stream, inp))
            else:
                e2 = model_to_obs(e, xx)
                if not agree(ob, e2):
                    mism += 1
                    if True:
                        ow, ew = ob.split(), e2.split()
                        names = [n_ for _ in range(3) for n_ in FIELDS + ("|",)]
                        bad = [names[j] for j in range(min(len(ow), len(ew))) if ew[j] != "?" and ew[j] != ow[j]]
                        # pair in which the first difference sits
                        j0 = next((j for j in range(min(len(ow), len(ew))) if ew[j] != "?" and ew[j] != ow[j]), 0) // 11
                        pr = [(0, 1), (1, 2), (0, 2)][j0] if f[0] == "T" else (0, 1)
                        fld = bad[0] if bad else "shape"
                        if fld == "ha":
                            key = "model:hash:" + mag_class(toks[pr[0]])
                        elif fld == "hb":
                            key = "model:hash:" + mag_class(toks[pr[1]])
                        else:
                            key = "model:%s:%s/%s" % (fld, mag_class(toks[pr[0]]), mag_class(toks[pr[1]]))
                        perkey[key] = perkey.get(key, 0) + 1
                        if perkey[key] <= 10:
                            ctx.fail(key, "%s: implementation [%s], model [%s]" % (inp, ob, e2), stream=stream, case=inp,
                                     impl=ob, model=e2, oracle="implementation differs from the proved model (fields: %s)" % ",".join(bad[:6]))
        # oracle (2): the property on the implementation's own outputs
        fails = []
        if f[0] == "P":
            a, b = toks
            seen_pairs[(a, b)] = parts[0]
            fails += list(pair_oracle(a, b, parts[0], seen_pairs.get((b, a)) if a != b else parts[0]))
        else:
            a, b, c = toks
            ab, bc, ac = parts
            for (x, y, o) in ((a, b, ab), (b, c, bc), (a, c, ac)):
                fails += list(pair_oracle(x, y, o, o if x == y else None))
            fails += list(triple_oracle(a, b, c, ab, bc, ac))
        for key, msg in fails:
            oracle_fail += 1
            perkey[key] = perkey.get(key, 0) + 1
            if perkey[key] <= 10:      # per key: a flood of one (known) class must not hide another key
                ctx.fail(key, "%s: %s" % (inp, msg), stream=stream, case=inp, impl=ob, oracle=msg)
    ctx.stream(stream, len(ids), len(distinct), rule,
               [{"input": inputs[i], "observed": obs[i]} for i in ids[:2] + ids[-2:]], dist,
               mismatches=mism, oracle_failures=oracle_fail)


def sym_pairs_stream(ctx, stream, h, m, n, corpus):
    """pairs run in both orders so that symmetry / antisymmetry are checked on the implementation"""
    # generate with the harness, then replay every pair reversed through -input
    cmd = [h, "-seed", str(ctx.sseed(stream)), "-n", str(n), "-tier", ctx.tier, "-extra", "pairs"]
    rc, out = vlib.sh(cmd, timeout=3000, env=vlib.elk_env())
    ids, inputs, obs = vlib.parse_case_lines(out)
    if rc != 0 or not ids:
        ctx.broke("correspondence %s: harness exited %d" % (stream, rc), out[-3000:])
        return
    path = os.path.join(ctx.workdir, "c18.sym.in")
    with open(path, "w") as fh:
        if corpus and os.path.exists(corpus):
            for l in open(corpus):
                l = l.strip()
                if l and not l.startswith("#") and l.startswith("P "):
                    t = l.split()
                    fh.write(l + "\n")
                    fh.write("P %s %s\n" % (t[2], t[1]))
        for i in ids:
            t = inputs[i].split()
            fh.write(inputs[i] + "\n")
            fh.write("P %s %s\n" % (t[2], t[1]))
    return path


def run(ctx):
    ctx.explanation = (
        "Proved in Coq (unbounded, on the Go-mirroring model of value.EqualVal/LaxEqualVal/StrictEqualVal/CompareVal/"
        "LessThanVal.../Hash for Int (small and big), Float, Float64, Float32, Int8-64, UInt8-64, UInt, String, Char, Symbol): "
        "== implies equal hash input bytes (hence equal hashes for any hash function); == reflexive (non-NaN) and symmetric; "
        "=~ symmetric and transitive; <, <=, >, >=, <=>, =~ mutually coherent and antisymmetric on non-NaN numbers; "
        "<=, <, >=, > transitive across mixed Int/Float. The model mirrors the code AFTER fixes/C18-exact-int-float-compare.patch "
        "(exact Int/Float comparison helpers; hash of -0.0 canonicalised). Only differential-tested: that the Go code behaves as the model "
        "(streams c18.pairs / c18.triples compare all nine observables, hashes via xxhash64 of the model's byte string); "
        "String/Char ordering and String=~Char are not modelled (implementation-level implications only); BigFloat is "
        "covered only by implementation-level implications in c18.impl (eq=>hash, symmetry, coherence, transitivity); "
        "collections, ranges and dates are not covered by this check.")
    ctx.trusted_base += [
        "IEEE-754 hardware comparison and int<->float conversions modelled by exact integer arithmetic on decoded bit patterns (validated by the streams, not proved)",
        "math/big Int.Cmp / Float.SetInt / Float.Cmp modelled as exact (Z.compare)",
        "xxhash64 treated as an abstract function of the byte string; the harness helper recomputes it with value.String.Hash",
        "64-bit platform only (Int64/UInt64/Float64 inline); symbol ids taken from the live symbol table",
    ]
    ctx.run_proof_gate()
    h = vlib.build_harness("c18")
    m = vlib.build_model("C18")
    corpus_p = os.path.join(vlib.ROOT, "corpus", "C18.pairs.txt")
    corpus_t = os.path.join(vlib.ROOT, "corpus", "C18.triples.txt")
    corpus_i = os.path.join(vlib.ROOT, "corpus", "C18.impl.txt")
    # pairs in both orders
    n_pairs = ctx.n(3000, 120000)
    path = sym_pairs_stream(ctx, "c18.pairs", h, m, n_pairs, corpus_p)
    if path:
        run_stream(ctx, "c18.pairs", h, m, 0, "pairs",
                   "corpus + seeded pairs, each run in both orders: values projected from a common base (0, +-2^k+-3 for k in "
                   "7..128 and 1023, random <=70-bit, fractions near 2^0/2^24/2^53, random doubles, denormals/extremes) into "
                   "Int/Float/Float64/Float32/IntN/UIntN/UInt with +-1 ulp and +-1 perturbations, +-0, +-Inf, NaN payloads, strings "
                   "(valid and invalid UTF-8), chars (incl. surrogates and out-of-range runes), symbols; observables == =~ === < <= > >= <=> hash(a) hash(b) "
                   "compared with the extracted model and checked against the property's implications; distinct by full input",
                   corpus=path)
    run_stream(ctx, "c18.triples", h, m, ctx.n(2000, 80000), "triples",
               "corpus + seeded triples from the same generator (mostly one common base so that adjacent/equal values meet across kinds); "
               "three pairs ab, bc, ac observed, compared with the model; transitivity of =~, ==, <, <=, >, >= and mixed chains evaluated on the implementation outputs",
               corpus=corpus_t)
    run_stream(ctx, "c18.impl", h, m, ctx.n(1500, 60000), "impl",
               "triples mixing BigFloat (precisions 24/53/64/100/200, +-0, +-inf, NaN) with Int and Float: implementation-level implications only (no model); "
               "second generation per triple: a finite BigFloat and values of EVERY numeric kind (Int, Float, Float64/32, Int8-64, UInt8-64, UInt, BigFloat of "
               "another precision) projected from the BigFloat's value (small integers, 2^k-2..2^k+1 at the sized kinds' tops, the common bases; +-1 / +-1 ulp "
               "perturbations), as pairs in BOTH orders (symmetry of == and =~, antisymmetry of <=>) and as triples b/k1/k2 and k1/b/k2 (transitivity)",
               corpus=corpus_i, with_model=False)
