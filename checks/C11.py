"""C11 — type checking gives the same verdict under any parallel schedule (partial).

Stream c11.sched: harness/cmd/c11 checks + compiles every seeded multi-method program in process under
MethodCheckConcurrencyLimit in {1 (baseline), 2, 4, 16, 100} x GOMAXPROCS in {1, 2, 16} x repetitions (odd
repetitions with runtime.Gosched load); sorted diagnostics and, for accepted programs, stdout / error class of
the compiled bytecode must equal the baseline.  Family "many bodies x shared fresh names" (ids f<i>, corpus files
fresh_*): hundreds of bodies, groups of k consecutive bodies first-use the same n fresh local names / symbol literals in
rotated order; every run of such a program happens in a FRESH child process of the harness (the symbol table is
process-global, a name is fresh only once per process), (limit, GOMAXPROCS) in {(100, default), (16, default), (1, default), (100, 4)} (thorough: + (16,4), (1,4), (100,2)) x repetitions
against the limit-1 / GOMAXPROCS-1 child.  Family "post-passes over completion-ordered results" (ids k<i>, corpus files
postpass_*; generator harness/cmd/c11/postpass.go): constants initialised by calls of different root methods with
overlapping call graphs, methods reading those constants or not, bodies of 0..thousands of statements, holders module /
two modules with same-named methods / top level / class singleton, classes with instance variables and own/inherited
init, macros; fresh children at (100, default) (2, default) (3, 2) (+ thorough) with run, then the in-process
check+compile-only lattice limit {2,4,16,100,1} x GOMAXPROCS {1,2,16}.  Stream c11.race (thorough): the same harness built with
-race; any data-race report whose stacks touch elk packages gates (key = file:line of the two accesses).
"""
import os
import re
import vlib

SCHED = "c11.sched"
RACE = "c11.race"


def run_harness(ctx, exe, n, reps, seed, tag, corpus_list, env_extra=None, timeout=6000, extra="", fam=0):
    # fam = number of generated family programs (shared-fresh-names + post-pass) appended after the g-programs
    """runs the harness, restarting after a crash. -> (lines {id: (desc, observed)}, crashes [(id, stderr)], all stderr)"""
    dump = os.path.join(ctx.workdir, tag + "_dump")
    lines, crashes, errs = {}, [], []
    start = 0
    total = n + len(corpus_list) + fam
    for _attempt in range(12):
        lst = os.path.join(ctx.workdir, tag + "_corpus.txt")
        with open(lst, "w") as f:
            for p in corpus_list:
                f.write(p + "\n")
        cmd = [exe, "-seed", str(seed), "-n", str(n), "-tier", ctx.tier, "-input", lst,
               "-extra", "dump=%s,start=%d,reps=%d%s" % (dump, start, reps, extra)]
        env = vlib.elk_env(env_extra)
        import subprocess
        try:
            p = subprocess.run(cmd, env=env, timeout=timeout, stdout=subprocess.PIPE, stderr=subprocess.PIPE, text=True, errors="replace")
            rc, out, err = p.returncode, p.stdout, p.stderr
        except subprocess.TimeoutExpired as e:
            rc, out, err = 124, (e.stdout or ""), (e.stderr or "") + "\n[timeout]"
            if isinstance(out, bytes):
                out = out.decode("utf-8", "replace")
            if isinstance(err, bytes):
                err = err.decode("utf-8", "replace")
        errs.append(err)
        for l in out.splitlines():
            f = l.split("\t")
            if len(f) >= 3:
                lines[f[0]] = (f[1], f[2])
        if rc == 0:
            break
        runs = re.findall(r"^RUNNING (\d+) (\S+)$", err, re.M)
        if not runs:
            ctx.broke("correspondence %s: harness exited %d before running anything" % (tag, rc), err[-2000:])
            break
        idx, pid_ = int(runs[-1][0]), runs[-1][1]
        crashes.append((pid_, err[err.rfind("RUNNING %d " % idx):][-3000:], rc))
        start = idx + 1
        if start >= total:
            break
    return lines, crashes, "\n".join(errs), dump


def crash_key(err):
    m = re.search(r"^(?:panic|fatal error): (.*)$", err, re.M)
    msg = re.sub(r"0x[0-9a-f]+", "ADDR", m.group(1)) if m else "exit"
    msg = re.sub(r"\d+", "N", msg)
    msg = re.sub(r"[^A-Za-z]+", "-", msg).strip("-")[:60]
    fm = re.search(r"^github\.com/elk-language/elk/(\S+)\(", err, re.M)
    return "%s@%s" % (msg, re.sub(r"\[[^\]]*\]", "", fm.group(1)) if fm else "?")


def report(ctx, stream, lines, crashes, dump):
    evaluations = 0
    dist = {"accepted": 0, "rejected": 0, "runtime-error": 0, "diff": 0, "crash": len(crashes)}
    for cid, (desc, obs) in lines.items():
        if obs.startswith("same "):
            f = obs.split()
            evaluations += int(f[1])
            dist[f[2]] = dist.get(f[2], 0) + 1
        elif obs.startswith("DIFF "):
            dist["diff"] += 1
            m = re.match(r"DIFF (\S+) (\S+) :: (.*)", obs)
            setting, kind, detail = (m.group(1), m.group(2), m.group(3)) if m else ("?", "?", obs)
            src = os.path.join(dump, cid + ".elk")
            # a crash of a fresh child (at any setting, the limit-1 baseline included) has the key of its panic message
            key = ("sched:" + kind) if kind.startswith("crash:") else "sched:%s-differs-from-sequential-run" % kind
            ctx.fail(key,
                     "program %s (%s) at %s: %s differs from the limit-1 run: %s" % (cid, desc[:300], setting, kind, detail[:600]),
                     stream=stream, case=(open(src).read() if os.path.exists(src) else cid), impl=detail[:1500], model="equal to the limit-1 run",
                     oracle="same diagnostics and same behaviour of the compiled program at every degree of parallelism")
    for pid_, err, rc in crashes:
        if rc == 124:
            ctx.fail("sched:timeout", "program %s: the harness did not finish (deadlock?)" % pid_, stream=stream, case=pid_, impl=err[-800:],
                     model="terminates", oracle="checking terminates under every schedule")
        else:
            ctx.fail("sched:crash:" + crash_key(err), "program %s: checker/compiler/VM crashed under some schedule: %s" % (
                pid_, (re.search(r"^(?:panic|fatal error): .*$", err, re.M) or [err[-200:]])[0] if True else ""),
                stream=stream, case=pid_, impl=err[-1500:], model="no crash", oracle="same verdict under any schedule")
    return evaluations, dist


def race_reports(err):
    """-> list of (key, text): one per DATA RACE block whose access stacks touch the elk module.
    key = the innermost elk function of each of the two conflicting accesses (file:line is in the text;
    function names survive unrelated edits of the files)"""
    out = []
    for blk in re.findall(r"WARNING: DATA RACE\n(.*?)\n={18}", err, re.S):
        k = race_key(blk)
        if k:
            out.append((k, blk[:2500]))
    return out


def race_key(blk):
    parts = re.split(r"\n\n", blk)
    firsts = []
    for part in parts[:2]:
        m = re.search(r"^\s+github\.com/elk-language/elk/([\w./*()-]+?)(?:\[[^\n]*\])?(?:\.func\d+)*\(\)\n\s+(\S+\.go:\d+)", part, re.M)
        if m:
            firsts.append(m.group(1))
    return ("race:" + "+".join(sorted(set(firsts)))) if firsts else None


def run(ctx):
    ctx.explanation = (
        "PARTIAL. Proved in Coq (closed) about the interleaving model Model/C11_ParCheck.v - tasks = lists of atomic shared-state "
        "actions (append diagnostic, intern symbol, get-or-insert a cache value that is a function of the key, read environment): "
        "any two interleavings of the same tasks (hence every schedule under every concurrency limit L >= 1, and the sequential run) "
        "end with the same diagnostic multiset, the same symbol set, the same cache keys, and every task receives the same responses "
        "up to the symbol-id renaming between the two runs; any per-method result function that is equivariant under that renaming "
        "gives the same result (induction over event lists). NOT proved: that a real method-body check is such a task (its actions and "
        "result independent of ids, cache hits and other bodies' writes) - this hypothesis is exactly what a regression breaks and is "
        "only tested by c11.sched (real checker+compiler in process at limits 1/2/4/16/100 x GOMAXPROCS 1/2/16 x repetitions with "
        "Gosched load; sorted diagnostics and program stdout must equal the limit-1 run). The confluence theorem now takes the "
        "atomicity of symbol interning as a NAMED hypothesis: a micro-step machine splits SymbolTable.Add into lookup and blind "
        "insert (what a read-locked fast path without re-check under the write lock does); for intern_atomic schedules (insert "
        "immediately after the same task's lookup = one critical section) it coincides with the atomic model "
        "(C11_intern_atomic_refines, C11_confluence_intern_atomic), and C11_nonatomic_intern_refuted exhibits a schedule of the "
        "split machine in which two tasks obtain different ids for one name and the table holds the name twice. Whether the real "
        "Add is atomic is not proved but tested: the program family 'many bodies x shared fresh names' (hundreds of bodies, groups "
        "of k bodies first-using the same n fresh local names / symbol literals in rotated order, own names as write pressure; "
        "holders module/class/top level; with and without injected type errors) is checked in FRESH child processes (the symbol "
        "table is process-global, so in-process repetitions - and all runs after the in-process baseline of the older programs - "
        "find every name already interned and cannot observe interning at all) at limits 100/16/1 (GOMAXPROCS default, some at 4 and 2) against "
        "the limit-1 child. This is an implementation-level schedule-sampling oracle, not an enumeration: a window that needs a "
        "rarer interleaving than ~300 bodies x ~20 shared names provoke can be missed. The Go scheduler is perturbed, not "
        "controlled: there is no hook inside concurrent.Foreach, so interleavings are sampled, not enumerated. Data-race freedom in "
        "the Go memory model is outside the Gallina model; the thorough tier runs the same stream under the race detector. "
        "POST-PASSES: the confluence theorems speak about the tasks; after concurrent.Foreach the checker runs passes over what the "
        "tasks left behind, one of them over a COMPLETION-ORDERED list (c.methodCache.Slice: methods called in constant "
        "initialisers, pushed when their body check completes; consumed by checkMethodsInConstants). Model/C11_PostPass.v models "
        "that pass as found; proved: a post-pass that handles every element of the list on its own (hence any function of the "
        "multiset of task results) reports the same multiset for every permutation (C11_postpass_order_independent), the "
        "constant-cycle pass as found and a variant with a fresh visited set per root are of that shape "
        "(C11_constcycle_pass_order_independent, C11_constcycle_pass_perroot_visited), composed with confluence: same multiset "
        "after any two interleavings (C11_postpass_schedule_independent); C11_postpass_shared_state_refuted: with ONE visited set "
        "shared by all roots two completion orders of the same roots report different diagnostics (refutes the shape, not the code "
        "as found). That the Go pass IS the modelled one is tested, not proved: program family 'post-passes over completion-ordered "
        "results' (constants initialised by different root methods with overlapping call graphs, methods reading those constants, "
        "bodies of 0..thousands of statements to force completion orders different from definition order, see the stream rule) - an "
        "implementation-level oracle (same sorted diagnostics / verdict / output as the limit-1 run), no extracted model is run. The "
        "other consumers of task results after Foreach were enumerated (grep of concurrent.Slice / Foreach users): optimiseCalls "
        "(callsToOptimise.Slice, completion order; per call site -> two modules with same-named methods + output comparison), "
        "checkClassesWithIvars (reads init.InitialisedInstanceVariables written by the init task; classes with own/inherited init of "
        "different sizes), compileMethodsWithinModule (definition order; output comparison), checkMacros' own Foreach (macros with "
        "long/short bodies expanded in method bodies - macro bodies ARE generated now). FINDING on the unchanged tree (known finding "
        "sched:crash:invalid-compiled-macro-body-nil-for, C11_compile_flag_refuted / _partial): a body is compiled only if "
        "Errors.IsFailure() is false when its check completes, so whether a correct macro is compiled depends on whether another "
        "macro's failure was appended first; expandMacro inside overload resolution then panics on the nil body (limit 1: always; "
        "limit 100: sometimes). Recursive methods called from a constant initialiser make checkMethodInConstant overflow the stack "
        "at EVERY schedule - a defect, but not a schedule dependence; such call graphs are not generated. The native Go back end's "
        "output under different schedules is not compared here (C09 found a schedule-dependent defect there).")
    ctx.trusted_base += [
        "Go runtime scheduler / GOMAXPROCS / runtime.Gosched as the only source of interleavings (sampled, not enumerated)",
        "Go race detector (thorough tier) for the data-race clause",
        "harness/cmd/c11 program generator; the limit-1, GOMAXPROCS-1 run as the reference",
        "fresh-process runs: os/exec of the harness binary itself, outcome passed back as one quoted line",
        "post-pass family: no extracted model is run on it (oracle = equality with the limit-1 run); Model/C11_PostPass.v is tied to types/checker/method.go checkMethodsInConstants by reading only",
    ]
    ctx.run_proof_gate()
    h = vlib.build_harness("c11")
    corpus = [os.path.join(vlib.ROOT, l.strip()) for l in open(os.path.join(vlib.ROOT, "corpus", "C11.sched.txt")) if l.strip() and not l.startswith("#")]
    n, reps = ctx.n(40, 500), ctx.n(1, 2)
    fam, freps = ctx.n(4, 12), ctx.n(1, 2)
    pp, ppreps, ppin = ctx.n(6, 40), ctx.n(1, 2), ctx.n(1, 3)
    lines, crashes, err, dump = run_harness(ctx, h, n, reps, ctx.sseed(SCHED), "sched", corpus,
                                            extra=",fam=%d,freps=%d,pp=%d,ppreps=%d,ppin=%d" % (fam, freps, pp, ppreps, ppin), fam=fam + pp)
    evaluations, dist = report(ctx, SCHED, lines, crashes, dump)
    if len(lines) + len(crashes) < n + len(corpus) + fam + pp:
        ctx.broke("correspondence %s: only %d of %d programs were evaluated" % (SCHED, len(lines), n + len(corpus) + fam + pp), err[-2000:])
    nfam = len([k for k, v in lines.items() if k.startswith("f") or v[0].startswith("corpus fresh_")])
    if nfam < fam:
        ctx.broke("correspondence %s: only %d of %d shared-fresh-names programs were evaluated" % (SCHED, nfam, fam), err[-2000:])
    pplines = {k: v for k, v in lines.items() if k.startswith("k") or v[0].startswith("corpus postpass_")}
    npp = len(pplines)
    if npp < pp:
        ctx.broke("correspondence %s: only %d of %d post-pass programs were evaluated" % (SCHED, npp, pp), err[-2000:])
    # how much of the class the post-pass programs reached (measured from the descriptors / outcomes)
    pp_cov = {"programs": npp,
              "with_const_reads": len([1 for v in pplines.values() if re.search(r"const_reads=[1-9]", v[0])]),
              "rejected": len([1 for v in pplines.values() if " rejected " in v[1]]),
              "accepted_and_run": len([1 for v in pplines.values() if " accepted " in v[1]]),
              "with_ivar_classes": len([1 for v in pplines.values() if re.search(r"ivar_classes=[1-9]", v[0])]),
              "with_macros": len([1 for v in pplines.values() if re.search(r"macros=[1-9]", v[0])]),
              "holders": sorted(set(m.group(1) for v in pplines.values() for m in [re.search(r"holder=(\w+)", v[0])] if m))}
    if pp >= 6 and not any(v[1].startswith("DIFF") for v in pplines.values()):
        if pp_cov["with_const_reads"] == 0 or pp_cov["rejected"] == 0 or pp_cov["accepted_and_run"] == 0:
            ctx.broke("correspondence %s: the post-pass family no longer reaches its class" % SCHED, str(pp_cov))
    ctx.stream(SCHED, evaluations, len(lines),
               "seeded programs of 4-14 top-level methods calling each other along a random acyclic order (forward and backward "
               "references), bodies with locals, closures, loops, early returns, symbol literals; every second program has type "
               "errors injected into ~40% of its bodies (bad initialiser, undefined method, wrong argument type, unknown method on "
               "Int); evaluation = one check+compile(+run) of a program at one (limit, GOMAXPROCS, repetition) setting compared "
               "with the limit-1 run; PLUS the family 'many bodies x shared fresh names': 160-320 (thorough: up to 900) independent "
               "bodies in a module / class / at top level, groups of 2-6 consecutive bodies first-use the same 8-24 fresh local "
               "names and/or symbol literals in rotated order plus 0-6 names of their own, every fourth program with injected "
               "type errors; Int bodies are summed, symbol bodies of one group compared with == at run time; each evaluation of "
               "a family program (and of the corpus files fresh_*) is a FRESH child process ((limit, GOMAXPROCS) in (100,default) (16,default) (1,default) (100,4), "
               "thorough also (16,4) (1,4) (100,2), x repetitions, compared with the limit-1 GOMAXPROCS-1 child); PLUS the family "
               "'post-passes over completion-ordered results' (ids k<i>, corpus postpass_*): 2-5 constants initialised by calls "
               "of 1-2 root methods each (roots shared between constants, initialisers reading an earlier constant), 3-9 "
               "methods in a random acyclic call graph with a hub helper most methods call and roots calling roots, methods "
               "reading method-initialised constants (circular when reachable from a root of that constant) and/or literal "
               "base constants, 0 / tens / hundreds / thousands of filler statements per body, holders module / two modules "
               "with same-named methods / top level / class singleton, 0-3 classes with non-nilable instance variables and an "
               "own or inherited init that sets all or not all of them, 0-3 macros (long/short bodies, in a module or not) "
               "expanded inside method bodies, one program in seven with injected type errors (macro bodies included); fresh "
               "children with run at (100,default) (2,default) (3,2), thorough also (1,default) (16,default) (2,2) (100,4) "
               "(4,1), then the in-process check+compile-only lattice limit {2,4,16,100,1} x GOMAXPROCS {1,2,16} x "
               "repetitions against the in-process limit-1 run; non-trivial = distinct program",
               [{"program": k, "descriptor": v[0], "observed": v[1][:120]} for k, v in (list(lines.items())[:3] + [kv for kv in lines.items() if kv[0].startswith("f")][:2] + [kv for kv in lines.items() if kv[0].startswith("k")][:2])],
               dict(dist, programs=len(lines), limits=[1, 2, 4, 16, 100], gomaxprocs=[1, 2, 16], repetitions=reps,
                    fresh_process_programs=nfam, fresh_settings=(["100/default", "16/default", "1/default", "100/4"] + ([] if ctx.quick() else ["16/4", "1/4", "100/2"])), fresh_repetitions=freps, postpass_family=pp_cov,
                    postpass_fresh_settings=(["100/default", "2/default", "3/2"] + ([] if ctx.quick() else ["1/default", "16/default", "2/2", "100/4", "4/1"])),
                    postpass_inprocess_repetitions=ppin))
    if not ctx.quick():
        hr = vlib.build_harness("c11", race=True)
        nr = 60
        lines_r, crashes_r, err_r, dump_r = run_harness(ctx, hr, nr, 1, ctx.sseed(RACE), "race", corpus,
                                                       env_extra={"GORACE": "halt_on_error=0 exitcode=0 history_size=3"}, timeout=12000, extra=",norun=1,fam=2,freps=1,pp=4,ppreps=1,ppin=1", fam=6)
        ev_r, dist_r = report(ctx, RACE, lines_r, [c for c in crashes_r if "DATA RACE" not in c[1]], dump_r)
        reps_ = race_reports(err_r)
        seen = {}
        for k, txt in reps_:
            seen.setdefault(k, txt)
        for k, txt in sorted(seen.items()):
            ctx.fail(k, "data race reported by the Go race detector while checking/compiling method bodies concurrently", stream=RACE,
                     case=k, impl=txt, model="no data race", oracle="checking is free of data races")
        ctx.stream(RACE, ev_r, len(lines_r), "the c11.sched programs checked + compiled (not run: the race build's checkptr instrumentation rejects the VM's unsafe stack arithmetic) under `go build -race`; gating observable = DATA RACE reports whose "
                   "access stacks contain frames of the elk module", [{"race_reports": len(reps_), "distinct": len(seen)}],
                   dict(dist_r, race_reports=len(reps_), distinct_races=len(seen)))
