"""C22 — calendar arithmetic is exact, never wraps, and formatting round-trips."""
import os
import vlib

MIN_YEAR, MAX_YEAR = -(1 << 22), (1 << 22) - 1


# ---- independent civil-date arithmetic for the property oracle (era based, unlike the Coq model)
def days_from_civil(y, m, d):
    y -= m <= 2
    era = y // 400
    yoe = y - era * 400
    doy = (153 * (m + (-3 if m > 2 else 9)) + 2) // 5 + d - 1
    doe = yoe * 365 + yoe // 4 - yoe // 100 + doy
    return era * 146097 + doe - 719468


def civil_from_days(z):
    z += 719468
    era = z // 146097
    doe = z - era * 146097
    yoe = (doe - doe // 1460 + doe // 36524 - doe // 146096) // 365
    y = yoe + era * 400
    doy = doe - (365 * yoe + yoe // 4 - yoe // 100)
    mp = (5 * doy + 2) // 153
    d = doy - (153 * mp + 2) // 5 + 1
    m = mp + 3 if mp < 10 else mp - 9
    return (y + (m <= 2), m, d)


def is_leap(y):
    return (y % 4 == 0 and y % 100 != 0) or y % 400 == 0


def dim(y, m):
    return 29 if (m == 2 and is_leap(y)) else 28 if m == 2 else 30 if m in (4, 6, 9, 11) else 31


def wrap32(z):
    return (z + (1 << 31)) % (1 << 32) - (1 << 31)


def add_spec(y, m, d, months, days):
    """date + span: days on the day line, then whole months with the day clamped to the month length"""
    y1, m1, d1 = civil_from_days(days_from_civil(y, m, d) + days)
    t = y1 * 12 + (m1 - 1) + months
    y2, m2 = t // 12, t % 12 + 1
    return (y2, m2, min(d1, dim(y2, m2)))


def ycls(y):
    return "neg" if y < 0 else ("0-9999" if y <= 9999 else "big")


def spancls(months, days):
    return "m%s:d%s%s" % ("0" if months == 0 else ("+" if months > 0 else "-"),
                          "0" if days == 0 else ("+" if days > 0 else "-"),
                          ":days>106751" if abs(days) > 106751 else "")


def fmtcls(fmt_hex):
    """class of a format string: which year directives it uses"""
    try:
        f = bytes.fromhex(fmt_hex).decode("latin-1") if fmt_hex != "-" else ""
    except ValueError:
        return "?"
    s = set()
    i = 0
    while i < len(f):
        if f[i] == "%" and i + 1 < len(f):
            j = i + 1
            if f[j] in "-_^" and j + 1 < len(f):
                j += 1
            s.add(f[j])
            i = j + 1
        else:
            i += 1
    if "C" in s or "y" in s:
        return "century/2-digit-year"
    if "G" in s or "g" in s:
        return "iso-year"
    if "Y" in s or "F" in s:
        return "full-year"
    return "no-year"


def iso_week_year(y, m, d):
    """ISO 8601 week-numbering year of a civil date (the year of the Thursday of its Monday-based week)"""
    z = days_from_civil(y, m, d)
    wd = (z + 3) % 7          # 1970-01-01 was a Thursday; Monday = 0
    return civil_from_days(z - wd + 3)[0]


def fmt_directives(fmt):
    """conversion characters of the directives of a format string (flags - _ ^ skipped)"""
    s = set()
    i = 0
    while i < len(fmt):
        if fmt[i] == "%" and i + 1 < len(fmt):
            j = i + 1
            if fmt[j] in "-_^" and j + 1 < len(fmt):
                j += 1
            s.add(fmt[j])
            i = j + 1
        else:
            i += 1
    return s


def unrepresentable_year(fmt, y, m, d):
    """a year that the directives of `fmt` print for Date(y,m,d) and that no Date can hold, or None.
    Only %G/%g can do that for a representable date: the ISO week-numbering year of the first days of
    year -2^22 (or the last days of year 2^22-1) is the neighbouring, unrepresentable year.  Parsing
    such a text has to build the ISO year first; the implementation packs it into a Date, which wraps
    (the recorded no_wrap defect), so the failure belongs to that class and not to the directive."""
    ds = fmt_directives(fmt)
    if "G" in ds or "g" in ds:
        g = iso_week_year(y, m, d)
        if not MIN_YEAR <= g <= MAX_YEAR:
            return g
    return None


def rt_key(prefix, cls, fmt, y, m, d):
    """canonical key of a failed format/parse round trip of Date(y,m,d)"""
    g = unrepresentable_year(fmt, y, m, d)
    if g is not None:
        return "no_wrap:iso-week-year-out-of-range", " (the date's ISO week-numbering year %d is not a representable year: the parser wraps it instead of computing the date or raising an error)" % g
    return "%s:%s:year-%s" % (prefix, cls, ycls(y)), ""


def keyfn(inp, obs, exp):
    """canonical class of a model/implementation disagreement"""
    f = inp.split()
    op = f[0]
    if op in ("add", "sub"):
        return "model:%s%s" % (op, ":|days|>106751" if abs(int(f[5])) > 106751 else "")
    if op in ("diff", "diffadd", "cmp"):
        return "model:%s" % op
    if op == "pack":
        return "model:pack:%s" % ("in-range" if MIN_YEAR <= int(f[1]) <= MAX_YEAR else "out-of-range")
    if op == "span":
        return "model:span"
    if op == "fmt":
        return "model:fmt:%s:year-%s" % (fmtcls(f[4]), ycls(int(f[1])))
    if op == "parse":
        inp_s = bytes.fromhex(f[2]).decode("latin-1") if f[2] != "-" else ""
        return "model:parse:%s:model-%s-impl-%s" % (fmtcls(f[1]), exp.split()[0], obs.split()[0])
    if op == "rt":
        return "model:rt:%s:year-%s" % (fmtcls(f[5]), ycls(int(f[2])))
    return "model:" + op


def oracle_dates(ctx, stream, ids, inputs, obs):
    """the property evaluated directly on the implementation's outputs"""
    n = 0
    perkey = {}
    for i in ids:
        f = inputs[i].split()
        o = obs[i]
        op = f[0]
        key = what = None
        if op in ("add", "sub"):
            y, m, d, months, days = map(int, f[1:6])
            if op == "sub":
                months, days = wrap32(-months), wrap32(-days)
            want = add_spec(y, m, d, months, days)
            if MIN_YEAR <= want[0] <= MAX_YEAR:
                if o != "%d %d %d" % want:
                    key = "%s:inexact%s" % (op, ":|days|>106751" if abs(int(f[5])) > 106751 else "")
                    what = "Date(%d,%d,%d) %s span(months=%s,days=%s) = %s, civil result %s" % (y, m, d, "+" if op == "add" else "-", f[4], f[5], o, want)
            else:
                # not representable: the property demands an error, never a wrapped date
                if not o.startswith(("err", "panic")):
                    key = "no_wrap:%s" % ("high" if want[0] > MAX_YEAR else "low")
                    what = "Date(%d,%d,%d) %s span(months=%s,days=%s): exact year %d is not representable, got Date(%s) instead of an error" % (
                        y, m, d, "+" if op == "add" else "-", f[4], f[5], want[0], o)
        elif op == "diffadd":
            y1, m1, d1, y2, m2, d2 = map(int, f[1:7])
            if o != "%d %d %d" % (y2, m2, d2):
                key = "diffadd:day-overflows-month" if d2 > dim(y1, m1) else "diffadd:other"
                what = "d1=Date(%d,%d,%d), d2=Date(%d,%d,%d): d1 + (d2 - d1) = Date(%s)" % (y1, m1, d1, y2, m2, d2, o)
        elif op == "cmp":
            a, b = tuple(map(int, f[1:4])), tuple(map(int, f[4:7]))
            want = (a > b) - (a < b)
            if o != str(want):
                key, what = "cmp", "%s <=> %s = %s" % (a, b, o)
        elif op == "pack":
            y, m, d = map(int, f[1:4])
            if MIN_YEAR <= y <= MAX_YEAR and o != "%d %d %d" % (y, m, d):
                key, what = "pack:in-range", "MakeDate(%d,%d,%d) reads back %s" % (y, m, d, o)
        elif op == "span":
            if o != "%s %s" % (f[1], f[2]):
                key, what = "span_rt", "Date::Span(months=%s,days=%s).to_string parses back as %s" % (f[1], f[2], o)
        elif op == "rt" and f[1] == "1":
            y, m, d = map(int, f[2:5])
            if o != "ok %d %d %d" % (y, m, d):
                fs = bytes.fromhex(f[5]).decode("latin-1")
                key, note = rt_key("rt", fmtcls(f[5]), fs, y, m, d)
                what = "Date(%d,%d,%d) formatted with %r parses back as %s%s" % (y, m, d, fs, o, note)
        if key:
            n += 1
            perkey[key] = perkey.get(key, 0) + 1
            if perkey[key] <= 20:      # per key: a flood of one (known) class must not hide another key
                ctx.fail(key, what, stream=stream, case=inputs[i], impl=o, model=None,
                         oracle="property evaluated on the implementation's output (independent civil arithmetic)")
    return n


def oracle_rt(ctx, stream, ids, inputs, obs):
    n = 0
    perkey = {}
    for i in ids:
        f = inputs[i].split()
        o = obs[i]
        key = what = None
        if f[0] == "rt2":
            y, m, d = map(int, f[2:5])
            if o != "ok %d %d %d" % (y, m, d):
                fs = bytes.fromhex(f[5]).decode("latin-1")
                key, note = rt_key("rt2", f[1], fs, y, m, d)
                what = "Date(%d,%d,%d) formatted with %r parses back as %s%s" % (y, m, d, fs, o, note)
        elif f[0] == "spanstr":
            if o != "same":
                key = "spanstr:%s" % o.split()[0]
                what = "span(months=%s,days=%s,ns=%s) to_string/parse: %s" % (f[1], f[2], f[3], o)
        elif f[0] == "dtrt":
            if o != "same":
                key = "dtrt:%s:year-%s" % (o.split()[0], ycls(int(f[1])))
                what = "DateTime(%s) to_string/parse: %s" % (" ".join(f[1:]), o)
        if key:
            n += 1
            perkey[key] = perkey.get(key, 0) + 1
            if perkey[key] <= 20:
                ctx.fail(key, what, stream=stream, case=inputs[i], impl=o, model=None,
                         oracle="round trip evaluated on the implementation only")
    return n


# ---------------------------------------------------------------- c22.hist: operation histories

ZOPS = ("zmk", "zfmt", "zparse", "zrt", "zcmp", "zin", "zaddt", "zaddd", "tzname", "tzload")


def unhex(h):
    return "" if h == "-" else bytes.fromhex(h).decode("utf-8", "replace")


HEXPOS = {"zparse": (1, 2), "zrt": (9,), "zfmt": (9,), "tzload": (1,), "parse": (1, 2), "fmt": (4,), "rt": (5,)}


def show_op(inp):
    """human-readable form of one history operation (hex operands decoded)"""
    f = inp.split()
    return " ".join(repr(unhex(x)) if k in HEXPOS.get(f[0], ()) else x for k, x in enumerate(f))


def zfmt_class(fmt):
    return "%:z" if "%:z" in fmt else ("%z" if "%z" in fmt else "no-offset")


def hist_run(h, ops, env):
    """run the operations, in this order, in ONE fresh harness process; returns the observations"""
    import tempfile
    with tempfile.NamedTemporaryFile("w", suffix=".txt", delete=False, dir=os.path.join(vlib.BUILD)) as fh:
        for k, op in enumerate(ops):
            fh.write("q%d\t%s\n" % (k, op))
        path = fh.name
    try:
        rc, out = vlib.sh([h, "-n", "0", "-input", path], timeout=600, env=env)
    finally:
        os.unlink(path)
    ids, inputs, obs = vlib.parse_case_lines(out)
    if rc != 0 or len(ids) != len(ops):
        return None, out
    return [obs[i] for i in ids], out


def hist_minimise(h, prefix, op, iso, env, budget=40):
    """smallest (1-minimal up to the budget) subsequence of `prefix` after which `op` still does
    not give its isolated result"""
    def bad(p):
        r, _ = hist_run(h, p + [op], env)
        return r is not None and r[-1] != iso
    cur = list(prefix)
    n = 2
    runs = 0
    while len(cur) >= 1 and runs < budget:
        chunk = max(1, len(cur) // n)
        reduced = False
        for st in range(0, len(cur), chunk):
            cand = cur[:st] + cur[st + chunk:]
            runs += 1
            if bad(cand):
                cur = cand
                n = max(n - 1, 2)
                reduced = True
                break
            if runs >= budget:
                break
        if not reduced:
            if chunk == 1:
                break
            n = min(len(cur), n * 2)
    return cur


def zrt_expected(f):
    """implementation-level property: what parse(format(dt)) must be, or None when the format
    does not determine the value (year read with a 4 character budget, see below)"""
    y, m, d, H, M, S, ns, off = map(int, f[1:9])
    fmt = unhex(f[9])
    if "%F" not in fmt:
        i = max(fmt.find("%Y"), fmt.find("%-Y"), fmt.find("%_Y"))
        if i < 0:
            return None
        j = fmt.index("Y", i) + 1
        if j < len(fmt) and (fmt[j].isdigit() or (fmt[j] == "%" and fmt[j + 1:j + 2] not in ("%", "n", "t"))):
            # another directive (or a digit) follows: the year is read with a budget of exactly 4 characters
            if "%-Y" in fmt or not (0 <= y <= 9999):
                return None
        if y < 0 and "%_Y" in fmt:
            return None
    if "%S" not in fmt and "%T" not in fmt and "%-S" not in fmt and "%_S" not in fmt:
        S = 0
    if "%N" in fmt or "%9N" in fmt:
        pass
    elif "%L" in fmt:
        ns = ns // 1000000 * 1000000
    else:
        ns = 0
    return (y, m, d, H, M, S, ns, off)


def hist_stream(ctx, h, m):
    from concurrent.futures import ThreadPoolExecutor
    stream = "c22.hist"
    env = vlib.elk_env({"TZ": "UTC"})
    nh, nops, niso = ctx.n(6, 40), ctx.n(500, 3000), ctx.n(4, 12)
    rng = ctx.rng(stream)
    histories = []          # (name, ops)
    corpus = os.path.join(vlib.ROOT, "corpus", "C22.hist.txt")
    if os.path.exists(corpus):
        for ln, l in enumerate(open(corpus)):
            l = l.strip()
            if l and not l.startswith("#"):
                histories.append(("corpus:%d" % (ln + 1), [o.strip() for o in l.split(";") if o.strip()]))
    for k in range(nh):
        rc, out = vlib.sh([h, "-extra", "histgen", "-seed", str((ctx.sseed(stream) + k) & 0x7FFFFFFFFFFFFFFF), "-n", str(nops)],
                          timeout=600, env=env)
        ids, inputs, _ = vlib.parse_case_lines(out)
        if rc != 0 or not ids:
            ctx.broke("stream %s: generator exited %d" % (stream, rc), out[-2000:])
            return
        histories.append(("gen:%d" % k, [inputs[i] for i in ids]))
    # the model: every operation evaluated on its own
    uniq = sorted({op for _, ops in histories for op in ops})
    uid = {op: "u%d" % i for i, op in enumerate(uniq)}
    rc, exp, mout = vlib.run_model(m, [uid[o] for o in uniq], {uid[o]: o for o in uniq})
    if rc != 0:
        ctx.broke("correspondence %s: model driver exited %d" % (stream, rc), mout[-3000:])
        return
    model = {o: exp.get(uid[o]) for o in uniq}
    evals, dist, mism, orderdep, isochecked, skipped, nfail, zone_ops, signs = 0, {}, 0, 0, 0, 0, 0, 0, set()
    reported = {}
    samples = []

    def report(key, what, **kw):
        reported[key] = reported.get(key, 0) + 1
        if reported[key] <= 3:
            ctx.fail(key, what, stream=stream, **kw)

    def isolated(op):
        r, out = hist_run(h, [op], env)
        return r[0] if r else "harness-failure"

    for name, ops in histories:
        orders = [("generated", list(range(len(ops))))]
        perm = list(range(len(ops)))
        rng.shuffle(perm)
        orders.append(("shuffled", perm))
        orders.append(("reversed", list(range(len(ops) - 1, -1, -1))))
        if ctx.tier == "quick" and name.startswith("gen:"):
            orders = orders[:2]
        with ThreadPoolExecutor(3) as ex:
            runs = list(ex.map(lambda o: hist_run(h, [ops[i] for i in o[1]], env), orders))
        results = []    # per order: {op index: observed}
        for (oname, order), (r, out) in zip(orders, runs):
            if r is None:
                ctx.broke("stream %s: harness failed on history %s (%s order)" % (stream, name, oname), out[-2000:])
                return
            results.append(dict(zip(order, r)))
            evals += len(order)
        if not samples and name.startswith("gen:"):
            samples = [{"input": ops[i], "observed": results[0][i]} for i in (0, 1, len(ops) - 2, len(ops) - 1)]
        for i, op in enumerate(ops):
            k0 = op.split(" ", 1)[0]
            dist[k0] = dist.get(k0, 0) + 1
            if k0 in ZOPS:
                zone_ops += 1
                if k0 not in ("zparse", "tzload"):
                    f = op.split()
                    o = int(f[8]) if k0 not in ("tzname",) else int(f[1])
                    if o:
                        signs.add((abs(o), o > 0))
        # fresh-process sample: the operation alone
        pick = [rng.below(len(ops)) for _ in range(min(niso, len(ops)))] if name.startswith("gen:") else list(range(len(ops)))
        with ThreadPoolExecutor(8) as ex:
            iso_s = dict(zip(pick, ex.map(lambda i: isolated(ops[i]), pick)))
        isochecked += len(iso_s)
        for (oname, order), res in zip(orders, results):
            pos = {i: p for p, i in enumerate(order)}
            first_bad = None
            for p, i in enumerate(order):
                op, o = ops[i], res[i]
                e = model[op]
                ref = None
                if e is None:
                    ctx.broke("correspondence %s: model gave no answer for %s" % (stream, op))
                    continue
                if e == "skip":
                    if oname == "generated":
                        skipped += 1
                    # implementation only: the same operation in another order / alone
                    if i in iso_s and iso_s[i] != o:
                        ref = iso_s[i]
                    elif results[0][i] != o:
                        ref = isolated(op)
                        if ref == o:
                            continue    # the generated order is the deviating one; reported there
                    else:
                        continue
                elif e != o:
                    ref = e
                elif i in iso_s and iso_s[i] != e:
                    # alone in a fresh process the implementation differs from the model
                    mism += 1
                    report(keyfn(op, iso_s[i], e) if op.split()[0] not in ZOPS else "model:%s" % op.split()[0],
                           "%s (alone in a fresh process): implementation %s, model %s" % (show_op(op), iso_s[i], e),
                           case=op, impl=iso_s[i], model=e, oracle="implementation differs from the proved model")
                    continue
                else:
                    continue
                if first_bad is None:
                    first_bad = p
                k0 = op.split()[0]
                iso = iso_s[i] if i in iso_s else (isolated(op) if reported.get("pending:" + k0, 0) < 6 else None)
                reported["pending:" + k0] = reported.get("pending:" + k0, 0) + 1
                if iso is None:
                    orderdep += 1
                    continue
                if iso == o:
                    # not a matter of history: plain disagreement with the model
                    mism += 1
                    key = keyfn(op, o, e) if k0 not in ZOPS else "model:%s:%s" % (k0, zfmt_class(unhex(op.split()[9 if k0 in ("zrt", "zfmt") else 1])) if k0 in ("zrt", "zfmt", "zparse") else "-")
                    report(key, "%s: implementation %s (also alone in a fresh process), model %s" % (show_op(op), o, e),
                           case=op, impl=o, model=e, oracle="implementation differs from the proved model")
                    continue
                orderdep += 1
                hkey = "history:%s" % k0
                bkey = hkey + (":min:gen" if name.startswith("gen:") else ":min:corpus")
                if reported.get(bkey, 0) < 2:
                    reported[bkey] = reported.get(bkey, 0) + 1
                    mini = hist_minimise(h, [ops[j] for j in order[:p]], op, iso, env)
                else:
                    mini = None
                if mini is not None:
                    cls = "+".join(sorted({x.split()[0] for x in mini})) or "nothing"
                    key = "history:%s:result-depends-on-earlier:%s" % (k0, cls)
                    what = ("in ONE process, after [%s] the operation %s gives %s; alone in a fresh process it gives %s%s" % (
                        " ; ".join(show_op(x) for x in mini[:6]) + (" ; ... (%d operations)" % len(mini) if len(mini) > 6 else ""),
                        show_op(op), o, iso, "" if e == "skip" else " (model: %s)" % e))
                    report(key, what, case=" ; ".join(mini + [op]), impl=o, model=None if e == "skip" else e,
                           oracle="results must not depend on the history: same operation in a fresh process / on the proved, stateless model")
                else:
                    reported[hkey + ":more"] = reported.get(hkey + ":more", 0) + 1
        # implementation-level round trip property on the generated order
        for i, op in enumerate(ops):
            f = op.split()
            if f[0] != "zrt":
                continue
            o = results[0][i]
            want = zrt_expected(f)
            if want is None:
                continue
            lossless = want == tuple(map(int, f[1:9]))
            g = o.split()
            ok = g[0] == "ok" and tuple(map(int, g[1:9])) == want and (not lossless or g[-1] == "eq")
            if not ok and model[op] == o:
                # same on the stateless model: the format itself does not round-trip
                nfail += 1
                report("zrt:%s:year-%s" % (zfmt_class(unhex(f[9])), ycls(int(f[1]))),
                       "DateTime(%s) formatted with %r parses back as %s" % (" ".join(f[1:9]), unhex(f[9]), o),
                       case=op, impl=o, model=model[op], oracle="round trip evaluated on the implementation's output")
        nd = oracle_dates(ctx, stream, list(range(len(ops))), ops, results[0]) if name.startswith("gen:") else 0
        nfail += nd
    both = len({a for a, s in signs if (a, not s) in signs})
    ctx.stream(stream, evals, len(uniq),
               "histories = seeded operation sequences, each order run in ONE harness process (generated order, seeded shuffle"
               "%s), plus corpus histories and a fresh-process sample: Date operations of c22.dates mixed with DateTime operations in "
               "fixed-offset zones (per-history pool of 4..14 offset magnitudes from -12:00..+14:00 whole/half/quarter hours and arbitrary "
               "minutes < 24 h, BOTH signs of every magnitude): construct, strftime, DateTime.parse of independently written and mutated "
               "texts, format/parse round trip (default format and combinations of %%Y %%m %%d %%F %%j, %%H %%M %%S %%T %%R %%L %%N %%9N, %%z %%:z), "
               "compare, in_zone, + Time::Span, + Date::Span, Timezone.from_offset name, Timezone lookup by name; every operation's result "
               "must equal the extracted stateless model's (tzname/tzload: the other orders' and the fresh-process result); distinct by operation"
               % ("" if ctx.tier == "quick" else ", reversed"),
               samples, dist, mismatches=mism, history_dependent_results=orderdep, model_skipped=skipped,
               fresh_process_checks=isochecked, histories=len(histories), zone_operations=zone_ops,
               offset_magnitudes_seen_with_both_signs=both, property_oracle_failures=nfail,
               not_minimised={k: v for k, v in reported.items() if k.endswith(":more")})


def nontrivial(inp, obs):
    f = inp.split()
    if f[0] in ("add", "sub"):
        return f[4] != "0" or f[5] != "0"
    return True


def run(ctx):
    ctx.explanation = (
        "Proved in Coq over all of Z: civil_from_days/days_from_civil are mutually inverse (proleptic Gregorian); "
        "the uint32 packing reads back exactly iff the year is in [-2^22,2^22); the Go-mirroring Date + Date::Span "
        "(time.Date normalisation, Go's truncating / and %, end-of-month clamp, repacking) equals the civil result for every "
        "valid date and every span whenever the result year is representable, and otherwise is the year wrapped into 23 bits "
        "(C22_no_wrap_refuted); d1 + (d2 - d1) = d2 exactly when d2's day exists in d1's month (refuted otherwise); "
        "Date::Span year/month/day split recombines; Date.parse(Date#to_string) and the default format round-trip for every "
        "representable valid date. The model mirrors /repo WITH fixes/C22-parse-signed-year.patch and fixes/C22-datespan-arith.patch "
        "(fixes/C22-week-numbers.patch only concerns the unmodelled %U %W %V directives of stream c22.rt). Differential only: that Go's time package "
        "normalises as modelled, all other format strings (c22.dates compares Format/ParseDate with the model on the numeric "
        "directives; c22.rt checks name/week directives, DateTime and span strings on the implementation only). "
        "Second pass (Model/C22_Zone.v): DateTime in FIXED-OFFSET zones = civil fields + offset, instant = fields - offset; proved: "
        "the text Format prints for `%z`/`%:z` is parsed back as exactly that offset for every whole-minute offset strictly inside "
        "(-24 h, +24 h), both signs, and DateTime.parse(dt.to_string) = dt (all fields, nanoseconds, offset) for every valid DateTime "
        "with a representable year (C22_offset_format_parse); a process-wide memo table for parsed offsets leaves every history's "
        "results equal to the isolated results iff-style: proved for every key that determines the offset, refuted for a key of "
        "absolute hours/minutes (C22_history_independent, C22_history_unsigned_key_refuted). Stream c22.hist treats SEQUENCES of "
        "operations in one process as the input: every operation's result in every order must equal the stateless extracted model's "
        "(construct, strftime, DateTime.parse, round trip, compare, in_zone, + Time::Span, + Date::Span in fixed-offset zones; Date "
        "operations mixed in) and, for Timezone name/lookup (not modelled), the other orders' and a fresh process's result. "
        "Not modelled: IANA/local zones (DST), %Z names, 12-hour clock, sub-nanosecond and unix-time directives, DateTime::Span "
        "differences; offsets with seconds are outside the stream (the offset directives cannot express them).")
    ctx.trusted_base += [
        "Go time package modelled as: time.Date normalises months then adds days on the proleptic Gregorian day line; "
        "AddDate(0,0,n) likewise (go_date/go_add_days) - validated by c22.dates, not proved",
        "fmt %d/%0Nd/%Nd modelled by fmt_num; timescanner tokenisation of the modelled directives re-implemented in ocaml/C22/main.ml",
        "local time zone of the check process has no midnight gaps (UTC here): Date goes through time.Local",
        "c22.hist: Go's time.Date / Time.In / Time.Add / Time.Compare in time.FixedZone locations modelled by mk_dt/of_local/in_zone/"
        "add_time/zcmp (validated by the stream, not proved); the DateTime format tokeniser is re-implemented in ocaml/C22/main.ml; "
        "history independence of the implementation is tested on seeded histories (2-3 orders + fresh-process sample), not proved about the Go code",
    ]
    ctx.run_proof_gate()
    h = vlib.build_harness("c22")
    m = vlib.build_model("C22")
    rule = ("seeded valid dates (boundary years incl. range ends, negative, >9999, leap/century/month ends, random) x "
            "{add,sub (spans of either sign, |days| up to 2^31, months up to 2^31), diff, d1+(d2-d1), cmp, pack, span split, "
            "Format, ParseDate on formatted and mutated strings, format/parse round trip} over %Y %C %y %m %d %e %j (- and _ variants) %F %D %% %n %t; "
            "model 'skip' answers (parse needs today's date / unmodelled directive) are not compared; non-trivial = not a zero span; distinct by input")
    stream = "c22.dates"
    cmd = [h, "-seed", str(ctx.sseed(stream)), "-n", str(ctx.n(6000, 600000)), "-tier", ctx.tier]
    corpus = os.path.join(vlib.ROOT, "corpus", "C22.dates.txt")
    if os.path.exists(corpus):
        cmd += ["-input", corpus]
    rc, out = vlib.sh(cmd, timeout=3000, env=vlib.elk_env())
    ids, inputs, obs = vlib.parse_case_lines(out)
    if rc != 0 or not ids:
        ctx.broke("correspondence %s: harness exited %d" % (stream, rc), out[-3000:])
    if ids:
        rc2, exp, mout = vlib.run_model(m, ids, inputs)
        if rc2 != 0:
            ctx.broke("correspondence %s: model driver exited %d" % (stream, rc2), mout[-3000:])
        distinct, dist, mism, skipped = set(), {}, 0, 0
        for i in ids:
            inp = inputs[i]
            op = inp.split(" ", 1)[0]
            dist[op] = dist.get(op, 0) + 1
            if nontrivial(inp, obs[i]):
                distinct.add(inp)
            e = exp.get(i)
            if e is None:
                ctx.broke("correspondence %s: model gave no answer for %s" % (stream, inp))
            elif e == "skip":
                skipped += 1
            elif e != obs[i]:
                mism += 1
                if mism <= 500:
                    ctx.fail(keyfn(inp, obs[i], e), "%s: implementation %s, model %s" % (inp, obs[i], e),
                             stream=stream, case=inp, impl=obs[i], model=e,
                             oracle="implementation differs from the proved model")
        nf = oracle_dates(ctx, stream, ids, inputs, obs)
        ctx.stream(stream, len(ids), len(distinct), rule,
                   [{"input": inputs[i], "observed": obs[i]} for i in ids[:2] + ids[-2:]], dist,
                   mismatches=mism, model_skipped=skipped, property_oracle_failures=nf)
    hist_stream(ctx, h, m)
    # implementation-only round trips for the directives outside the model
    cmd = [h, "-seed", str(ctx.sseed("c22.rt")), "-n", str(ctx.n(3000, 200000)), "-tier", ctx.tier, "-extra", "rt"]
    corpus = os.path.join(vlib.ROOT, "corpus", "C22.rt.txt")
    if os.path.exists(corpus):
        cmd += ["-input", corpus]
    rc, out = vlib.sh(cmd, timeout=3000, env=vlib.elk_env())
    ids, inputs, obs = vlib.parse_case_lines(out)
    if rc != 0 or not ids:
        ctx.broke("stream c22.rt: harness exited %d" % rc, out[-2000:])
    else:
        nf = oracle_rt(ctx, "c22.rt", ids, inputs, obs)
        dist = {}
        for i in ids:
            k = " ".join(inputs[i].split()[:2]) if inputs[i].startswith("rt2") else inputs[i].split()[0]
            dist[k] = dist.get(k, 0) + 1
        ctx.stream("c22.rt", len(ids), len(set(inputs.values())),
                   "implementation only: Format then ParseDate with month/weekday names, ISO week (%G %V %u), week-of-year (%U %W with %w %u) "
                   "and default formats must return the same date; Date::Span / DateTime::Span to_string then parse must be equal; "
                   "DateTime (UTC) to_string then parse with the default format must be equal; distinct by input",
                   [{"input": inputs[i], "observed": obs[i]} for i in ids[:2] + ids[-2:]], dist, property_oracle_failures=nf)
