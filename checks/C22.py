"""C22 — calendar arithmetic is exact, never wraps, and formatting round-trips."""
import os
import vlib

MIN_YEAR, MAX_YEAR = -(1 << 22), (1 << 22) - 1


# ---- independent civil-date arithmetic for the property oracle (era based, unlike the Coq model)
def days_from_civil(y, m, d):
    y -= m <= 2
    era = y // 400
    yoe = y - era * 400
    doy = (153 * (m + (-3 if m > 2 else 9)) + 2) // 5 + d - 1
    doe = yoe * 365 + yoe // 4 - yoe // 100 + doy
    return era * 146097 + doe - 719468


def civil_from_days(z):
    z += 719468
    era = z // 146097
    doe = z - era * 146097
    yoe = (doe - doe // 1460 + doe // 36524 - doe // 146096) // 365
    y = yoe + era * 400
    doy = doe - (365 * yoe + yoe // 4 - yoe // 100)
    mp = (5 * doy + 2) // 153
    d = doy - (153 * mp + 2) // 5 + 1
    m = mp + 3 if mp < 10 else mp - 9
    return (y + (m <= 2), m, d)


def is_leap(y):
    return (y % 4 == 0 and y % 100 != 0) or y % 400 == 0


def dim(y, m):
    return 29 if (m == 2 and is_leap(y)) else 28 if m == 2 else 30 if m in (4, 6, 9, 11) else 31


def wrap32(z):
    return (z + (1 << 31)) % (1 << 32) - (1 << 31)


def add_spec(y, m, d, months, days):
    """date + span: days on the day line, then whole months with the day clamped to the month length"""
    y1, m1, d1 = civil_from_days(days_from_civil(y, m, d) + days)
    t = y1 * 12 + (m1 - 1) + months
    y2, m2 = t // 12, t % 12 + 1
    return (y2, m2, min(d1, dim(y2, m2)))


def ycls(y):
    return "neg" if y < 0 else ("0-9999" if y <= 9999 else "big")


def spancls(months, days):
    return "m%s:d%s%s" % ("0" if months == 0 else ("+" if months > 0 else "-"),
                          "0" if days == 0 else ("+" if days > 0 else "-"),
                          ":days>106751" if abs(days) > 106751 else "")


def fmtcls(fmt_hex):
    """class of a format string: which year directives it uses"""
    try:
        f = bytes.fromhex(fmt_hex).decode("latin-1") if fmt_hex != "-" else ""
    except ValueError:
        return "?"
    s = set()
    i = 0
    while i < len(f):
        if f[i] == "%" and i + 1 < len(f):
            j = i + 1
            if f[j] in "-_^" and j + 1 < len(f):
                j += 1
            s.add(f[j])
            i = j + 1
        else:
            i += 1
    if "C" in s or "y" in s:
        return "century/2-digit-year"
    if "G" in s or "g" in s:
        return "iso-year"
    if "Y" in s or "F" in s:
        return "full-year"
    return "no-year"


def keyfn(inp, obs, exp):
    """canonical class of a model/implementation disagreement"""
    f = inp.split()
    op = f[0]
    if op in ("add", "sub"):
        return "model:%s%s" % (op, ":|days|>106751" if abs(int(f[5])) > 106751 else "")
    if op in ("diff", "diffadd", "cmp"):
        return "model:%s" % op
    if op == "pack":
        return "model:pack:%s" % ("in-range" if MIN_YEAR <= int(f[1]) <= MAX_YEAR else "out-of-range")
    if op == "span":
        return "model:span"
    if op == "fmt":
        return "model:fmt:%s:year-%s" % (fmtcls(f[4]), ycls(int(f[1])))
    if op == "parse":
        inp_s = bytes.fromhex(f[2]).decode("latin-1") if f[2] != "-" else ""
        return "model:parse:%s:model-%s-impl-%s" % (fmtcls(f[1]), exp.split()[0], obs.split()[0])
    if op == "rt":
        return "model:rt:%s:year-%s" % (fmtcls(f[5]), ycls(int(f[2])))
    return "model:" + op


def oracle_dates(ctx, stream, ids, inputs, obs):
    """the property evaluated directly on the implementation's outputs"""
    n = 0
    for i in ids:
        f = inputs[i].split()
        o = obs[i]
        op = f[0]
        key = what = None
        if op in ("add", "sub"):
            y, m, d, months, days = map(int, f[1:6])
            if op == "sub":
                months, days = wrap32(-months), wrap32(-days)
            want = add_spec(y, m, d, months, days)
            if MIN_YEAR <= want[0] <= MAX_YEAR:
                if o != "%d %d %d" % want:
                    key = "%s:inexact%s" % (op, ":|days|>106751" if abs(int(f[5])) > 106751 else "")
                    what = "Date(%d,%d,%d) %s span(months=%s,days=%s) = %s, civil result %s" % (y, m, d, "+" if op == "add" else "-", f[4], f[5], o, want)
            else:
                # not representable: the property demands an error, never a wrapped date
                if not o.startswith(("err", "panic")):
                    key = "no_wrap:%s" % ("high" if want[0] > MAX_YEAR else "low")
                    what = "Date(%d,%d,%d) %s span(months=%s,days=%s): exact year %d is not representable, got Date(%s) instead of an error" % (
                        y, m, d, "+" if op == "add" else "-", f[4], f[5], want[0], o)
        elif op == "diffadd":
            y1, m1, d1, y2, m2, d2 = map(int, f[1:7])
            if o != "%d %d %d" % (y2, m2, d2):
                key = "diffadd:day-overflows-month" if d2 > dim(y1, m1) else "diffadd:other"
                what = "d1=Date(%d,%d,%d), d2=Date(%d,%d,%d): d1 + (d2 - d1) = Date(%s)" % (y1, m1, d1, y2, m2, d2, o)
        elif op == "cmp":
            a, b = tuple(map(int, f[1:4])), tuple(map(int, f[4:7]))
            want = (a > b) - (a < b)
            if o != str(want):
                key, what = "cmp", "%s <=> %s = %s" % (a, b, o)
        elif op == "pack":
            y, m, d = map(int, f[1:4])
            if MIN_YEAR <= y <= MAX_YEAR and o != "%d %d %d" % (y, m, d):
                key, what = "pack:in-range", "MakeDate(%d,%d,%d) reads back %s" % (y, m, d, o)
        elif op == "span":
            if o != "%s %s" % (f[1], f[2]):
                key, what = "span_rt", "Date::Span(months=%s,days=%s).to_string parses back as %s" % (f[1], f[2], o)
        elif op == "rt" and f[1] == "1":
            y, m, d = map(int, f[2:5])
            if o != "ok %d %d %d" % (y, m, d):
                key = "rt:%s:year-%s" % (fmtcls(f[5]), ycls(y))
                what = "Date(%d,%d,%d) formatted with %r parses back as %s" % (y, m, d, bytes.fromhex(f[5]).decode("latin-1"), o)
        if key:
            n += 1
            if n <= 500:
                ctx.fail(key, what, stream=stream, case=inputs[i], impl=o, model=None,
                         oracle="property evaluated on the implementation's output (independent civil arithmetic)")
    return n


def oracle_rt(ctx, stream, ids, inputs, obs):
    n = 0
    for i in ids:
        f = inputs[i].split()
        o = obs[i]
        key = what = None
        if f[0] == "rt2":
            y, m, d = map(int, f[2:5])
            if o != "ok %d %d %d" % (y, m, d):
                key = "rt2:%s:year-%s" % (f[1], ycls(y))
                what = "Date(%d,%d,%d) formatted with %r parses back as %s" % (y, m, d, bytes.fromhex(f[5]).decode("latin-1"), o)
        elif f[0] == "spanstr":
            if o != "same":
                key = "spanstr:%s" % o.split()[0]
                what = "span(months=%s,days=%s,ns=%s) to_string/parse: %s" % (f[1], f[2], f[3], o)
        elif f[0] == "dtrt":
            if o != "same":
                key = "dtrt:%s:year-%s" % (o.split()[0], ycls(int(f[1])))
                what = "DateTime(%s) to_string/parse: %s" % (" ".join(f[1:]), o)
        if key:
            n += 1
            if n <= 500:
                ctx.fail(key, what, stream=stream, case=inputs[i], impl=o, model=None,
                         oracle="round trip evaluated on the implementation only")
    return n


def nontrivial(inp, obs):
    f = inp.split()
    if f[0] in ("add", "sub"):
        return f[4] != "0" or f[5] != "0"
    return True


def run(ctx):
    ctx.explanation = (
        "Proved in Coq over all of Z: civil_from_days/days_from_civil are mutually inverse (proleptic Gregorian); "
        "the uint32 packing reads back exactly iff the year is in [-2^22,2^22); the Go-mirroring Date + Date::Span "
        "(time.Date normalisation, Go's truncating / and %, end-of-month clamp, repacking) equals the civil result for every "
        "valid date and every span whenever the result year is representable, and otherwise is the year wrapped into 23 bits "
        "(C22_no_wrap_refuted); d1 + (d2 - d1) = d2 exactly when d2's day exists in d1's month (refuted otherwise); "
        "Date::Span year/month/day split recombines; Date.parse(Date#to_string) and the default format round-trip for every "
        "representable valid date. The model mirrors /repo WITH fixes/C22-parse-signed-year.patch and fixes/C22-datespan-arith.patch "
        "(fixes/C22-week-numbers.patch only concerns the unmodelled %U %W %V directives of stream c22.rt). Differential only: that Go's time package "
        "normalises as modelled, all other format strings (c22.dates compares Format/ParseDate with the model on the numeric "
        "directives; c22.rt checks name/week directives, DateTime and span strings on the implementation only). "
        "DateTime arithmetic, time zones and Time::Span are not modelled.")
    ctx.trusted_base += [
        "Go time package modelled as: time.Date normalises months then adds days on the proleptic Gregorian day line; "
        "AddDate(0,0,n) likewise (go_date/go_add_days) - validated by c22.dates, not proved",
        "fmt %d/%0Nd/%Nd modelled by fmt_num; timescanner tokenisation of the modelled directives re-implemented in ocaml/C22/main.ml",
        "local time zone of the check process has no midnight gaps (UTC here): Date goes through time.Local",
    ]
    ctx.run_proof_gate()
    h = vlib.build_harness("c22")
    m = vlib.build_model("C22")
    rule = ("seeded valid dates (boundary years incl. range ends, negative, >9999, leap/century/month ends, random) x "
            "{add,sub (spans of either sign, |days| up to 2^31, months up to 2^31), diff, d1+(d2-d1), cmp, pack, span split, "
            "Format, ParseDate on formatted and mutated strings, format/parse round trip} over %Y %C %y %m %d %e %j (- and _ variants) %F %D %% %n %t; "
            "model 'skip' answers (parse needs today's date / unmodelled directive) are not compared; non-trivial = not a zero span; distinct by input")
    stream = "c22.dates"
    cmd = [h, "-seed", str(ctx.sseed(stream)), "-n", str(ctx.n(6000, 600000)), "-tier", ctx.tier]
    corpus = os.path.join(vlib.ROOT, "corpus", "C22.dates.txt")
    if os.path.exists(corpus):
        cmd += ["-input", corpus]
    rc, out = vlib.sh(cmd, timeout=3000, env=vlib.elk_env())
    ids, inputs, obs = vlib.parse_case_lines(out)
    if rc != 0 or not ids:
        ctx.broke("correspondence %s: harness exited %d" % (stream, rc), out[-3000:])
    if ids:
        rc2, exp, mout = vlib.run_model(m, ids, inputs)
        if rc2 != 0:
            ctx.broke("correspondence %s: model driver exited %d" % (stream, rc2), mout[-3000:])
        distinct, dist, mism, skipped = set(), {}, 0, 0
        for i in ids:
            inp = inputs[i]
            op = inp.split(" ", 1)[0]
            dist[op] = dist.get(op, 0) + 1
            if nontrivial(inp, obs[i]):
                distinct.add(inp)
            e = exp.get(i)
            if e is None:
                ctx.broke("correspondence %s: model gave no answer for %s" % (stream, inp))
            elif e == "skip":
                skipped += 1
            elif e != obs[i]:
                mism += 1
                if mism <= 500:
                    ctx.fail(keyfn(inp, obs[i], e), "%s: implementation %s, model %s" % (inp, obs[i], e),
                             stream=stream, case=inp, impl=obs[i], model=e,
                             oracle="implementation differs from the proved model")
        nf = oracle_dates(ctx, stream, ids, inputs, obs)
        ctx.stream(stream, len(ids), len(distinct), rule,
                   [{"input": inputs[i], "observed": obs[i]} for i in ids[:2] + ids[-2:]], dist,
                   mismatches=mism, model_skipped=skipped, property_oracle_failures=nf)
    # implementation-only round trips for the directives outside the model
    cmd = [h, "-seed", str(ctx.sseed("c22.rt")), "-n", str(ctx.n(3000, 200000)), "-tier", ctx.tier, "-extra", "rt"]
    corpus = os.path.join(vlib.ROOT, "corpus", "C22.rt.txt")
    if os.path.exists(corpus):
        cmd += ["-input", corpus]
    rc, out = vlib.sh(cmd, timeout=3000, env=vlib.elk_env())
    ids, inputs, obs = vlib.parse_case_lines(out)
    if rc != 0 or not ids:
        ctx.broke("stream c22.rt: harness exited %d" % rc, out[-2000:])
    else:
        nf = oracle_rt(ctx, "c22.rt", ids, inputs, obs)
        dist = {}
        for i in ids:
            k = " ".join(inputs[i].split()[:2]) if inputs[i].startswith("rt2") else inputs[i].split()[0]
            dist[k] = dist.get(k, 0) + 1
        ctx.stream("c22.rt", len(ids), len(set(inputs.values())),
                   "implementation only: Format then ParseDate with month/weekday names, ISO week (%G %V %u), week-of-year (%U %W with %w %u) "
                   "and default formats must return the same date; Date::Span / DateTime::Span to_string then parse must be equal; "
                   "DateTime (UTC) to_string then parse with the default format must be equal; distinct by input",
                   [{"input": inputs[i], "observed": obs[i]} for i in ids[:2] + ids[-2:]], dist, property_oracle_failures=nf)
