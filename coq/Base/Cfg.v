(* Base/Cfg.v — abstract bytecode control-flow graph shared by C29 (structural validity) and
   C33 (abort safety).  Definitions only; proofs are in Proofs/Cfg_*.v.

   An abstract function is the list of its decoded instructions (offset, size, opcode, kind,
   index operands, "is an abort check") together with its catch entries and table sizes.
   The decoder that produces it from the raw bytes is Model/C29_Decode.v; the per-opcode table
   it consults is Gen/C29_Opcodes.v (regenerated from the implementation on every run). *)
From Coq Require Import NArith ZArith List Bool FMapPositive.
Import ListNotations.
Open Scope N_scope.

(* ---- opcode table vocabulary (instantiated by Gen/C29_Opcodes.v) ---- *)
Inductive role :=
  | RVal | RSym | RCall | RCallBC | RCallNT   (* value-pool index, with the kind the VM casts it to *)
  | RLocal | RUpv                              (* local slot / upvalue index *)
  | RPrep                                      (* PREP_LOCALS count *)
  | RNum | RRaw                                (* unchecked number / raw bytes *)
  | RJumpF | RJumpB.                           (* forward / backward jump distance *)

Inductive okind :=
  | OFall | OJump | OBranch | OLoop | OReturn | OThrow | ORetFinally | ODyn
  | OSkip1 | OSpawn | OYield | OStop | OClosure | OUnknown.

Record opinfo := mkop {
  op_code : N;
  op_operands : list (role * N);        (* role, width in bytes *)
  op_implicit : option (role * N);      (* index operand encoded in the opcode itself *)
  op_kind : okind;
  op_check : bool;                      (* CHECK_ABORT / context-aware blocking opcode *)
  op_dis_size : N;                      (* size the real disassembler reports (0x00 fill) *)
  op_dis_size_ff : N                    (* same, 0xff fill *)
}.

(* ---- the abstract function ---- *)
Inductive kind :=
  | KFall                 (* next instruction *)
  | KJump (t : N)         (* unconditional forward jump *)
  | KBranch (t : N)       (* next or t *)
  | KLoop (t : N)         (* unconditional backward jump *)
  | KReturn               (* leaves the frame *)
  | KThrow                (* handler edges only *)
  | KRetFinally           (* leaves the frame, or enters a covering finally handler *)
  | KDyn (ts : list N)    (* JUMP_TO_FINALLY: target taken from the stack; ts = every offset constant
                             the function can have pushed for it; or a covering finally handler + 4 *)
  | KSkip (alt : N)       (* AWAIT: next (after a resume) or next+1 *)
  | KSpawn (alt : N)      (* GENERATOR / PROMISE: next (the creating call returns) or the body at next+1 *)
  | KYield                (* suspends; resumes at next *)
  | KStop.                (* STOP_ITERATION: leaves; a later resume continues at next *)

Inductive vkind := VFun (upv : N) | VCall | VCallBC | VCallNT | VSym | VInt (n : Z) | VOther.

Record instr := mkinstr {
  i_off : N; i_size : N; i_op : N; i_kind : kind;
  i_idx : list (role * N);
  i_check : bool
}.

Record catch := mkcatch { c_from : Z; c_to : Z; c_jump : Z; c_fin : bool }.

Record func := mkfunc {
  f_instrs : list instr;
  f_len : N;                 (* length of the byte array *)
  f_catches : list catch;
  f_vals : list vkind;       (* value pool, by kind *)
  f_locals : N;              (* slots of the frame: self + parameters + PREP_LOCALS count *)
  f_upvals : N
}.

Definition instr_at (f : func) (o : N) : option instr :=
  find (fun i => i_off i =? o) (f_instrs f).

Definition is_start (f : func) (o : N) : bool :=
  match instr_at f o with Some _ => true | None => false end.

Definition nxt (i : instr) : N := i_off i + i_size i.

(* successors by ordinary control flow *)
Definition nsuccs (i : instr) : list N :=
  match i_kind i with
  | KFall => [nxt i]
  | KJump t => [t]
  | KLoop t => [t]
  | KBranch t => [nxt i; t]
  | KReturn => []
  | KThrow => []
  | KRetFinally => []
  | KDyn ts => ts
  | KSkip a => [nxt i; a]
  | KSpawn a => [nxt i; a]
  | KYield => [nxt i]
  | KStop => [nxt i]
  end.

(* vm.rethrow / findFinallyCatchEntry: an entry covers ip when From < ip <= To, where ip is
   anywhere in (offset, offset+size] while the instruction executes. *)
Definition covers (c : catch) (i : instr) : bool :=
  (c_from c <? Z.of_N (nxt i))%Z && (Z.of_N (i_off i) <? c_to c)%Z.

(* handler edges: every covered instruction may raise (CHECK_ABORT itself does) and lands on
   JumpAddress; RETURN_FINALLY lands on a covering finally entry, JUMP_TO_FINALLY on the same
   entry + 4 (vm.jumpToFinallyForBreakOrContinue). *)
Definition hsuccs (f : func) (i : instr) : list N :=
  flat_map (fun c =>
    if covers c i then
      if c_fin c then
        match i_kind i with
        | KRetFinally => [Z.to_N (c_jump c)]
        | KDyn _ => [Z.to_N (c_jump c) + 4]
        | _ => []
        end
      else [Z.to_N (c_jump c)]
    else []) (f_catches f).

Definition succs (f : func) (i : instr) : list N := nsuccs i ++ hsuccs f i.

Definition vkind_is (f : func) (v : N) (p : vkind -> bool) : bool :=
  match nth_error (f_vals f) (N.to_nat v) with Some k => p k | None => false end.

Definition idx_ok (f : func) (rv : role * N) : bool :=
  let (r, v) := rv in
  match r with
  | RVal => vkind_is f v (fun _ => true)
  | RSym => vkind_is f v (fun k => match k with VSym => true | _ => false end)
  | RCall => vkind_is f v (fun k => match k with VCall => true | _ => false end)
  | RCallBC => vkind_is f v (fun k => match k with VCallBC => true | _ => false end)
  | RCallNT => vkind_is f v (fun k => match k with VCallNT => true | _ => false end)
  | RLocal => v <? f_locals f
  | RUpv => v <? f_upvals f
  | _ => true
  end.

(* offsets are contiguous from o and end exactly at e; every instruction is non-empty *)
Fixpoint contig (l : list instr) (o e : N) : bool :=
  match l with
  | [] => o =? e
  | i :: r => (i_off i =? o) && (0 <? i_size i) && contig r (o + i_size i) e
  end.

Definition bound_ok (f : func) (z : Z) : bool :=
  (0 <=? z)%Z && (is_start f (Z.to_N z) || (Z.to_N z =? f_len f)).

(* an entry with To <= From covers nothing (the compiler registers such a marker entry in
   generator functions; only its JumpAddress is used, by Generator#reset) *)
Definition catch_ok (f : func) (c : catch) : bool :=
  (0 <=? c_jump c)%Z && is_start f (Z.to_N (c_jump c)) &&
  ((c_to c <=? c_from c)%Z || (bound_ok f (c_from c) && bound_ok f (c_to c))).

Definition instr_ok (f : func) (i : instr) : bool :=
  forallb (is_start f) (succs f i) && forallb (idx_ok f) (i_idx i).

Definition nonempty {A} (l : list A) : bool := match l with [] => false | _ => true end.

(* ---- C29: the validator ---- *)
Definition verify (f : func) : bool :=
  nonempty (f_instrs f) &&
  contig (f_instrs f) 0 (f_len f) &&
  forallb (instr_ok f) (f_instrs f) &&
  forallb (catch_ok f) (f_catches f).

(* ---- C33: abort safety ---- *)
(* a node at which a running activation observes cancellation, or suspends/leaves *)
Definition stop (i : instr) : bool :=
  i_check i || match i_kind i with KYield | KStop => true | _ => false end.

Definition pkey (o : N) : positive := N.succ_pos o.
Definition rank_of (m : PositiveMap.t N) (o : N) : N :=
  match PositiveMap.find (pkey o) m with Some r => r | None => 0 end.
Definition mem_of (m : PositiveMap.t N) (o : N) : bool :=
  match PositiveMap.find (pkey o) m with Some _ => true | None => false end.

(* UNVERIFIED search for a ranking (longest check-free path to a sink, memoised DFS with an
   in-progress mark).  Its result is only a certificate: check_rank below decides. *)
Fixpoint rank_dfs (fuel : nat) (f : func) (o : N) (m : PositiveMap.t N) : PositiveMap.t N * N :=
  match fuel with
  | O => (m, 0)
  | S k =>
    match PositiveMap.find (pkey o) m with
    | Some r => (m, r)
    | None =>
      match instr_at f o with
      | None => (m, 0)
      | Some i =>
        if stop i then (PositiveMap.add (pkey o) 0 m, 0)
        else
          let m0 := PositiveMap.add (pkey o) 0 m in
          let '(m1, best) :=
            fold_left (fun (acc : PositiveMap.t N * N) b =>
                         let '(ma, bst) := acc in
                         let '(mb, r) := rank_dfs k f b ma in
                         let r' := match instr_at f b with
                                   | Some j => if stop j then 0 else r + 1
                                   | None => 0 end in
                         (mb, N.max bst r')) (succs f i) (m0, 0) in
          (PositiveMap.add (pkey o) best m1, best)
      end
    end
  end.

Definition compute_rank (f : func) : PositiveMap.t N :=
  fold_left (fun m i => fst (rank_dfs (S (length (f_instrs f))) f (i_off i) m))
            (f_instrs f) (PositiveMap.empty N).

Definition n_instrs (f : func) : N := N.of_nat (length (f_instrs f)).

(* VERIFIED check: along every edge between two non-stop nodes the rank strictly decreases,
   and ranks are below the number of instructions. *)
Definition check_rank (f : func) (m : PositiveMap.t N) : bool :=
  forallb (fun i =>
    stop i ||
    ((rank_of m (i_off i) <? n_instrs f) &&
     forallb (fun b => match instr_at f b with
                       | Some j => stop j || (rank_of m b <? rank_of m (i_off i))
                       | None => false end) (succs f i))) (f_instrs f).

(* exits that the compiler guards with a check: RETURN, RETURN_SELF, RETURN_FIRST_ARG, YIELD.
   RETURN_FINALLY is NOT included: the epilogue of every finally block re-dispatches a pending
   return with an unguarded RETURN_FINALLY, and a path-insensitive analysis cannot tell that it
   only runs after a guarded one. *)
Definition is_exit (i : instr) : bool :=
  match i_kind i with KReturn | KYield => true | _ => false end.

(* successors followed when looking for an unchecked exit: the creating call of a generator /
   promise (GENERATOR;RETURN / PROMISE;RETURN prologue) returns at once and is not followed *)
Definition esuccs (f : func) (i : instr) : list N :=
  match i_kind i with
  | KSpawn a => [a]
  | _ => succs f i
  end.

(* start points of an activation: the entry, and the resume point after YIELD / AWAIT *)
Definition resume_points (f : func) : list N :=
  flat_map (fun i => match i_kind i with
                     | KYield => [nxt i]
                     | KSkip _ => [nxt i]
                     | KSpawn a => [a]
                     | _ => [] end) (f_instrs f).

Definition starts (f : func) : list N := 0 :: resume_points f.

(* UNVERIFIED search: offsets reachable from the start points without executing a check *)
Fixpoint reach_dfs (fuel : nat) (f : func) (o : N) (m : PositiveMap.t N) : PositiveMap.t N :=
  match fuel with
  | O => m
  | S k =>
    if mem_of m o then m else
    match instr_at f o with
    | None => m
    | Some i =>
      let m0 := PositiveMap.add (pkey o) 0 m in
      if i_check i then m0 else fold_left (fun ma b => reach_dfs k f b ma) (esuccs f i) m0
    end
  end.

Definition compute_reach (f : func) : PositiveMap.t N :=
  fold_left (fun m o => reach_dfs (S (length (f_instrs f))) f o m) (starts f) (PositiveMap.empty N).

(* VERIFIED check: the set contains the start points, is closed under check-free steps, and
   contains no exit that is not itself preceded... i.e. no exit node at all unless it is a check *)
Definition check_reach (f : func) (m : PositiveMap.t N) : bool :=
  forallb (mem_of m) (starts f) &&
  forallb (fun i =>
    negb (mem_of m (i_off i)) || i_check i ||
    (negb (is_exit i) && forallb (mem_of m) (esuccs f i))) (f_instrs f).

Definition loops_checked (f : func) : bool := check_rank f (compute_rank f).
Definition exits_checked (f : func) : bool := check_reach f (compute_reach f).

Definition abort_safe (f : func) : bool := loops_checked f && exits_checked f.
