(* Go semantics shared by the models: outcomes, fixed-width wrap-around, shifts. *)
From Coq Require Export ZArith List Bool Lia.
From Coq Require Import ZifyBool.
Export ListNotations.
Open Scope Z_scope.

(* What a Go function call can do besides returning. *)
Inductive outcome (A : Type) : Type :=
| Ok (a : A)          (* normal return *)
| Err (code : Z)      (* an Elk-level error value returned to the caller; code = small enum *)
| Panic (code : Z)    (* recoverable Go panic *)
| Fatal (code : Z).   (* unrecoverable Go runtime failure *)
Arguments Ok {A}. Arguments Err {A}. Arguments Panic {A}. Arguments Fatal {A}.

Definition bind {A B} (x : outcome A) (f : A -> outcome B) : outcome B :=
  match x with Ok a => f a | Err c => Err c | Panic c => Panic c | Fatal c => Fatal c end.

(* error enum shared with the harnesses *)
Definition E_ZERO_DIV : Z := 1.
Definition E_TYPE : Z := 2.
Definition E_OUT_OF_RANGE : Z := 3.
Definition P_NEG_SHIFT : Z := 101.
Definition P_INDEX : Z := 102.
Definition P_NIL : Z := 103.

(* two's complement, width w bits *)
Definition wrap_u (w : Z) (z : Z) : Z := z mod 2 ^ w.
Definition wrap_s (w : Z) (z : Z) : Z := (z + 2 ^ (w - 1)) mod 2 ^ w - 2 ^ (w - 1).
Definition fits_s (w : Z) (z : Z) : bool := (- 2 ^ (w - 1) <=? z) && (z <? 2 ^ (w - 1)).
Definition fits_u (w : Z) (z : Z) : bool := (0 <=? z) && (z <? 2 ^ w).

Definition min64 : Z := - 2 ^ 63.
Definition max64 : Z := 2 ^ 63 - 1.
Definition wrap64 (z : Z) : Z := wrap_s 64 z.
Definition fits64 (z : Z) : bool := fits_s 64 z.

Lemma wrap_s_id w z : 0 < w -> fits_s w z = true -> wrap_s w z = z.
Proof.
  unfold wrap_s, fits_s. intros Hw H.
  apply andb_prop in H. destruct H as [H1 H2].
  apply Z.leb_le in H1. apply Z.ltb_lt in H2.
  assert (E : 2 ^ w = 2 * 2 ^ (w - 1)).
  { replace w with (Z.succ (w - 1)) at 1 by lia. rewrite Z.pow_succ_r by lia. reflexivity. }
  rewrite Z.mod_small; lia.
Qed.

Lemma wrap_s_range w z : 0 < w -> fits_s w (wrap_s w z) = true.
Proof.
  unfold wrap_s, fits_s. intros Hw.
  assert (E : 2 ^ w = 2 * 2 ^ (w - 1)).
  { replace w with (Z.succ (w - 1)) at 1 by lia. rewrite Z.pow_succ_r by lia. reflexivity. }
  assert (P : 0 < 2 ^ (w - 1)) by (apply Z.pow_pos_nonneg; lia).
  pose proof (Z.mod_pos_bound (z + 2 ^ (w - 1)) (2 ^ w) ltac:(lia)) as B.
  apply andb_true_intro. split; [apply Z.leb_le | apply Z.ltb_lt]; lia.
Qed.

Lemma wrap_s_cong w z : 0 < w -> exists k, wrap_s w z = z + k * 2 ^ w.
Proof.
  intros Hw. unfold wrap_s.
  exists (- ((z + 2 ^ (w - 1)) / 2 ^ w)).
  pose proof (Z.div_mod (z + 2 ^ (w - 1)) (2 ^ w)) as D.
  assert (P : 0 < 2 ^ w) by (apply Z.pow_pos_nonneg; lia).
  specialize (D ltac:(lia)). lia.
Qed.

Lemma fits64_iff z : fits64 z = true <-> min64 <= z <= max64.
Proof.
  unfold fits64, fits_s, min64, max64. change (64 - 1) with 63.
  rewrite andb_true_iff, Z.leb_le, Z.ltb_lt. lia.
Qed.

Lemma wrap64_id z : fits64 z = true -> wrap64 z = z.
Proof. apply wrap_s_id. lia. Qed.

Lemma wrap64_range z : fits64 (wrap64 z) = true.
Proof. apply wrap_s_range. lia. Qed.

Lemma wrap64_cong z : exists k, wrap64 z = z + k * 2 ^ 64.
Proof. apply wrap_s_cong. lia. Qed.

(* Go's signed x >> n for n >= 0 (arithmetic; any n >= width sign-fills) *)
Definition go_shr (x n : Z) : Z := Z.shiftr x n.
(* Go's signed x << n at width 64 for n >= 0 *)
Definition go_shl64 (x n : Z) : Z := wrap64 (Z.shiftl x n).
