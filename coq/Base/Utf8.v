(* UTF-8 exactly as Go's unicode/utf8 package decodes and encodes it.
   Shared by C20 (string operations), C19 (inspect round trip), C04 (lexer spans).

   Strings are `list Z` with every element meant to lie in [0,256) (`bytes_ok`); runes are Z.
   Definitions only (plus a few one-line facts); the lemmas live in Proofs/Utf8_*.v:
     Proofs/Utf8_Decode.v  size bounds, unfolding of decode_all, sum of sizes, counts
     Proofs/Utf8_Encode.v  decode (encode r) = (r, len), encode_all / decode_all round trips *)
From Coq Require Export ZArith List Bool Lia.
Export ListNotations.
Open Scope Z_scope.

Definition RuneError : Z := 65533.      (* U+FFFD, utf8.RuneError *)
Definition MaxRune : Z := 1114111.      (* U+10FFFF, utf8.MaxRune *)
Definition UTFMax : Z := 4.

Definition in_rng (lo hi x : Z) : bool := (lo <=? x) && (x <=? hi).

Definition byte_ok (b : Z) : bool := in_rng 0 255 b.
Definition bytes_ok (s : list Z) : bool := forallb byte_ok s.

Definition is_cont (b : Z) : bool := in_rng 128 191 b.              (* 0x80..0xBF *)
Definition is_surrogate (r : Z) : bool := in_rng 55296 57343 r.     (* 0xD800..0xDFFF *)
(* utf8.ValidRune: a Unicode scalar value *)
Definition valid_rune (r : Z) : bool := in_rng 0 MaxRune r && negb (is_surrogate r).

(* Go's acceptRanges: the admissible interval of the SECOND byte depends on the lead byte;
   this is what rejects overlong forms (E0 80.., F0 80..), surrogates (ED A0..) and
   values above U+10FFFF (F4 90..). *)
Definition lo2 (b0 : Z) : Z := if b0 =? 224 then 160 else if b0 =? 240 then 144 else 128.
Definition hi2 (b0 : Z) : Z := if b0 =? 237 then 159 else if b0 =? 244 then 143 else 191.

(* utf8.DecodeRuneInString: (rune, size). size = 0 iff the string is empty; an invalid,
   overlong, surrogate, out-of-range or truncated sequence yields (RuneError, 1).
   Lead bytes: 00..7F one byte; C2..DF two; E0..EF three; F0..F4 four; 80..C1 and F5..FF invalid. *)
Definition decode_rune (s : list Z) : Z * Z :=
  match s with
  | [] => (RuneError, 0)
  | b0 :: t =>
    if b0 <? 128 then (b0, 1)
    else if in_rng 194 223 b0 then
      match t with
      | b1 :: _ => if is_cont b1 then ((b0 - 192) * 64 + (b1 - 128), 2) else (RuneError, 1)
      | _ => (RuneError, 1)
      end
    else if in_rng 224 239 b0 then
      match t with
      | b1 :: b2 :: _ =>
        if in_rng (lo2 b0) (hi2 b0) b1 && is_cont b2
        then (((b0 - 224) * 64 + (b1 - 128)) * 64 + (b2 - 128), 3) else (RuneError, 1)
      | _ => (RuneError, 1)
      end
    else if in_rng 240 244 b0 then
      match t with
      | b1 :: b2 :: b3 :: _ =>
        if in_rng (lo2 b0) (hi2 b0) b1 && is_cont b2 && is_cont b3
        then ((((b0 - 240) * 64 + (b1 - 128)) * 64 + (b2 - 128)) * 64 + (b3 - 128), 4)
        else (RuneError, 1)
      | _ => (RuneError, 1)
      end
    else (RuneError, 1)
  end.

(* what EncodeRune / AppendRune / strings.Builder.WriteRune / string(rune) actually encode:
   anything that is not a scalar value is replaced by U+FFFD *)
Definition norm_rune (r : Z) : Z := if valid_rune r then r else RuneError.

(* utf8.RuneLen on the normalised rune (so: the number of bytes EncodeRune writes) *)
Definition rune_len (r : Z) : Z :=
  let r := norm_rune r in
  if r <? 128 then 1 else if r <? 2048 then 2 else if r <? 65536 then 3 else 4.

(* utf8.EncodeRune / AppendRune *)
Definition encode_rune (r : Z) : list Z :=
  let r := norm_rune r in
  if r <? 128 then [r]
  else if r <? 2048 then [192 + r / 64; 128 + r mod 64]
  else if r <? 65536 then [224 + r / 4096; 128 + (r / 64) mod 64; 128 + r mod 64]
  else [240 + r / 262144; 128 + (r / 4096) mod 64; 128 + (r / 64) mod 64; 128 + r mod 64].

Definition encode_all (rs : list Z) : list Z := flat_map encode_rune rs.

(* One decoding step as the consumers see it: the rune, its size, and the first byte
   (Go code that special-cases invalid input looks at s[0] when it gets (RuneError, 1)). *)
Record step := mkStep { st_rune : Z; st_size : Z; st_byte : Z }.

Definition step_invalid (x : step) : bool := (st_rune x =? RuneError) && (st_size x =? 1).

(* Repeated DecodeRuneInString until the string is exhausted:
     for len(s) > 0 { r, n := DecodeRuneInString(s); ...; s = s[n:] }
   Structural on the list: `skip` counts the bytes of the current sequence still to be
   dropped (so no fuel is needed). *)
Fixpoint decode_steps_aux (skip : nat) (s : list Z) : list step :=
  match s with
  | [] => []
  | b :: t =>
    match skip with
    | S k => decode_steps_aux k t
    | O => let '(r, n) := decode_rune s in
           mkStep r n b :: decode_steps_aux (Z.to_nat n - 1) t
    end
  end.

Definition decode_steps (s : list Z) : list step := decode_steps_aux 0 s.

(* decode_all : list byte -> list (rune * size) *)
Definition decode_all (s : list Z) : list (Z * Z) :=
  map (fun x => (st_rune x, st_size x)) (decode_steps s).

(* the runes a Go `for _, r := range s` loop sees (RuneError for every invalid byte) *)
Definition runes (s : list Z) : list Z := map st_rune (decode_steps s).
Definition sizes (s : list Z) : list Z := map st_size (decode_steps s).

(* utf8.RuneCountInString *)
Definition rune_count (s : list Z) : Z := Z.of_nat (length (decode_steps s)).

(* utf8.ValidString *)
Definition valid_string (s : list Z) : bool := forallb (fun x => negb (step_invalid x)) (decode_steps s).

Definition zsum (l : list Z) : Z := fold_right Z.add 0 l.

(* byte offsets at which the decoding steps start (for span arithmetic, C04) *)
Fixpoint offsets_from (o : Z) (l : list step) : list Z :=
  match l with [] => [] | x :: t => o :: offsets_from (o + st_size x) t end.
Definition rune_offsets (s : list Z) : list Z := offsets_from 0 (decode_steps s).

(* hex helpers used by drivers after extraction are NOT here: drivers convert in OCaml. *)

(* ---- tiny facts (kept here because every user needs them) ---- *)
Lemma decode_rune_nil : decode_rune [] = (RuneError, 0).
Proof. reflexivity. Qed.

Lemma decode_steps_nil : decode_steps [] = [].
Proof. reflexivity. Qed.

Lemma norm_rune_valid r : valid_rune r = true -> norm_rune r = r.
Proof. unfold norm_rune. intros ->. reflexivity. Qed.

Lemma valid_rune_RuneError : valid_rune RuneError = true.
Proof. reflexivity. Qed.

Lemma norm_rune_idem r : norm_rune (norm_rune r) = norm_rune r.
Proof. unfold norm_rune. destruct (valid_rune r) eqn:E; [rewrite E|]; reflexivity. Qed.
