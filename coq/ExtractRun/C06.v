From Coq Require Import Extraction ExtrOcamlBasic.
From Elk Require Import Base.GoSem Model.C06_Int.
Extraction Language OCaml.
Separate Extraction impl spec den canonical ipow ineg icmp cmp_spec icompare ishl ishr ibit bit_z big_exp big_cmp shl_spec
  Z.of_nat Z.to_nat Z.add Z.mul Z.opp Z.sub Z.compare Z.eqb Z.ltb Z.leb Z.quot Z.rem Z.div Z.modulo Z.shiftl Z.shiftr Pos.to_nat.
