From Coq Require Import Extraction ExtrOcamlBasic.
From Elk Require Import Base.GoSem Model.C06_Int.
Extraction Language OCaml.
Separate Extraction impl den canonical Z.of_nat Z.to_nat Z.add Z.mul Z.opp Z.sub Z.compare Z.eqb Z.ltb Z.leb Z.quot Z.rem Z.div Z.modulo Pos.to_nat.
