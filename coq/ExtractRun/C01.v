From Coq Require Import Extraction ExtrOcamlBasic ZArith NArith.
From Elk Require Import Model.C01_Core.
Extraction Language OCaml.
Extraction Blacklist List String Int.  (* keep OCaml Stdlib.List visible to ocaml/common/zio.ml *)
Separate Extraction run wt no_narrowed_local_assigned_in_closure_or_loop mk_ty elk_run elk_step e_new
  Z.to_N N.add Z.of_nat Z.to_nat.
