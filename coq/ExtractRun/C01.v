From Coq Require Import Extraction ExtrOcamlBasic ZArith NArith.
From Elk Require Import Model.C01_Core.
From Elk Require Model.C15_Gen.
From Elk Require Import Model.C01_Proto.
Extraction Language OCaml.
Extraction Blacklist List String Int.  (* keep OCaml Stdlib.List visible to ocaml/common/zio.ml *)
Separate Extraction C01_Core.run wt no_narrowed_local_assigned_in_closure_or_loop mk_ty elk_run elk_step e_new
  C01_Proto.run_ops C01_Proto.wt_ops C01_Proto.kind_of C01_Proto.step C15_Gen.gen_init C15_Gen.mkFunc
  Z.to_N N.add Z.of_nat Z.to_nat.
