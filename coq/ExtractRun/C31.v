From Coq Require Import Extraction ExtrOcamlBasic ZArith NArith.
From Elk Require Import Model.C31_Hygiene Model.C31_Cond.
Extraction Language OCaml.
Extraction Blacklist List String Int.  (* keep OCaml Stdlib.List visible to ocaml/common/zio.ml *)
Separate Extraction ifc run accepts expand_all expand_by_hand stmt_below env_below Z.to_N N.add Z.of_nat Z.to_nat.
