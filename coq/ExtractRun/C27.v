From Coq Require Import Extraction ExtrOcamlBasic ZArith NArith.
From Elk Require Import Model.C27_Repl.
Extraction Language OCaml.
Extraction Blacklist List String Int.  (* keep OCaml Stdlib.List visible to ocaml/common/zio.ml *)
Separate Extraction incr batch_run ref_run i_init b_init Z.to_N N.add Z.of_nat Z.to_nat.
