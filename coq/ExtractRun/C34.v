From Coq Require Import Extraction ExtrOcamlBasic ZArith NArith.
From Elk Require Import Model.C34_Filter.
Extraction Language OCaml.
(* N.succ only so that BinNums.coq_N exists for ocaml/common/zio.ml *)
Separate Extraction run_tests_simple selected_simple legacy_run_tests cases blocked glob_simple substrb exec_ids N.succ.
