From Coq Require Import Extraction ExtrOcamlBasic.
From Elk Require Import Base.GoSem Base.Utf8 Model.C20_String Model.C20_Iter.
Extraction Language OCaml.
Extraction Blacklist List String Nat.

Separate Extraction
  char_count byte_count grapheme_count chars
  char_iter_all byte_iter_all grapheme_iter_all
  char_at byte_at grapheme_at rjust ljust
  concat_string concat_char repeat remove_suffix remove_suffix_char
  cmp cmp_char lt le gt ge uppercase lowercase
  iter_run iter_spec gseg_of elems
  decode_all encode_rune encode_all valid_string rune_count runes
  Z.of_nat Z.to_nat Z.add Z.mul Z.opp Z.sub Z.compare Z.eqb Z.ltb Z.leb Pos.to_nat N.of_nat N.to_nat.
