From Coq Require Import Extraction ExtrOcamlBasic ZArith.
From Elk Require Import Model.C05_Prec Gen.C05_PrecTables.
Extraction Language OCaml.
Extraction Blacklist List String.
Separate Extraction print tokens parse wf compat bad_pairs tables Z.of_N.
