From Coq Require Import Extraction ExtrOcamlBasic.
From Elk Require Import Base.GoSem Model.C24_Seq.
Extraction Language OCaml.
Extraction Blacklist List String.
Separate Extraction run_step run_query spec_step spec_query init_state Z.of_nat Z.to_nat Z.add Z.opp Z.sub Z.compare.
