From Coq Require Import Extraction ExtrOcamlBasic.
From Elk Require Import Base.GoSem Model.C23_Iter Model.C23_Nil.
Extraction Language OCaml.
Separate Extraction run_nlistiter run_nfailiter run_nlist run_range run_listiter run_failiter run_list rcontains relements range_next list_next unroll prefix
  succ_wrap_s iterable finite Z.of_nat Z.to_nat Z.add Z.sub Z.succ Z.eqb Z.ltb Z.leb Pos.to_nat Z.to_N N.add.
