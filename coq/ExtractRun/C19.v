From Coq Require Import Extraction ExtrOcamlBasic.
From Elk Require Import Base.Utf8 Model.C19_Inspect Model.C19_Literal.
Extraction Language OCaml.
Extraction Blacklist List String.  (* keep OCaml Stdlib.List visible to ocaml/common/zio.ml *)
Separate Extraction inspect_string inspect_char inspect_string_old inspect_char_old print_int
  lex_string_body lex_char_body eval_int_source eval_int_literal
  eval_literal to_int.
