From Coq Require Import Extraction ExtrOcamlBasic.
From Elk Require Import Base.GoSem Model.C07_Strict Model.C07_Float Model.C07_FloatPow.
Extraction Language OCaml.
Separate Extraction bin_impl un_impl shift_impl same_left same_right fits kind_fits admitted
  f64_op_bits f32_op_bits f64_cmp_bits f32_cmp_bits rel_of f64_nan_bits f32_nan_bits
  f64_of_int_bits f32_of_int_bits f32_of_f64_bits f64_of_f32_bits f64_trunc_bits
  f64_pow_special_bits f32_pow_special_bits f64_mod_bits f32_mod_bits
  Z.of_nat Z.to_nat Z.add Z.mul Z.opp Z.sub Z.compare Z.eqb Z.ltb Z.leb Pos.to_nat.
