From Coq Require Import Extraction ExtrOcamlBasic ZArith NArith.
From Elk Require Import Model.C16_Await.
Extraction Language OCaml.
(* keep OCaml's own List module visible to the drivers: the extracted Coq List becomes List0 *)
Extraction Blacklist List String Int.
(* Z.of_nat / N.of_nat only so that BinNums (needed by ocaml/common/zio.ml) is emitted *)
Separate Extraction step_fn step_fn_skip enabled enabled_skip init run run_first main_done main_waiting quiescent stuck all_tasks_done wf
  queue_full conts_of st_of pc_of body_of occ on_worker Z.of_nat N.of_nat Z.to_nat.
