From Coq Require Import Extraction ExtrOcamlBasic ZArith NArith.
From Elk Require Import Model.C30_Pattern.
Extraction Language OCaml.
Extraction Blacklist List String Int.  (* keep OCaml Stdlib.List visible to ocaml/common/zio.ml *)
Separate Extraction switch matches env_get vars bound_vars balanced orfree Z.to_N N.add Z.of_nat Z.to_nat.
