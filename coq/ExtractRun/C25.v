From Coq Require Import Extraction ExtrOcamlBasic.
From Elk Require Import Base.GoSem Model.C25_Sync Model.C25_Sched.
Extraction Language OCaml.
(* Coq's List module must not shadow OCaml's List (used by ocaml/common/zio.ml) *)
Extraction Blacklist List String Nat.
From Coq Require Import ZArith NArith.
Separate Extraction c_call m_call r_call w_call o_call cinit minit rinit winit oinit
  srun sinit sblocked xrun xinit x_blk
  Z.of_nat Z.to_nat Z.add Z.opp N.add.
