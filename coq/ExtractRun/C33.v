From Coq Require Import Extraction ExtrOcamlBasic NArith ZArith List.
From Elk Require Import Base.Cfg Model.C29_Decode Gen.C29_Opcodes.
Extraction Language OCaml.
Extraction Blacklist List String Nat.
Separate Extraction build verify contig instr_ok catch_ok nonempty is_start succs idx_ok
  optable n_opcodes op_agrees op_size lookup table_total
  abort_safe loops_checked exits_checked stop
  N.of_nat N.to_nat Z.of_N Z.to_N N.add N.mul.
