From Coq Require Import Extraction ExtrOcamlBasic ZArith NArith.
From Elk Require Import Model.C15_Gen.
Extraction Language OCaml.
Extraction Blacklist List String Int.  (* keep OCaml Stdlib.List visible to ocaml/common/zio.ml *)
Separate Extraction plain drive forin gen_init await_async no_yield Z.to_N N.add Z.of_nat Z.to_nat.
