From Coq Require Import Extraction ExtrOcamlBasic ZArith NArith.
From Elk Require Import Base.GoSem Model.C06_Int Model.C09_Backends.
Extraction Language OCaml.
Extraction Blacklist List String Int Nat.  (* keep OCaml Stdlib.List/String visible to ocaml/common/zio.ml *)
Separate Extraction Sref helper h_cmp hcmp_spec spec obs_equivb
  Z.of_nat Z.to_nat Z.to_N N.add Z.add Z.mul Z.opp Z.sub Z.compare Z.eqb Z.ltb Z.leb Z.quot Z.rem Pos.to_nat.
