From Coq Require Import Extraction ExtrOcamlBasic.
From Elk Require Import Base.GoSem Model.C22_Civil Model.C22_Zone.
Extraction Language OCaml.
Separate Extraction days_from_civil civil_from_days go_date pack unpack add_span sub_span diff cmp
  add_spec format parse span_parts span_of_parts make_span year_in_range days_in_month valid_dateb
  default_format to_string Z.of_nat Z.to_nat Z.add Z.mul Z.opp Z.sub Z.compare Z.eqb Z.ltb Z.leb
  mk_dt instant in_zone add_time add_date zcmp zformat zparse zdefault_format fmt_off parse_off
  run_memo run_isolated key_unsigned key_signed.
