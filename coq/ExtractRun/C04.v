From Coq Require Import Extraction ExtrOcamlBasic.
From Elk Require Import Base.GoSem Base.Utf8 Model.C04_Spans.
Extraction Language OCaml.
Extraction Blacklist List String Nat.

Separate Extraction
  mkTok chain_first_bad chain_ok step_code pos_at colorize strip no_esc sgr_ok
  crun safe cur_ok cinit
  Z.of_nat Z.to_nat Z.add Z.mul Z.opp Z.sub Z.compare Z.eqb Z.ltb Z.leb Pos.to_nat N.of_nat N.to_nat.
