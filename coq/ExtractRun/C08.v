From Coq Require Import Extraction ExtrOcamlBasic.
From Elk Require Import Base.GoSem Model.C06_Int Model.C08_Paths.
Extraction Language OCaml.
Separate Extraction generic typed_int typed_float by_name fold has_float_opcode x_ints Z.add Z.opp Z.compare.
