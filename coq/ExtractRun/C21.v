From Coq Require Import Extraction ExtrOcamlBasic ZArith NArith.
From Elk Require Import Model.C21_RegexSyntax Model.C21_RegexSem Model.C21_RegexExt Model.C21_Compose.
Extraction Language OCaml.
Extraction Blacklist List String Nat.

Separate Extraction
  transpile transpile_text tr pr2 has_err
  matches_elk matches_re2
  sets_x mentions_x has_hash strip_ws set_x
  cden cmatches cflags cleaves strip_x comment_free erase_x
  Z.of_nat Z.to_nat Z.add Z.mul Z.opp Z.sub Z.compare Z.eqb Z.ltb Z.leb Pos.to_nat N.of_nat N.to_nat.
