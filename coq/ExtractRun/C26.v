From Coq Require Import Extraction ExtrOcamlBasic.
From Elk Require Import Model.C26_SymTab Gen.C26_SymTab.
(* the regenerated table is evaluated into this file's module so that the extracted code
   does not need a second module called C26_SymTab *)
Definition gen_fs : list (fname * list op) := Eval vm_compute in gen_functions.
Extraction Language OCaml.
(* Coq's List module must not shadow OCaml's List (used by ocaml/common/zio.ml) *)
Extraction Blacklist List String.
From Coq Require Import ZArith NArith.
Separate Extraction gen_fs seq_call init forget it N.add Z.of_nat Z.to_nat.
