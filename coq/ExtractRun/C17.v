From Coq Require Import Extraction ExtrOcamlBasic.
From Elk Require Import Base.GoSem Model.C17_Table.
Extraction Language OCaml.
Extraction Blacklist List String Nat.

Separate Extraction zrun zsrun Z.of_nat Z.to_nat Z.add Z.mul Z.opp Z.sub Z.compare Z.eqb Z.ltb Z.leb Pos.to_nat N.of_nat N.to_nat.
