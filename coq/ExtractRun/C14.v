From Coq Require Import Extraction ExtrOcamlBasic.
From Coq Require Import ZArith NArith.
From Elk Require Import Model.C14_Control Model.C14_Catch.
Extraction Language OCaml.
Extraction Blacklist List String Nat.
Separate Extraction Z.of_nat Z.to_nat N.of_nat N.to_nat run stdout no_abrupt is_abrupt exit_code table_ok lookup finally_entry_ok laminar post_order.
