From Coq Require Import Extraction ExtrOcamlBasic ZArith NArith.
From Elk Require Import Model.C21_RegexSyntax Model.C03_RegexFront.
Extraction Language OCaml.
Extraction Blacklist List String Nat.
Separate Extraction transpile_source regex_front enough mkFlags
  Z.of_nat Z.to_nat Z.add Z.mul Z.opp Z.sub Z.compare Z.eqb Z.ltb Z.leb Pos.to_nat N.of_nat N.to_nat Z.to_N Z.of_N.
