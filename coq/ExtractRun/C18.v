From Coq Require Import Extraction ExtrOcamlBasic.
From Elk Require Import Base.GoSem Model.C18_Num.
Extraction Language OCaml.
Separate Extraction equal strict_equal lax_equal cmp lt le gt ge hash_bytes wf numeric is_nan.
