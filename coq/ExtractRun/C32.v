From Coq Require Import Extraction ExtrOcamlBasic.
From Elk Require Import Base.GoSem Model.C32_Lines Model.C32_Trace.
Extraction Language OCaml.
Extraction Blacklist List String Nat.
Separate Extraction run_impl run_spec get_line_number total_bytes entries spec_line prologue
  build_trace build_trace_prepend trace_through_awaits reported run_stored report history_ops origin_ops origin_thread Z.of_nat Z.to_nat Z.add Z.sub Z.compare Z.eqb Z.ltb Z.leb Z.to_N N.add.
