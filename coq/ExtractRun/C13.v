(* C13 / C10 — extraction of the value-stack / upvalue machine (implementation layer `run`,
   store-semantics layer `srun`, discipline D) for the machine-level correspondence stream. *)
From Coq Require Import Extraction ExtrOcamlBasic.
From Elk Require Import Base.GoSem Model.C10_Stack.
Extraction Language OCaml.
Extraction Blacklist List String Nat.  (* keep OCaml Stdlib.List visible to ocaml/common/zio.ml *)
Separate Extraction run srun step sstep D fits_run init_st init_sst abs as_found uget addr_of
  Z.of_nat Z.to_nat Z.add Z.mul Z.sub Z.quot Z.eqb Z.ltb Z.leb Z.to_N.
