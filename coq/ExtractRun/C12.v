From Coq Require Import Extraction ExtrOcamlBasic ZArith NArith.
From Elk Require Model.C12_Checker Model.C12_Scopes.
Extraction Language OCaml.
Extraction Blacklist List String Int.  (* keep OCaml Stdlib.List visible to ocaml/common/zio.ml *)
Separate Extraction Elk.Model.C12_Checker.errors Elk.Model.C12_Checker.accepts Elk.Model.C12_Checker.check_prog
  Elk.Model.C12_Scopes.errors Elk.Model.C12_Scopes.accepts Elk.Model.C12_Scopes.check_prog
  Elk.Model.C12_Scopes.closed_value Elk.Model.C12_Scopes.block_names
  Z.to_N N.add Z.of_nat Z.to_nat.
