From Coq Require Import Extraction ExtrOcamlBasic ZArith NArith.
From Elk Require Import Model.C12_Checker.
Extraction Language OCaml.
Extraction Blacklist List String Int.  (* keep OCaml Stdlib.List visible to ocaml/common/zio.ml *)
Separate Extraction errors accepts check_prog Z.to_N N.add Z.of_nat Z.to_nat.
