From Coq Require Import Extraction ExtrOcamlBasic ZArith NArith.
From Elk Require Import Model.C02_Types Model.C02_Classes Model.C02_Iface Model.C02_IfaceRec.
Extraction Language OCaml.
Extraction Blacklist List String Int.  (* keep OCaml Stdlib.List visible to ocaml/common/zio.ml *)
Separate Extraction subtype mem check_s annot_s exec log_ok check_e eval_e flow_simple init_state
  kmem kannot krun klog_ok resolve static_target sub_cls eval_c narrow_c
  rsub rcall rtab_ok
  isub hist gmem_b ctab_ok gcall bmem bat ret_atoms csigs imeths cmeths
  Z.to_N N.add Z.of_nat Z.to_nat.
