(* C31 — macro expansion is hygienic except where explicitly unhygienic.
   Only statements here; proofs live in Proofs/C31_Hygiene.v; the model in Model/C31_Hygiene.v. *)
From Coq Require Import ZArith NArith List Bool.
From Elk Require Import Model.C31_Hygiene Model.C31_Cond Proofs.C31_Hygiene Proofs.C31_Cond.
Import ListNotations.
Open Scope Z_scope.

(* Locals defined by an expansion are invisible afterwards: for every caller environment r, flag
   u, mode (checker pass / execution) and body b, the environment after the boundary has exactly
   the frames and names it had before, so a name that did not resolve before the call does not
   resolve after it, hygienically or not. *)
Theorem C31_no_leak_out : forall m r u b r' o,
  run m r u (SBoundary b) = Some (r', o) ->
  shape r' = shape r /\ forall x u', resolve r x u' = None -> resolve r' x u' = None.
Proof. exact no_leak_out. Qed.
Print Assumptions C31_no_leak_out.

(* No capture of the caller's locals.  (1) Below a boundary frame b, with any frames J opened on
   top of it, hygienic resolution never returns a frame beyond b.  (2) A body without unhygienic
   splices returns the caller's environment unchanged - values included - whatever names it
   declares, reads or assigns, as statements or inside expressions (operands, println arguments,
   conditions).  (3) The same for a single expression: evaluating an expression without unhygienic
   splices below a boundary - binders `(x := e)` and assignments `(x = e)` in any nested position
   included - changes only the frames down to the boundary frame; everything beyond it (r) is
   returned as it was.  (4) A binder `(x := e)`, hygienic or not, at any depth of an expression: after
   its initialiser has run it adds/overwrites x in the CURRENT frame and touches nothing else. *)
Theorem C31_no_capture_in :
  (forall J b r x d v, ftyp b = FBoundary ->
     resolve (J ++ b :: r) x false = Some (d, v) -> (d <= length J)%nat) /\
  (forall m r b r' o, stmt_hyg b = true ->
     run m r false (SBoundary b) = Some (r', o) -> r' = r) /\
  (forall e J b r e' v, expr_hyg e = true -> ftyp b = FBoundary ->
     eval (J ++ b :: r) false e = Some (e', v) ->
     exists J' b', e' = J' ++ b' :: r /\ length J' = length J /\ ftyp b' = FBoundary) /\
  (forall r u x e e' v, eval r u (EBind x e) = Some (e', v) ->
     exists f1 r1, eval r u e = Some (f1 :: r1, v) /\ e' = add f1 x v :: r1).
Proof. exact (conj resolve_hyg_depth (conj hygienic_boundary_pure (conj hygienic_expr_frame bind_local))). Qed.
Print Assumptions C31_no_capture_in.

(* The caller's locals are reachable exactly inside unhygienic splices: a name that no frame of
   the expansion declares does not resolve hygienically, and resolves unhygienically to whatever
   the caller's environment gives (S (length J) frames further out). *)
Theorem C31_unhyg_only : forall J b r x,
  ftyp b = FBoundary -> (forall f, In f (J ++ [b]) -> get f x = None) ->
  resolve (J ++ b :: r) x false = None /\
  resolve (J ++ b :: r) x true = shiftn (S (length J)) (resolve r x true).
Proof. exact unhyg_only. Qed.
Print Assumptions C31_unhyg_only.

(* Expanding a macro = writing the expansion by hand with the macro's locals renamed: for every
   injective renaming sg into names >= K, every caller environment and body using names < K only,
   in both modes (checker verdict: Static; execution: Dynamic) and under either flag, the plain
   block around the renamed body gives the same verdict, the same output and the same final
   caller environment as the boundary. Nested boundaries and unhygienic splices are allowed in b,
   and so are expressions that bind: `(x := e) + x`, `println((x := e) + x)`, `if (x := e) > 0`,
   `y = (x := e)`; an expansion may consist of ONE such expression (b = SPrint e or SExpr e). *)
Theorem C31_expansion_equiv : forall K sg,
  (forall x y, sg x = sg y -> x = y) -> (forall x, (K <= sg x)%N) ->
  forall m r u b, env_below K r = true -> stmt_below K b = true ->
  run m r u (expand_by_hand sg u b) = run m r u (SBoundary b).
Proof. exact expansion_equiv. Qed.
Print Assumptions C31_expansion_equiv.

(* The whole program with EVERY macro boundary expanded by hand (innermost first, each with its own
   fresh renaming x + n where n bounds all names used so far) has the same verdict, output and final
   environment as the macro program - this is the program the correspondence stream runs on elk. *)
Theorem C31_expand_all_equiv : forall s K u m r,
  stmt_below K s = true -> env_below K r = true ->
  run m r u (fst (expand_all K u s)) = run m r u s.
Proof. intros s K u m r Hs Hr. exact (proj2 (proj2 (expand_all_equiv s K u Hs)) m r Hr). Qed.
Print Assumptions C31_expand_all_equiv.

(* The checker pass is sound for execution: when every name of every branch resolves (run Static
   succeeds: the program is accepted), execution never meets an unresolved name, from the same
   environment and flag. *)
Theorem C31_accepted_programs_resolve : forall s r u,
  run Static r u s <> None -> run Dynamic r u s <> None.
Proof. exact checked_programs_run. Qed.
Print Assumptions C31_accepted_programs_resolve.

(* ---- non-vacuity: the model computes what the real binary printed for the same programs ---- *)

(* caller: x := 1; macro body: x := 10; println x; x = x + 1; println x; after: println x  ->  10 11 1 *)
Example C31_shadow_nonvacuous :
  run Dynamic [mkFrame FDefault []] false
    (SSeq (SLet 0%N (ELit 1))
       (SSeq (SBoundary (SSeq (SLet 0%N (ELit 10)) (SSeq (SPrint (EVar 0%N))
                (SSeq (SAssign 0%N (EAdd (EVar 0%N) (ELit 1))) (SPrint (EVar 0%N))))))
             (SPrint (EVar 0%N))))
  = Some ([mkFrame FDefault [(0%N, 1)]], [10; 11; 1]).
Proof. vm_compute. reflexivity. Qed.

(* caller: x := 1; body: y := 5; t := unhygienic(x); println t; unhygienic(x = 7); println y; after: println x -> 1 5 7 *)
Example C31_unhyg_nonvacuous :
  run Dynamic [mkFrame FDefault []] false
    (SSeq (SLet 0%N (ELit 1))
       (SSeq (SBoundary (SSeq (SLet 1%N (ELit 5)) (SSeq (SLet 2%N (EUnhyg (EVar 0%N))) (SSeq (SPrint (EVar 2%N))
                (SSeq (SUnhyg (SAssign 0%N (ELit 7))) (SPrint (EVar 1%N)))))))
             (SPrint (EVar 0%N))))
  = Some ([mkFrame FDefault [(0%N, 7)]], [1; 5; 7]).
Proof. vm_compute. reflexivity. Qed.

(* a hygienic read of the caller's x is rejected; a read of the macro's y after the call is rejected *)
Example C31_reject_nonvacuous :
  accepts [mkFrame FDefault [(0%N, 1)]] (SBoundary (SPrint (EVar 0%N))) = false /\
  accepts [mkFrame FDefault []] (SSeq (SBoundary (SLet 1%N (ELit 5))) (SPrint (EVar 1%N))) = false /\
  accepts [mkFrame FDefault [(0%N, 1)]] (SBoundary (SPrint (EUnhyg (EVar 0%N)))) = true.
Proof. vm_compute. auto. Qed.

(* the hypotheses of C31_expansion_equiv are satisfiable and the expansion really renames:
   x := unhygienic(x) + 1 (reads the caller's x, declares the macro's x) *)
Example C31_expand_nonvacuous :
  let sg := fun x => (x + 100)%N in
  expand_by_hand sg false (SSeq (SLet 0%N (EAdd (EUnhyg (EVar 0%N)) (ELit 1))) (SPrint (EUnhyg (EVar 0%N))))
  = SBlock (SSeq (SLet 100%N (EAdd (EUnhyg (EVar 0%N)) (ELit 1))) (SPrint (EUnhyg (EVar 100%N)))) /\
  run Dynamic [mkFrame FDefault [(0%N, 1)]] false
    (SBoundary (SSeq (SLet 0%N (EAdd (EUnhyg (EVar 0%N)) (ELit 1))) (SPrint (EUnhyg (EVar 0%N)))))
  = Some ([mkFrame FDefault [(0%N, 1)]], [2]).
Proof. vm_compute. auto. Qed.

(* an expansion that is ONE expression binding a local in an operand, called where the caller has a
   local of the same name in the same frame: caller x := 7; a := 3;
   body println((x := unhygienic(a) + 1) + x); after: println x  ->  8 7, and the hand expansion
   renames both occurrences of the macro's x *)
Example C31_expr_binder_nonvacuous :
  let body := SPrint (EAdd (EBind 0%N (EAdd (EUnhyg (EVar 1%N)) (ELit 1))) (EVar 0%N)) in
  run Dynamic [mkFrame FDefault []] false
    (SSeq (SLet 0%N (ELit 7)) (SSeq (SLet 1%N (ELit 3)) (SSeq (SBoundary body) (SPrint (EVar 0%N)))))
  = Some ([mkFrame FDefault [(0%N, 7); (1%N, 3)]], [8; 7]) /\
  expand_by_hand (fun x => (x + 100)%N) false body
  = SBlock (SPrint (EAdd (EBind 100%N (EAdd (EUnhyg (EVar 1%N)) (ELit 1))) (EVar 100%N))) /\
  (* a binder in an `if` condition is visible in the branches and gone afterwards *)
  run Dynamic [mkFrame FDefault [(0%N, 7)]] false
    (SSeq (SBoundary (SIf (EBind 0%N (ELit 2)) (SPrint (EAdd (EVar 0%N) (ESet 0%N (ELit 5)))) SSkip)) (SPrint (EVar 0%N)))
  = Some ([mkFrame FDefault [(0%N, 7)]], [7; 7]).
Proof. vm_compute. auto. Qed.

(* expand_all leaves no boundary and renames nested expansions apart *)
Example C31_expand_all_nonvacuous :
  fst (expand_all 100%N false
        (SSeq (SLet 0%N (ELit 1)) (SBoundary (SSeq (SLet 0%N (EUnhyg (EVar 0%N))) (SBoundary (SPrint (EUnhyg (EVar 0%N))))))))
  = SSeq (SLet 0%N (ELit 1))
         (SBlock (SSeq (SLet 200%N (EUnhyg (EVar 0%N))) (SBlock (SPrint (EUnhyg (EVar 200%N)))))).
Proof. vm_compute. reflexivity. Qed.

(* Conditions that are (or contain) unhygienic splices do not open the boundary for the rest of the
   expansion.  `ifc u c t e` (Model/C31_Cond.v) is the conditional whose condition c is built from
   truthiness tests, !, &&, || and `!{Macro.unhygienic(quote c')}` (CUnhyg: the leaves of c' resolve
   through the boundary, whatever they mention).  (1) Below a boundary frame b whose frames J ++ [b]
   do not declare x - whatever the caller's environment r contains, in particular when r defines x and
   the unhygienic condition reads it - a conditional whose then- or else-branch is rejected wherever x
   does not resolve hygienically is rejected by the checker pass; (2) such branches are: a hygienic read
   of x (expression statement or println), a hygienic assignment x = e', and any sequence starting
   with one; (3) after the conditional the environment has the frames and names it had before, so a
   name unresolvable before it (hygienically or not) is unresolvable after it. *)
Theorem C31_unhyg_condition_no_leak :
  (forall x c u t e J b r,
     ftyp b = FBoundary -> (forall f, In f (J ++ [b]) -> get f x = None) ->
     cond_nobind x c = true -> stuck x t \/ stuck x e ->
     run Static (J ++ b :: r) false (ifc u c t e) = None) /\
  (forall x, stuck x (SExpr (EVar x)) /\ stuck x (SPrint (EVar x)) /\
     (forall e', expr_nobind x e' = true -> stuck x (SExpr (ESet x e'))) /\
     (forall a b, stuck x a -> stuck x (SSeq a b))) /\
  (forall c m r u0 u t e r' o x u',
     run m r u0 (ifc u c t e) = Some (r', o) -> resolve r x u' = None -> resolve r' x u' = None).
Proof.
  split; [exact unhyg_condition_no_leak|]. split; [|exact unhyg_condition_after].
  intro x. destruct (stuck_read x) as [H1 H2]. repeat split; auto using stuck_assign, stuck_seq.
Qed.
Print Assumptions C31_unhyg_condition_no_leak.

(* caller: a := 41.  if !{unhygienic(a)} then println(a): rejected (the seeded C31b checker accepted it
   and printed 41); with println(!{unhygienic(a)}) accepted, prints 41; `!{unhygienic(a && b)}` and
   `!!{unhygienic(a)}` with a hygienic assignment in the else branch: rejected *)
Example C31_unhyg_condition_nonvacuous :
  let r := [mkFrame FDefault [(0%N, 41); (1%N, 0)]] in
  accepts r (SBoundary (ifc false (CUnhyg (CE (EVar 0%N))) (SPrint (EVar 0%N)) SSkip)) = false /\
  run Dynamic r false (SBoundary (ifc false (CUnhyg (CE (EVar 0%N))) (SPrint (EUnhyg (EVar 0%N))) SSkip))
    = Some (r, [41]) /\
  accepts r (SBoundary (ifc false (CUnhyg (CAnd (CE (EVar 0%N)) (CE (EVar 1%N)))) SSkip (SAssign 1%N (ELit 7)))) = false /\
  accepts r (SBoundary (ifc false (CNot (CUnhyg (CE (EVar 0%N)))) SSkip (SAssign 0%N (ELit 7)))) = false /\
  run Dynamic r false (SBoundary (ifc false (CNot (CUnhyg (COr (CE (EVar 1%N)) (CE (EVar 0%N))))) (SPrint (ELit 1)) (SPrint (ELit 2))))
    = Some (r, [2]).
Proof. vm_compute. auto. Qed.
