(* C31 — macro expansion is hygienic except where explicitly unhygienic.
   Only statements here; proofs live in Proofs/C31_Hygiene.v; the model in Model/C31_Hygiene.v. *)
From Coq Require Import ZArith NArith List Bool.
From Elk Require Import Model.C31_Hygiene Proofs.C31_Hygiene.
Import ListNotations.
Open Scope Z_scope.

(* Locals defined by an expansion are invisible afterwards: for every caller environment r, flag
   u, mode (checker pass / execution) and body b, the environment after the boundary has exactly
   the frames and names it had before, so a name that did not resolve before the call does not
   resolve after it, hygienically or not. *)
Theorem C31_no_leak_out : forall m r u b r' o,
  run m r u (SBoundary b) = Some (r', o) ->
  shape r' = shape r /\ forall x u', resolve r x u' = None -> resolve r' x u' = None.
Proof. exact no_leak_out. Qed.
Print Assumptions C31_no_leak_out.

(* No capture of the caller's locals.  (1) Below a boundary frame b, with any frames J opened on
   top of it, hygienic resolution never returns a frame beyond b.  (2) A body without unhygienic
   splices returns the caller's environment unchanged - values included - whatever names it
   declares, reads or assigns.  (3) `x := e` changes the current frame only, even inside an
   unhygienic splice. *)
Theorem C31_no_capture_in :
  (forall J b r x d v, ftyp b = FBoundary ->
     resolve (J ++ b :: r) x false = Some (d, v) -> (d <= length J)%nat) /\
  (forall m r b r' o, stmt_hyg b = true ->
     run m r false (SBoundary b) = Some (r', o) -> r' = r) /\
  (forall m f r u x e e' o, run m (f :: r) u (SLet x e) = Some (e', o) -> tl e' = r).
Proof. exact (conj resolve_hyg_depth (conj hygienic_boundary_pure let_local)). Qed.
Print Assumptions C31_no_capture_in.

(* The caller's locals are reachable exactly inside unhygienic splices: a name that no frame of
   the expansion declares does not resolve hygienically, and resolves unhygienically to whatever
   the caller's environment gives (S (length J) frames further out). *)
Theorem C31_unhyg_only : forall J b r x,
  ftyp b = FBoundary -> (forall f, In f (J ++ [b]) -> get f x = None) ->
  resolve (J ++ b :: r) x false = None /\
  resolve (J ++ b :: r) x true = shiftn (S (length J)) (resolve r x true).
Proof. exact unhyg_only. Qed.
Print Assumptions C31_unhyg_only.

(* Expanding a macro = writing the expansion by hand with the macro's locals renamed: for every
   injective renaming sg into names >= K, every caller environment and body using names < K only,
   in both modes (checker verdict: Static; execution: Dynamic) and under either flag, the plain
   block around the renamed body gives the same verdict, the same output and the same final
   caller environment as the boundary. Nested boundaries and unhygienic splices are allowed in b. *)
Theorem C31_expansion_equiv : forall K sg,
  (forall x y, sg x = sg y -> x = y) -> (forall x, (K <= sg x)%N) ->
  forall m r u b, env_below K r = true -> stmt_below K b = true ->
  run m r u (expand_by_hand sg u b) = run m r u (SBoundary b).
Proof. exact expansion_equiv. Qed.
Print Assumptions C31_expansion_equiv.

(* The whole program with EVERY macro boundary expanded by hand (innermost first, each with its own
   fresh renaming x + n where n bounds all names used so far) has the same verdict, output and final
   environment as the macro program - this is the program the correspondence stream runs on elk. *)
Theorem C31_expand_all_equiv : forall s K u m r,
  stmt_below K s = true -> env_below K r = true ->
  run m r u (fst (expand_all K u s)) = run m r u s.
Proof. intros s K u m r Hs Hr. exact (proj2 (proj2 (expand_all_equiv s K u Hs)) m r Hr). Qed.
Print Assumptions C31_expand_all_equiv.

(* The checker pass is sound for execution: when every name of every branch resolves (run Static
   succeeds: the program is accepted), execution never meets an unresolved name, from the same
   environment and flag. *)
Theorem C31_accepted_programs_resolve : forall s r u,
  run Static r u s <> None -> run Dynamic r u s <> None.
Proof. exact checked_programs_run. Qed.
Print Assumptions C31_accepted_programs_resolve.

(* ---- non-vacuity: the model computes what the real binary printed for the same programs ---- *)

(* caller: x := 1; macro body: x := 10; println x; x = x + 1; println x; after: println x  ->  10 11 1 *)
Example C31_shadow_nonvacuous :
  run Dynamic [mkFrame FDefault []] false
    (SSeq (SLet 0%N (ELit 1))
       (SSeq (SBoundary (SSeq (SLet 0%N (ELit 10)) (SSeq (SPrint (EVar 0%N))
                (SSeq (SAssign 0%N (EAdd (EVar 0%N) (ELit 1))) (SPrint (EVar 0%N))))))
             (SPrint (EVar 0%N))))
  = Some ([mkFrame FDefault [(0%N, 1)]], [10; 11; 1]).
Proof. vm_compute. reflexivity. Qed.

(* caller: x := 1; body: y := 5; t := unhygienic(x); println t; unhygienic(x = 7); println y; after: println x -> 1 5 7 *)
Example C31_unhyg_nonvacuous :
  run Dynamic [mkFrame FDefault []] false
    (SSeq (SLet 0%N (ELit 1))
       (SSeq (SBoundary (SSeq (SLet 1%N (ELit 5)) (SSeq (SLet 2%N (EUnhyg (EVar 0%N))) (SSeq (SPrint (EVar 2%N))
                (SSeq (SUnhyg (SAssign 0%N (ELit 7))) (SPrint (EVar 1%N)))))))
             (SPrint (EVar 0%N))))
  = Some ([mkFrame FDefault [(0%N, 7)]], [1; 5; 7]).
Proof. vm_compute. reflexivity. Qed.

(* a hygienic read of the caller's x is rejected; a read of the macro's y after the call is rejected *)
Example C31_reject_nonvacuous :
  accepts [mkFrame FDefault [(0%N, 1)]] (SBoundary (SPrint (EVar 0%N))) = false /\
  accepts [mkFrame FDefault []] (SSeq (SBoundary (SLet 1%N (ELit 5))) (SPrint (EVar 1%N))) = false /\
  accepts [mkFrame FDefault [(0%N, 1)]] (SBoundary (SPrint (EUnhyg (EVar 0%N)))) = true.
Proof. vm_compute. auto. Qed.

(* the hypotheses of C31_expansion_equiv are satisfiable and the expansion really renames:
   x := unhygienic(x) + 1 (reads the caller's x, declares the macro's x) *)
Example C31_expand_nonvacuous :
  let sg := fun x => (x + 100)%N in
  expand_by_hand sg false (SSeq (SLet 0%N (EAdd (EUnhyg (EVar 0%N)) (ELit 1))) (SPrint (EUnhyg (EVar 0%N))))
  = SBlock (SSeq (SLet 100%N (EAdd (EUnhyg (EVar 0%N)) (ELit 1))) (SPrint (EUnhyg (EVar 100%N)))) /\
  run Dynamic [mkFrame FDefault [(0%N, 1)]] false
    (SBoundary (SSeq (SLet 0%N (EAdd (EUnhyg (EVar 0%N)) (ELit 1))) (SPrint (EUnhyg (EVar 0%N)))))
  = Some ([mkFrame FDefault [(0%N, 1)]], [2]).
Proof. vm_compute. auto. Qed.

(* expand_all leaves no boundary and renames nested expansions apart *)
Example C31_expand_all_nonvacuous :
  fst (expand_all 100%N false
        (SSeq (SLet 0%N (ELit 1)) (SBoundary (SSeq (SLet 0%N (EUnhyg (EVar 0%N))) (SBoundary (SPrint (EUnhyg (EVar 0%N))))))))
  = SSeq (SLet 0%N (ELit 1))
         (SBlock (SSeq (SLet 200%N (EUnhyg (EVar 0%N))) (SBlock (SPrint (EUnhyg (EVar 200%N)))))).
Proof. vm_compute. reflexivity. Qed.
