(* C11 — type checking gives the same verdict under any parallel schedule (PARTIAL).
   The theorems are about the interleaving model of Model/C11_ParCheck.v: tasks are lists of
   atomic shared-state actions (append a diagnostic, intern a symbol, get-or-insert a cache entry
   whose value is a function of the key, read the environment).  That a method-body check IS
   such a task - that the actions it performs and the result it computes do not depend on the
   symbol ids it receives, on cache hit/miss, or on anything else another body writes - is the
   hypothesis (the shape of the model plus [result_equivariant]); it is NOT proved of the
   3.7k-line method checker, only tested under forced schedules (stream c11.sched).
   Data-race freedom in the Go memory model is outside the model (race detector, thorough tier). *)
From Elk Require Import Model.C11_ParCheck Proofs.C11_ParCheck Model.C11_PostPass Proofs.C11_PostPass.
From Coq Require Import ZArith List Permutation Lia.
Import ListNotations.

(* Any two interleavings of the same tasks - in particular any schedule under any concurrency
   limit L >= 1 and the sequential run - from the same initial shared state end with: the same
   multiset of diagnostics, the same set of interned symbols (no duplicates), the same cache
   keys, and every task has received the same responses up to the renaming of symbol ids
   between the two final symbol tables. *)
Theorem C11_confluence : forall memo env tasks ev1 ev2 s0 r1 f1 r2 f2,
  NoDup (syms s0) ->
  interleaving tasks ev1 -> interleaving tasks ev2 ->
  exec memo env ev1 s0 = (r1, f1) -> exec memo env ev2 s0 = (r2, f2) ->
  Permutation (diags f1) (diags f2) /\
  (forall n, In n (syms f1) <-> In n (syms f2)) /\ NoDup (syms f1) /\ NoDup (syms f2) /\
  (forall k, In k (cache f1) <-> In k (cache f2)) /\
  (forall t, t < List.length tasks ->
     map (ren (syms f1) (syms f2)) (events_of t r1) = events_of t r2).
Proof. exact confluence. Qed.
Print Assumptions C11_confluence.

(* the sequential run (limit 1: one body after the other) is one of the interleavings *)
Theorem C11_sequential_is_interleaving : forall tasks, interleaving tasks (sequential tasks).
Proof. exact sequential_interleaving. Qed.
Print Assumptions C11_sequential_is_interleaving.

(* hence: every schedule agrees with the sequential run *)
Theorem C11_schedule_vs_sequential : forall memo env tasks ev s0 r f rs fs,
  NoDup (syms s0) -> interleaving tasks ev ->
  exec memo env ev s0 = (r, f) -> exec memo env (sequential tasks) s0 = (rs, fs) ->
  Permutation (diags f) (diags fs) /\
  (forall n, In n (syms f) <-> In n (syms fs)) /\
  (forall k, In k (cache f) <-> In k (cache fs)) /\
  (forall t, t < List.length tasks -> map (ren (syms f) (syms fs)) (events_of t r) = events_of t rs).
Proof.
  intros memo env tasks ev s0 r f rs fs ND I E Es.
  destruct (confluence memo env tasks ev (sequential tasks) s0 r f rs fs ND I (sequential_interleaving tasks) E Es)
    as [A [B [_ [_ [C D]]]]]. auto.
Qed.
Print Assumptions C11_schedule_vs_sequential.

(* per-method results: for any result function that is equivariant under id renaming (section
   hypothesis of Proofs/C11_ParCheck.v, here an explicit premise), the results of two schedules
   coincide up to that renaming *)
Theorem C11_results_agree : forall memo env (R : Type) (result : nat -> list resp -> R)
    (rename : (resp -> resp) -> R -> R),
  (forall t f rs, result t (map f rs) = rename f (result t rs)) ->
  forall tasks ev1 ev2 s0 r1 f1 r2 f2,
  NoDup (syms s0) -> interleaving tasks ev1 -> interleaving tasks ev2 ->
  exec memo env ev1 s0 = (r1, f1) -> exec memo env ev2 s0 = (r2, f2) ->
  forall t, t < List.length tasks ->
    result t (events_of t r2) = rename (ren (syms f1) (syms f2)) (result t (events_of t r1)).
Proof. exact results_agree. Qed.
Print Assumptions C11_results_agree.

(* interleavings of the same tasks are permutations of each other (the induction over schedules) *)
Theorem C11_interleavings_permutation : forall tasks ev1 ev2,
  interleaving tasks ev1 -> interleaving tasks ev2 -> Permutation ev1 ev2.
Proof. exact interleavings_permutation. Qed.
Print Assumptions C11_interleavings_permutation.

(* ---- atomicity of symbol interning as a NAMED hypothesis ----
   [AIntern] of the model is one atomic action (value.SymbolTableStruct.Add: lookup and insert inside
   one write-locked critical section; C26 checks the table itself).  The micro-step machine [mexec]
   splits Add into lookup ([MLook], result remembered by the task) and insert ([MIns]: remembered
   hit -> that id, remembered miss -> BLIND append), which is what a read-locked fast path without
   a re-check under the write lock does.  [intern_atomic mev]: every lookup is immediately followed
   by the same task's insert of the same name (nothing is scheduled inside an Add). *)

(* under intern_atomic the split machine is the atomic model on the collapsed schedule *)
Theorem C11_intern_atomic_refines : forall memo env mev s p,
  intern_atomic mev -> mexec memo env mev s p = exec memo env (collapse mev) s.
Proof. exact mexec_atomic. Qed.
Print Assumptions C11_intern_atomic_refines.

(* every coarse schedule is the collapse of an intern_atomic micro schedule (the hypothesis is satisfiable
   for every interleaving, so nothing is lost by stating confluence on micro schedules) *)
Theorem C11_intern_atomic_expand : forall ev, intern_atomic (expand ev) /\ collapse (expand ev) = ev.
Proof. intros ev. split; [apply expand_atomic|apply collapse_expand]. Qed.
Print Assumptions C11_intern_atomic_expand.

(* confluence, with the assumption that a non-atomic Add breaks spelled out *)
Theorem C11_confluence_intern_atomic : forall memo env tasks mev1 mev2 s0 p1 p2 r1 f1 r2 f2,
  NoDup (syms s0) ->
  intern_atomic mev1 -> intern_atomic mev2 ->
  interleaving tasks (collapse mev1) -> interleaving tasks (collapse mev2) ->
  mexec memo env mev1 s0 p1 = (r1, f1) -> mexec memo env mev2 s0 p2 = (r2, f2) ->
  Permutation (diags f1) (diags f2) /\
  (forall n, In n (syms f1) <-> In n (syms f2)) /\ NoDup (syms f1) /\ NoDup (syms f2) /\
  (forall k, In k (cache f1) <-> In k (cache f2)) /\
  (forall t, t < List.length tasks ->
     map (ren (syms f1) (syms f2)) (events_of t r1) = events_of t r2).
Proof. exact confluence_intern_atomic. Qed.
Print Assumptions C11_confluence_intern_atomic.

(* WITHOUT intern_atomic the conclusion fails: a well-formed schedule of the split Add (task 1's lookup
   between the two halves of task 0's Add) in which two tasks obtain different ids for one name, the
   table holds the name twice, and task 1 itself gets two different ids for the same name (declares
   its local under id 1, looks it up under id 0 - the spurious `undefined local`); the sequential run
   of the same tasks gives id 0 throughout.  So no renaming relates the two runs. *)
Theorem C11_nonatomic_intern_refuted :
  exists tasks mev,
    split_wf_b [] mev = true /\ interleaving tasks (collapse mev) /\ ~ intern_atomic mev /\
    forall memo env,
      let run := mexec memo env mev shared0 pend0 in
      let seq := exec memo env (sequential tasks) shared0 in
      events_of 0 (fst run) = [RId 0] /\ events_of 1 (fst run) = [RId 1; RId 0] /\
      ~ NoDup (syms (snd run)) /\
      events_of 0 (fst seq) = [RId 0] /\ events_of 1 (fst seq) = [RId 0; RId 0] /\
      NoDup (syms (snd seq)).
Proof. exact nonatomic_intern_refuted. Qed.
Print Assumptions C11_nonatomic_intern_refuted.

(* ---- post-passes over a COMPLETION-ORDERED list ----
   The confluence theorems above speak about what the tasks do; after concurrent.Foreach the checker runs
   passes over what they left behind.  c.methodCache.Slice holds the methods called in constant initialisers in
   the order in which their body checks COMPLETED: by C11_confluence (a push is an append to a synchronised
   list, like a diagnostic) two schedules give permutations of each other, nothing more.  Model/C11_PostPass.v
   models checkMethodsInConstants / checkMethodInConstant as found ([postpass]: every root walks the call graph
   on its own). *)

(* a post-pass that handles every element of the completion-ordered list on its own - hence any post-pass that
   is a function of the MULTISET of task results - reports the same multiset for every permutation *)
Theorem C11_postpass_order_independent : forall (A D : Type) (f : A -> list D) (l l' : list A),
  Permutation l l' -> Permutation (flat_map f l) (flat_map f l').
Proof. intros A D. exact (@perroot_order_independent A D). Qed.
Print Assumptions C11_postpass_order_independent.

(* the constant-cycle pass as found is of that shape *)
Theorem C11_constcycle_pass_order_independent : forall G fuel roots roots',
  Permutation roots roots' -> Permutation (postpass G fuel roots) (postpass G fuel roots').
Proof. exact postpass_order_independent. Qed.
Print Assumptions C11_constcycle_pass_order_independent.

(* a recursion guard is harmless when every root gets a FRESH visited set *)
Theorem C11_constcycle_pass_perroot_visited : forall G fuel roots roots',
  Permutation roots roots' -> Permutation (postpass_perroot G fuel roots) (postpass_perroot G fuel roots').
Proof. exact postpass_perroot_order_independent. Qed.
Print Assumptions C11_constcycle_pass_perroot_visited.

(* composed with the interleaving model: a per-element post-pass over the list the tasks appended to gives the
   same multiset of diagnostics after any two interleavings (every schedule, every limit) *)
Theorem C11_postpass_schedule_independent : forall (D : Type) memo env (f : Z -> list D) tasks ev1 ev2 s0 r1 f1 r2 f2,
  NoDup (syms s0) ->
  interleaving tasks ev1 -> interleaving tasks ev2 ->
  exec memo env ev1 s0 = (r1, f1) -> exec memo env ev2 s0 = (r2, f2) ->
  Permutation (flat_map f (diags f1)) (flat_map f (diags f2)).
Proof. intros D. exact (@postpass_schedule_independent D). Qed.
Print Assumptions C11_postpass_schedule_independent.

(* a post-pass with state SHARED ACROSS ROOTS is not: one visited set for all roots (the shape of a recursion
   guard put in the wrong place).  FIRST = slow(), SECOND = quick(), both call helper, helper reads SECOND:
   completion order [slow; quick] reports nothing, [quick; slow] reports (helper, SECOND); the pass as found
   and the per-root guard report it in both orders.  This refutes the shared-state shape, NOT the code as found. *)
Theorem C11_postpass_shared_state_refuted :
  exists G fuel roots roots',
    Permutation roots roots' /\
    ~ Permutation (postpass_shared G fuel roots) (postpass_shared G fuel roots') /\
    postpass_shared G fuel roots = [] /\ postpass_shared G fuel roots' = [(2, 1%Z)] /\
    postpass G fuel roots = [(2, 1%Z)] /\ postpass G fuel roots' = [(2, 1%Z)] /\
    postpass_perroot G fuel roots = [(2, 1%Z)] /\ postpass_perroot G fuel roots' = [(2, 1%Z)].
Proof. exact postpass_shared_refuted. Qed.
Print Assumptions C11_postpass_shared_state_refuted.

(* ---- tasks that READ the shared failure flag (a finding about the code as found) ----
   checkMacroDefinition (and checkMethodDefinition) compile the body they checked only when
   Errors.IsFailure() is false at that moment, so "was this body compiled" is NOT a function of the task: with
   tasks [appends a failure; appends nothing], task 1 is compiled iff it completes first.  For method bodies
   nobody observes it (a rejected program is not run); a MACRO body is executed at check time by every
   expansion, and expandMacro panics on a body that was not compiled (known finding
   sched:crash:invalid-compiled-macro-body-nil-for). *)
Theorem C11_compile_flag_refuted :
  exists tasks order order',
    Permutation order order' /\
    compiled (snd (grun tasks order)) 1 = Some false /\
    compiled (snd (grun tasks order')) 1 = Some true /\
    fst (grun tasks order) = fst (grun tasks order').
Proof. exact compile_flag_refuted. Qed.
Print Assumptions C11_compile_flag_refuted.

(* restricted to programs in which no task appends a failure, every body is compiled in every order *)
Theorem C11_compile_flag_partial : forall tasks order,
  (forall d, In d tasks -> d = []) ->
  fst (grun tasks order) = [] /\ forall e, In e (snd (grun tasks order)) -> snd e = true.
Proof. exact compile_flag_partial. Qed.
Print Assumptions C11_compile_flag_partial.

Example C11_postpass_nonvacuous :
  postpass vs_graph 3 [0; 1] = [(2, 1%Z)] /\ postpass vs_graph 3 [1; 0] = [(2, 1%Z)] /\
  postpass_shared vs_graph 3 [0; 1] = [] /\ postpass_shared vs_graph 3 [1; 0] = [(2, 1%Z)] /\
  (* a diamond: two paths from the root to the reader - the pass as found reports it twice, in every order *)
  postpass {| calls := fun m => match m with 0 => [1; 2] | 1 => [3] | 2 => [3] | _ => [] end;
              reads := fun m => match m with 3 => [7%Z] | _ => [] end;
              used_in := fun m => match m with 0 => [7%Z] | _ => [] end |} 4 [0] = [(3, 7%Z); (3, 7%Z)] /\
  grun [[5%Z]; []] [0; 1] = ([5%Z], [(0, false); (1, false)]) /\
  grun [[5%Z]; []] [1; 0] = ([5%Z], [(1, true); (0, false)]).
Proof. vm_compute. repeat split; reflexivity. Qed.

(* ---- non-vacuity: two tasks, an interleaved schedule that needs limit 2, ids really differ ---- *)
Definition c11_tasks : list (list action) :=
  [ [AIntern 10; ADiag 1; AMemo 7; AIntern 11]; [AIntern 11; ADiag 2; AMemo 7; AEnv 3] ]%Z.
Definition c11_sched : list (nat * action) :=
  [ (1, AIntern 11%Z); (0, AIntern 10%Z); (1, ADiag 2%Z); (0, ADiag 1%Z); (0, AMemo 7%Z); (1, AMemo 7%Z);
    (0, AIntern 11%Z); (1, AEnv 3%Z) ].
Definition c11_s0 : shared := {| diags := []; syms := []; cache := [] |}.
Example C11_nonvacuous :
  limit_ok 1 c11_tasks (sequential c11_tasks) = true /\
  limit_ok 1 c11_tasks c11_sched = false /\ limit_ok 2 c11_tasks c11_sched = true /\
  (forall t, t < 2 -> events_of t c11_sched = nth t c11_tasks []) /\
  syms (snd (exec (fun k => k) (fun k => k) c11_sched c11_s0)) = [11; 10]%Z /\
  syms (snd (exec (fun k => k) (fun k => k) (sequential c11_tasks) c11_s0)) = [10; 11]%Z /\
  diags (snd (exec (fun k => k) (fun k => k) c11_sched c11_s0)) = [2; 1]%Z /\
  diags (snd (exec (fun k => k) (fun k => k) (sequential c11_tasks) c11_s0)) = [1; 2]%Z /\
  events_of 0 (fst (exec (fun k => k) (fun k => k) c11_sched c11_s0)) = [RId 1; RUnit; RVal 7%Z; RId 0] /\
  events_of 0 (fst (exec (fun k => k) (fun k => k) (sequential c11_tasks) c11_s0)) = [RId 0; RUnit; RVal 7%Z; RId 1].
Proof.
  vm_compute. repeat split; try reflexivity.
  intros t Ht. destruct t as [|[|t]]; [reflexivity|reflexivity|lia].
Qed.

(* non-vacuity of the micro-step theorems: the atomic expansion of the schedule above is intern_atomic,
   well formed, and computes the same responses and table as the coarse run; the refuting schedule is
   well formed and not intern_atomic *)
Example C11_intern_atomic_nonvacuous :
  intern_atomic_b (expand c11_sched) = true /\ split_wf_b [] (expand c11_sched) = true /\
  List.length (expand c11_sched) = 11 /\
  mexec (fun k => k) (fun k => k) (expand c11_sched) c11_s0 pend0 = exec (fun k => k) (fun k => k) c11_sched c11_s0 /\
  intern_atomic_b split_sched = false /\ split_wf_b [] split_sched = true /\
  syms (snd (mexec (fun k => k) (fun k => k) split_sched shared0 pend0)) = [7; 7]%Z.
Proof. vm_compute. repeat split; reflexivity. Qed.
