(* C17 — hash maps, hash records and hash sets behave as finite maps and sets.
   Only statements here; proofs live in Proofs/C17_Table.v.
   Model/C17_Table.v mirrors vm/hash_map.go and vm/hash_set.go (hash records share the map
   code): `run ... true ...` is the code with the three C17 fixes, `run ... false ...` the code
   as found.  A hash set is the instance whose values are ignored (isset = true selects
   Union/Intersection/set equality).  The specification is a duplicate-free association
   list modulo eqb (s_get/s_set/s_delete/s_concat/...), shown below to obey the finite-map laws. *)
From Elk Require Import Base.GoSem Model.C17_Table Proofs.C17_Table.
Open Scope Z_scope.

(* what is assumed about keys: == is an equivalence and equal keys hash equally *)
Definition key_laws {key : Type} (hash : key -> N) (eqb : key -> key -> bool) : Prop :=
  (forall a, eqb a a = true) /\ (forall a b, eqb a b = eqb b a) /\
  (forall a b c, eqb a b = true -> eqb b c = true -> eqb a c = true) /\
  (forall a b, eqb a b = true -> hash a = hash b).

(* ANY history of new/set/delete/concat|union/intersection/copy/clone/copy-table/grow on two
   tables, any key universe u: the fixed code never panics and after every operation the
   operation's result, length, get and contains for every key of u, and equality both ways
   equal the specification's; the iteration order is a permutation of the specification's
   entries and holds no two eqb-equal keys (obs_rel). *)
Theorem C17_refines : forall (key val : Type) (hash : key -> N) (eqb : key -> key -> bool)
    (veqb : val -> val -> bool), key_laws hash eqb ->
  forall (isset : bool) (u : list key) (ops : list (op key val)),
  exists obs, run key val hash eqb veqb true isset u (init key val) ops = (obs, None) /\
  Forall2 (obs_rel key val eqb) obs (s_run key val eqb veqb isset u ([], []) ops).
Proof.
  intros key val hash eqb veqb [R [S [T C]]] isset u ops.
  exact (run_ok key val hash eqb veqb R S T C isset u ops _ _ (sim2_init key val hash eqb veqb)).
Qed.
Print Assumptions C17_refines.

(* the same from any pair of tables satisfying the invariant and related to association lists *)
Theorem C17_refines_from : forall (key val : Type) (hash : key -> N) (eqb : key -> key -> bool)
    (veqb : val -> val -> bool), key_laws hash eqb ->
  forall (isset : bool) (u : list key) (ops : list (op key val)) st ms,
  sim2 key val hash eqb st ms ->
  exists obs, run key val hash eqb veqb true isset u st ops = (obs, None) /\
  Forall2 (obs_rel key val eqb) obs (s_run key val eqb veqb isset u ms ops).
Proof.
  intros key val hash eqb veqb [R [S [T C]]] isset u ops st ms H.
  exact (run_ok key val hash eqb veqb R S T C isset u ops st ms H).
Qed.
Print Assumptions C17_refines_from.

(* Inv: counters = numbers of live / live+deleted slots, live keys pairwise non-eqb, every live
   key reachable from its home slot without crossing an empty slot.  (A completely full table
   is legal in the code, so "at least one empty slot" is not part of Inv.)  Every operation
   preserves it and does not panic. *)
Theorem C17_inv_preserved : forall (key val : Type) (hash : key -> N) (eqb : key -> key -> bool)
    (veqb : val -> val -> bool), key_laws hash eqb ->
  forall (isset : bool) (st : state key val) (o : op key val),
  Inv key val hash eqb (fst st) -> Inv key val hash eqb (snd st) ->
  exists st' ret, step key val hash eqb true isset st o = Ok (st', ret) /\
  Inv key val hash eqb (fst st') /\ Inv key val hash eqb (snd st').
Proof.
  intros key val hash eqb veqb [R [S [T C]]] isset st o.
  exact (step_inv key val hash eqb veqb R S T C isset st o).
Qed.
Print Assumptions C17_inv_preserved.

(* the specification is a finite map modulo eqb: lookup after update/removal, and length counts
   distinct keys *)
Theorem C17_spec_finite_map : forall (key val : Type) (hash : key -> N) (eqb : key -> key -> bool)
    (veqb : val -> val -> bool), key_laws hash eqb ->
  forall (m : amap key val) (k k' : key) (v : val),
  s_get key val eqb (s_set key val eqb m k v) k' = (if eqb k k' then GVal v else s_get key val eqb m k') /\
  s_get key val eqb (s_delete key val eqb m k) k' = (if eqb k k' then GAbsent else s_get key val eqb m k') /\
  s_get key val eqb [] k = GAbsent /\
  s_mem key val eqb m k = (match s_get key val eqb m k with GVal _ => true | _ => false end) /\
  (NoDupK key val eqb m ->
     NoDupK key val eqb (s_set key val eqb m k v) /\ NoDupK key val eqb (s_delete key val eqb m k) /\
  length (s_set key val eqb m k v) = (if s_mem key val eqb m k then length m else S (length m)) /\
  (length (s_delete key val eqb m k) + (if s_mem key val eqb m k then 1 else 0))%nat = length m).
Proof.
  intros key val hash eqb veqb [R [S [T C]]] m k k' v.
  split; [exact (s_get_set key val eqb R S T m k v k')|].
  split; [exact (s_get_delete key val eqb veqb R S T m k k')|].
  split; [reflexivity|]. split; [exact (s_mem_get key val eqb m k)|]. intros Hn.
  split; [exact (NoDupK_set key val eqb veqb m k v Hn)|]. split; [exact (NoDupK_delete key val eqb m k Hn)|].
  split; [exact (length_set key val hash eqb veqb R S T C m k v Hn)|exact (length_delete key val hash eqb veqb R S T C m k Hn)].
Qed.
Print Assumptions C17_spec_finite_map.

(* concatenation / union: the right operand wins on eqb-equal keys, nothing else changes *)
Theorem C17_spec_concat : forall (key val : Type) (hash : key -> N) (eqb : key -> key -> bool)
    (veqb : val -> val -> bool), key_laws hash eqb ->
  forall (x y : amap key val) kv, NoDupK key val eqb y ->
  (In kv (s_concat key val eqb x y) <-> In kv y \/ (In kv x /\ s_mem key val eqb y (fst kv) = false)).
Proof.
  intros key val hash eqb veqb [R [S [T C]]] x y kv Hn. exact (concat_In key val eqb veqb S y x kv Hn).
Qed.
Print Assumptions C17_spec_concat.

(* the instance that is extracted and run against the Go code: Int keys, any hash table *)
Lemma z_key_laws tbl : key_laws (zhash tbl) Z.eqb.
Proof.
  split; [exact Z.eqb_refl|]. split; [exact Z.eqb_sym|]. split.
  - intros a b c H1 H2. apply Z.eqb_eq in H1, H2. apply Z.eqb_eq. congruence.
  - intros a b H. apply Z.eqb_eq in H. congruence.
Qed.

Theorem C17_refines_Z : forall tbl isset u ops,
  exists obs, zrun tbl true isset u ops = (obs, None) /\
  Forall2 (obs_rel Z Z Z.eqb) obs (zsrun isset u ops).
Proof. intros tbl isset u ops. exact (C17_refines Z Z (zhash tbl) Z.eqb Z.eqb (z_key_laws tbl) isset u ops). Qed.
Print Assumptions C17_refines_Z.

(* ---- the code as found (fx = false) violates the property: three witnesses ---- *)
Definition c17_tb : list (Z * N) := [(1,0%N);(2,0%N);(3,0%N);(4,0%N);(5,14%N);(6,15%N)].

(* {1=>2,3=>4} + {1=>5} reports length 3 while holding 2 entries *)
Theorem C17_concat_length_refuted : exists tbl u ops,
  map (fun o => sn_len (ob_a o)) (fst (zrun tbl false false u ops)) <>
  map (fun o => sn_len (ob_a o)) (zsrun false u ops).
Proof.
  exists c17_tb, [], [OSet RA 1 2; OSet RA 3 4; OSet RB 1 5; OCat RA]. vm_compute. discriminate.
Qed.
Print Assumptions C17_concat_length_refuted.

(* after Delete(1) (another key still present) Get(1) yields the tombstone marker *)
Theorem C17_get_tombstone_refuted : exists tbl u ops,
  map (fun o => sn_gets (ob_a o)) (fst (zrun tbl false false u ops)) <>
  map (fun o => sn_gets (ob_a o)) (zsrun false u ops).
Proof.
  exists c17_tb, [1], [OSet RA 1 1; OSet RA 2 2; ODel RA 1]. vm_compute. discriminate.
Qed.
Print Assumptions C17_get_tombstone_refuted.

(* Copy of 2 new keys into a cloned capacity-5 table with 3 live + 1 tombstone: "no room" panic *)
Theorem C17_copy_noroom_refuted : exists tbl u ops, snd (zrun tbl false false u ops) = Some P_NOROOM.
Proof.
  exists c17_tb, [],
    [ONew RA 5; OSet RA 1 1; OSet RA 2 2; OSet RA 3 3; OSet RA 4 4; ODel RA 4; OCln RB;
     ONew RA 7; OSet RA 5 5; OSet RA 6 6; OCpy RB].
  vm_compute. reflexivity.
Qed.
Print Assumptions C17_copy_noroom_refuted.

(* non-vacuity: the key laws hold for Int keys; the model computes with colliding keys
   (1,2,3,4,6 share home slot 0), reuses the tombstone and reports the right lengths *)
Example C17_nonvacuous :
  key_laws (zhash c17_tb) Z.eqb /\
  map (fun o => sn_len (ob_a o)) (fst (zrun c17_tb true false [] [OSet RA 1 2; OSet RA 3 4; OSet RB 1 5; OCat RA])) = [1; 2; 2; 2] /\
  map (fun o => sn_gets (ob_a o)) (fst (zrun c17_tb true false [1] [OSet RA 1 1; OSet RA 2 2; ODel RA 1])) =
    [[GVal 1]; [GVal 1]; [GAbsent]] /\
  (let r := zrun c17_tb true false []
      [ONew RA 5; OSet RA 1 1; OSet RA 2 2; OSet RA 3 3; OSet RA 4 4; ODel RA 4; OCln RB;
       ONew RA 7; OSet RA 5 5; OSet RA 6 6; OCpy RB] in
   snd r = None /\ map (fun o => sn_len (ob_b o)) (fst r) = [0; 0; 0; 0; 0; 0; 3; 3; 3; 3; 5]).
Proof. split; [exact (z_key_laws c17_tb)|]. vm_compute. repeat split; reflexivity. Qed.
