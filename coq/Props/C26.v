(* C26 — symbol interning is a bijection under concurrency.
   Only statements here; proofs live in Proofs/C26_SymTab.v.  Every theorem is about
   [gen_functions], the micro-op sequences regenerated from value/symbol_table.go on every
   run (Gen/C26_SymTab.v); [run_sched gen_functions sched init] ranges over every reachable
   state: any number of threads, any interleaving, any arguments. *)
From Coq Require Import ZArith List Bool.
Import ListNotations.
From Elk Require Import Model.C26_SymTab Proofs.C26_SymTab Proofs.C26_After Gen.C26_SymTab.
Open Scope Z_scope.

(* The sequences extracted from the Go source today are the ones the proofs are about. *)
Theorem C26_extracted_ops_match : funs_eqb gen_functions ref_functions = true.
Proof. vm_compute. reflexivity. Qed.
Print Assumptions C26_extracted_ops_match.

(* Every function that reads or mutates a map/slice element does so under a sufficient
   lock (read lock for reads, write lock for writes), on every path, length reads included. *)
Theorem C26_lock_coverage :
  forallb covered (filter (fun f => touches_maps (snd f)) gen_functions) = true.
Proof. vm_compute. reflexivity. Qed.
Print Assumptions C26_lock_coverage.

(* ExistsId is the one function outside that discipline: it reads len(idTable) with no lock. *)
Theorem C26_existsid_unlocked :
  forallb covered gen_functions = false /\
  filter (fun f => negb (covered f)) gen_functions = [(FExistsId, [ReadLen; Return RetInRangePos])].
Proof. vm_compute. split; reflexivity. Qed.
Print Assumptions C26_existsid_unlocked.

(* In every reachable state in which no writer holds the lock: nameTable[n] = i exactly when
   idTable[i] = n with 0 <= i < len; every i below len is some name's id (dense); no name is
   stored twice. *)
Theorem C26_bijection : forall sched, let s := run_sched gen_functions sched init in
  wr s = None ->
  (forall n i, nt s n = Some i <-> (0 <= i < zlen (it s) /\ nth_error (it s) (Z.to_nat i) = Some n)) /\
  (forall i, 0 <= i < zlen (it s) -> exists n, nt s n = Some i) /\
  NoDup (it s).
Proof. exact (bijection gen_functions C26_extracted_ops_match). Qed.
Print Assumptions C26_bijection.

(* Ids never change: whatever happens later (sched2), an assigned id stays assigned to the
   same name and id-table entries stay where they are. *)
Theorem C26_ids_never_change : forall sched1 sched2,
  let s1 := run_sched gen_functions sched1 init in
  let s2 := run_sched gen_functions (sched1 ++ sched2) init in
  (forall n i, nt s1 n = Some i -> nt s2 n = Some i) /\
  (forall i n, nth_error (it s1) i = Some n -> nth_error (it s2) i = Some n).
Proof. exact (stable gen_functions C26_extracted_ops_match). Qed.
Print Assumptions C26_ids_never_change.

(* What callers observe, for all threads and schedules: equal names receive equal symbols
   (from Add and from successful Get alike), distinct names distinct symbols, a successful
   GetName of a symbol returns the name that symbol was handed out for, and symbols lie in
   0 .. len-1. *)
Theorem C26_callers_agree : forall sched, let s := run_sched gen_functions sched init in
  (forall t1 t2 n a1 a2 i j,
      In (EvRet t1 FAdd n a1 (RSym i)) (trace s) ->
      (In (EvRet t2 FAdd n a2 (RSym j)) (trace s) \/ In (EvRet t2 FGet n a2 (RSymOk j true)) (trace s)) ->
      i = j) /\
  (forall t1 t2 n m a1 a2 i,
      In (EvRet t1 FAdd n a1 (RSym i)) (trace s) -> In (EvRet t2 FAdd m a2 (RSym i)) (trace s) -> n = m) /\
  (forall t1 t2 n m a1 a2 i,
      In (EvRet t1 FAdd n a1 (RSym i)) (trace s) -> In (EvRet t2 FGetName a2 i (RNameOk m true)) (trace s) ->
      m = n) /\
  (forall t1 n a1 i, In (EvRet t1 FAdd n a1 (RSym i)) (trace s) -> 0 <= i < zlen (it s)).
Proof. exact (results gen_functions C26_extracted_ops_match). Qed.
Print Assumptions C26_callers_agree.

(* Once a symbol has been handed out, a GetName call that STARTS afterwards (the caller is
   idle when the symbol is already in the log) returns exactly that name, true — in every
   continuation of the schedule: GetName (Add n) = n. *)
Theorem C26_getname_of_add : forall sched1 sched2 t t1 n a1 i,
  let s1 := run_sched gen_functions sched1 init in
  let s2 := run_sched gen_functions (sched1 ++ sched2) init in
  In (EvRet t1 FAdd n a1 (RSym i)) (trace s1) -> t_fn (th s1 t) = None ->
  exists new, trace s2 = new ++ trace s1 /\
    forall a r, In (EvRet t FGetName a i r) new -> r = RNameOk n true.
Proof. exact (getname_of_add gen_functions C26_extracted_ops_match). Qed.
Print Assumptions C26_getname_of_add.

(* Atomicity, partial: the id table changes only at linearisation points, and replaying the
   linearisation events of any reachable trace on the sequential specification [spec]
   reproduces every recorded result and the current id table.  (Not proved: that each
   call's returned value equals its own linearisation event's value and lies between its
   call and return events; the returned values are covered by C26_callers_agree.) *)
Theorem C26_atomic_partial : forall sched, let s := run_sched gen_functions sched init in
  lin_replay (trace s) = Some (it s).
Proof. exact (atomic_partial gen_functions C26_extracted_ops_match). Qed.
Print Assumptions C26_atomic_partial.

(* The unlocked ExistsId is benign on this append-only table: a `true` answer for i means
   0 < i < len now and in every later state, where GetName i will find a name. *)
Theorem C26_existsid_benign : forall sched1 sched2 t a i,
  let s1 := run_sched gen_functions sched1 init in
  let s2 := run_sched gen_functions (sched1 ++ sched2) init in
  In (EvRet t FExistsId a i (RBool true)) (trace s1) ->
  0 < i < zlen (it s1) /\ 0 < i < zlen (it s2) /\
  exists n, nth_error (it s1) (Z.to_nat i) = Some n /\ nth_error (it s2) (Z.to_nat i) = Some n.
Proof. exact (existsid_benign gen_functions C26_extracted_ops_match). Qed.
Print Assumptions C26_existsid_benign.

(* Non-vacuity: two threads race to intern the same name (key 98) while a third interns
   another (99); thread 1 is blocked while thread 0 holds the lock; both get symbol 0. *)
Example C26_nonvacuous :
  let run t k := repeat (t, Run) k in
  let s := run_sched gen_functions
             ([(0%nat, Start FAdd 98 0); (1%nat, Start FAdd 98 0); (2%nat, Start FAdd 99 0)]
              ++ run 0%nat 3%nat ++ run 1%nat 2%nat ++ run 0%nat 7%nat ++ run 1%nat 5%nat ++ run 2%nat 10%nat
              ++ [(0%nat, Start FGetName 0 1)] ++ run 0%nat 6%nat) init in
  it s = [98; 99] /\ nt s 98 = Some 0 /\ nt s 99 = Some 1 /\ wr s = None /\
  In (EvRet 0%nat FAdd 98 0 (RSym 0)) (trace s) /\ In (EvRet 1%nat FAdd 98 0 (RSym 0)) (trace s) /\
  hd_error (trace s) = Some (EvRet 0%nat FGetName 0 1 (RNameOk 99 true)).
Proof. vm_compute. repeat split; auto 20. Qed.
