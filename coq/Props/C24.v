(* C24 — lists and tuples behave as sequences. Only statements here; proofs in Proofs/C24_Seq.v.
   `impl_layer g` mirrors the Go code (index normalisation, index loops, Go panics);
   `spec_layer g` is the plain-sequence meaning (nth / firstn / skipn / filter / app / list
   equality). `g` is Go's append growth policy (arbitrary). `core_op` excludes OAppendAt
   (collection literals, Go API only) and ORepeat, `core_query` excludes QSlice: for those the
   two layers are compared on every generated history by the correspondence streams, not proved. *)
From Elk Require Import Base.GoSem Model.C24_Seq Proofs.C24_Seq.
Open Scope Z_scope.

(* For ANY history of core operations from ANY state, the Go-mirroring layer produces the same
   final registers and the same outcome for every operation as the plain-sequence layer. *)
Theorem C24_refines : forall g st ops, forallb core_op ops = true ->
  run (impl_layer g) st ops = run (spec_layer g) st ops.
Proof. exact run_refines. Qed.
Print Assumptions C24_refines.

(* In any state, every core observable (length, `[]` at any integer, `==`, contains, full
   iteration) of the Go-mirroring layer equals the plain-sequence one. *)
Theorem C24_observables : forall g st q, core_query q = true ->
  observe (impl_layer g) st q = observe (spec_layer g) st q.
Proof. exact observe_refines. Qed.
Print Assumptions C24_observables.

(* `[]`, `[]=`, remove_at at index a: an Elk out-of-range error exactly when a is not a machine
   integer in [-n, n); otherwise the element at a (negative a counting from the end), the
   store is read back by `[]`, and removal shortens the list by one. *)
Theorem C24_oob : forall l a v,
  (valid_index (data l) a = false ->
     i_get l a = Err E_OUT_OF_RANGE /\ i_set l a v = Err E_OUT_OF_RANGE /\ i_remove_at l a = Err E_OUT_OF_RANGE) /\
  (valid_index (data l) a = true ->
     i_get l a = Ok (nth (pos_of (data l) a) (data l) 0) /\
     (exists l', i_set l a v = Ok l' /\ len (data l') = len (data l) /\ i_get l' a = Ok v) /\
     (exists l', i_remove_at l a = Ok l' /\ len (data l') = len (data l) - 1)).
Proof. exact (index_oob growcap_exact). Qed.
Print Assumptions C24_oob.

(* No step of a core operation ends in a Go index panic or a runaway loop: the outcome is a
   value, an Elk error, or the makeslice panic P_ALLOC. *)
Theorem C24_no_index_panic : forall g st o, core_op o = true ->
  benign (snd (step (impl_layer g) st o)).
Proof. intros g st o C. exact (proj1 (impl_step_no_crash g st o C)). Qed.
Print Assumptions C24_no_index_panic.

(* Every core observable is a value or an Elk error, never a panic. *)
Theorem C24_observe_no_crash : forall g st q, core_query q = true ->
  clean (observe (impl_layer g) st q).
Proof. exact impl_observe_no_crash. Qed.
Print Assumptions C24_observe_no_crash.

(* The faithful model does crash: `grow` with a huge argument reaches makeslice with a
   capacity that overflowed (known finding grow/repeat:huge -> Go panic). *)
Theorem C24_never_crash_refuted : exists st o,
  core_op o = true /\ snd (step (impl_layer growcap_exact) st o) = Panic P_ALLOC.
Proof. exists init_state, (OGrow 0%nat max64). split; vm_compute; reflexivity. Qed.
Print Assumptions C24_never_crash_refuted.

(* ... and only there: excluding exactly the allocating operations (grow, +, *, literals with
   explicit indices), no core operation can panic at all. *)
Theorem C24_never_crash_partial : forall g st o, core_op o = true -> alloc_op o = false ->
  clean (snd (step (impl_layer g) st o)).
Proof. intros g st o C. exact (proj2 (impl_step_no_crash g st o C)). Qed.
Print Assumptions C24_never_crash_partial.

Example C24_nonvacuous :
  let ops := [ONew 0%nat false [1; 1; 2; 1; 3]; ORemove 0%nat 1; OPush 0%nat 7; OSet 0%nat (-1) 9;
              OPop 0%nat; ORemoveAt 0%nat (-2); OConcat 1%nat 0%nat 0%nat; OClear 0%nat] in
  forallb core_op ops = true /\
  map data (fst (run (impl_layer growcap_exact) init_state ops)) = [[]; [3; 3]; []] /\
  snd (run (impl_layer growcap_exact) init_state ops) =
    [Ok RUnit; Ok (RBool true); Ok RUnit; Ok RUnit; Ok (RInt 9); Ok RUnit; Ok RUnit; Ok RUnit] /\
  run_query [Lst false [1; 2; 3] 3] (QSlice 0%nat (Rng (Some 0) false (Some 0) true)) = Ok (RSeq true []) /\
  run_query [Lst false [1; 2; 3] 3] (QSlice 0%nat (Rng (Some (-1)) true None false)) = Ok (RSeq true []) /\
  run_query [Lst false [1; 2; 3] 3] (QSlice 0%nat (Rng (Some (-2)) false (Some 3) true)) = Ok (RSeq true [2; 3]) /\
  run_query [Lst false [1; 2; 3] 3] (QGet 0%nat 3) = Err E_OUT_OF_RANGE.
Proof. repeat split; vm_compute; reflexivity. Qed.
