(* C22 — calendar arithmetic is exact, never wraps, and formatting round-trips.
   Only statements here; proofs live in Proofs/C22_Civil.v and Proofs/C22_Format.v.
   The model (Model/C22_Civil.v) mirrors /repo/value WITH fixes/C22-*.patch applied. *)
From Coq Require Import ZArith List.
From Elk Require Import Base.GoSem Model.C22_Civil Model.C22_Zone Proofs.C22_Civil Proofs.C22_Format Proofs.C22_Zone.
Import ListNotations.
Open Scope Z_scope.

(* The day-number functions are mutually inverse on the whole of Z (proleptic Gregorian
   calendar, negative years and astronomical year 0 included): every day number is a valid
   civil date whose day number it is, and every valid civil date is recovered from its number. *)
Theorem C22_civil_inverse :
  (forall z, let '(y, m, d) := civil_from_days z in days_from_civil y m d = z /\ valid_date y m d) /\
  (forall y m d, valid_date y m d -> civil_from_days (days_from_civil y m d) = (y, m, d)).
Proof. split; [exact dfc_cfd | exact cfd_dfc]. Qed.
Print Assumptions C22_civil_inverse.

(* MakeDate then Year()/Month()/Day() returns the fields exactly when the year is in
   [-2^22, 2^22) (month and day within their 4 and 5 bit fields). *)
Theorem C22_pack_unpack : forall y m d, 0 <= m <= 15 -> 0 <= d <= 31 ->
  (unpack (pack y m d) = (y, m, d) <-> - 2 ^ 22 <= y < 2 ^ 22).
Proof. exact unpack_pack. Qed.
Print Assumptions C22_pack_unpack.

(* Date + Date::Span (any months, any days, unbounded): whenever the civil result
   (days on the day line, then whole months, day clamped to the month length) has a
   representable year, the implementation model returns exactly it. *)
Theorem C22_add_exact : forall y m d s,
  valid_date y m d -> year_in_range y = true ->
  let '(y2, m2, d2) := add_spec (y, m, d) s in
  year_in_range y2 = true -> unpack (add_span (pack y m d) s) = (y2, m2, d2).
Proof. exact add_exact. Qed.
Print Assumptions C22_add_exact.

(* Date - Date::Span is Date + the negated span (int32 negation), hence exact as well. *)
Theorem C22_sub_exact : forall y m d s,
  valid_date y m d -> year_in_range y = true ->
  let '(y2, m2, d2) := add_spec (y, m, d) (span_negate s) in
  year_in_range y2 = true -> unpack (sub_span (pack y m d) s) = (y2, m2, d2).
Proof. intros y m d s. exact (add_exact y m d (span_negate s)). Qed.
Print Assumptions C22_sub_exact.

(* "A result outside the representable year range raises an error" is FALSE for the code as
   it is: there is no error path; the year is silently reduced modulo 2^23. *)
Theorem C22_no_wrap_refuted : exists y m d s,
  valid_date y m d /\ year_in_range y = true /\
  add_spec (y, m, d) s = (4194304, 1, 1) /\ year_in_range 4194304 = false /\
  unpack (add_span (pack y m d) s) = (-4194304, 1, 1).
Proof. exists 4194303, 12, 31, (0, 1). repeat split; vm_compute; first [reflexivity | discriminate]. Qed.
Print Assumptions C22_no_wrap_refuted.

(* What does hold for every input: month and day are always the civil ones and the stored
   year is the civil year reduced into 23 bits - so the result is wrong exactly when the
   civil year is outside [-2^22, 2^22) (the guard of C22_add_exact). *)
Theorem C22_no_wrap_partial : forall y m d s,
  valid_date y m d -> year_in_range y = true ->
  let '(y2, m2, d2) := add_spec (y, m, d) s in
  unpack (add_span (pack y m d) s) = ((y2 + 2 ^ 22) mod 2 ^ 23 - 2 ^ 22, m2, d2).
Proof. exact add_wraps. Qed.
Print Assumptions C22_no_wrap_partial.

(* d1 + (d2 - d1) = d2 is FALSE in general: Date(2023,2,1) + (Date(2023,1,31) - Date(2023,2,1))
   is Date(2023,2,3). *)
Theorem C22_diff_add_refuted : exists y1 m1 a y2 m2 b,
  valid_date y1 m1 a /\ valid_date y2 m2 b /\ year_in_range y1 = true /\ year_in_range y2 = true /\
  add_span (pack y1 m1 a) (diff (pack y2 m2 b) (pack y1 m1 a)) <> pack y2 m2 b.
Proof. exists 2023, 2, 1, 2023, 1, 31. repeat split; vm_compute; first [reflexivity | discriminate]. Qed.
Print Assumptions C22_diff_add_refuted.

(* It holds whenever the day of month of d2 exists in the month of d1 (the finding's input
   class is exactly: day(d2) > days_in_month(d1)). *)
Theorem C22_diff_add_partial : forall y1 m1 a y2 m2 b,
  valid_date y1 m1 a -> valid_date y2 m2 b ->
  year_in_range y1 = true -> year_in_range y2 = true ->
  b <= days_in_month y1 m1 ->
  add_span (pack y1 m1 a) (diff (pack y2 m2 b) (pack y1 m1 a)) = pack y2 m2 b.
Proof. exact diff_add_partial. Qed.
Print Assumptions C22_diff_add_partial.

(* Date::Span#to_string splits months into years and months with Go's truncating / and %;
   adding them back in int32 gives the same span. *)
Theorem C22_span_rt : forall s, - 2 ^ 31 <= fst s < 2 ^ 31 -> - 2 ^ 31 <= snd s < 2 ^ 31 ->
  span_of_parts (span_parts s) = s.
Proof. exact span_rt. Qed.
Print Assumptions C22_span_rt.

(* Date.parse(d.to_string) = d, and parsing strftime("%Y-%m-%d") output with the same
   format returns d, for every valid date with a representable year (negative and 5-7 digit
   years included) - on the model WITH the parse fix. *)
Theorem C22_format_parse : forall y m d,
  valid_date y m d -> year_in_range y = true ->
  parse default_format (to_string (pack y m d)) = inr (pack y m d) /\
  parse default_format (format default_format (pack y m d)) = inr (pack y m d) /\
  parse [TIso] (format [TIso] (pack y m d)) = inr (pack y m d).
Proof. exact format_parse_default. Qed.
Print Assumptions C22_format_parse.

(* DateTime in fixed-offset zones (Model/C22_Zone.v; value = civil fields + offset, instant =
   civil fields - offset).  What `%z` / `%:z` print for an offset is read back as exactly that
   offset - every whole-minute offset strictly between -24 h and +24 h, BOTH signs, whatever text
   follows - and DateTime.parse(dt.to_string) returns dt (all civil fields, the nanoseconds and
   the offset, hence the same instant) for every valid DateTime with a representable year. *)
Theorem C22_offset_format_parse :
  (forall colon off rest, valid_off off -> parse_off colon (fmt_off colon off ++ rest) = Some (off, rest)) /\
  (forall t, valid_zdt t -> year_in_range (zy t) = true -> valid_off (zoff t) ->
     zparse zdefault_format (zformat zdefault_format t) = inr t).
Proof. split; [exact off_rt | exact zformat_parse_default]. Qed.
Print Assumptions C22_offset_format_parse.

(* Results do not depend on the history.  The code as it is has no state (parse_off is a
   function).  If the zone created for a parsed offset is memoised in a process-wide table, every
   history of parses (run_memo, starting from the empty table) still gives the isolated results
   provided the key determines the offset - e.g. a key that contains the sign. *)
Theorem C22_history_independent :
  (forall key, (forall sg h mi sg' h' mi', key sg h mi = key sg' h' mi' -> off_of sg h mi = off_of sg' h' mi') ->
     forall hist, run_memo key [] hist = run_isolated hist) /\
  (forall hist, run_memo key_signed [] hist = run_isolated hist).
Proof. split; [exact memo_transparent | exact (memo_transparent key_signed key_signed_determines)]. Qed.
Print Assumptions C22_history_independent.

(* A table keyed by the absolute hours and minutes only is NOT transparent: after "+09:00" the
   text "-09:00" is parsed as +09:00 (the class of defect stream c22.hist searches for). *)
Theorem C22_history_unsigned_key_refuted : exists hist,
  run_memo key_unsigned [] hist <> run_isolated hist /\
  run_isolated hist = [Some (32400, []); Some (-32400, [])] /\
  run_memo key_unsigned [] hist = [Some (32400, []); Some (32400, [])].
Proof.
  exists [(true, [43; 48; 57; 58; 48; 48]); (true, [45; 48; 57; 58; 48; 48])].
  repeat split; vm_compute; first [reflexivity | discriminate].
Qed.
Print Assumptions C22_history_unsigned_key_refuted.

Example C22_zone_nonvacuous :
  valid_off (-32400) /\ valid_off 49500 /\
  valid_zdt (mkZ 1999 12 31 18 0 0 0 (-32400)) /\
  fmt_off true (-32400) = [45; 48; 57; 58; 48; 48] /\
  fmt_off false 20700 = [43; 48; 53; 52; 53] /\
  instant (mkZ 1999 12 31 18 0 0 0 (-32400)) = 946695600 /\
  instant (mkZ 1999 12 31 18 0 0 0 32400) = 946630800 /\
  in_zone (mkZ 1999 12 31 18 0 0 0 (-32400)) 32400 = mkZ 2000 1 1 12 0 0 0 32400 /\
  zparse zdefault_format (zformat zdefault_format (mkZ (-5) 3 1 6 7 8 9 (-12600))) = inr (mkZ (-5) 3 1 6 7 8 9 (-12600)).
Proof. unfold valid_off, valid_zdt, valid_date. repeat split; vm_compute; first [reflexivity | discriminate]. Qed.

Example C22_nonvacuous :
  valid_date (-5) 3 1 /\ year_in_range (-5) = true /\
  civil_from_days (days_from_civil (-4194304) 2 29) = (-4194304, 2, 29) /\
  days_from_civil 2024 2 29 = 19782 /\
  unpack (add_span (pack 2024 1 31) (1, 0)) = (2024, 2, 29) /\
  unpack (sub_span (pack (-5) 3 1) (0, 1)) = (-5, 2, 28) /\
  unpack (add_span (pack 2000 1 1) (0, 200000)) = (2547, 8, 1) /\
  diff (pack 2023 1 31) (pack 2023 2 1) = (-1, 30) /\
  to_string (pack (-5) 3 1) = [45; 48; 48; 53; 45; 48; 51; 45; 48; 49] /\
  parse default_format (to_string (pack (-12345) 3 1)) = inr (pack (-12345) 3 1).
Proof. repeat split; vm_compute; first [reflexivity | discriminate]. Qed.
