(* C27 — REPL sessions behave like batch runs of their accepted inputs.
   Only statements here; proofs live in Proofs/C27_Repl.v.  Model: Model/C27_Repl.v ([incr true] is
   the REPL with the three fixes of fixes/C27-*.patch; [incr false] is CheckSource as found, which
   does not put the compiler of the last accepted input back after a rejection).
   [Gen/C27_CheckerFields.v] is regenerated from types/checker/*.go on every run. *)
From Coq Require Import ZArith NArith List Bool String.
Import ListNotations.
From Elk Require Import Model.C27_Repl Proofs.C27_Repl Gen.C27_CheckerFields Model.C27_FieldClasses.

(* For every history (any length, any mix of accepted, rejected — early or late — redefining and
   failing inputs): the results (printed values and final status) of the inputs the REPL ran are,
   in order, exactly what the reference interpreter produces for the program made of the accepted
   inputs, one segment per input.  Reading of runtime errors (the narrowest under which the
   property is defined): an uncaught error ends THAT segment only; effects made before it (method
   definitions, constants, assignments, prints) persist; the error position is part of the result. *)
Theorem C27_incremental_eq_batch : forall h : list input,
  ran_results (fst (incr true i_init h)) = ref_run b_init (accepted true i_init h).
Proof. exact incremental_eq_batch. Qed.
Print Assumptions C27_incremental_eq_batch.

(* A rejected input leaves every component a later input can observe as it was: method
   signatures, constants, locals with their declared types, the compiler's slot table, the named
   types (typedefs) and classes, and the whole VM state — from ANY state (in particular after any
   history). *)
Theorem C27_rollback : forall (st : istate) (inp : input) (st1 : istate),
  incr_step true st inp = (st1, Rejected) -> visible st1 = visible st.
Proof. exact rollback. Qed.
Print Assumptions C27_rollback.

(* In particular every type expression (Int, String, a named type, a class) denotes after the
   rejected input exactly what it denoted before: a named type or class that only the rejected
   input declared stays undefined, and the ones declared before stay defined. *)
Theorem C27_rollback_types : forall (st : istate) (inp : input) (st1 : istate) (x : texp),
  incr_step true st inp = (st1, Rejected) ->
  resolve_in (c_tdefs (i_c st1)) (c_classes (i_c st1)) x = resolve_in (c_tdefs (i_c st)) (c_classes (i_c st)) x.
Proof. exact rollback_types. Qed.
Print Assumptions C27_rollback_types.

(* ... and therefore the rest of the session is the same with or without the rejected input. *)
Theorem C27_rejected_no_trace : forall (st : istate) (inp : input) (st1 : istate) (rest : list input),
  incr_step true st inp = (st1, Rejected) ->
  incr true st (inp :: rest) = (Rejected :: fst (incr true st rest), snd (incr true st1 rest))
  /\ fst (incr true st1 rest) = fst (incr true st rest).
Proof. exact rejected_no_trace. Qed.
Print Assumptions C27_rejected_no_trace.

(* CheckSource as found (no restore of c.compiler): a local, then an input that fails in the
   type-definition phase — the compiler chain is left at the namespace-definition compiler. *)
Definition w_hist : list input := [[SDecl 0 XInt (ELit 5)]].
Definition w_early : input := [SEarly].

Theorem C27_rollback_refuted : exists h inp st1,
  incr_step false (snd (incr false i_init h)) inp = (st1, Rejected) /\
  visible st1 <> visible (snd (incr false i_init h)).
Proof.
  exists w_hist, w_early. eexists. split.
  - vm_compute. reflexivity.
  - vm_compute. intro H. discriminate H.
Qed.
Print Assumptions C27_rollback_refuted.

(* ... and the next input that reads the local no longer behaves like the batch program (the model
   says Crash; the implementation panics with "expected SmallInt or BigInt" / reads a wrong slot). *)
Theorem C27_incremental_refuted : exists h,
  ran_results (fst (incr false i_init h)) <> ref_run b_init (accepted false i_init h).
Proof.
  exists (w_hist ++ [w_early; [SPrint (ELoc 0)]])%list.
  vm_compute. intro H. discriminate H.
Qed.
Print Assumptions C27_incremental_refuted.

(* Every field of `type Checker struct` as it is in the source today has a class, and the class agrees
   with what CheckSource / CheckProgram syntactically do to the field (saved, restored in the failure
   block, reset before CheckProgram, assigned at all, unconditionally reassigned by CheckProgram). A new
   field, a restored field that is no longer saved AND put back, or a field whose safety rests on
   CheckSource re-initialising it for every input (ResetBySource: e.g. the scope-copy caches) that
   CheckSource no longer assigns before CheckProgram, makes this false. *)
Theorem C27_frame_audit : frame_audit = true.
Proof. vm_compute. reflexivity. Qed.
Print Assumptions C27_frame_audit.

(* non-vacuity: a history with a late failure (method hoisted, body ill-typed), an early failure, a
   redefinition and a runtime error; the REPL runs 5 of 7 inputs and prints something *)
Definition nv_hist : list input :=
  [ [SDef 0 TInt (EAdd EParam (ELit 1)); SDecl 0 XInt (ELit 5); SDecl 1 XInt (ELit 0)];
    [SDef 1 TInt (EStr 7); SPrint (ECall 0 (ELoc 0))];          (* late: m1's body is a String *)
    [SEarly; SDecl 2 XInt (ELit 9)];                             (* early *)
    [SPrint (ECall 0 (ELoc 0))];
    [SDef 0 TInt (EMul EParam (ELit 10)); SPrint (ECall 0 (ELoc 0))];  (* redefinition *)
    [SAssign 0 (ELit 7); SPrint (EDiv (ELoc 0) (ELoc 1)); SPrint (ELit 1)];  (* runtime error *)
    [SPrint (ELoc 0); SPrint (ELoc 2)] ].                        (* v2 was only declared by a rejected input *)

Example C27_incremental_nonvacuous :
  fst (incr true i_init nv_hist) =
  [ Ran [] Done; Rejected; Rejected; Ran [VInt 6] Done; Ran [VInt 50] Done; Ran [] (Error 1); Rejected ]
  /\ ran_results (fst (incr true i_init (firstn 6 nv_hist))) = ref_run b_init (accepted true i_init (firstn 6 nv_hist)).
Proof. vm_compute. split; reflexivity. Qed.

Example C27_rollback_nonvacuous : exists st1,
  incr_step true (snd (incr true i_init (firstn 1 nv_hist))) (nth 1 nv_hist []) = (st1, Rejected).
Proof. eexists. vm_compute. reflexivity. Qed.

(* named types and classes: a rejected input that declared an alias (and a class) first; a probe that
   uses the alias must be rejected; a chain of aliases declared after the rejection must be accepted;
   forward reference inside one input; circular definition; objects live in slots *)
Definition nv_types : list input :=
  [ [STypedef 0 XStr; SDecl 0 (XAlias 0) (EStr 1); SPrint (ELoc 0)];
    [STypedef 1 XInt; SClass 0; STypedef 2 (XAlias 9)];        (* rejected: alias 9 undefined *)
    [STypedef 3 (XAlias 1)];                                    (* probe: alias 1 left no trace *)
    [SDecl 4 (XClass 0) (ENew 0)];                              (* probe: class 0 left no trace *)
    [STypedef 4 XInt];
    [STypedef 5 (XAlias 4)];
    [STypedef 6 (XAlias 7); STypedef 7 (XClass 1); SClass 1; SDecl 1 (XAlias 6) (ENew 1); SDecl 2 (XAlias 5) (ELit 7)];
    [STypedef 8 (XAlias 8)];                                    (* circular *)
    [SAssign 1 (ENew 1); SPrint (EAdd (ELoc 2) (ELit 1)); SPrint (ELoc 0)];
    [SAssign 2 (ENew 1)] ].                                     (* an object into an Int local *)

Example C27_types_nonvacuous :
  fst (incr true i_init nv_types) =
  [ Ran [VStr 1] Done; Rejected; Rejected; Rejected; Ran [] Done; Ran [] Done; Ran [] Done; Rejected;
    Ran [VInt 8; VStr 1] Done; Rejected ]
  /\ ran_results (fst (incr true i_init nv_types)) = ref_run b_init (accepted true i_init nv_types).
Proof. vm_compute. split; reflexivity. Qed.

Example C27_frame_audit_nonvacuous : Nat.ltb 10 (List.length gen_fields) = true /\ unclassified = [].
Proof. vm_compute. split; reflexivity. Qed.
