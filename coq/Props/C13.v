(* C13 — closures capture variables, not values.
   Only statements here; proofs live in Proofs/C13_Refine.v. *)
From Elk Require Import Base.GoSem Model.C10_Stack Proofs.C10_Stack Proofs.C13_Refine Proofs.C13_Sim.
Open Scope Z_scope.

(* UNBOUNDED: from the initial state, after ANY sequence of machine operations (push, pop,
   locals, captureUpvalue, upvalue get/set, opCloseUpvalues, call, return, growValueStack to
   any new base), the list of open upvalues is strictly descending by slot address (hence
   duplicate-free), its members are open upvalues pointing at slot addresses of the CURRENT
   stack array, and every open upvalue is on the list. *)
Theorem C13_sorted_inv : forall b c l, OInv (run (init_st b c) l).
Proof. intros b c l. apply run_oinv. apply init_oinv. Qed.
Print Assumptions C13_sorted_inv.

(* ... preserved by every single operation from any state satisfying it *)
Theorem C13_sorted_inv_step : forall s o, OInv s -> OInv (step s o).
Proof. exact step_oinv. Qed.
Print Assumptions C13_sorted_inv_step.

(* sharing: at most one open upvalue per stack slot, so two closures capturing the same live
   variable hold the same upvalue *)
Theorem C13_one_upvalue_per_slot : forall s u v,
  OInv s -> In u (opens s) -> In v (opens s) ->
  addr_of (heap s u) = addr_of (heap s v) -> u = v.
Proof. exact oinv_one_per_slot. Qed.
Print Assumptions C13_one_upvalue_per_slot.

(* UNBOUNDED refinement.  From any base address b and capacity c, for EVERY operation sequence
   that satisfies the discipline D (a slot whose variable instance is still referenced by a
   closure is closed before it is popped or given to a new variable instance; return and the
   fixed tail call close by themselves; the as-found tail call is admitted only when no closure
   refers to the frame) and never pushes beyond the capacity: the reads of the implementation
   machine (addresses, open list, closing, tail calls reusing the frame, growth to arbitrary
   new bases) equal the reads of the store-semantics spec in which every variable instance is a
   cell and a closure holds cells.  Proof: simulation relation R (open upvalue = cell of the
   live slot it points at; closed upvalue owns its cell; handles equal iff cells equal),
   preserved by every operation (C13_simulation_step). *)
Theorem C13_refines : forall b c l, 0 <= c ->
  D init_sst l = true -> fits_run (init_st b c) l = true ->
  out (run (init_st b c) l) = sout (srun init_sst l).
Proof. exact refines. Qed.
Print Assumptions C13_refines.

Theorem C13_simulation_step : forall s t o, R s t -> ok t o = true -> fits s o = true ->
  R (step s o) (sstep t o).
Proof. exact sim_step. Qed.
Print Assumptions C13_simulation_step.

(* the same from any pair of related states (e.g. in the middle of a run) *)
Theorem C13_refines_from : forall l s t, R s t -> D t l = true ->
  fits_run s l = true -> out (run s l) = sout (srun t l).
Proof. intros l s t HR HD HF. apply (r_out _ _ (sim_run l s t HR HD HF)). Qed.
Print Assumptions C13_refines_from.

(* The discipline D is NECESSARY (1): a slot that still has an open upvalue is given to a new
   variable instance (the next loop iteration; `ONewVar`) without CLOSE_UPVALUES_TO - as the
   unfixed compiler does at the back edge of `for .. in` and on `continue` - and the machine's
   reads differ from the spec's: both closures share one upvalue.  The same trace with the
   close satisfies D and agrees. *)
Theorem C13_reuse_without_close_refuted :
  exists l, D init_sst l = false /\ out (run (init_st 1000 8) l) <> sout (srun init_sst l).
Proof.
  exists (reuse_witness false). destruct reuse_without_close as [H1 [H2 [H3 _]]].
  split; [exact H1|]. rewrite H2, H3. discriminate.
Qed.
Print Assumptions C13_reuse_without_close_refuted.

Theorem C13_reuse_with_close :
  D init_sst (reuse_witness true) = true /\
  out (run (init_st 1000 8) (reuse_witness true)) = sout (srun init_sst (reuse_witness true)).
Proof.
  destruct reuse_without_close as [_ [_ [_ [H4 [H5 H6]]]]]. split; [exact H4|]. rewrite H5, H6. reflexivity.
Qed.
Print Assumptions C13_reuse_with_close.

(* The discipline is necessary (2): callBytecodeFunctionTCO AS FOUND (no opCloseUpvalues(fp)
   before the frame is reused; `as_found` replaces every tail call by that variant) violates
   the spec on a trace that satisfies D and on which the fixed machine agrees with the spec. *)
Theorem C13_tailcall_without_close_refuted :
  exists l, D init_sst l = true /\ fits_run (init_st 1000 8) l = true /\
            out (run (init_st 1000 8) l) = sout (srun init_sst l) /\
            out (run (init_st 1000 8) (map as_found l)) <> sout (srun init_sst l).
Proof.
  exists tailcall_witness. destruct tailcall_without_close as [H1 [H2 [H3 [H4 H5]]]].
  split; [exact H1|]. split; [exact H2|]. split; [rewrite H3, H4; reflexivity|].
  rewrite H5, H4. discriminate.
Qed.
Print Assumptions C13_tailcall_without_close_refuted.

(* ERROR UNWINDING.  Thread.rethrow discards call frames one by one with restoreLastFrame (operation OUnwind:
   the upvalues at or above the POPPED frame's base are closed, the caller's are untouched) and pushes stack
   trace and error in the catching frame.  OUnwind is an operation of the machine, so C13_refines covers every
   sequence containing it.  The discipline is necessary (3): a machine that restores the caller's registers
   first and closes from the CALLER's frame pointer (`run_caller_close`) closes the still-in-scope captured
   locals of the catching frame - on a D-respecting trace on which the real machine agrees with the spec, the
   closure keeps reading its stale private copy after the frame wrote the variable. *)
Theorem C13_unwind_close_from_caller_refuted :
  exists l, D init_sst l = true /\ fits_run (init_st 1000 16) l = true /\ In OUnwind l /\
            out (run (init_st 1000 16) l) = sout (srun init_sst l) /\
            out (run_caller_close (init_st 1000 16) l) <> sout (srun init_sst l).
Proof.
  exists unwind_witness. destruct unwind_close_from_caller as [H1 [H2 [H3 [H4 H5]]]].
  split; [exact H1|]. split; [exact H2|]. split; [cbn; tauto|]. split; [rewrite H3, H4; reflexivity|].
  rewrite H5, H4. discriminate.
Qed.
Print Assumptions C13_unwind_close_from_caller_refuted.

(* the error crosses two frames: the intermediate frame's captured local is closed with its last value, the
   catching frame's stays shared (concrete instance of C13_refines; the caller-closing machine differs) *)
Example C13_unwind_nonvacuous :
  D init_sst unwind_witness2 = true /\
  out (run (init_st 1000 16) unwind_witness2) = [60; 9] /\ sout (srun init_sst unwind_witness2) = [60; 9] /\
  out (run_caller_close (init_st 1000 16) unwind_witness2) = [60; 3].
Proof. destruct unwind_two_frames as [H1 [_ [H3 [H4 H5]]]]. repeat split; assumption. Qed.

(* after the defining frame returned, reads and writes through the closures act on the
   variable's own cell (concrete instance, both machines agree with the expected values) *)
Example C13_after_return_nonvacuous :
  let l := [OPush 1; OPush 2; OCall 1; OPush 3; OCapture 1; OCapture 1; OSetLocal 1 4; OPush 9; ORet;
            OGetUp 0; OSetUp 1 50; OGetUp 0; OPush 7; OGetUp 1] in
  D init_sst l = true /\ fits_run (init_st 1000 8) l = true /\
  out (run (init_st 1000 8) l) = [50; 50; 4] /\ sout (srun init_sst l) = [50; 50; 4].
Proof. repeat split; vm_compute; reflexivity. Qed.

Example C13_nonvacuous :
  (* per-iteration instances: capture, close, re-capture of the same slot gives a new cell *)
  let l := [OPush 1; OPush 2; OCapture 1; OClose 1; OSetLocal 1 3; OCapture 1; OGetUp 0; OGetUp 1; OGrow 5000; OGetUp 1] in
  D init_sst l = true /\ out (run (init_st 1000 4) l) = [3; 3; 2] /\ sout (srun init_sst l) = [3; 3; 2] /\
  opens (run (init_st 1000 4) l) = [1%nat].
Proof. repeat split; vm_compute; reflexivity. Qed.
