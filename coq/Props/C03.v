(* C03 - The front end is total: every input gets diagnostics, never a crash or a hang.
   Only statements here; proofs live in Proofs/C03_RegexFront.v.

   PROVED PART ONLY: the regex front end (regex/lexer + regex/parser, the first half of
   regex.Transpile), on the fuelled model Model/C03_RegexFront.v.  The Elk lexer, parser, macro
   expander and type checker are NOT modelled; they are reached by the fuzzing stream c03.front
   (checks/C03.py), which is testing, not proof.
   A hang of the Go code is an OutOfFuel of the model for every amount of fuel; the model's
   result type has no crash outcome (front_result = OutOfFuel | RDiag | ROk tree). *)
From Coq Require Import ZArith String List Bool.
From Elk Require Import Model.C21_RegexSyntax Model.C03_RegexFront Proofs.C03_RegexFront.
Import ListNotations.
Open Scope Z_scope.

(* For every source (list of code points) the regex lexer + parser (with
   fixes/C03-regex-unterminated-comment.patch) finish within 3*|s|+6 units of fuel - and with
   any larger amount - whatever the input. *)
Theorem C03_regex_total : forall (s : list Z) (fuel : nat),
  (3 * List.length s + 6 <= fuel)%nat -> regex_front true fuel s <> OutOfFuel.
Proof. exact regex_front_monotone_enough. Qed.
Print Assumptions C03_regex_total.

(* ... and the result is a diagnostic list or a syntax tree. *)
Theorem C03_regex_outcome : forall (s : list Z),
  regex_front true (enough s) s = RDiag \/ exists a, regex_front true (enough s) s = ROk a.
Proof. exact regex_front_outcome. Qed.
Print Assumptions C03_regex_outcome.

(* The lexer alone: at most one token per code point, |s|+1 units of fuel. *)
Theorem C03_lex_progress : forall (s : list Z) (fuel : nat), (List.length s + 1 <= fuel)%nat ->
  exists ts, lex true fuel s = Some ts /\ (List.length ts <= List.length s)%nat.
Proof. intros s fuel H. exact (lex_total fuel s H). Qed.
Print Assumptions C03_lex_progress.

(* The parser on ANY token list (not only lexer output): 3*|ts|+2 units of fuel.  This is the
   cursor discipline: every loop iteration and every nested group consumes a token. *)
Theorem C03_parse_progress : forall (ts : list tok) (fuel : nat),
  (3 * List.length ts + 2 <= fuel)%nat -> parse_tokens fuel ts <> OutOfFuel.
Proof. intros ts fuel H. exact (parse_total fuel ts H). Qed.
Print Assumptions C03_parse_progress.

(* The code AS FOUND hangs: with the original `(?#` comment loop the source `(?#` runs out of
   every amount of fuel (regex.Transpile("(?#", f) never returns; `%/(?#/` hangs the compiler). *)
Theorem C03_regex_total_refuted : exists s, forall fuel, regex_front false fuel s = OutOfFuel.
Proof. exists [40; 63; 35]. exact regex_front_hang_as_found. Qed.
Print Assumptions C03_regex_total_refuted.

(* With the guard that excludes exactly that input class (no `(?#` in the source) nothing is
   claimed for the unfixed lexer here; the fixed lexer is total without any guard
   (C03_regex_total), which is the statement the check relies on. *)
Theorem C03_regex_total_partial : forall (s : list Z),
  regex_front true (enough s) s <> OutOfFuel.
Proof. exact regex_front_total. Qed.
Print Assumptions C03_regex_total_partial.

Example C03_front_nonvacuous :
  regex_front true 100 (str "(?<ab>x)|[[:alpha:]\x41-\x{5a}]{2,}?"%string)
  = ROk (RUnion (RGroup (GNamed [97; 98]) (Some (RAtom (AChar 120))))
                (RQuant (QNM [50] []) true
                   (RClass false [CINamed false [97; 108; 112; 104; 97]; CIRange (AHex [52; 49]) (AHex [53; 97])])))
  /\ regex_front true 100 (str "a(?#b"%string) = RDiag
  /\ regex_front true 100 (str "a{2"%string) = RDiag
  /\ regex_front true 100 (str "(a|b"%string) = RDiag
  /\ regex_front true 2 (str "abc"%string) = OutOfFuel.
Proof. vm_compute. repeat split; reflexivity. Qed.
