(* C18 — equality, hashing and ordering are mutually consistent.
   Only statements here; proofs live in Proofs/C18_Num.v and Proofs/C18_Thm.v.
   The model (Model/C18_Num.v) mirrors value.EqualVal / StrictEqualVal / LaxEqualVal / CompareVal /
   LessThanVal / LessThanEqualVal / GreaterThanVal / GreaterThanEqualVal / Hash for Int (small and
   big), Float, Float64, Float32, Int8-64, UInt8-64, UInt, String, Char and Symbol, as they are
   after fixes/C18-exact-int-float-compare.patch. [wf] = the payload is in the kind's range.
   BigFloat, String/Char ordering and String =~ Char are not modelled. *)
From Elk Require Import Base.GoSem Model.C18_Num Proofs.C18_Num Proofs.C18_Thm.
Open Scope Z_scope.

(* a == b implies that value.Hash feeds identical byte strings to the hash function ... *)
Theorem C18_eq_hash : forall a b,
  wf a = true -> wf b = true -> equal a b = true -> hash_bytes a = hash_bytes b.
Proof. exact hash_eq. Qed.
Print Assumptions C18_eq_hash.

(* ... hence equal hashes, whatever the hash function H (xxhash64 in the code) is. *)
Section AnyHash.
  Variable H : list Z -> Z.
  Theorem C18_eq_hash_any : forall a b,
    wf a = true -> wf b = true -> equal a b = true -> H (hash_bytes a) = H (hash_bytes b).
  Proof. intros a b Wa Wb E. f_equal. now apply hash_eq. Qed.
End AnyHash.
Print Assumptions C18_eq_hash_any.

(* == is reflexive on every value that is not a NaN *)
Theorem C18_eq_refl : forall a, is_nan a = false -> equal a a = true.
Proof. exact eq_refl_nonnan. Qed.
Print Assumptions C18_eq_refl.

(* == is symmetric; === coincides with == on these kinds *)
Theorem C18_eq_sym : forall a b, equal a b = equal b a.
Proof. exact eq_sym_all. Qed.
Print Assumptions C18_eq_sym.

Theorem C18_strict_eq : forall a b, strict_equal a b = equal a b.
Proof. reflexivity. Qed.
Print Assumptions C18_strict_eq.

(* == implies =~ *)
Theorem C18_eq_lax : forall a b,
  wf a = true -> wf b = true -> equal a b = true -> lax_equal a b = Some true.
Proof. exact eq_lax. Qed.
Print Assumptions C18_eq_lax.

(* =~ is symmetric and transitive across all numeric kinds (and String/String, Char/Char, Symbol/Symbol) *)
Theorem C18_lax_sym : forall a b, wf a = true -> wf b = true -> lax_equal a b = lax_equal b a.
Proof. exact lax_sym. Qed.
Print Assumptions C18_lax_sym.

Theorem C18_lax_trans : forall a b c,
  wf a = true -> wf b = true -> wf c = true ->
  lax_equal a b = Some true -> lax_equal b c = Some true -> lax_equal a c = Some true.
Proof. exact lax_trans. Qed.
Print Assumptions C18_lax_trans.

(* whenever <=> yields -1/0/1, the five other operators say the same thing, and b <=> a is the opposite *)
Theorem C18_order_coherent : forall a b c,
  wf a = true -> wf b = true -> cmp a b = CCmp c ->
  lt a b = RB (match c with Lt => true | _ => false end) /\
  le a b = RB (match c with Gt => false | _ => true end) /\
  gt a b = RB (match c with Gt => true | _ => false end) /\
  ge a b = RB (match c with Lt => false | _ => true end) /\
  lax_equal a b = Some (match c with Eq => true | _ => false end) /\
  cmp b a = CCmp (CompOpp c).
Proof. exact order_coherent. Qed.
Print Assumptions C18_order_coherent.

(* <=> does yield -1/0/1 on every pair of non-NaN numbers the ordering accepts (Int/Float mixed, or one sized kind) *)
Theorem C18_order_total : forall a b,
  wf a = true -> wf b = true -> ordered_pair a b = true ->
  is_nan a = false -> is_nan b = false -> exists c, cmp a b = CCmp c.
Proof. exact order_total. Qed.
Print Assumptions C18_order_total.

(* with a NaN operand: <=> is nil, every relational operator and =~ are false *)
Theorem C18_nan_unordered : forall a b,
  wf a = true -> wf b = true -> ordered_pair a b = true ->
  is_nan a = true \/ is_nan b = true ->
  cmp a b = CNil /\ lt a b = RB false /\ le a b = RB false /\ gt a b = RB false /\ ge a b = RB false /\
  lax_equal a b = Some false.
Proof. exact order_nan. Qed.
Print Assumptions C18_nan_unordered.

(* transitivity across mixed kinds, including the mixed strict/non-strict chains *)
Theorem C18_order_trans : forall a b c,
  wf a = true -> wf b = true -> wf c = true ->
  (le a b = RB true -> le b c = RB true -> le a c = RB true) /\
  (lt a b = RB true -> le b c = RB true -> lt a c = RB true) /\
  (le a b = RB true -> lt b c = RB true -> lt a c = RB true) /\
  (ge a b = RB true -> ge b c = RB true -> ge a c = RB true) /\
  (gt a b = RB true -> ge b c = RB true -> gt a c = RB true) /\
  (ge a b = RB true -> gt b c = RB true -> gt a c = RB true).
Proof. exact order_trans. Qed.
Print Assumptions C18_order_trans.

(* the operators are the exact order of the mathematical values: what makes the above non-accidental *)
Theorem C18_exact : forall a b,
  wf a = true -> wf b = true -> numeric a = true -> numeric b = true ->
  num_cmp a b = Some (xc (xval a) (xval b)).
Proof. exact num_cmp_spec. Qed.
Print Assumptions C18_exact.

(* non-vacuity: the DESIGN section 6 #14 witnesses are now ordered correctly, -0.0 hashes like 0.0,
   hypotheses of the transitivity theorems are satisfiable across kinds *)
Example C18_nonvacuous :
  let big := VInt (2 ^ 53 + 1) in let f := VFloat 4845873199050653696 (* 2^53 as a double *) in
  let small := VInt (2 ^ 53) in
  wf big = true /\ wf f = true /\
  le big f = RB false /\ le f small = RB true /\ lax_equal f small = Some true /\ lax_equal big f = Some false /\
  cmp big f = CCmp Gt /\ cmp (VInt (2 ^ 64 + 1)) (VFloat 4895412794951729152) = CCmp Gt /\
  equal (VFloat 0) (VFloat (2 ^ 63)) = true /\ hash_bytes (VFloat (2 ^ 63)) = hash_bytes (VFloat 0) /\
  lax_equal (VF32 1266679808) (VS S32 16777217) = Some false /\
  lax_equal (VFloat 4617315517961601024) (VU UW 5) = Some true /\
  lax_equal (VInt (2 ^ 63)) (VU U64 (2 ^ 63)) = Some true /\
  le (VInt 1) (VFloat 4609434218613702656) = RB true /\ le (VFloat 4609434218613702656) (VInt 2) = RB true /\
  cmp (VInt 1) (VFloat 9221120237041090560) = CNil /\ cmp (VInt 1) (VS S8 1) = CErr.
Proof. vm_compute. repeat split; reflexivity. Qed.
