(* C12 — type-checking verdicts survive meaning-preserving edits.
   Only statements here; proofs live in Proofs/C12_Checker.v; the checker model in Model/C12_Checker.v.
   `true` selects the FIXED register handling of checkMethod (previous returnType / throwType
   restored on exit, fixes/C12-restore-return-context.patch); `false` the code as found. *)
From Coq Require Import ZArith NArith List Bool Permutation.
From Elk Require Import Model.C12_Checker Proofs.C12_Checker.
Import ListNotations.

(* Inserting `x := e` - e a value literal or a closure literal, x not occurring in the body - before
   any statement of any method body leaves the whole checker state of the program unchanged:
   same number of diagnostics, hence the same verdict. *)
Theorem C12_unused_local : forall ms1 n rt body ms2 mn pos x e,
  closed_value e = true -> ~ In x (body_names body) -> (pos < length body)%nat ->
  let p := mkProg (ms1 ++ (n, rt, body) :: ms2) mn in
  let p' := mkProg (ms1 ++ (n, rt, insert_at pos (SLet x e) body) :: ms2) mn in
  errors true p' = errors true p /\ (accepts true p = true <-> accepts true p' = true).
Proof.
  intros ms1 n rt body ms2 mn pos x e Hc Hn Hp p p'.
  assert (H : errors true p' = errors true p)
    by (unfold errors, p, p'; now rewrite unused_local_method).
  split; [exact H|]. unfold accepts. rewrite H. tauto.
Qed.
Print Assumptions C12_unused_local.

(* the same at any position (the end included) of the top-level statements *)
Theorem C12_unused_local_main : forall ms mn pos x e,
  closed_value e = true -> ~ In x (body_names mn) ->
  let p := mkProg ms mn in
  let p' := mkProg ms (insert_at pos (SLet x e) mn) in
  errors true p' = errors true p /\ (accepts true p = true <-> accepts true p' = true).
Proof.
  intros ms mn pos x e Hc Hn p p'.
  assert (H : errors true p' = errors true p) by (apply unused_local_main; assumption).
  split; [exact H|]. unfold accepts. rewrite H. tauto.
Qed.
Print Assumptions C12_unused_local_main.

(* With the register handling as found (returnType / throwType reset to nil when checkMethod
   returns) the property is false: `def foo: Int; return 1; end` is accepted, the same method with
   the unused closure `f := -> 1` in front of the return is rejected. *)
Theorem C12_unused_local_old_refuted : exists ms1 n rt body ms2 mn pos x e,
  closed_value e = true /\ ~ In x (body_names body) /\ (pos < length body)%nat /\
  accepts false (mkProg (ms1 ++ (n, rt, body) :: ms2) mn) = true /\
  accepts false (mkProg (ms1 ++ (n, rt, insert_at pos (SLet x e) body) :: ms2) mn) = false.
Proof.
  exists [], 0%N, TInt, [SReturn (ELit TInt)], [], [SExpr (EMeth 0%N)], 0%nat, 1%N, (EClos (ELit TInt)).
  split; [vm_compute; reflexivity|]. split; [cbn; tauto|]. split; [cbn; auto|].
  split; vm_compute; reflexivity.
Qed.
Print Assumptions C12_unused_local_old_refuted.

(* Consistent renaming of the locals of a method body by any injective renaming (in particular
   swapping a local x with a fresh name y) leaves the checker state of the program unchanged - for
   both register handlings. *)
Theorem C12_rename : forall f, (forall x y, f x = f y -> x = y) ->
  forall fx ms1 n rt body ms2 mn,
  check_prog fx (mkProg (ms1 ++ (n, rt, ren_body f body) :: ms2) mn) =
  check_prog fx (mkProg (ms1 ++ (n, rt, body) :: ms2) mn).
Proof. exact rename_method. Qed.
Print Assumptions C12_rename.

Theorem C12_rename_one_local : forall x y fx ms1 n rt body ms2 mn,
  errors fx (mkProg (ms1 ++ (n, rt, ren_body (swap x y) body) :: ms2) mn) =
  errors fx (mkProg (ms1 ++ (n, rt, body) :: ms2) mn).
Proof. intros. unfold errors. now rewrite (rename_method (swap x y) (swap_inj x y)). Qed.
Print Assumptions C12_rename_one_local.

(* Redundant parentheses anywhere in the program do not change the checker state: a program and its
   parenthesis-free form check identically, so any two programs equal up to parentheses do. *)
Theorem C12_parens : forall fx p, check_prog fx (strip_prog p) = check_prog fx p.
Proof. exact parens_prog. Qed.
Print Assumptions C12_parens.

(* Permuting the method definitions (distinct names) does not change the number of diagnostics:
   signatures are looked up by name and every method body is checked in its own isolated context. *)
Theorem C12_reorder : forall ms ms' mn,
  Permutation ms ms' -> NoDup (map fst (sigs_of ms)) ->
  errors true (mkProg ms' mn) = errors true (mkProg ms mn).
Proof. exact reorder_methods. Qed.
Print Assumptions C12_reorder.

(* with the fix, checking any expression - closure literals included - leaves the registers alone *)
Theorem C12_registers_restored : forall sigs e s,
  sregs (fst (check_expr true sigs s e)) = sregs s /\ slocals (fst (check_expr true sigs s e)) = slocals s.
Proof. intros. split; [apply check_expr_regs | apply check_expr_locals]. Qed.
Print Assumptions C12_registers_restored.

(* ---- non-vacuity ---- *)
Example C12_accept_nonvacuous :
  accepts true (mkProg [(0%N, TInt, [SLet 1%N (EClos (ELit TInt)); SReturn (ELit TInt)])] [SExpr (EMeth 0%N)]) = true /\
  accepts true (mkProg [(0%N, TInt, [SReturn (ELit TStr)])] []) = false /\
  accepts true (mkProg [(0%N, TInt, [SLet 1%N (EClos (ELit TInt)); SReturn (ECall (EVar 1%N))])] []) = true /\
  accepts true (mkProg [(0%N, TInt, [SReturn (EVar 5%N)])] []) = false.
Proof. vm_compute. auto. Qed.

Example C12_reorder_nonvacuous :
  let a := (0%N, TInt, [SReturn (EMeth 1%N)]) in
  let b := (1%N, TInt, [SLet 2%N (EClos (ELit TInt)); SReturn (ECall (EVar 2%N))]) in
  Permutation [a; b] [b; a] /\ NoDup (map fst (sigs_of [a; b])) /\
  errors true (mkProg [a; b] [SExpr (EMeth 0%N)]) = 0 /\ errors true (mkProg [b; a] [SExpr (EMeth 0%N)]) = 0.
Proof.
  cbn zeta. split; [apply perm_swap|]. split; [|vm_compute; auto].
  cbn. constructor; [intros [H|[]]; discriminate | constructor; [intros [] | constructor]].
Qed.

Example C12_rename_nonvacuous :
  ren_body (swap 1%N 7%N) [SLet 1%N (ELit TInt); SReturn (EVar 1%N)] = [SLet 7%N (ELit TInt); SReturn (EVar 7%N)].
Proof. vm_compute. reflexivity. Qed.

(* ================================================================== *)
(* The checker model WITH the catch-scope stack (Model/C12_Scopes.v): throw signatures of methods and
   closure literals, `throw`, do/catch, calls of throwing methods and closures, block bodies.
   S = the model, SP = its proofs. *)
Require Elk.Model.C12_Scopes Elk.Proofs.C12_Scopes.
Module S := Elk.Model.C12_Scopes.
Module SP := Elk.Proofs.C12_Scopes.

(* Inserting `x := v` - v a value literal or a SELF-CONTAINED closure literal: any parameters (usable in
   its body), any declared return type, any declared throw type, `throw`s covered by its own catch
   scopes, do/catch blocks and further such closures nested to any depth (S.closed_value) - in front of
   ANY statement of ANY block of a method body (the body itself, a do body, a catch handler, the body of
   a closure literal, to any depth: S.ins_b), x not occurring in the body, leaves the number of
   diagnostics and hence the verdict unchanged - in particular when the insertion point lies inside a
   `do ... catch` body or inside a method with a throw signature and a throw / throwing call follows. *)
Theorem C12_unused_local_scoped : forall ms1 n rt u body body' ms2 mn x v,
  S.closed_value v = true -> ~ In x (S.block_names body) -> S.ins_b (S.ELet x v) body body' ->
  let p := S.mkProg (ms1 ++ (n, rt, u, body) :: ms2) mn in
  let p' := S.mkProg (ms1 ++ (n, rt, u, body') :: ms2) mn in
  S.errors true p' = S.errors true p /\ (S.accepts true p = true <-> S.accepts true p' = true).
Proof.
  intros ms1 n rt u body body' ms2 mn x v Hv Hn Hi p p'.
  assert (H : S.errors true p' = S.errors true p)
    by (unfold S.errors, p, p'; now rewrite (SP.unused_local_method ms1 n rt u body body' ms2 mn x v)).
  split; [exact H|]. unfold S.accepts. rewrite H. tauto.
Qed.
Print Assumptions C12_unused_local_scoped.

(* the same in the top-level statements: before any statement at any depth, or at the very end *)
Theorem C12_unused_local_scoped_main : forall ms mn mn' x v,
  S.closed_value v = true -> ~ In x (S.block_names mn) ->
  (S.ins_b (S.ELet x v) mn mn' \/ mn' = S.insert_at (S.block_len mn) (S.ELet x v) mn) ->
  let p := S.mkProg ms mn in
  let p' := S.mkProg ms mn' in
  S.errors true p' = S.errors true p /\ (S.accepts true p = true <-> S.accepts true p' = true).
Proof.
  intros ms mn mn' x v Hv Hn Hi p p'.
  assert (H : S.errors true p' = S.errors true p) by (apply (SP.unused_local_main ms mn mn' x v); assumption).
  split; [exact H|]. unfold S.accepts. rewrite H. tauto.
Qed.
Print Assumptions C12_unused_local_scoped_main.

(* checking any expression or block - closure literals with their own catch scope and do/catch blocks
   included - leaves returnType, throwType, mode, the inference flags and the catch-scope STACK exactly
   as they were (the stack is saved, emptied, pushed, and put back by checkMethod; pushed and popped by
   do/catch) *)
Theorem C12_scopes_restored : forall sigs,
  (forall e s, S.sregs (fst (S.check_expr true sigs s e)) = S.sregs s) /\
  (forall b s t0, S.sregs (fst (S.check_block true sigs s t0 b)) = S.sregs s).
Proof. exact SP.regs_restored. Qed.
Print Assumptions C12_scopes_restored.

(* a self-contained closure literal is checked without a diagnostic and without any effect on the
   checker state, whatever the state (in particular whatever the catch-scope stack) *)
Theorem C12_closed_value_inert : forall sigs v s,
  S.closed_value v = true -> fst (S.check_expr true sigs s v) = s.
Proof. exact SP.closed_value_check. Qed.
Print Assumptions C12_closed_value_inert.

(* renaming, parentheses and reordering on the model with catch scopes: consistent renaming of the locals
   (closure parameters included) of a method body by any injective renaming, redundant parentheses
   anywhere, and any permutation of method definitions with distinct names *)
Theorem C12_rename_scoped : forall f, (forall x y, f x = f y -> x = y) ->
  forall fx ms1 n rt u body ms2 mn,
  S.check_prog fx (S.mkProg (ms1 ++ (n, rt, u, S.ren_block f body) :: ms2) mn) =
  S.check_prog fx (S.mkProg (ms1 ++ (n, rt, u, body) :: ms2) mn).
Proof. exact SP.rename_method. Qed.
Print Assumptions C12_rename_scoped.

Theorem C12_rename_one_local_scoped : forall x y fx ms1 n rt u body ms2 mn,
  S.errors fx (S.mkProg (ms1 ++ (n, rt, u, S.ren_block (S.swap x y) body) :: ms2) mn) =
  S.errors fx (S.mkProg (ms1 ++ (n, rt, u, body) :: ms2) mn).
Proof. intros. unfold S.errors. now rewrite (SP.rename_method (S.swap x y) (SP.swap_inj x y)). Qed.
Print Assumptions C12_rename_one_local_scoped.

Theorem C12_parens_scoped : forall fx p, S.check_prog fx (S.strip_prog p) = S.check_prog fx p.
Proof. exact SP.parens_prog. Qed.
Print Assumptions C12_parens_scoped.

Theorem C12_reorder_scoped : forall ms ms' mn,
  Permutation ms ms' -> NoDup (map fst (S.sigs_of ms)) ->
  S.errors true (S.mkProg ms' mn) = S.errors true (S.mkProg ms mn).
Proof. exact SP.reorder_methods. Qed.
Print Assumptions C12_reorder_scoped.

(* ---- non-vacuity of the scoped statements ---- *)
Definition blk (l : list S.expr) : S.block := fold_right S.BCons S.BNil l.
Definition fmt : S.exc := 0%N.
Definition oor : S.exc := 1%N.
(* |q: String|: String ! FormatError -> q *)
Definition clos_throws : S.expr := S.EClos [(9%N, S.TStr)] (Some S.TStr) (Some [fmt]) (blk [S.EVar 9%N]).
(* -> do throw FormatError(..); 1 catch FormatError() 2 end *)
Definition clos_docatch : S.expr :=
  S.EClos [] None None (blk [S.EDo (blk [S.EThrow fmt; S.ELit S.TInt]) [fmt] (blk [S.ELit S.TInt])]).
(* -> (||! FormatError -> throw FormatError(..)) *)
Definition clos_nested : S.expr :=
  S.EClos [] None None (blk [S.EClos [] None (Some [fmt]) (blk [S.EThrow fmt])]).

Example C12_scoped_class_nonvacuous :
  S.closed_value clos_throws = true /\ S.closed_value clos_docatch = true /\ S.closed_value clos_nested = true /\
  S.closed_value (S.EClos [] None (Some [fmt]) (blk [S.EThrow oor])) = false /\
  S.closed_value (S.EClos [] None None (blk [S.EVar 3%N])) = false.
Proof. vm_compute. auto. Qed.

(* def fetch: Int ! OutOfRangeError; throw OutOfRangeError(..); 1; end
   def total: Int; do a := fetch(); b := fetch(); a catch OutOfRangeError() 1 end; end      total()  *)
Definition m_fetch : S.mdef := (0%N, S.TInt, [oor], blk [S.EThrow oor; S.ELit S.TInt]).
Definition total_body (mid : list S.expr) : S.block :=
  blk [S.EDo (blk (S.ELet 2%N (S.EMeth 0%N) :: mid ++ [S.ELet 3%N (S.EMeth 0%N); S.EVar 2%N])) [oor] (blk [S.ELit S.TInt])].

Example C12_scoped_nonvacuous :
  (* the edit of the theorem: the throw-annotated closure between the two throwing calls of the do body *)
  S.ins_b (S.ELet 7%N clos_throws) (total_body []) (total_body [S.ELet 7%N clos_throws]) /\
  ~ In 7%N (S.block_names (total_body [])) /\
  S.accepts true (S.mkProg [m_fetch; (1%N, S.TInt, [], total_body [])] (blk [S.EMeth 1%N])) = true /\
  S.accepts true (S.mkProg [m_fetch; (1%N, S.TInt, [], total_body [S.ELet 7%N clos_throws])] (blk [S.EMeth 1%N])) = true /\
  (* the catch scopes decide: without the do/catch the call is rejected, a wrong class is rejected *)
  S.accepts true (S.mkProg [m_fetch; (1%N, S.TInt, [], blk [S.EMeth 0%N])] (blk [S.EMeth 1%N])) = false /\
  S.accepts true (S.mkProg [m_fetch; (1%N, S.TInt, [fmt], blk [S.EMeth 0%N])] (blk [S.EMeth 1%N])) = false /\
  S.accepts true (S.mkProg [m_fetch; (1%N, S.TInt, [oor], blk [S.EMeth 0%N])] (blk [])) = true /\
  (* a throwing closure called outside / inside a scope; an inferred throw type *)
  S.accepts true (S.mkProg [m_fetch; (1%N, S.TInt, [], blk [S.ELet 2%N (S.EClos [] None None (blk [S.EMeth 0%N])); S.ECall (S.EVar 2%N)])] (blk [])) = false /\
  S.accepts true (S.mkProg [m_fetch; (1%N, S.TInt, [oor], blk [S.ELet 2%N (S.EClos [] None None (blk [S.EMeth 0%N])); S.ECall (S.EVar 2%N)])] (blk [])) = true.
Proof.
  split. { cbn. apply S.ins_inside, S.ins_do_body, S.ins_later, S.ins_here. }
  split. { cbn. intros [H|[H|[H|H]]]; try discriminate; exact H. }
  vm_compute. repeat split; reflexivity.
Qed.

Example C12_rename_scoped_nonvacuous :
  S.ren_block (S.swap 2%N 8%N) (total_body []) =
  blk [S.EDo (blk [S.ELet 8%N (S.EMeth 0%N); S.ELet 3%N (S.EMeth 0%N); S.EVar 8%N]) [oor] (blk [S.ELit S.TInt])] /\
  S.strip_block (blk [S.EReturn (S.EParen (S.EParen (S.ELit S.TInt)))]) = blk [S.EReturn (S.ELit S.TInt)].
Proof. vm_compute. auto. Qed.
