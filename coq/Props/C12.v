(* C12 — type-checking verdicts survive meaning-preserving edits.
   Only statements here; proofs live in Proofs/C12_Checker.v; the checker model in Model/C12_Checker.v.
   `true` selects the FIXED register handling of checkMethod (previous returnType / throwType
   restored on exit, fixes/C12-restore-return-context.patch); `false` the code as found. *)
From Coq Require Import ZArith NArith List Bool Permutation.
From Elk Require Import Model.C12_Checker Proofs.C12_Checker.
Import ListNotations.

(* Inserting `x := e` - e a value literal or a closure literal, x not occurring in the body - before
   any statement of any method body leaves the whole checker state of the program unchanged:
   same number of diagnostics, hence the same verdict. *)
Theorem C12_unused_local : forall ms1 n rt body ms2 mn pos x e,
  closed_value e = true -> ~ In x (body_names body) -> (pos < length body)%nat ->
  let p := mkProg (ms1 ++ (n, rt, body) :: ms2) mn in
  let p' := mkProg (ms1 ++ (n, rt, insert_at pos (SLet x e) body) :: ms2) mn in
  errors true p' = errors true p /\ (accepts true p = true <-> accepts true p' = true).
Proof.
  intros ms1 n rt body ms2 mn pos x e Hc Hn Hp p p'.
  assert (H : errors true p' = errors true p)
    by (unfold errors, p, p'; now rewrite unused_local_method).
  split; [exact H|]. unfold accepts. rewrite H. tauto.
Qed.
Print Assumptions C12_unused_local.

(* the same at any position (the end included) of the top-level statements *)
Theorem C12_unused_local_main : forall ms mn pos x e,
  closed_value e = true -> ~ In x (body_names mn) ->
  let p := mkProg ms mn in
  let p' := mkProg ms (insert_at pos (SLet x e) mn) in
  errors true p' = errors true p /\ (accepts true p = true <-> accepts true p' = true).
Proof.
  intros ms mn pos x e Hc Hn p p'.
  assert (H : errors true p' = errors true p) by (apply unused_local_main; assumption).
  split; [exact H|]. unfold accepts. rewrite H. tauto.
Qed.
Print Assumptions C12_unused_local_main.

(* With the register handling as found (returnType / throwType reset to nil when checkMethod
   returns) the property is false: `def foo: Int; return 1; end` is accepted, the same method with
   the unused closure `f := -> 1` in front of the return is rejected. *)
Theorem C12_unused_local_old_refuted : exists ms1 n rt body ms2 mn pos x e,
  closed_value e = true /\ ~ In x (body_names body) /\ (pos < length body)%nat /\
  accepts false (mkProg (ms1 ++ (n, rt, body) :: ms2) mn) = true /\
  accepts false (mkProg (ms1 ++ (n, rt, insert_at pos (SLet x e) body) :: ms2) mn) = false.
Proof.
  exists [], 0%N, TInt, [SReturn (ELit TInt)], [], [SExpr (EMeth 0%N)], 0%nat, 1%N, (EClos (ELit TInt)).
  split; [vm_compute; reflexivity|]. split; [cbn; tauto|]. split; [cbn; auto|].
  split; vm_compute; reflexivity.
Qed.
Print Assumptions C12_unused_local_old_refuted.

(* Consistent renaming of the locals of a method body by any injective renaming (in particular
   swapping a local x with a fresh name y) leaves the checker state of the program unchanged - for
   both register handlings. *)
Theorem C12_rename : forall f, (forall x y, f x = f y -> x = y) ->
  forall fx ms1 n rt body ms2 mn,
  check_prog fx (mkProg (ms1 ++ (n, rt, ren_body f body) :: ms2) mn) =
  check_prog fx (mkProg (ms1 ++ (n, rt, body) :: ms2) mn).
Proof. exact rename_method. Qed.
Print Assumptions C12_rename.

Theorem C12_rename_one_local : forall x y fx ms1 n rt body ms2 mn,
  errors fx (mkProg (ms1 ++ (n, rt, ren_body (swap x y) body) :: ms2) mn) =
  errors fx (mkProg (ms1 ++ (n, rt, body) :: ms2) mn).
Proof. intros. unfold errors. now rewrite (rename_method (swap x y) (swap_inj x y)). Qed.
Print Assumptions C12_rename_one_local.

(* Redundant parentheses anywhere in the program do not change the checker state: a program and its
   parenthesis-free form check identically, so any two programs equal up to parentheses do. *)
Theorem C12_parens : forall fx p, check_prog fx (strip_prog p) = check_prog fx p.
Proof. exact parens_prog. Qed.
Print Assumptions C12_parens.

(* Permuting the method definitions (distinct names) does not change the number of diagnostics:
   signatures are looked up by name and every method body is checked in its own isolated context. *)
Theorem C12_reorder : forall ms ms' mn,
  Permutation ms ms' -> NoDup (map fst (sigs_of ms)) ->
  errors true (mkProg ms' mn) = errors true (mkProg ms mn).
Proof. exact reorder_methods. Qed.
Print Assumptions C12_reorder.

(* with the fix, checking any expression - closure literals included - leaves the registers alone *)
Theorem C12_registers_restored : forall sigs e s,
  sregs (fst (check_expr true sigs s e)) = sregs s /\ slocals (fst (check_expr true sigs s e)) = slocals s.
Proof. intros. split; [apply check_expr_regs | apply check_expr_locals]. Qed.
Print Assumptions C12_registers_restored.

(* ---- non-vacuity ---- *)
Example C12_accept_nonvacuous :
  accepts true (mkProg [(0%N, TInt, [SLet 1%N (EClos (ELit TInt)); SReturn (ELit TInt)])] [SExpr (EMeth 0%N)]) = true /\
  accepts true (mkProg [(0%N, TInt, [SReturn (ELit TStr)])] []) = false /\
  accepts true (mkProg [(0%N, TInt, [SLet 1%N (EClos (ELit TInt)); SReturn (ECall (EVar 1%N))])] []) = true /\
  accepts true (mkProg [(0%N, TInt, [SReturn (EVar 5%N)])] []) = false.
Proof. vm_compute. auto. Qed.

Example C12_reorder_nonvacuous :
  let a := (0%N, TInt, [SReturn (EMeth 1%N)]) in
  let b := (1%N, TInt, [SLet 2%N (EClos (ELit TInt)); SReturn (ECall (EVar 2%N))]) in
  Permutation [a; b] [b; a] /\ NoDup (map fst (sigs_of [a; b])) /\
  errors true (mkProg [a; b] [SExpr (EMeth 0%N)]) = 0 /\ errors true (mkProg [b; a] [SExpr (EMeth 0%N)]) = 0.
Proof.
  cbn zeta. split; [apply perm_swap|]. split; [|vm_compute; auto].
  cbn. constructor; [intros [H|[]]; discriminate | constructor; [intros [] | constructor]].
Qed.

Example C12_rename_nonvacuous :
  ren_body (swap 1%N 7%N) [SLet 1%N (ELit TInt); SReturn (EVar 1%N)] = [SLet 7%N (ELit TInt); SReturn (EVar 7%N)].
Proof. vm_compute. reflexivity. Qed.
