(* C29 — compiled bytecode is structurally valid (verified validator).
   Only statements here; proofs live in Proofs/Cfg_Verify.v and Proofs/Cfg_Decode.v.
   The validator [verify] (Base/Cfg.v) is proved sound once and for all; it is then RUN on every
   function the real compiler produces (translation validation, stream c29.verify). *)
From Coq Require Import NArith ZArith List Bool.
From Elk Require Import Base.Cfg Model.C29_Decode Proofs.Cfg_Verify Proofs.Cfg_Decode Gen.C29_Opcodes.
Import ListNotations.
Open Scope N_scope.

(* If the validator accepts f then, for EVERY n and every offset o reached from the entry by n
   control-flow steps (ordinary successors, exception-handler edges, finally edges):
   o is the start of exactly one instruction i of f, i is non-empty and lies inside the byte
   array, every index operand of i (value pool entry of the kind the VM casts it to, local slot,
   upvalue) is in range, and every successor of i is again an instruction start. *)
Theorem C29_verify_sound : forall f, verify f = true -> forall n o, reach f n o ->
  exists i,
    instr_at f o = Some i /\ In i (f_instrs f) /\ i_off i = o /\
    0 < i_size i /\ nxt i <= f_len f /\
    Forall (fun rv => idx_ok f rv = true) (i_idx i) /\
    (forall t, In t (succs f i) -> is_start f t = true) /\
    (forall j, In j (f_instrs f) -> i_off j = o -> j = i).
Proof. exact verify_sound. Qed.
Print Assumptions C29_verify_sound.

(* Pool operands have the KIND the opcode makes the VM assume (the VM casts value-pool entries
   with unchecked pointer casts): at every offset reached by any path of an accepted function,
   an operand of CALL_METHOD*/CALL*/NEXT* names a *CallSiteInfo entry, one of CALL_METHOD_BC* a
   *BytecodeCallSiteInfo entry, one of CALL_METHOD_NT* a *NativeCallSiteInfo entry, one of
   GET_CONST*/GET_IVAR_NAME*/SET_IVAR_NAME* an inline Symbol (roles per opcode: the regenerated
   table; kinds per pool entry: exported by the harness from the Go type of the entry). *)
Theorem C29_pool_kinds_sound : forall f, verify f = true -> forall n o, reach f n o ->
  exists i, instr_at f o = Some i /\
    forall r v, In (r, v) (i_idx i) -> pool_role r = true ->
      exists k, nth_error (f_vals f) (N.to_nat v) = Some k /\ kind_required r k.
Proof. exact verify_kinds_sound. Qed.
Print Assumptions C29_pool_kinds_sound.

(* Every catch entry of an accepted function jumps to an instruction start, and its From/To are
   instruction starts (To may be the end of the code) unless the entry covers nothing. *)
Theorem C29_catch_entries_sound : forall f c, verify f = true -> In c (f_catches f) ->
  (0 <= c_jump c)%Z /\ is_start f (Z.to_N (c_jump c)) = true /\
  ((c_to c <= c_from c)%Z \/ (bound_ok f (c_from c) = true /\ bound_ok f (c_to c) = true)).
Proof. exact verify_catches. Qed.
Print Assumptions C29_catch_entries_sound.

(* The decoder never runs out of fuel: on every opcode table and every byte string it either
   reports the offset it cannot decode or returns an instruction list ... *)
Theorem C29_decode_total : forall tbl bs, decode tbl bs <> DFuel.
Proof. exact decode_total. Qed.
Print Assumptions C29_decode_total.

(* ... whose instructions are contiguous from offset 0 and cover the byte array exactly. *)
Theorem C29_decode_covers : forall tbl r f,
  build tbl r = Some f -> contig (f_instrs f) 0 (f_len f) = true.
Proof. exact build_contig. Qed.
Print Assumptions C29_decode_covers.

(* Finite statement about the REGENERATED table (re-proved on every run against what the
   implementation defines now): each of the n_opcodes (= length of the table, < 256) opcodes
   has an entry with a known kind, so decoding fails only on bytes >= n_opcodes, truncated
   operands, or a backward jump before offset 0. *)
Theorem C29_optable_total : table_total optable n_opcodes = true.
Proof. vm_compute. reflexivity. Qed.
Print Assumptions C29_optable_total.

(* non-vacuity: a function produced by the real compiler (`var a = 0; loop a += 1 end`) is
   decoded and accepted; the same bytes with the LOOP distance changed to land inside an
   instruction are rejected, as is an out-of-range value index. *)
Example C29_nonvacuous :
  (exists f, build optable (mkraw [32; 1; 2; 215; 30; 217; 34; 40; 218; 9; 175; 34; 30; 69; 0; 9; 1] [VFun 0] [] 0 0) = Some f /\ verify f = true /\ length (f_instrs f) = 14%nat) /\
  (exists f, build optable (mkraw [32; 1; 2; 215; 30; 217; 34; 40; 218; 9; 175; 34; 30; 69; 0; 15; 1] [VFun 0] [] 0 0) = Some f /\ verify f = false) /\
  (exists f, build optable (mkraw [32; 1; 2; 215; 30; 217; 34; 40; 218; 9; 175; 34; 30; 69; 0; 9; 1] [] [] 0 0) = Some f /\ verify f = false).
Proof.
  split; [|split]; eexists; (split; [vm_compute; reflexivity|]); vm_compute; repeat split; reflexivity.
Qed.

(* non-vacuity of the kind clause: SELF; CALL_METHOD_BC8 0; RETURN is accepted when pool entry 0
   is a bytecode call-site info and rejected when entry 0 exists but is a plain value (what a
   16-bit call rewritten to the 8-bit opcode refers to), a dynamic call-site info or a native one. *)
Example C29_kinds_nonvacuous :
  (exists f, build optable (mkraw [108; 116; 0; 1] [VCallBC] [] 0 0) = Some f /\ verify f = true) /\
  (exists f, build optable (mkraw [108; 116; 0; 1] [VOther] [] 0 0) = Some f /\ verify f = false) /\
  (exists f, build optable (mkraw [108; 116; 0; 1] [VCall] [] 0 0) = Some f /\ verify f = false) /\
  (exists f, build optable (mkraw [108; 116; 0; 1] [VCallNT] [] 0 0) = Some f /\ verify f = false).
Proof.
  split; [|split; [|split]]; eexists; (split; [vm_compute; reflexivity|]); vm_compute; reflexivity.
Qed.
