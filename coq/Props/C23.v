(* C23 — ranges and iterable operations agree with a list model.
   Only statements here; proofs live in Proofs/C23_Iter.v. *)
From Coq Require Import ZArith List Bool Lia.
From Elk Require Import Base.GoSem Model.C23_Iter Proofs.C23_Iter Model.C23_Nil Proofs.C23_Nil.
Import ListNotations.
Open Scope Z_scope.

(* ---- ranges ---- *)

(* Int ranges (Increment = exact successor): each of the four finite kinds, run to its
   end with enough fuel, yields exactly the integers its bounds describe, in increasing
   order (relements = lo, lo+1, ...), then :stop_iteration — for all bounds, including empty
   and reversed ranges. *)
Theorem C23_range_iter : forall k a b fuel,
  finite k = true -> (length (relements k a b) < fuel)%nat ->
  unroll fuel (range_next Z.succ k b) a = Some (relements k a b, TStop).
Proof. exact range_finite_int. Qed.
Print Assumptions C23_range_iter.

(* what "the integers its bounds describe, in order" means: position i holds lo + i *)
Theorem C23_range_order : forall n lo i, (i < n)%nat -> nth_error (zr lo n) i = Some (lo + Z.of_nat i).
Proof. exact zr_nth. Qed.
Print Assumptions C23_range_order.

(* endless Int ranges: every finite prefix is the progression from the first element *)
Theorem C23_range_iter_endless : forall k a b n,
  (k = EndlessClosed \/ k = EndlessOpen) ->
  prefix n (range_next Z.succ k b) a = Some (zr (rfirst k a) n, a + Z.of_nat n).
Proof. exact range_endless_int. Qed.
Print Assumptions C23_range_iter_endless.

(* `contains` is the bound test for all eight kinds; for the iterable kinds it is membership
   in the yielded elements *)
Theorem C23_contains : forall k a b x,
  (rcontains k a b x = true <-> rbounds k a b x) /\
  (finite k = true -> (rcontains k a b x = true <-> In x (relements k a b))) /\
  ((k = EndlessClosed \/ k = EndlessOpen) ->
     (rcontains k a b x = true <-> exists n, In x (zr (rfirst k a) n))).
Proof. exact contains_all. Qed.
Print Assumptions C23_contains.

(* Ranges over the fixed-width integer types (Increment wraps): the faithful model violates
   the property — a closed Int8 range ending at 127 yields -128, which it does not contain. *)
Theorem C23_range_iter_wrap_refuted :
  exists a b l s', prefix 3 (range_next (succ_wrap_s 8) Closed b) a = Some (l, s') /\
                   exists x, In x l /\ rcontains Closed a b x = false.
Proof. exact range_wrap_witness. Qed.
Print Assumptions C23_range_iter_wrap_refuted.

(* ... and holds whenever no point the iterator increments is the type's maximum
   (rguard = the points incremented before the iterator stops). *)
Theorem C23_range_iter_wrap_partial : forall w k a b fuel,
  0 < w -> finite k = true -> - 2 ^ (w - 1) <= a ->
  (forall x, rguard k a b x -> x + 1 < 2 ^ (w - 1)) ->
  (length (relements k a b) < fuel)%nat ->
  unroll fuel (range_next (succ_wrap_s w) k b) a = Some (relements k a b, TStop).
Proof. exact range_finite_wrap. Qed.
Print Assumptions C23_range_iter_wrap_partial.

(* ---- the generic operations (vm/iterable.go) ---- *)

(* For every iterator (any state machine, any element type, any closures — throwing ones
   included) that yields the list l and then stops, every operation returns what the list
   model returns on l: contains is_empty first try_first last try_last map filter reject count
   any every find try_find index_of find_index drop drop_while take take_while fold
   reduce (on a non-empty iterable) to_list/to_collection/to_tuple/to_immutable_collection length.
   ops_agree is the conjunction of these 24 equations (Proofs/C23_Iter.v). *)
Theorem C23_ops_partial : forall V St (nx : St -> step V St) eqb fuel fuel' s l,
  unroll fuel nx s = Some (l, TStop) -> (fuel <= fuel')%nat -> ops_agree nx eqb fuel' s l.
Proof. exact ops_finite. Qed.
Print Assumptions C23_ops_partial.

(* reduce on an empty iterable: the code returns the undefined value (no error), the list
   model has nothing to return and says error. *)
Theorem C23_reduce_empty_refuted :
  exists (l : list Z) (f : Z -> Z -> res Z),
    unroll 1 list_next l = Some ([], TStop) /\
    reduce_impl list_next 1 f l <> reduce_list f [].
Proof. exact reduce_empty_witness. Qed.
Print Assumptions C23_reduce_empty_refuted.

(* the list model is the standard list functions when the closures are pure *)
Theorem C23_ops_list_model : forall (V W : Type) (eqb : V -> V -> bool) (p : V -> bool) (f : V -> W) (g : W -> V -> W) (h : V -> V -> V) l v w x n,
  contains_list eqb x l = Val (existsb (fun v => eqb v x) l) /\
  try_first_list l = Val (hd_error l) /\
  take_list n l = (if n <? 0 then Thrown E_OOR else Val (firstn (Z.to_nat n) l)) /\
  drop_list n l = (if n <? 0 then Thrown E_OOR else Val (skipn (Z.to_nat n) l)) /\
  length_list l = Val (Z.of_nat (length l)) /\
  map_list (pure f) l = Val (map f l) /\
  filter_list (pure p) l = Val (filter p l) /\
  reject_list (pure p) l = Val (filter (fun v => negb (p v)) l) /\
  count_list (pure p) l = Val (Z.of_nat (length (filter p l))) /\
  any_list (pure p) l = Val (existsb p l) /\
  every_list (pure p) l = Val (forallb p l) /\
  try_find_list (pure p) l = Val (find p l) /\
  find_list (pure p) l = match find p l with Some v => Val v | None => Thrown E_NF end /\
  fold_list (fun a v => Val (g a v)) w l = Val (fold_left g l w) /\
  reduce_list (fun a x => Val (h a x)) (v :: l) = Val (fold_left h l v) /\
  (exists r r', take_while_list (pure p) l = Val r /\ drop_while_list (pure p) l = Val r' /\ l = r ++ r') /\
  (exists r, take_while_list (pure p) l = Val r /\ (exists r', l = r ++ r') /\ forallb p r = true /\
     (forall r', l = r ++ r' -> match r' with [] => True | v :: _ => p v = false end)) /\
  (exists i, find_index_list (pure p) l = Val i /\
      ((i = -1 /\ forallb (fun v => negb (p v)) l = true) \/
       (0 <= i /\ exists v, nth_error l (Z.to_nat i) = Some v /\ p v = true /\
          forallb (fun v => negb (p v)) (firstn (Z.to_nat i) l) = true))).
Proof. exact ops_list_model. Qed.
Print Assumptions C23_ops_list_model.

(* an iterator whose `next` throws e after yielding l: every loop-shaped operation either
   left its loop inside l (and returns what it returns on l) or re-throws e *)
Theorem C23_ops_iter_error : forall V St A R (nx : St -> step V St) (body : A -> V -> ctl A R) fin fuel fuel' s l e a,
  unroll fuel nx s = Some (l, TFail e) -> (fuel <= fuel')%nat ->
  loop fuel' nx body fin a s = if exits body a l then lloop body fin a l TStop else Thrown e.
Proof. exact loop_failing. Qed.
Print Assumptions C23_ops_iter_error.

(* possibly infinite iterators: first / take / find / try_find / any / take_while look only at a
   finite prefix l (whatever follows it) and return what the list model returns on l *)
Theorem C23_ops_prefix : forall V St (nx : St -> step V St) fuel n s l s',
  prefix n nx s = Some (l, s') -> (n <= fuel)%nat ->
  (forall v, l = [v] -> first_impl nx fuel s = Val v) /\
  (forall k, 0 <= k -> n = S (Z.to_nat k) -> take_impl nx fuel k s = Val (firstn (Z.to_nat k) l)) /\
  (forall p, search_list true p l <> Val None ->
     find_impl nx fuel p s = find_list p l /\ try_find_impl nx fuel p s = try_find_list p l /\
     any_impl nx fuel p s = any_list p l) /\
  (forall p, search_list false p l <> Val None -> take_while_impl nx fuel p s = take_while_list p l).
Proof. exact ops_prefix. Qed.
Print Assumptions C23_ops_prefix.

(* the entry points the extracted driver runs (Int elements, closures as data) *)
Theorem C23_ops_run_partial : forall St (nx : St -> step Z St) fuel fuel' s l o,
  unroll fuel nx s = Some (l, TStop) -> (fuel <= fuel')%nat ->
  (match o with OReduce _ => l <> [] | _ => True end) ->
  run_impl fuel' nx s o = run_list l o.
Proof. exact run_agree. Qed.
Print Assumptions C23_ops_run_partial.

Example C23_nonvacuous :
  unroll 10 (range_next Z.succ LeftOpen 5) 1 = Some ([2; 3; 4; 5], TStop) /\
  relements OpenR (-2) 2 = [-1; 0; 1] /\ relements Closed 3 1 = [] /\
  run_range 50 0 Closed 1 5 (OTake 2) = Val (VList [1; 2]) /\
  run_range 50 0 EndlessOpen 1 0 (OTakeWhile (PLt 5)) = Val (VList [2; 3; 4]) /\
  run_range 50 0 Closed 1 5 (OMap (FThrowAt 3 (FAdd 1))) = Thrown E_BOOM /\
  run_range 50 0 RightOpen 1 5 (OReduce GSub) = Val (VInt (-8)) /\
  run_range 50 0 Closed 1 0 (OReduce GSub) = Undef /\
  run_range 50 0 Closed 1 5 (ODrop (-1)) = Thrown E_OOR /\
  run_range 50 8 Closed 126 127 (OTake 4) = Val (VList [126; 127; -128; -127]) /\
  run_listiter 50 [3; 1; 2] (OFindIndex (PGt 5)) = Val (VInt (-1)).
Proof. repeat split; vm_compute; reflexivity. Qed.

(* the model has no representation boundary: Int is Z, so a range ending exactly on the largest
   small integer 2^63-1 (where the implementation switches SmallInt -> BigInt) stops there, and an
   endless range runs across it. The streams tie the implementation to exactly these values. *)
Example C23_nonvacuous_smallint_boundary :
  unroll 10 (range_next Z.succ Closed 9223372036854775807) 9223372036854775805
    = Some ([9223372036854775805; 9223372036854775806; 9223372036854775807], TStop) /\
  unroll 10 (range_next Z.succ LeftOpen 9223372036854775807) 9223372036854775805
    = Some ([9223372036854775806; 9223372036854775807], TStop) /\
  run_range 50 0 Closed 9223372036854775805 9223372036854775807 (OTake 6)
    = Val (VList [9223372036854775805; 9223372036854775806; 9223372036854775807]) /\
  run_range 50 0 EndlessClosed 9223372036854775806 0 (OTake 3)
    = Val (VList [9223372036854775806; 9223372036854775807; 9223372036854775808]) /\
  relements Closed (-9223372036854775809) (-9223372036854775807)
    = [-9223372036854775809; -9223372036854775808; -9223372036854775807].
Proof. repeat split; vm_compute; reflexivity. Qed.

(* ---- nilable elements (Int?): the extracted instance with element type option Z ---- *)

(* the entry points the extracted driver runs for iterables of Int? (None = nil): every operation of
   the instance returns what the list model returns on the yielded elements *)
Theorem C23_ops_nilable_run : forall St (nx : St -> step elem St) fuel fuel' s l o,
  unroll fuel nx s = Some (l, TStop) -> (fuel <= fuel')%nat ->
  run_nimpl fuel' nx s o = run_nlist l o.
Proof. exact run_nagree. Qed.
Print Assumptions C23_ops_nilable_run.

Theorem C23_ops_nilable_listiter : forall l o fuel, (length l < fuel)%nat -> run_nlistiter fuel l o = run_nlist l o.
Proof. exact run_nlistiter_agree. Qed.
Print Assumptions C23_ops_nilable_listiter.

(* "the selected element is nil" and "no element was selected" are different results: first / last / find
   RETURN nil when the first / last / first matching element is nil, and throw NotFoundError only on nothing *)
Theorem C23_nil_element_is_not_absence : forall St (nx : St -> step elem St) fuel fuel' s l,
  unroll fuel nx s = Some (l, TStop) -> (fuel <= fuel')%nat ->
  (forall r, l = None :: r -> first_impl nx fuel' s = Val None) /\
  (forall r, l = r ++ [None] -> last_impl nx fuel' s = Val None) /\
  (forall p r r', l = r ++ None :: r' -> p None = Val true -> (forall v, In v r -> p v = Val false) ->
     find_impl nx fuel' p s = Val None) /\
  (l = [] -> first_impl nx fuel' s = Thrown E_NF /\ last_impl nx fuel' s = Thrown E_NF /\
  forall p, find_impl nx fuel' p s = Thrown E_NF).
Proof. exact nil_is_not_absent. Qed.
Print Assumptions C23_nil_element_is_not_absence.

Example C23_nonvacuous_nil_element :
  run_nlistiter 50 [None; Some 1; Some 2] NFirst = Val (NVElem None) /\
  run_nlistiter 50 [Some 1; Some 2; None] NLast = Val (NVElem None) /\
  run_nlistiter 50 [Some 1; None; Some 2] (NFind NIsNil) = Val (NVElem None) /\
  run_nlistiter 50 [Some 1; Some 2] (NFind NIsNil) = Thrown E_NF /\
  run_nlistiter 50 [] NFirst = Thrown E_NF /\ run_nlistiter 50 [] NLast = Thrown E_NF /\
  run_nlistiter 50 [None] NTryFirst = Val (NVOpt (Some None)) /\ run_nlistiter 50 [] NTryFirst = Val (NVOpt None) /\
  run_nlistiter 50 [Some 0; None; Some 0] (NIndexOf None) = Val (NVInt 1) /\
  run_nlistiter 50 [Some 0; None; Some 0] (NFilter NNotNil) = Val (NVList [Some 0; Some 0]) /\
  run_nlistiter 50 [None; Some 1; Some 2] (NFold 0 10 7) = Val (NVInt 712) /\
  run_nfailiter 50 [None; Some 1] NLast = Thrown E_BOOM /\
  run_nfailiter 50 [None; Some 1] NFirst = Val (NVElem None) /\
  run_nlistiter 50 [Some 1; None] (NAny (NThrowAt None (NEq 5))) = Thrown E_BOOM.
Proof. repeat split; vm_compute; reflexivity. Qed.
