(* C06 — Int arithmetic is exact and independent of integer representation.
   Only statements here; proofs live in Proofs/C06_Int.v. *)
From Elk Require Import Base.GoSem Model.C06_Int Proofs.C06_Int.
Open Scope Z_scope.

(* For every operator and every pair of canonical Ints (small or big), the implementation
   model returns the canonical representation of the exact mathematical result
   (truncated division, remainder with the dividend's sign), or ZeroDivisionError exactly
   when the divisor is zero; it never panics. *)
Theorem C06_arith_exact : forall o x y,
  canonical x = true -> canonical y = true ->
  refines (impl o x y) (spec o (den x) (den y)).
Proof. exact impl_refines_spec. Qed.
Print Assumptions C06_arith_exact.

(* A canonical Int is determined by the integer it denotes: results cannot depend on
   whether operands arrived as small or big values. *)
Theorem C06_repr_indep : forall x y,
  canonical x = true -> canonical y = true -> den x = den y -> x = y.
Proof. exact canonical_unique. Qed.
Print Assumptions C06_repr_indep.

Example C06_nonvacuous :
  canonical (Small 5) = true /\ canonical (Big (2 ^ 64)) = true /\
  impl OpDiv (Small (-5)) (Small 10) = Ok (Small 0) /\
  impl OpMod (Small min64) (Big (2 ^ 63)) = Ok (Small 0).
Proof. repeat split; vm_compute; reflexivity. Qed.
