(* C06 — Int arithmetic is exact and independent of integer representation.
   Only statements here; proofs live in Proofs/C06_Int.v, C06_Ext.v, C06_Shift.v.
   `canonical v`: v is Small iff the integer fits in 64 bits (what every operation returns).
   All results are stated on the model of the code AFTER fixes/C06-int-shift-negate-andnot.patch. *)
From Elk Require Import Base.GoSem Model.C06_Int Proofs.C06_Int Proofs.C06_Ext Proofs.C06_Shift.
Open Scope Z_scope.

(* + - * / %: for every pair of canonical Ints (small or big) the model returns the canonical
   representation of the exact result (truncated division, remainder with the dividend's
   sign), ZeroDivisionError exactly when the divisor is zero; it never panics. *)
Theorem C06_arith_exact : forall o x y,
  canonical x = true -> canonical y = true ->
  refines (impl o x y) (spec o (den x) (den y)).
Proof. exact impl_refines_spec. Qed.
Print Assumptions C06_arith_exact.

(* unary minus, including -(MinSmallInt) = 2^63 (big) and -(2^63) = MinSmallInt (small) *)
Theorem C06_neg_exact : forall x,
  canonical x = true -> den (ineg x) = - den x /\ canonical (ineg x) = true.
Proof. exact ineg_ok. Qed.
Print Assumptions C06_neg_exact.

(* ** with a non-negative exponent *)
Theorem C06_pow_exact : forall x y,
  0 <= den y -> den (ipow x y) = den x ^ den y /\ canonical (ipow x y) = true.
Proof.
  intros x y H. destruct (ipow_ok x y) as [D C]. rewrite D, (big_exp_nonneg _ _ H). auto.
Qed.
Print Assumptions C06_pow_exact.

(* > >= < <= == agree with the order of the integers, whatever the representations *)
Theorem C06_cmp_exact : forall o x y, icmp o x y = cmp_spec o (den x) (den y).
Proof. exact icmp_ok. Qed.
Print Assumptions C06_cmp_exact.

(* <=> returns the SmallInt -1, 0 or 1 *)
Theorem C06_compare_exact : forall x y,
  den (icompare x y) = (match den x ?= den y with Lt => -1 | Eq => 0 | Gt => 1 end)
  /\ canonical (icompare x y) = true.
Proof. exact icompare_ok. Qed.
Print Assumptions C06_compare_exact.

(* & | ^ &~ are the two's-complement operations on unbounded integers *)
Theorem C06_bitwise_exact : forall o x y,
  canonical x = true -> canonical y = true ->
  den (ibit o x y) = bit_z o (den x) (den y) /\ canonical (ibit o x y) = true.
Proof. exact ibit_ok. Qed.
Print Assumptions C06_bitwise_exact.

(* shifts by any amount that is a SmallInt other than MinSmallInt: a << n = a * 2^n for
   n >= 0 and floor(a / 2^-n) for n < 0; a >> n = a << -n; the result is canonical; no panic *)
Theorem C06_shift_exact : forall x y,
  canonical x = true -> canonical y = true -> min64 < den y <= max64 ->
  (exists v, ishl x y = Ok v /\ canonical v = true /\
     den v = if 0 <=? den y then den x * 2 ^ den y else den x / 2 ^ (- den y)) /\
  (exists v, ishr x y = Ok v /\ canonical v = true /\
     den v = if 0 <=? - den y then den x * 2 ^ (- den y) else den x / 2 ^ (- - den y)).
Proof.
  intros x y Cx Cy R. destruct (shift_exact_small_amounts x y Cx Cy R) as [[v [E [D C]]] [w [E' [D' C']]]].
  split; [exists v|exists w]; auto.
Qed.
Print Assumptions C06_shift_exact.

(* shifts by every amount, including MinSmallInt and BigInt amounts, under the guard that
   excludes only values that cannot exist: L = effective left amount; a non-zero value is not
   shifted left by more than 2^63-1 bits, and a value shifted right by 2^63 bits or more is
   shorter than the amount (then the result is the sign: 0 or -1). *)
Theorem C06_shl_exact : forall x y,
  canonical x = true -> canonical y = true ->
  (max64 < den y -> den x = 0) ->
  (den y <= min64 -> - 2 ^ (- den y) <= den x < 2 ^ (- den y)) ->
  exists v, ishl x y = Ok v /\ den v = Z.shiftl (den x) (den y) /\ canonical v = true.
Proof. intros x y Cx Cy G1 G2. apply ishl_exact; [assumption|assumption|split; assumption]. Qed.
Print Assumptions C06_shl_exact.

Theorem C06_shr_exact : forall x y,
  canonical x = true -> canonical y = true ->
  (max64 < - den y -> den x = 0) ->
  (- den y <= min64 -> - 2 ^ (- - den y) <= den x < 2 ^ (- - den y)) ->
  exists v, ishr x y = Ok v /\ den v = Z.shiftr (den x) (den y) /\ canonical v = true.
Proof. intros x y Cx Cy G1 G2. apply ishr_exact; [assumption|assumption|split; assumption]. Qed.
Print Assumptions C06_shr_exact.

(* no operand pair at all makes a shift panic (memory exhaustion of huge left shifts is
   outside the model) *)
Theorem C06_shift_no_panic : forall x y,
  (exists v, ishl x y = Ok v) /\ (exists v, ishr x y = Ok v).
Proof. exact shifts_no_panic. Qed.
Print Assumptions C06_shift_no_panic.

(* A canonical Int is determined by the integer it denotes: results cannot depend on
   whether operands arrived as small or big values... *)
Theorem C06_repr_indep : forall x y,
  canonical x = true -> canonical y = true -> den x = den y -> x = y.
Proof. exact canonical_unique. Qed.
Print Assumptions C06_repr_indep.

(* ...so every observation (==, hash, inspect, any later operation) agrees *)
Theorem C06_obs_indep : forall (A : Type) (obs : ival -> A) x y,
  canonical x = true -> canonical y = true -> den x = den y -> obs x = obs y.
Proof. intros A obs. exact (obs_indep obs). Qed.
Print Assumptions C06_obs_indep.

Example C06_nonvacuous :
  canonical (Small 5) = true /\ canonical (Big (2 ^ 64)) = true /\
  impl OpDiv (Small (-5)) (Small 10) = Ok (Small 0) /\
  impl OpMod (Small min64) (Big (2 ^ 63)) = Ok (Small 0).
Proof. repeat split; vm_compute; reflexivity. Qed.

Example C06_ext_nonvacuous :
  ishl (Small 1) (Small 64) = Ok (Big (2 ^ 64)) /\
  ishl (Small (-1)) (Small 63) = Ok (Small min64) /\
  ishr (Small (-1)) (Big (2 ^ 70)) = Ok (Small (-1)) /\
  ishl (Big (2 ^ 100)) (Small (-1)) = Ok (Big (2 ^ 99)) /\
  ishr (Big (2 ^ 64)) (Small 2) = Ok (Small (2 ^ 62)) /\
  ineg (Big (2 ^ 63)) = Small min64 /\ ineg (Small min64) = Big (2 ^ 63) /\
  ipow (Small 2) (Small 63) = Big (2 ^ 63) /\
  ibit BAndNot (Big (2 ^ 70 + 5)) (Small 3) = Big (2 ^ 70 + 4) /\
  icmp CLt (Small 5) (Big (2 ^ 64)) = true.
Proof. repeat split; vm_compute; reflexivity. Qed.

(* the guard of C06_shr_exact is satisfiable with an amount that is not a SmallInt:
   x = -1, y = 2^70 (the witness of the repaired defect `-1 >> 2**70`) *)
Example C06_guard_nonvacuous : forall k, 2 ^ 63 <= k ->
  (max64 < - k -> -1 = 0) /\ (- k <= min64 -> - 2 ^ (- - k) <= -1 < 2 ^ (- - k)).
Proof.
  intros k Hk. assert (K : 0 <= k) by (eapply Z.le_trans; [|exact Hk]; discriminate).
  split.
  - intros H. exfalso. unfold max64 in H. assert (0 < 2 ^ 63) by reflexivity. lia.
  - intros _. rewrite Z.opp_involutive.
    pose proof (Z.pow_pos_nonneg 2 k ltac:(reflexivity) K) as P. lia.
Qed.
