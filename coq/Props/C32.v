(* C32 — uncaught errors report the active call chain with correct lines.
   Only statements here; proofs live in Proofs/C32_Lines.v and Proofs/C32_Trace.v. *)
From Coq Require Import ZArith List.
From Elk Require Import Base.GoSem Model.C32_Lines Model.C32_Trace Proofs.C32_Lines Proofs.C32_Trace.
Import ListNotations.
Open Scope Z_scope.

(* For ANY sequence of AddLineNumber / AddBytesToLastLine / RemoveBytes operations that
   respects the callers' preconditions (an added instruction has >= 1 byte, appended byte
   counts are >= 0), the run-length table and the plain byte->line list either both panic
   with the same panic, or: GetLineNumber i is element i of the plain list for every i in
   range, -1 for every i at or beyond the end, the first line (or -1 when empty) for a
   negative index (the code's answer for ip = 0), and the table accounts for exactly
   len(plain) bytes. *)
Theorem C32_rle_refines : forall ops,
  Forall wf_op ops ->
  match run_impl ops, run_spec ops with
  | Ok t, Ok ls =>
      (forall i, 0 <= i < Z.of_nat (length ls) -> get_line_number t i = nth (Z.to_nat i) ls 0) /\
      (forall i, Z.of_nat (length ls) <= i -> get_line_number t i = -1) /\
      (forall i, i < 0 -> get_line_number t i = nth 0 ls (-1)) /\
      total_bytes t = Z.of_nat (length ls)
  | Panic a, Panic b => a = b
  | _, _ => False
  end.
Proof. exact rle_refines. Qed.
Print Assumptions C32_rle_refines.


(* compiler.prepLocals inserts the n-byte PREP_LOCALS prologue in front of a finished function and
   credits n bytes to the FIRST run of its table.  For every table built by an admissible operation
   sequence: every existing offset moves by exactly n (offset i+n of the new table has the line
   offset i had), the n inserted offsets (and the negative index) carry the line of the old byte 0,
   and the table accounts for exactly n more bytes.  (OpPrologue is also an operation of the
   sequences C32_rle_refines quantifies over, with the plain-list meaning
   `repeat (line of byte 0) n ++ plain`.) *)
Theorem C32_prologue_shift : forall ops t n,
  Forall wf_op ops -> run_impl ops = Ok t -> 0 <= n ->
  (forall i, 0 <= i -> get_line_number (prologue t n) (i + n) = get_line_number t i) /\
  (forall j, j < n -> get_line_number (prologue t n) j = get_line_number t 0) /\
  (t <> [] -> total_bytes (prologue t n) = total_bytes t + n).
Proof. exact run_prologue_shift. Qed.
Print Assumptions C32_prologue_shift.

(* BuildStackTrace returns exactly: one entry per active (non-empty) frame of the call
   stack in stack order (outermost first), then the running function last; bytecode
   frames carry the function's names, its tail-call counter and the plain-list line of
   byte ip-1; native frames carry their recorded names and line. *)
Theorem C32_trace_order : forall cs cur scs scur,
  Forall2 frame_rel cs scs -> cur_rel cur scur ->
  build_trace (TH cs cur) = spec_trace scs scur /\
  length (build_trace (TH cs cur)) =
    (length (filter is_active scs) + match scur with None => 0 | Some _ => 1 end)%nat.
Proof. intros. split; [apply trace_order | apply trace_length]; assumption. Qed.
Print Assumptions C32_trace_order.

(* Rethrow across awaits: the trace that reaches the outermost thread is the chain of
   every awaiting thread, outermost awaiter first, followed by the thrower's own chain;
   one BuildStackTracePrepend appends the stored trace unchanged. *)
Theorem C32_prepend : forall thrower awaiters t base,
  build_trace_prepend t base = build_trace t ++ base /\
  trace_through_awaits thrower awaiters =
    concat (map build_trace (rev awaiters)) ++ build_trace thrower.
Proof. intros. split; [apply prepend_eq | apply through_awaits]. Qed.
Print Assumptions C32_prepend.

(* non-vacuity: a table built with merges, an appended operand, removals across a run
   boundary and a non-monotone line (multi-line call) answers every offset; a trace with
   an empty frame, a native frame and two bytecode frames is assembled in order. *)
Definition ex_ops : list op :=
  [OpAdd 3 2; OpAdd 3 1; OpAdd 5 1; OpAddBytes 2; OpAdd 6 1; OpAdd 6 1; OpRemove 3; OpAdd 4 2].
Example C32_rle_nonvacuous :
  Forall wf_op ex_ops /\
  run_spec ex_ops = Ok [3; 3; 3; 5; 5; 4; 4] /\
  (exists t, run_impl ex_ops = Ok t /\ entries t = [LI 3 3; LI 5 2; LI 4 2] /\
             map (get_line_number t) [-1; 0; 2; 3; 4; 5; 6; 7] = [3; 3; 3; 5; 5; 4; 4; -1]) /\
  run_impl [OpAdd 1 1; OpRemove 2] = Panic P_EMPTY_REMOVE /\
  run_spec [OpAdd 1 1; OpRemove 2] = Panic P_EMPTY_REMOVE /\
  run_impl [OpAddBytes 1] = Panic P_NIL.
Proof.
  split; [repeat constructor; cbn; try discriminate; exact I|].
  split; [vm_compute; reflexivity|].
  split; [eexists; split; [vm_compute; reflexivity|split; vm_compute; reflexivity]|].
  repeat split; vm_compute; reflexivity.
Qed.

Example C32_trace_nonvacuous :
  exists f1 f2 : bcfun,
    build_trace (TH [FEmpty; FBytecode f1 4 0; FNative 9 8 77 0] (Some (f2, 6, 2))) =
      [EN 1 7 5 0; EN 8 9 77 0; EN 2 7 4 2] /\
    trace_through_awaits (TH [FEmpty] (Some (f2, 6, 0))) [TH [FEmpty] (Some (f1, 1, 0)); TH [] (Some (f1, 4, 0))] =
      [EN 1 7 5 0; EN 1 7 3 0; EN 2 7 4 0].
Proof.
  exists (BF 1 7 (match run_impl ex_ops with Ok t => t | _ => [] end)),
         (BF 2 7 (match run_impl ex_ops with Ok t => t | _ => [] end)).
  split; vm_compute; reflexivity.
Qed.

(* The precondition in C32_rle_refines is needed: a zero-byte AddLineNumber leaves a
   zero-count run and a later RemoveByte drives it negative (never done by the compiler:
   AddInstruction always adds len(bytes)+1 >= 1). *)
Example C32_rle_guard_needed :
  exists t, run_impl [OpAdd 5 2; OpAdd 6 0; OpRemove 1] = Ok t /\
            run_spec [OpAdd 5 2; OpAdd 6 0; OpRemove 1] = Ok [5] /\
            get_line_number t 1 = 5.
Proof. eexists. repeat split; vm_compute; reflexivity. Qed.

(* non-vacuity of the prologue: a 3-byte PREP_LOCALS16 in front of ex_ops' table moves every line by
   3 and is credited to the first run; a prologue in the middle of a sequence is an operation like
   any other; crediting one byte too few (2 for a 3-byte prologue, the seeded defect of the
   strengthening round) makes offset i+3 answer with the line of offset i+1. *)
Example C32_prologue_nonvacuous :
  (exists t, run_impl (ex_ops ++ [OpPrologue 3]) = Ok t /\
             entries t = [LI 3 6; LI 5 2; LI 4 2] /\ total_bytes t = 10 /\
             run_spec (ex_ops ++ [OpPrologue 3]) = Ok [3; 3; 3; 3; 3; 3; 5; 5; 4; 4]) /\
  run_spec [OpPrologue 2; OpAdd 7 1; OpPrologue 2; OpAdd 8 1] = Ok [7; 7; 7; 8] /\
  (exists t, run_impl ex_ops = Ok t /\
             map (fun i => get_line_number (prologue t 3) (i + 3)) [0; 2; 3; 4; 5; 6] = [3; 3; 5; 5; 4; 4] /\
             map (fun i => get_line_number (prologue t 2) (i + 3)) [0; 2; 3; 4; 5; 6] = [3; 5; 5; 4; 4; -1]).
Proof.
  split; [eexists; repeat split; vm_compute; reflexivity|].
  split; [vm_compute; reflexivity|].
  eexists; repeat split; vm_compute; reflexivity.
Qed.

(* ---- which trace is PRINTED: the stored-trace protocol of vm/thread.go (errStackTrace/errValue,
   throw, throwIfErr, rethrow at a stopVM frame), with the fix that throwIfErr forgets the stored
   trace when its instruction finished without an error (cfg_clear = true).  For EVERY earlier
   history of errors that were swallowed by native code or caught, of any origin and value, and
   every uncaught error whose origin is a THROW instruction or a native error, handed back through
   any number of nested runs (closures/methods/generators called from native code), the printed
   trace is the one assembled from the thread state at the ORIGINAL throw. *)
Theorem C32_reported_trace : forall h o v,
  reported (CFG true false) h o v = build_trace (origin_thread o).
Proof. intros. apply reported_trace; [reflexivity|left; reflexivity]. Qed.
Print Assumptions C32_reported_trace.

(* trace assembly takes no error value (build_trace : thread -> list entry); the value only enters
   throwIfErr's decision to reuse the stored trace, and the printed trace does not depend on it,
   nor on the values and origins of earlier errors: a Symbol, small Int, Float, Bool, nil, Char
   (VInline) and a String or Error object (VRef) thrown at the same place print the same trace. *)
Theorem C32_trace_value_independent : forall h h' o v v',
  reported (CFG true false) h o v = reported (CFG true false) h' o v'.
Proof. intros. rewrite !C32_reported_trace. reflexivity. Qed.
Print Assumptions C32_trace_value_independent.

(* the code as found (no clearing): the same holds when no earlier error was swallowed by native
   code after leaving a nested run *)
Theorem C32_reported_trace_as_found_partial : forall h o v,
  all_caught h ->
  reported (CFG false false) h o v = build_trace (origin_thread o).
Proof. intros h o v H. apply reported_trace; [reflexivity|right; exact H]. Qed.
Print Assumptions C32_reported_trace_as_found_partial.

Definition ex_f (n l : Z) : bcfun := BF n 7 [LI l 4].
(* phase 1: a generator (function 2) driven to completion by a `for` loop in function 1 - its
   STOP_ITERATION is swallowed by NEXT; phase 2: a native iterator's :stop_iteration (the same
   inline value) in function 4 called from function 3 *)
Definition ex_stale_hist : list (origin * errval * ending) :=
  [(Direct (TH [FEmpty; FBytecode (ex_f 1 10) 2 0] (Some (ex_f 2 20, 2, 0))), VInline 5, Swallowed)].
Definition ex_stale_origin : origin := Native (TH [FEmpty; FBytecode (ex_f 3 30) 2 0] (Some (ex_f 4 40, 2, 0))).

(* as found, an earlier swallowed error lends its trace to a later, unrelated error with an equal
   inline value (witness: corpus/C32.vprog.txt, known finding prog:stale-trace...) *)
Theorem C32_stale_trace_as_found_refuted :
  exists h o v, reported (CFG false false) h o v <> build_trace (origin_thread o).
Proof.
  exists ex_stale_hist, ex_stale_origin, (VInline 5). vm_compute. discriminate.
Qed.
Print Assumptions C32_stale_trace_as_found_refuted.

(* reusing the stored trace only for reference values (the seeded variant of the strengthening
   round) loses the frames of the nested run for every inline value *)
Theorem C32_reference_only_reuse_refuted :
  exists o v, reported (CFG true true) [] o v <> build_trace (origin_thread o).
Proof.
  exists (Crossed (Direct (TH [FEmpty; FBytecode (ex_f 1 10) 2 0] (Some (ex_f 2 20, 2, 0))))
                  (TH [FEmpty] (Some (ex_f 1 10, 2, 0)))), (VInline 5).
  vm_compute. discriminate.
Qed.
Print Assumptions C32_reference_only_reuse_refuted.

Example C32_reported_nonvacuous :
  reported (CFG true false) ex_stale_hist ex_stale_origin (VInline 5) = [EN 3 7 30 0; EN 4 7 40 0] /\
  reported (CFG false false) ex_stale_hist ex_stale_origin (VInline 5) = [EN 1 7 10 0; EN 2 7 20 0] /\
  reported (CFG false false) ex_stale_hist ex_stale_origin (VRef 5) = [EN 3 7 30 0; EN 4 7 40 0] /\
  reported (CFG true false) []
    (Crossed (Direct (TH [FEmpty; FBytecode (ex_f 1 10) 2 0] (Some (ex_f 2 20, 2, 0)))) (TH [FEmpty] (Some (ex_f 1 10, 2, 0))))
    (VInline 5) = [EN 1 7 10 0; EN 2 7 20 0].
Proof. repeat split; vm_compute; reflexivity. Qed.
