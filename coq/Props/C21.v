(* C21 - Regex translation preserves Elk regex semantics.
   Only statements here; proofs live in Proofs/C21_Regex.v.

   `re` is the syntax tree regex/parser builds, `transpile f a` the structured Go (RE2) term
   whose printed text is what regex.Transpile returns (with fixes/C21-*.patch), `me` what the
   Elk tree denotes under the Elk flags, `m2` what Go's regexp does with the emitted term
   (trusted specification, validated on every run by the stream c21.match).  A denotation is a
   transformer of position sets of the subject s; `matches` = "some substring matches".
   orbit / uni / posix are oracles for unicode.SimpleFold orbits, Unicode tables and POSIX
   classes: the theorems hold for EVERY choice of them. *)
From Coq Require Import ZArith List Bool String.
From Elk Require Import Model.C21_RegexSyntax Model.C21_RegexSem Model.C21_RegexExt Model.C21_Compose Model.C03_RegexFront Proofs.C21_Regex Proofs.C21_RegexX Proofs.C21_Compose.
Import ListNotations.
Open Scope Z_scope.

(* For every syntax tree and every flag set WITHOUT extended mode (x neither a flag of the
   literal nor set by a flag group), if the transpiler reports no failure then the emitted Go
   regex matches exactly the subjects the Elk tree denotes.  All node kinds, all three class
   modes, flags i m s U a with their scoping. *)
Theorem C21_transpile_sound : forall orbit uni posix (s : list Z) f a,
  fx f = false -> sets_x a = false -> transpile_text f a <> None ->
  matches_re2 orbit uni posix s (transpile f a) = matches_elk orbit uni posix s f a.
Proof. exact transpile_sound. Qed.
Print Assumptions C21_transpile_sound.

(* The stronger form behind it: the emitted term and the tree denote the same transformer of
   position sets (not just the same yes/no answer), the Go flag state after the term is the
   visible part of the Elk flag state after the tree. *)
Theorem C21_denotation : forall orbit uni posix (s : list Z) a f,
  fx f = false -> sets_x a = false -> has_err (fst (tr f a)) = false ->
  (forall X, fst (m2 orbit uni posix s (vis f) (fst (tr f a))) X = fst (me orbit uni posix s f a) X)
  /\ snd (m2 orbit uni posix s (vis f) (fst (tr f a))) = vis (snd (tr f a))
  /\ snd (me orbit uni posix s f a) = snd (tr f a)
  /\ fx (snd (tr f a)) = false.
Proof. intros orbit uni posix s a. exact (tr_sound orbit uni posix s a). Qed.
Print Assumptions C21_denotation.

(* Flags set by or inside a group that has content do not leak: the transpiler's flag state,
   the Elk denotation's flag state and Go's flag state after the emitted group are what they
   were before the group - for every group kind, every flag change, every content. *)
Theorem C21_flag_scoping : forall orbit uni posix (s : list Z) f k b,
  snd (tr f (RGroup k (Some b))) = f
  /\ snd (me orbit uni posix s f (RGroup k (Some b))) = f
  /\ forall g, snd (m2 orbit uni posix s g (fst (tr f (RGroup k (Some b))))) = g.
Proof. exact flag_scoping. Qed.
Print Assumptions C21_flag_scoping.

(* ... while inside the group the content runs under the changed flags, and a flag group
   without content changes the flags of what follows it in the same group. *)
Theorem C21_flag_groups : forall orbit uni posix (s : list Z) f st un b rest X,
  fst (me orbit uni posix s f (RConcat [RGroup (GFlags st un) (Some b); rest])) X
    = fst (me orbit uni posix s f rest) (fst (me orbit uni posix s (apply_flags f st un) b) X)
  /\ fst (me orbit uni posix s f (RConcat [RGroup (GFlags st un) None; rest])) X
    = fst (me orbit uni posix s (apply_flags f st un) rest) X.
Proof. intros. split; [apply flag_group_denotation|apply flag_only_denotation]. Qed.
Print Assumptions C21_flag_groups.

(* r1 + r2 (value/regex.go ConcatVal compiles "(?f1:src1)(?f2:src2)" with no flags): the
   composed tree denotes the composition, each side under its own flags. *)
Theorem C21_concat : forall orbit uni posix (s : list Z) f1 a1 f2 a2 X,
  fst (me orbit uni posix s no_flags (concat_tree f1 a1 f2 a2)) X
  = fst (me orbit uni posix s f2 a2) (fst (me orbit uni posix s f1 a1) X).
Proof. exact concat_denotation. Qed.
Print Assumptions C21_concat.

(* r * n for n >= 0 (RepeatVal compiles "(?:src){n}" under r's flags): n-fold iteration. *)
Theorem C21_repeat : forall orbit uni posix (s : list Z) f a n X,
  fst (me orbit uni posix s f (repeat_tree a n)) X = titer (count n) (fst (me orbit uni posix s f a)) X.
Proof. exact repeat_denotation. Qed.
Print Assumptions C21_repeat.

(* Composition TERMS (third pass).  A term (Model/C21_Compose.v) is built from leaves - regex
   literals, each with its own flag set and syntax tree - with `+` and `* n` in any nesting;
   cden is its denotation, defined on the term from the leaf denotations alone (leaf: me under the
   leaf's flags; `+`: composition; `* n`: n-fold iteration).  ctree t is the regex VALUE the
   implementation is to build for the term, step by step as value/regex.go does: every `+`
   compiles "(?f1:src1)(?f2:src2)" with no flags, every `* n` compiles "(?:src){n}" under the
   receiver's flags, the sources being those of the values built so far.  For every term that
   value denotes the composition of the leaf denotations: induction on the term with C21_concat /
   C21_repeat as the two steps.  (`(%/x/ + %/y/) * 2` denotes (x;y)^2 - accepts "xyxy", not "xyy".) *)
Theorem C21_compose_sound : forall orbit uni posix (s : list Z) t X,
  fst (me orbit uni posix s (fst (ctree t)) (snd (ctree t))) X = cden orbit uni posix s t X.
Proof. exact compose_sound. Qed.
Print Assumptions C21_compose_sound.

(* The denotation of a term does not depend on HOW the sources are wrapped: whatever functions
   build the value of `+` (catw) and of `*` (repw) - with or without redundant groups, with the
   flags pushed into groups or carried by the value - if ONE step of each has the denotation of
   C21_concat / C21_repeat, every nesting of them has the denotation cden.  (A wrapper that is
   right on single literals only, like "skip the (?:..) when the source starts with `(` and ends
   with `)`", fails the one-step hypothesis on sources such as `(?:x)(?:y)`.) *)
Theorem C21_compose_any_wrapping : forall orbit uni posix (s : list Z)
    (catw : flags -> re -> flags -> re -> flags * re) (repw : flags -> re -> list Z -> flags * re),
  (forall f1 a1 f2 a2 X,
     fst (me orbit uni posix s (fst (catw f1 a1 f2 a2)) (snd (catw f1 a1 f2 a2))) X
     = fst (me orbit uni posix s f2 a2) (fst (me orbit uni posix s f1 a1) X)) ->
  (forall f a n X,
     fst (me orbit uni posix s (fst (repw f a n)) (snd (repw f a n))) X
     = titer (count n) (fst (me orbit uni posix s f a)) X) ->
  forall t X,
    fst (me orbit uni posix s (fst (ctree_with catw repw t)) (snd (ctree_with catw repw t))) X
    = cden orbit uni posix s t X.
Proof. exact compose_with_sound. Qed.
Print Assumptions C21_compose_any_wrapping.

(* ... and through the transpiler (C21_transpile_sound on the composed value): when no leaf
   brings extended mode in and the transpiler reports no failure, the Go matcher compiled for the
   composed value accepts exactly the subjects the TERM denotes; the value carries the flags
   cflags t (none after `+`, the receiver's after `*`). *)
Theorem C21_compose_transpile_sound : forall orbit uni posix (s : list Z) t,
  fx (fst (ctree t)) = false -> sets_x (snd (ctree t)) = false ->
  transpile_text (fst (ctree t)) (snd (ctree t)) <> None ->
  matches_re2 orbit uni posix s (transpile (fst (ctree t)) (snd (ctree t))) = cmatches orbit uni posix s t
  /\ fst (ctree t) = cflags t.
Proof. intros. split; [apply compose_transpile_sound; assumption|apply ctree_flags]. Qed.
Print Assumptions C21_compose_transpile_sound.

(* (%/x/ + %/y/i) * 2: the value is "(?:(?:x)(?i:y)){2}" and the term accepts xyxy, xYxy but not
   xyy; the tree of "(?:x)(?i:y){2}" (the quantifier bound to the LAST group only) accepts xyy and
   rejects xyxy, so the two are told apart by the subjects the stream draws. *)
Example C21_compose_nonvacuous :
  let none := fun (_ : list Z) (_ : Z) => false in
  let orbit := fun c => if c =? 121 then [89] else if c =? 89 then [121] else [] in
  let fi_only := mkFlags true false false false false false in
  let t := CRep (CCat (CLeaf no_flags (RAtom (AChar 120))) (CLeaf fi_only (RAtom (AChar 121)))) [50] in
  let wrong := RConcat [RGroup GNonCapture (Some (RAtom (AChar 120)));
                        RQuant (QN [50]) false (RGroup (GFlags fi_only no_flags) (Some (RAtom (AChar 121))))] in
  transpile_text (fst (ctree t)) (snd (ctree t)) = Some (str "(?:(?:x)(?i:y)){2}"%string) /\
  cmatches orbit none none (str "xyxy"%string) t = true /\
  cmatches orbit none none (str "xYxy"%string) t = true /\
  cmatches orbit none none (str "xyy"%string) t = false /\
  matches_re2 orbit none none (str "xyxy"%string) (transpile (fst (ctree t)) (snd (ctree t))) = true /\
  matches_re2 orbit none none (str "xyy"%string) (transpile (fst (ctree t)) (snd (ctree t))) = false /\
  transpile_text no_flags wrong = Some (str "(?:x)(?i:y){2}"%string) /\
  matches_elk orbit none none (str "xyy"%string) no_flags wrong = true /\
  matches_elk orbit none none (str "xyxy"%string) no_flags wrong = false.
Proof. vm_compute. repeat split; reflexivity. Qed.

(* Extended mode (x) is defined on the source: comments and whitespace are removed before
   parsing.  The faithful model violates this: `a # x|y\nb` with flag x is parsed (by the model of
   the regex parser, Model/C03_RegexFront.v) into a union whose right side starts INSIDE the
   comment, and is transpiled to `a|yb`; the stripped source `ab` does not match "a", the
   emitted regex does.  (Known finding extended:comment-contains-pipe.) *)
Definition src_x : list Z := [97; 32; 35; 32; 120; 124; 121; 10; 98].      (* a # x|y\nb *)
Definition src_stripped : list Z := [97; 98].                               (* ab *)
Definition fx_only : flags := mkFlags false false false false true false.
Theorem C21_extended_refuted : exists a a' subj,
  regex_front true (enough src_x) src_x = ROk a /\
  regex_front true (enough src_stripped) src_stripped = ROk a' /\
  transpile_text fx_only a = Some [97; 124; 121; 98] /\
  matches_re2 (fun _ => []) (fun _ _ => false) (fun _ _ => false) subj (transpile fx_only a)
  <> matches_elk (fun _ => []) (fun _ _ => false) (fun _ _ => false) subj no_flags a'.
Proof.
  eexists _, _, [97]. split; [vm_compute; reflexivity|]. split; [vm_compute; reflexivity|].
  split; [vm_compute; reflexivity|]. vm_compute. discriminate.
Qed.
Print Assumptions C21_extended_refuted.

(* What holds instead, with the finding's class excluded: on every tree that has no `#`
   character node outside character classes (no comments at all - the class of the finding is
   "a comment whose text is not plain characters") and no flag group mentioning x, what
   regex.Transpile emits under x is exactly what it emits without x for the tree with the
   whitespace character nodes removed (strip_ws) - same text, same failures.  Together with
   C21_transpile_sound (applied to the stripped tree) this gives the meaning of x on comment-free
   patterns.  That the parser commutes with removing whitespace from the SOURCE is not proved
   (tested by the direct oracle of stream c21.text). *)
Theorem C21_extended_partial : forall f a,
  fx f = false -> mentions_x a = false -> has_hash a = false ->
  transpile_text (set_x f true) a = transpile_text f (strip_ws a).
Proof. exact extended_text. Qed.
Print Assumptions C21_extended_partial.

Example C21_extended_nonvacuous :
  match regex_front true 200 (str "a (?i: b | c )+"%string) with
  | ROk a => mentions_x a = false /\ has_hash a = false /\
             transpile_text fx_only a = Some (str "a(?i:b|c)+"%string) /\
             transpile_text no_flags (strip_ws a) = Some (str "a(?i:b|c)+"%string)
  | _ => False
  end.
Proof. vm_compute. repeat split; reflexivity. Qed.

(* The same with inline flag groups (second pass).  x can be switched by the text itself: a bare
   `(?x)` / `(?-x)` changes how the REST of the enclosing group is read, `(?x:..)` / `(?-x:..)` how
   their content is read, in any nesting, with the x flag of the literal on or off.  strip_x f a
   (Model/C21_RegexExt.v, written without reference to the transpiler) threads that x state
   through the tree, removes the whitespace character nodes exactly where x is on and erases x
   from every flag group; comment_free f a says that no `#` character node stands where x is on
   (a `#` where the text has switched x OFF is allowed: it is a literal, e.g. `a(?-x)#b` under x).
   On every such tree regex.Transpile emits exactly the text (and failures) of the stripped,
   x-free tree under the flags without x; in particular whitespace and `#` after `(?-x)` are kept
   and whitespace after `(?x)` is dropped. *)
Theorem C21_extended_flags_partial : forall f a,
  comment_free f a = true ->
  transpile_text f a = transpile_text (erase_x f) (strip_x f a).
Proof. exact extended_flags_text. Qed.
Print Assumptions C21_extended_flags_partial.

(* ... and the stripped tree is inside the scope of C21_transpile_sound (no flag group of it
   mentions x), so its emitted term matches exactly the subjects the stripped tree denotes. *)
Theorem C21_extended_flags_sound : forall orbit uni posix (s : list Z) f a,
  comment_free f a = true -> transpile_text f a <> None ->
  transpile_text f a = transpile_text (erase_x f) (strip_x f a)
  /\ matches_re2 orbit uni posix s (transpile (erase_x f) (strip_x f a))
     = matches_elk orbit uni posix s (erase_x f) (strip_x f a).
Proof. exact extended_flags_sound. Qed.
Print Assumptions C21_extended_flags_sound.

(* `a(?-x)#b` under x is the text a#b; `(?x) a (?-x: # b) c #` without x: whitespace dropped
   where (?x) is on, kept with the `#` inside (?-x:..), and the last `#` (x on again) is a
   comment start, so that tree is NOT comment_free *)
Example C21_extended_flags_nonvacuous :
  match regex_front true 200 (str "a(?-x)#b"%string),
        regex_front true 200 (str "(?x) a (?-x: # b) c"%string),
        regex_front true 200 (str "(?x) a (?-x: # b) c #"%string) with
  | ROk a, ROk b, ROk c =>
      comment_free fx_only a = true /\
      transpile_text fx_only a = Some (str "a#b"%string) /\
      transpile_text no_flags (strip_x fx_only a) = Some (str "a#b"%string) /\
      mentions_x (strip_x fx_only a) = false /\
      comment_free no_flags b = true /\
      transpile_text no_flags b = Some (str "a(?: # b)c"%string) /\
      transpile_text no_flags (strip_x no_flags b) = Some (str "a(?: # b)c"%string) /\
      comment_free no_flags c = false
  | _, _, _ => False
  end.
Proof. vm_compute. repeat split; reflexivity. Qed.

(* ---- non-vacuity: the model computes non-trivial things *)

(* `[a-c\W]+(?i-s:x|\d{2,})` under i: text with the leading (?i), the split class, the
   scoped flag group *)
Example C21_text_nonvacuous :
  match regex_front true 200 (str "[a-c\W]+(?i-s:x|\d{2,})"%string) with
  | ROk a => transpile_text (mkFlags true false false false false false) a
             = Some (str "(?i)(?:[a-c]|[^\p{L}\p{Mn}\p{Nd}\p{Pc}])+(?i-s:x|\p{Nd}{2,})"%string)
  | _ => False
  end.
Proof. vm_compute. reflexivity. Qed.

(* (?i)k matches U+212A KELVIN SIGN through the fold orbit, k alone does not; [\W] (fixed
   transpiler) does not match "a" *)
Example C21_match_nonvacuous :
  let orbit := fun c => if c =? 8490 then [107; 75] else if c =? 107 then [75; 8490]
                        else if c =? 75 then [107; 8490] else [] in
  let uni := fun (n : list Z) c => if list_eq_dec Z.eq_dec n N_L then in_range 97 122 c else false in
  let none := fun (_ : list Z) (_ : Z) => false in
  let fi_only := mkFlags true false false false false false in
  let notword := RClass false [CIAtom (APre true PWord)] in
  matches_elk orbit uni none [8490] fi_only (RAtom (AChar 107)) = true /\
  matches_re2 orbit uni none [8490] (transpile fi_only (RAtom (AChar 107))) = true /\
  matches_elk orbit uni none [8490] no_flags (RAtom (AChar 107)) = false /\
  matches_elk orbit uni none [97] no_flags notword = false /\
  matches_re2 orbit uni none [97] (transpile no_flags notword) = false /\
  matches_elk orbit uni none [33] no_flags notword = true /\
  matches_re2 orbit uni none [33] (transpile no_flags notword) = true /\
  transpile_text no_flags notword = Some (str "(?:[^\p{L}\p{Mn}\p{Nd}\p{Pc}])"%string).
Proof. vm_compute. repeat split; reflexivity. Qed.
