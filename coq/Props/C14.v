(* C14 — structured control flow follows its reference semantics.
   Only statements here; proofs live in Proofs/C14_Control.v and Proofs/C14_Catch.v.
   [run true] is the reference interpreter S; [run false] is S with the one deviation that
   compiler/bytecode_compiler.go compileDo has today (a catch clause that ends abruptly skips
   the finally of its own do).  Every theorem quantifies over ALL programs and ALL fuel for
   which the run terminates (run ... = Some _); C14_fuel_independent says the result is the
   same for every larger fuel. *)
From Coq Require Import ZArith List Bool.
From Elk Require Import Model.C14_Control Model.C14_Catch Proofs.C14_Control Proofs.C14_Catch.
Import ListNotations.
Open Scope Z_scope.

(* Each do-with-finally instance that is entered (DoEnter n, n unique) has its finally body
   started exactly once, whatever the exit kind of body / catch clause / enclosing constructs
   (normal, break, continue, return, throw, throw from catch); each executed `defer`
   (DeferReg n, n unique) has its closure run exactly once before the frame is left. *)
Theorem C14_finally_once : forall p f out tr,
  run true f p = Some (out, tr) ->
  forall n,
    cnt_fin n tr = cnt_enter n tr /\ (cnt_enter n tr <= 1)%nat /\
    cnt_drun n tr = cnt_reg n tr /\ (cnt_reg n tr <= 1)%nat.
Proof. exact finally_once. Qed.
Print Assumptions C14_finally_once.

(* The code as it is today violates it: the finally of instance 0 is never run when the
   catch clause throws.  Witness: do throw "s1" catch String() throw "s2" finally print 3 end *)
Definition c14_witness : prog :=
  mkProg [] (SDo (SThrow (VStr 1)) [(PStr, SThrow (VStr 2))] (Some (SPrint 3))).

Theorem C14_finally_once_refuted : exists p f out tr,
  run false f p = Some (out, tr) /\ cnt_enter 0 tr = 1%nat /\ cnt_fin 0 tr = 0%nat /\
  (exists out' tr', run true f p = Some (out', tr') /\ stdout tr' <> stdout tr).
Proof.
  exists c14_witness, 5%nat. eexists. eexists. split; [vm_compute; reflexivity|].
  split; [reflexivity|]. split; [reflexivity|].
  eexists. eexists. split; [vm_compute; reflexivity|]. vm_compute. discriminate.
Qed.
Print Assumptions C14_finally_once_refuted.

(* ... and only in that input class: a run of the deviating interpreter in which no catch
   clause of a do-with-finally ended abruptly IS a run of the reference interpreter, so the
   exactly-once property holds for it. *)
Theorem C14_finally_once_partial : forall p f out tr,
  run false f p = Some (out, tr) -> no_abrupt tr = true ->
  run true f p = Some (out, tr) /\
  forall n,
    cnt_fin n tr = cnt_enter n tr /\ (cnt_enter n tr <= 1)%nat /\
    cnt_drun n tr = cnt_reg n tr /\ (cnt_reg n tr <= 1)%nat.
Proof. exact finally_once_partial. Qed.
Print Assumptions C14_finally_once_partial.

(* On a multi-level exit the finally bodies start innermost first: reading the trace, every
   FinRun n closes the most recently entered instance whose finally has not started yet
   (bracket discipline, checked by [wb]); at the end nothing is left open. *)
Theorem C14_innermost_first : forall p f out tr,
  run true f p = Some (out, tr) -> wb [] tr = Some [].
Proof. exact innermost_first. Qed.
Print Assumptions C14_innermost_first.

(* Whenever a thrown value v reaches a do with clause patterns ps, the clause that runs is
   the first one whose pattern matches v; no clause runs iff none matches. *)
Theorem C14_catch_exact : forall p f out tr,
  run true f p = Some (out, tr) ->
  forall v ps sel, In (CatchSel v ps sel) tr ->
  match sel with
  | Some i => exists q, nth_error ps i = Some q /\ matches q v = true /\
                        forall j q', (j < i)%nat -> nth_error ps j = Some q' -> matches q' v = false
  | None => forall q, In q ps -> matches q v = false
  end.
Proof. exact catch_exact_run. Qed.
Print Assumptions C14_catch_exact.

(* the selected clause body is what executes next, with the thrown value bound; a value no
   clause matches propagates; a body that does not throw skips all clauses *)
Theorem C14_catch_runs : forall ms f cv body cs st v st1 t1,
  exec true ms f cv body st = Some (XThrow v, st1, t1) ->
  (forall i cb x2 st2 t2, first_match v cs 0 = Some (i, cb) ->
     exec true ms f v cb st1 = Some (x2, st2, t2) ->
     exec true ms (S f) cv (SDo body cs None) st =
       Some (x2, st2, t1 ++ CatchSel v (map fst cs) (Some i) :: t2)) /\
  (first_match v cs 0 = None ->
     exec true ms (S f) cv (SDo body cs None) st =
       Some (XThrow v, st1, t1 ++ [CatchSel v (map fst cs) None])).
Proof. exact catch_runs. Qed.
Print Assumptions C14_catch_runs.

(* && || ?? : the right operand is evaluated (its prints appear) iff the left value demands it *)
Theorem C14_short_circuit : forall loc a b,
  eval loc (EAnd a b) =
    (if truthy (fst (eval loc a))
     then (fst (eval loc b), snd (eval loc a) ++ snd (eval loc b))
     else (fst (eval loc a), snd (eval loc a))) /\
  eval loc (EOr a b) =
    (if truthy (fst (eval loc a))
     then (fst (eval loc a), snd (eval loc a))
     else (fst (eval loc b), snd (eval loc a) ++ snd (eval loc b))) /\
  eval loc (ECoal a b) =
    (match fst (eval loc a) with
     | VNil => (fst (eval loc b), snd (eval loc a) ++ snd (eval loc b))
     | _ => (fst (eval loc a), snd (eval loc a))
     end).
Proof. exact short_circuit. Qed.
Print Assumptions C14_short_circuit.

Theorem C14_fuel_independent : forall cf f g p r,
  (f <= g)%nat -> run cf f p = Some r -> run cf g p = Some r.
Proof. exact run_fuel_indep. Qed.
Print Assumptions C14_fuel_independent.

(* Mechanism: with nested-or-disjoint ranges registered children-first, the VM's first-match
   scan returns the innermost enclosing entry of the wanted kind (and None iff no entry covers ip). *)
Theorem C14_first_match_innermost : forall kind ip tbl e,
  laminar tbl = true -> post_order tbl = true ->
  lookup kind ip tbl = Some e ->
  In e tbl /\ e_fin e = kind /\ covers e ip = true /\
  forall e', In e' tbl -> e_fin e' = kind -> covers e' ip = true -> incl_b e e' = true.
Proof. exact first_match_innermost. Qed.
Print Assumptions C14_first_match_innermost.

Theorem C14_lookup_none : forall kind ip tbl,
  lookup kind ip tbl = None <-> (forall e, In e tbl -> e_fin e = kind -> covers e ip = false).
Proof. exact lookup_none_iff. Qed.
Print Assumptions C14_lookup_none.

(* JumpAddress + 4 is the instruction after `NIL; JUMP hi lo` exactly when the entry has that shape *)
Theorem C14_finally_entry_offsets : forall opn opj code j,
  after_nil_jump opn opj code j = Some (j + 4)%nat <->
  (nth j code (-1) = opn /\ nth (j + 1) code (-1) = opj).
Proof. exact finally_entry_offsets. Qed.
Print Assumptions C14_finally_entry_offsets.

(* ---- non-vacuity: every exit kind really occurs and the finally runs (reference) ---- *)
Definition fin_do (body : stmt) (cs : list (pat * stmt)) : stmt := SDo body cs (Some (SPrint 9)).
Definition nv_prog (inner : stmt) : prog :=
  mkProg [SSeq (SDefer (PPrint 7)) (SSeq (fin_do inner []) (SPrint 8))]
         (SSeq (SSetC 0 0)
            (SDo (SWhile (Some 1%nat) (ELt 0 2) (SSeq (SIncr 0) (SCall 0 true)))
                 [(PAny false, SPrint 5)] None)).

Example C14_exit_kinds_nonvacuous :
  (* normal, return, throw: finally 9 then defer 7 *)
  option_map (fun r => stdout (snd r)) (run true 50 (nv_prog (SPrint 1))) =
    Some [Out 1; Out 9; Out 8; Out 7; OutV VNil; Out 1; Out 9; Out 8; Out 7; OutV VNil] /\
  option_map (fun r => stdout (snd r)) (run true 50 (nv_prog (SReturn (EVal (VInt 4))))) =
    Some [Out 9; Out 7; OutV (VInt 4); Out 9; Out 7; OutV (VInt 4)] /\
  option_map (fun r => stdout (snd r)) (run true 50 (nv_prog (SThrow (VInt 4)))) =
    Some [Out 9; Out 7; Out 5] /\
  (* break / continue through two finally levels, innermost first; throw from catch *)
  option_map (fun r => stdout (snd r))
    (run true 50 (mkProg [] (SLoop (Some 1%nat)
       (SDo (SDo (SBreak (Some 1%nat)) [] (Some (SPrint 1))) [] (Some (SPrint 2)))))) =
    Some [Out 1; Out 2] /\
  option_map (fun r => stdout (snd r))
    (run true 50 (mkProg [] (SWhile (Some 1%nat) (ELt 0 2)
       (SSeq (SIncr 0) (SDo (SDo (SContinue None) [] (Some (SPrint 1))) [] (Some (SPrint 2))))))) =
    Some [Out 1; Out 2; Out 1; Out 2] /\
  run true 5 c14_witness = Some (OUncaught (VStr 2),
    [DoEnter 0; CatchSel (VStr 1) [PStr] (Some 0%nat); CatchAbrupt 0 4; FinRun 0; Out 3]) /\
  (* short circuit: right operand's print (2) absent / present *)
  eval [] (EAnd (ETag 1 (EVal VNil)) (ETag 2 (EVal (VInt 7)))) = (VNil, [Out 1]) /\
  eval [] (ECoal (ETag 1 (EVal VNil)) (ETag 2 (EVal (VInt 7)))) = (VInt 7, [Out 1; Out 2]) /\
  (* lookup on a two-level table *)
  (let tbl := [mkEntry 4 8 20 true; mkEntry 2 30 40 true] in
   table_ok tbl = true /\ lookup true 6 tbl = Some (mkEntry 4 8 20 true) /\
   lookup true 12 tbl = Some (mkEntry 2 30 40 true) /\ lookup false 6 tbl = None).
Proof. repeat split; vm_compute; reflexivity. Qed.
