(* C10 — runtime sizing parameters do not change program results.
   Only statements here; proofs live in Proofs/C10_Stack.v (and Proofs/C13_Refine.v). *)
From Elk Require Import Base.GoSem Model.C10_Stack Proofs.C10_Stack Proofs.C13_Refine.
Open Scope Z_scope.

(* growValueStack (fixed formulas) is invisible: for every state whose pointers are slot
   addresses of the current array (GInv) and EVERY address nb the allocator may return for
   the new array, the offset view (sp, fp, every saved frame pointer, the live stack
   contents, the open list, every upvalue's target, handles, output) is unchanged except for
   the doubled capacity. *)
Theorem C10_grow_invisible : forall s nb, GInv s -> abs (grow s nb) = abs_resized s.
Proof. exact grow_invisible. Qed.
Print Assumptions C10_grow_invisible.

(* The formulas of the unfixed code (offset helper computing (old - ptr)/size; upvalues
   reached through cf.upvalues / vm.upvalues instead of the open list) change the view:
   two live frames suffice. *)
Theorem C10_grow_old_refuted :
  exists s nb reach, GInv s /\ abs (grow_old s nb reach) <> abs_resized s.
Proof. exact grow_old_visible. Qed.
Print Assumptions C10_grow_old_refuted.

(* ... and an open upvalue is wrong whether it is reached zero times (not rebased), once
   (negated offset) or twice (points into the old array again). *)
Theorem C10_grow_old_upvalue_refuted :
  GInv witness_upvalue /\
  forall reach, In reach [[]; [0%nat]; [0%nat; 0%nat]] ->
    abs (grow_old witness_upvalue 50000 reach) <> abs_resized witness_upvalue.
Proof. exact grow_old_upvalue_visible. Qed.
Print Assumptions C10_grow_old_upvalue_refuted.

(* BOUNDED size/growth independence (finite statement, bound stated): two runs of the same
   program of at most BOUND = 6 operations over the 23-operation alphabet - equal once the
   growth steps are erased - from different base addresses and capacities, with growth steps
   at different places and to different new bases, produce the same reads, provided both
   satisfy the discipline D and never exceed their capacity.  The unbounded statement is NOT
   proved (only C10_grow_invisible is unbounded). *)
Theorem C10_run_indep_bounded : forall l1 l2,
  (length l1 <= BOUND)%nat -> (length l2 <= BOUND)%nat ->
  Forall (fun o => In o alphabet) l1 -> Forall (fun o => In o alphabet) l2 ->
  filter no_grow l1 = filter no_grow l2 ->
  D init_sst l1 = true -> D init_sst l2 = true ->
  fits_run (init_st 1000 4) l1 = true -> fits_run (init_st 777000 3) l2 = true ->
  out (run (init_st 1000 4) l1) = out (run (init_st 777000 3) l2).
Proof. exact run_indep_bounded. Qed.
Print Assumptions C10_run_indep_bounded.

Example C10_nonvacuous :
  GInv witness_two_frames /\
  a_frames (abs witness_two_frames) = [48; 0] /\
  a_frames (abs (grow witness_two_frames 50000)) = [48; 0] /\
  a_frames (abs (grow_old witness_two_frames 50000 [])) = [-48; 0].
Proof. split; [exact witness_two_frames_inv|]. repeat split; vm_compute; reflexivity. Qed.
