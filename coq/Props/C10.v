(* C10 — runtime sizing parameters do not change program results.
   Only statements here; proofs live in Proofs/C10_Stack.v (and Proofs/C13_Refine.v). *)
From Elk Require Import Base.GoSem Model.C10_Stack Model.C10_Resume Proofs.C10_Stack Proofs.C10_Resume Proofs.C13_Refine Proofs.C13_Sim.
Open Scope Z_scope.

(* growValueStack (fixed formulas) is invisible: for every state whose pointers are slot
   addresses of the current array (GInv) and EVERY address nb the allocator may return for
   the new array, the offset view (sp, fp, every saved frame pointer, the live stack
   contents, the open list, every upvalue's target, handles, output) is unchanged except for
   the doubled capacity. *)
Theorem C10_grow_invisible : forall s nb, GInv s -> abs (grow s nb) = abs_resized s.
Proof. exact grow_invisible. Qed.
Print Assumptions C10_grow_invisible.

(* The formulas of the unfixed code (offset helper computing (old - ptr)/size; upvalues
   reached through cf.upvalues / vm.upvalues instead of the open list) change the view:
   two live frames suffice. *)
Theorem C10_grow_old_refuted :
  exists s nb reach, GInv s /\ abs (grow_old s nb reach) <> abs_resized s.
Proof. exact grow_old_visible. Qed.
Print Assumptions C10_grow_old_refuted.

(* ... and an open upvalue is wrong whether it is reached zero times (not rebased), once
   (negated offset) or twice (points into the old array again). *)
Theorem C10_grow_old_upvalue_refuted :
  GInv witness_upvalue /\
  forall reach, In reach [[]; [0%nat]; [0%nat; 0%nat]] ->
    abs (grow_old witness_upvalue 50000 reach) <> abs_resized witness_upvalue.
Proof. exact grow_old_upvalue_visible. Qed.
Print Assumptions C10_grow_old_upvalue_refuted.

(* UNBOUNDED size/growth independence: two runs of the same program - operation sequences
   that are equal once the growth steps are erased - from ANY two base
   addresses and ANY two initial capacities, with growth steps at different places and to
   different new bases, produce the same reads, provided both satisfy the discipline D and never
   push beyond their current capacity (i.e. the runtime grew the stack in time).  Via
   C13_refines: both equal the reads of the store-semantics spec, which ignores growth. *)
Theorem C10_run_indep : forall b1 c1 b2 c2 l1 l2, 0 <= c1 -> 0 <= c2 ->
  filter no_grow l1 = filter no_grow l2 ->
  D init_sst l1 = true -> D init_sst l2 = true ->
  fits_run (init_st b1 c1) l1 = true -> fits_run (init_st b2 c2) l2 = true ->
  out (run (init_st b1 c1) l1) = out (run (init_st b2 c2) l2).
Proof. exact run_indep. Qed.
Print Assumptions C10_run_indep.

(* Outside the operation set on purpose: a raw ADDRESS of the top slot taken before a call (what caching
   `vm.spAdd(-1)` across CallMethod in opNext would do) and written through afterwards.  Without a growth in
   between the write is visible; after a reallocation it lands in the abandoned array and is LOST, while the
   same write through the re-derived stack pointer is visible - so code that caches slot addresses across a
   call makes results depend on the initial stack size.  The machine operations covered by C10_run_indep only
   address slots relative to the current sp/fp. *)
Theorem C10_stale_slot_address_refuted :
  exists s nb v, GInv s /\
    let a := sp s - W in
    abs (poke s a v) <> abs s /\
    abs (poke (grow s nb) a v) = abs (grow s nb) /\
    abs (poke (grow s nb) (sp (grow s nb) - W) v) <> abs (grow s nb).
Proof. exact stale_slot_address. Qed.
Print Assumptions C10_stale_slot_address_refuted.

(* Also outside the operation set: CallGeneratorNext restoring a suspended generator's saved frame (self,
   parameters, locals, pending temporaries) at the top of the stack.  FINITE WITNESS on the model only: when the
   destination is derived from the stack pointer AFTER a growth the view equals that of the restore without growth
   (capacity doubled); a restore that reserves the slots, grows, and then writes through the destination ADDRESS
   computed before the growth leaves the saved frame in the abandoned array - the generator's locals are lost and
   the result depends on the initial stack size.  The Go code is covered at implementation level by the
   generator-resume family of the depth sweep (stream c10.env). *)
Theorem C10_generator_resume_stale_refuted :
  exists s nb fr, GInv s /\
    abs (resume_frame (grow s nb) fr) = abs_resized (resume_frame s fr) /\
    abs (resume_frame_stale s nb fr) <> abs_resized (resume_frame s fr).
Proof. exact generator_resume_stale. Qed.
Print Assumptions C10_generator_resume_stale_refuted.

Example C10_run_indep_nonvacuous :
  let l1 := [OPush 1; OPush 2; OCapture 1; OGrow 5000; OCall 1; OPush 3; OGetUp 0; ORet; OSetUp 0 9; OGetLocal 1; OGetUp 0] in
  let l2 := [OPush 1; OPush 2; OCapture 1; OCall 1; OPush 3; OGrow 90000; OGetUp 0; ORet; OGrow 7; OSetUp 0 9; OGetLocal 1; OGetUp 0] in
  filter no_grow l1 = filter no_grow l2 /\ D init_sst l1 = true /\ D init_sst l2 = true /\
  fits_run (init_st 1000 2) l1 = true /\ fits_run (init_st 777000 3) l2 = true /\
  out (run (init_st 1000 2) l1) = [9; 3; 2] /\ out (run (init_st 777000 3) l2) = [9; 3; 2].
Proof. repeat split; vm_compute; reflexivity. Qed.

Example C10_nonvacuous :
  GInv witness_two_frames /\
  a_frames (abs witness_two_frames) = [48; 0] /\
  a_frames (abs (grow witness_two_frames 50000)) = [48; 0] /\
  a_frames (abs (grow_old witness_two_frames 50000 [])) = [-48; 0].
Proof. split; [exact witness_two_frames_inv|]. repeat split; vm_compute; reflexivity. Qed.
