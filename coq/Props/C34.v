(* C34 — the test runner runs exactly the selected cases and reports failures.
   Only statements here; proofs live in Proofs/C34_Filter.v, the model in Model/C34_Filter.v.
   glob / rematch stand for doublestar.MatchUnvalidated and Regex.MatchesString: the theorems hold
   for every pair of matchers (no law about them is assumed). *)
From Coq Require Import ZArith List Bool.
From Elk Require Import Model.C34_Filter Proofs.C34_Filter.
Import ListNotations.
Open Scope Z_scope.

(* The specification of one filter, in propositional form: a path filter is satisfied by a case in a
   matching file when it has no line, or its line lies in the case's span, or its line is the first
   line of an enclosing suite; a grep filter when the regex matches the case's full name. *)
Theorem C34_satisfies_path : forall glob rematch p l (cc : ccase),
  satisfies glob rematch (FPath p l) cc = true <->
  glob p (lfile (cloc (snd cc))) = true /\
  (l < 0 \/ lfirst (cloc (snd cc)) <= l <= llast (cloc (snd cc)) \/
   exists s, In s (fst cc) /\ l = lfirst (sloc s)).
Proof. exact satisfies_path_iff. Qed.
Print Assumptions C34_satisfies_path.

Theorem C34_satisfies_grep : forall glob rematch r (cc : ccase),
  satisfies glob rematch (FGrep r) cc = true <-> rematch r (cfull (rev (fst cc)) (snd cc)) = true.
Proof. exact satisfies_grep_iff. Qed.
Print Assumptions C34_satisfies_grep.

Theorem C34_selected : forall glob rematch fs (cc : ccase),
  selected glob rematch fs cc = true <-> forall f, In f fs -> satisfies glob rematch f cc = true.
Proof. exact selected_iff. Qed.
Print Assumptions C34_selected.

(* For every list of filters (any number, any order), every root hook set and every forest of declared
   suites/cases whose source locations are nested (wf_top), the bodies that run are, in declaration
   order, exactly the declared cases that satisfy every filter and are not stopped by a failing
   before_all / before_each hook of an enclosing suite: each of them once, nothing else. (The real
   runner shuffles the cases of a suite; read the equality as one of multisets.) *)
Theorem C34_exact : forall glob rematch fs root kids,
  forallb wf_top kids = true ->
  exec_ids (fst (run_tests glob rematch fs root kids)) =
  map (fun cc => cid (snd cc))
      (List.filter (fun cc => selected glob rematch fs cc && negb (blocked root cc)) (cases kids)).
Proof. exact exact. Qed.
Print Assumptions C34_exact.

(* ... in particular, when no before hook fails, exactly the selected cases. *)
Theorem C34_exact_nohooks : forall glob rematch fs root kids,
  forallb wf_top kids = true ->
  (forall cc, In cc (cases kids) -> blocked root cc = false) ->
  exec_ids (fst (run_tests glob rematch fs root kids)) =
  map (fun cc => cid (snd cc)) (List.filter (selected glob rematch fs) (cases kids)).
Proof. exact exact_nohooks. Qed.
Print Assumptions C34_exact_nohooks.

(* Exit status. As long as at least one declared case is selected, the exit code is 1 exactly when
   some body or hook that ran failed or errored. *)
Theorem C34_exit_partial : forall glob rematch fs root kids,
  forallb wf_top kids = true ->
  existsb (selected glob rematch fs) (cases kids) = true ->
  (snd (run_tests glob rematch fs root kids) = 1 <->
   existsb ev_bad (fst (run_tests glob rematch fs root kids)) = true).
Proof. exact exit_partial. Qed.
Print Assumptions C34_exit_partial.

(* The excluded class, exactly: when no case is selected nothing runs (so nothing fails) and the exit
   code is nevertheless 1 (the root report is SKIPPED, runTestFile demands SUCCESS). *)
Theorem C34_exit_empty_selection : forall glob rematch fs root kids,
  forallb wf_top kids = true ->
  existsb (selected glob rematch fs) (cases kids) = false ->
  run_tests glob rematch fs root kids = ([], 1).
Proof. exact exit_empty. Qed.
Print Assumptions C34_exit_empty_selection.

(* ---- witnesses *)
Definition f_t : str := [116].                       (* "t" *)
Definition n_alpha : str := [97].                    (* "a" *)
Definition n_foo : str := [105; 116; 32; 102; 111; 111].   (* "it foo" *)
Definition n_bar : str := [105; 116; 32; 98; 97; 114].     (* "it bar" *)
Definition g_foo : str := [102; 111; 111].                 (* "foo" *)
Definition no_hooks (id : Z) (n : str) (a b : Z) : sinfo := mkSuite id n (mkLoc f_t a b) None None None None.
Definition w_root : sinfo := no_hooks 0 [] 0 0.
(* line 5: describe "a";  6-8: it "foo" (passes);  9-11: it "bar" (fails);  12: end *)
Definition w_tree : list tree :=
  [TSuite (no_hooks 1 n_alpha 5 12)
     [TCase (mkCase 1 n_foo (mkLoc f_t 6 8) OPass); TCase (mkCase 2 n_bar (mkLoc f_t 9 11) OFail)]].

(* The property's exit clause is false for the code as it is: a grep that matches nothing runs
   nothing, nothing fails, and the exit code is 1. *)
Theorem C34_exit_refuted : exists fs root kids,
  forallb wf_top kids = true /\
  fst (run_tests_simple fs root kids) = [] /\ snd (run_tests_simple fs root kids) = 1.
Proof. exists [FGrep [122; 122]], w_root, w_tree. vm_compute. repeat split. Qed.
Print Assumptions C34_exit_refuted.

(* The filter combination as it was before fixes/C34-filter-combination.patch violated C34_exact:
   `--grep foo --path t:5` (line 5 = first line of suite "a") ran nothing although "a > it foo"
   satisfies both filters. *)
Theorem C34_legacy_combination_refuted : exists fs root kids,
  forallb wf_top kids = true /\
  exec_ids (fst (legacy_run_tests glob_simple substrb fs root kids)) = [] /\
  map (fun cc => cid (snd cc)) (List.filter (selected_simple fs) (cases kids)) = [1].
Proof. exists [FGrep g_foo; FPath f_t 5], w_root, w_tree. vm_compute. repeat split. Qed.
Print Assumptions C34_legacy_combination_refuted.

Example C34_nonvacuous :
  forallb wf_top w_tree = true /\
  (* suite first line + grep: one case; suite first line alone: both; case line: that case; exit codes *)
  run_tests_simple [FGrep g_foo; FPath f_t 5] w_root w_tree = ([EvCase 1 OPass], 0) /\
  run_tests_simple [FPath f_t 5; FGrep g_foo] w_root w_tree = ([EvCase 1 OPass], 0) /\
  run_tests_simple [FPath f_t 5] w_root w_tree = ([EvCase 1 OPass; EvCase 2 OFail], 1) /\
  run_tests_simple [FPath f_t 10; FPath f_t 5] w_root w_tree = ([EvCase 2 OFail], 1) /\
  run_tests_simple [FPath f_t 12] w_root w_tree = ([], 1) /\
  existsb (selected_simple [FGrep g_foo; FPath f_t 5]) (cases w_tree) = true /\
  cfull [no_hooks 3 [99] 0 0; no_hooks 2 [98] 0 0; no_hooks 1 [97] 0 0] (mkCase 1 [120] (mkLoc f_t 0 0) OPass)
    = [97; 32; 98; 32; 62; 32; 99; 32; 62; 32; 120].    (* "a b > c > x" *)
Proof. vm_compute. repeat split. Qed.
