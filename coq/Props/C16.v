(* C16 — awaiting never loses a wake-up or deadlocks the runtime.
   Only statements here; proofs live in Proofs/C16_Await.v, the model in Model/C16_Await.v.
   `reachable c s` ranges over ALL interleavings of the main thread, the c_N workers and (Fixed) the
   fallback goroutines, for any program table, any pool size and queue capacity. *)
From Coq Require Import List Arith Bool.
From Elk Require Import Model.C16_Await Proofs.C16_Await.
Import ListNotations.

(* No lost wake-up, never twice (both protocols, every N and Q): in every reachable state a started,
   unsettled task occupies exactly one place among {task queue, fallback goroutine, a continuation list,
   a worker} and any other task occupies none; a task registered as a continuation of p is never left
   behind (p is unsettled, or the worker settling p still holds p's mutex and is draining the list);
   a worker suspended inside AWAIT with p's mutex held has p still unsettled. *)
Theorem C16_no_lost_wakeup : forall c s, reachable c s ->
  (forall t, occ s t = if is_live (st_of s t) then 1 else 0) /\
  (forall p t, In t (conts_of s p) -> is_done (st_of s p) = false \/ In (WSettle p) (s_ws s)) /\
  (forall t j, In (WAwaitHold t j) (s_ws s) -> is_done (st_of s j) = false).
Proof. exact no_lost_wakeup. Qed.
Print Assumptions C16_no_lost_wakeup.

(* Resumed exactly once per suspension: the number of times a worker received task t from the queue equals
   the number of times t was suspended, plus one while t is on a worker or after it has settled; t is on at
   most one worker. *)
Theorem C16_resume_exactly_once : forall c s, reachable c s -> forall t, t < length (c_tasks c) ->
  nth t (s_takes s) 0 = nth t (s_parks s) 0 + on_worker s t + (if is_done (st_of s t) then 1 else 0) /\
  on_worker s t <= 1.
Proof. exact resume_exactly_once. Qed.
Print Assumptions C16_resume_exactly_once.

(* A promise is settled at most once (exactly once when settled). *)
Theorem C16_settle_once : forall c s, reachable c s -> forall t, t < length (c_tasks c) ->
  nth t (s_settles s) 0 = (if is_done (st_of s t) then 1 else 0).
Proof. exact settle_once. Qed.
Print Assumptions C16_settle_once.

(* Progress of the FIXED protocol (fixes/C16-nonblocking-enqueue.patch), every N >= 1, Q >= 1: a reachable
   state either has a step, or the runtime is quiescent: all workers idle, queue and fallback goroutines
   empty, and the main thread finished or waiting for an unsettled promise. *)
Theorem C16_progress : forall c s,
  c_mode c = Fixed -> 1 <= c_N c -> 1 <= c_Q c -> reachable c s ->
  (exists s', step c s s') \/ quiescent c s = true.
Proof. exact progress_fixed. Qed.
Print Assumptions C16_progress.

(* ... and for well-formed programs (every body awaits only promises it started itself; task i starts only
   tasks with a larger index) quiescence means completion: the main thread has finished and no started
   task is unsettled.  Both protocols. *)
Theorem C16_quiescent_complete : forall c s,
  wf c = true -> reachable c s -> quiescent c s = true ->
  main_done c s = true /\ all_tasks_done s = true.
Proof. exact quiescent_complete. Qed.
Print Assumptions C16_quiescent_complete.

(* The protocol as found in the tree (blocking sends): progress is FALSE.  Witness: N = 1, Q = 1, a
   well-formed 4-task program; a reachable state where no step is enabled, the only worker holds promise
   1's mutex with a continuation left to send, and the queue is full. *)
Theorem C16_deadlock_refuted : exists c s,
  c_mode c = Orig /\ c_N c = 1 /\ c_Q c = 1 /\ wf c = true /\ reachable c s /\
  (forall s', ~ step c s s') /\ quiescent c s = false /\
  s_ws s = [WSettle 1] /\ conts_of s 1 = [0] /\ queue_full c s = true.
Proof. exact deadlock_witness. Qed.
Print Assumptions C16_deadlock_refuted.

(* The original protocol does make progress in every reachable state whose queue is not full. *)
Theorem C16_progress_partial : forall c s,
  1 <= c_N c -> 1 <= c_Q c -> reachable c s -> queue_full c s = false ->
  (exists s', step c s s') \/ quiescent c s = true.
Proof. exact progress_orig_partial. Qed.
Print Assumptions C16_progress_partial.

(* Conservation law of the settle step (both protocols, every enabled "send one continuation" step of the worker
   that settles p): the head continuation leaves p's list and arrives EXACTLY ONCE in {task queue, fallback
   goroutines}; nothing else moves.  (The Fixed protocol's fallback is per continuation: enq puts the very task
   whose send found the queue full into s_ovf.) *)
Theorem C16_settle_send_conserves : forall c s w p k rest s',
  nth_error (s_ws s) w = Some (WSettle p) -> conts_of s p = k :: rest ->
  step_fn c s (AWorker w) = Some s' ->
  conts_of s' p = rest /\
  (forall q, q <> p -> conts_of s' q = conts_of s q) /\
  s_ws s' = s_ws s /\ s_st s' = s_st s /\
  (forall t, cnt t (s_queue s') + cnt t (s_ovf s') = cnt t (s_queue s) + cnt t (s_ovf s) + cnt t [k]).
Proof. exact settle_send_conserves. Qed.
Print Assumptions C16_settle_send_conserves.

(* ... hence, in every reachable state: a promise whose settlement is over has no continuation left, and every
   started, unsettled task is in exactly one of {task queue, fallback goroutine, running on a worker, continuation
   list of a promise that is unsettled or still being drained}. *)
Theorem C16_settled_continuations_conserved : forall c s, reachable c s ->
  (forall p, is_done (st_of s p) = true -> ~ In (WSettle p) (s_ws s) -> conts_of s p = []) /\
  (forall t, is_live (st_of s t) = true ->
     cnt t (s_queue s) + cnt t (s_ovf s) + on_worker s t + cnt t (concat (s_conts s)) = 1).
Proof. exact settled_conts_conserved. Qed.
Print Assumptions C16_settled_continuations_conserved.

(* A design that is NOT the tree's: non-blocking sends with a BATCHED fallback that hands "the remaining"
   continuations to one goroutine starting after the one whose send failed (Model: step_fn_skip).  It loses a
   wake-up: N = 1, Q = 1, well-formed 3-task program (mid starts a leaf and a filler, awaits both); after the run
   task 0 was suspended once, resumed zero further times, its awaited promise 1 is settled, 0 is in no place at all,
   no step is enabled and the main thread is still waiting. *)
Theorem C16_skip_one_fallback_refuted : exists c sched s,
  c_N c = 1 /\ c_Q c = 1 /\ wf c = true /\ run_skip c sched (init c) = Some s /\
  is_live (st_of s 0) = true /\ occ s 0 = 0 /\
  (forall p, conts_of s p = []) /\ is_done (st_of s 1) = true /\
  nth 0 (s_parks s) 0 = 1 /\ nth 0 (s_takes s) 0 = 1 /\
  enabled_skip c s = [] /\ quiescent c s = true /\ main_done c s = false.
Proof. exact skip_one_witness. Qed.
Print Assumptions C16_skip_one_fallback_refuted.

Example C16_skip_schedule_fixed_nonvacuous :
  let c := skip_cfg in
  (exists s, run c skip_sched (init c) = Some s /\ occ s 0 = 1 /\ s_ovf s = [0]) /\
  let s := run_first c 200 (init c) in main_done c s = true /\ all_tasks_done s = true.
Proof. exact skip_sched_fixed_ok. Qed.

Example C16_nonvacuous :
  let c := wit_cfg Fixed in
  let s := run_first c 200 (init c) in
  main_done c s = true /\ all_tasks_done s = true /\ quiescent c s = true /\
  s_takes s = [2; 1; 1; 1] /\ s_parks s = [1; 0; 0; 0] /\ s_settles s = [1; 1; 1; 1].
Proof. exact fixed_witness_runs. Qed.
