(* C19 — inspect output is Elk source that evaluates back to an equal value.
   Only statements here; proofs live in Proofs/C19_Inspect.v, Proofs/C19_Int.v and Proofs/C19_Literal.v.
   `inspect_string` / `inspect_char` mirror String.Inspect / Char.Inspect AS FIXED by
   fixes/C19-inspect-escapes.patch; `inspect_string_old` / `inspect_char_old` mirror the
   unfixed functions and carry the _refuted witnesses.  is_graphic / is_letter stand for
   unicode.IsGraphic / unicode.IsLetter and are universally quantified. *)
From Coq Require Import ZArith List.
From Elk Require Import Base.Utf8 Model.C19_Inspect Proofs.C19_Inspect Proofs.C19_Int Model.C19_Literal Proofs.C19_Literal.
Open Scope Z_scope.

(* Every byte string (valid UTF-8 or not) printed by String.Inspect is one plain string
   literal - no interpolation, no lexing error, nothing left over - whose content is exactly
   the original bytes. *)
Theorem C19_string_rt : forall (is_graphic is_letter : Z -> bool) (s : list Z),
  Forall (fun b => 0 <= b < 256) s ->
  lex_string_body is_letter (inspect_string is_graphic s) = Some s.
Proof. exact string_roundtrip. Qed.
Print Assumptions C19_string_rt.

(* Every Unicode scalar value printed by Char.Inspect is one char literal denoting it. *)
Theorem C19_char_rt : forall (is_graphic : Z -> bool) (c : Z),
  valid_rune c = true -> lex_char_body (inspect_char is_graphic c) = Some c.
Proof. intros ig c. exact (char_roundtrip ig (fun _ => false) c). Qed.
Print Assumptions C19_char_rt.

(* Every integer printed in decimal (SmallInt.Inspect / BigInt.Inspect) is read back by
   numberLiteral + ParseBigInt(lexeme, 0) (+ unary minus) as the same integer. *)
Theorem C19_int_rt : forall z : Z, eval_int_source (print_int z) = Some z.
Proof. exact int_roundtrip. Qed.
Print Assumptions C19_int_rt.

(* The unfixed String.Inspect loses information for every IsGraphic: either the valid
   string C2 80 or the invalid one-byte string 80 is read back as a different string. *)
Theorem C19_string_old_refuted : forall (is_graphic is_letter : Z -> bool),
  exists s, Forall (fun b => 0 <= b < 256) s /\
            lex_string_body is_letter (inspect_string_old is_graphic s) <> Some s.
Proof. exact string_old_refuted. Qed.
Print Assumptions C19_string_old_refuted.

(* The unfixed Char.Inspect: U+0080 (not graphic in Go's tables) is printed `\x80`, which the
   lexer turns into the byte 80 and the parser decodes as U+FFFD. *)
Theorem C19_char_old_refuted : forall (is_graphic : Z -> bool),
  is_graphic 128 = false ->
  exists c, valid_rune c = true /\ lex_char_body (inspect_char_old is_graphic c) <> Some c.
Proof. exact char_old_refuted. Qed.
Print Assumptions C19_char_old_refuted.

Example C19_nonvacuous :
  let ig := fun r => in_rng 32 126 r || in_rng 161 55295 r in
  let il := fun r => in_rng 65 90 r || in_rng 97 122 r in
  inspect_string ig [97; 36; 194; 128; 128; 10] = [34; 97; 92; 36; 92; 117; 48; 48; 56; 48; 92; 120; 56; 48; 92; 110; 34] /\
  lex_string_body il [34; 36; 97; 34] = None /\
  lex_string_body il (inspect_string_old ig [194; 128]) = Some [128] /\
  lex_char_body (inspect_char_old ig 128) = Some 65533 /\
  print_int (-1203) = [45; 49; 50; 48; 51] /\
  eval_int_literal [48; 120; 95; 70; 102] = Some 255.
Proof. repeat split; vm_compute; reflexivity. Qed.

(* ---------- the LITERAL direction: "integer literals in every supported base and
   String#to_int denote exactly the written value" (Model/C19_Literal.v) ----------
   A numeral as written is a list of digits ws : list wdigit, each with an optional `_` in front,
   a letter case and a value; render_digits ws is its text, digits_value b ws 0 its positional
   value sum(d_i * b^i).  Leading zeros are ordinary digits. *)

(* Every integer literal the lexer accepts - base 10 without prefix (leading zeros included: NOT
   octal), bases 2 4 8 12 16 with prefix 0b 0q 0o 0d 0x in either case, `_` separators, any of
   the suffixes i8 i16 i32 i64 u8 u16 u32 u64 u, optional unary + or - in front of a signed kind -
   is lexed as ONE token of that kind (numberLiteral) whose evaluation (ParseBigInt /
   StrictParseInt / StrictParseUint with their machine-word overflow tests) yields exactly the
   written value; it is rejected iff the value does not fit the suffix's width. *)
Theorem C19_literal_value : forall (k : itok) (b : Z) (up : bool) (sg : option bool) (ws : list wdigit),
  lexer_base b -> ws <> nil -> Forall (wd_ok b) ws -> (b = 10 -> first_plain ws) ->
  (sg <> None -> tok_signed k = true) ->
  eval_literal (sign_str sg ++ base_prefix up b ++ render_digits ws ++ tok_suffix k) =
  if in_bound k (digits_value b ws 0) then Some (k, sign_apply sg (digits_value b ws 0)) else None.
Proof. exact literal_value. Qed.
Print Assumptions C19_literal_value.

(* String#to_int(b) for every explicit base 2..36: digits in either case, `_` anywhere, leading
   zeros, optional sign - exactly the written value. *)
Theorem C19_to_int : forall (b : Z) (sg : option bool) (ws : list wdigit),
  2 <= b <= 36 -> ws <> nil -> Forall (wd_ok b) ws ->
  to_int (sign_str sg ++ render_digits ws) b = Some (sign_apply sg (digits_value b ws 0)).
Proof. exact to_int_explicit. Qed.
Print Assumptions C19_to_int.

(* String#to_int without a base (base 0): a prefixed numeral is read in the prefix's base ... *)
Theorem C19_to_int_base0_prefixed : forall (b : Z) (up : bool) (sg : option bool) (ws : list wdigit),
  prefixed_base b -> ws <> nil -> Forall (wd_ok b) ws ->
  to_int (sign_str sg ++ base_prefix up b ++ render_digits ws) 0 = Some (sign_apply sg (digits_value b ws 0)).
Proof. exact to_int_prefixed. Qed.
Print Assumptions C19_to_int_base0_prefixed.

(* ... and an unprefixed one in DECIMAL, whatever its leading zeros ("010" is ten). *)
Theorem C19_to_int_base0_decimal : forall (sg : option bool) (ws : list wdigit),
  ws <> nil -> Forall (wd_ok 10) ws ->
  to_int (sign_str sg ++ render_digits ws) 0 = Some (sign_apply sg (digits_value 10 ws 0)).
Proof. exact to_int_decimal0. Qed.
Print Assumptions C19_to_int_base0_decimal.

(* Never a mis-parse: a character that is neither `_` nor a digit of the base, anywhere in the
   string (the first character not being a sign), makes to_int fail (FormatError). *)
Theorem C19_to_int_invalid : forall (b : Z) (sg : option bool) (l1 : list Z) (c : Z) (l2 : list Z),
  2 <= b <= 36 -> hd 0 (l1 ++ c :: nil) <> 43 -> hd 0 (l1 ++ c :: nil) <> 45 -> bad_digit b c ->
  to_int (sign_str sg ++ l1 ++ c :: l2) b = None.
Proof. exact to_int_invalid. Qed.
Print Assumptions C19_to_int_invalid.

Example C19_literal_nonvacuous :
  (* 0_644 is six hundred forty-four; 010 is ten; -0100 is minus one hundred *)
  eval_literal (48 :: 95 :: 54 :: 52 :: 52 :: nil) = Some (TInt, 644) /\
  render_digits ((false, false, 0) :: (true, false, 6) :: (false, false, 4) :: (false, false, 4) :: nil) = 48 :: 95 :: 54 :: 52 :: 52 :: nil /\
  digits_value 10 ((false, false, 0) :: (true, false, 6) :: (false, false, 4) :: (false, false, 4) :: nil) 0 = 644 /\
  eval_literal (48 :: 49 :: 48 :: nil) = Some (TInt, 10) /\
  eval_literal (45 :: 48 :: 49 :: 48 :: 48 :: nil) = Some (TInt, -100) /\
  (* 0XfFu8 = 255u8, 0x100u8 and 128i8 are rejected, 0d1bi8 = 23i8 *)
  eval_literal (48 :: 88 :: 102 :: 70 :: 117 :: 56 :: nil) = Some (TU8, 255) /\
  eval_literal (48 :: 120 :: 49 :: 48 :: 48 :: 117 :: 56 :: nil) = None /\
  eval_literal (49 :: 50 :: 56 :: 105 :: 56 :: nil) = None /\
  eval_literal (48 :: 100 :: 49 :: 98 :: 105 :: 56 :: nil) = Some (TI8, 23) /\
  (* "010".to_int = 10, "0o17".to_int = 15, "zZ".to_int(36) = 1295, "0b1".to_int(16) = 177, "9".to_int(8) fails *)
  to_int (48 :: 49 :: 48 :: nil) 0 = Some 10 /\
  to_int (48 :: 111 :: 49 :: 55 :: nil) 0 = Some 15 /\
  to_int (122 :: 90 :: nil) 36 = Some 1295 /\
  to_int (48 :: 98 :: 49 :: nil) 16 = Some 177 /\
  to_int (57 :: nil) 8 = None /\
  bad_digit 8 57.
Proof. repeat split; try (vm_compute; reflexivity); try discriminate. Qed.
