(* C19 — inspect output is Elk source that evaluates back to an equal value.
   Only statements here; proofs live in Proofs/C19_Inspect.v and Proofs/C19_Int.v.
   `inspect_string` / `inspect_char` mirror String.Inspect / Char.Inspect AS FIXED by
   fixes/C19-inspect-escapes.patch; `inspect_string_old` / `inspect_char_old` mirror the
   unfixed functions and carry the _refuted witnesses.  is_graphic / is_letter stand for
   unicode.IsGraphic / unicode.IsLetter and are universally quantified. *)
From Elk Require Import Base.Utf8 Model.C19_Inspect Proofs.C19_Inspect Proofs.C19_Int.
Open Scope Z_scope.

(* Every byte string (valid UTF-8 or not) printed by String.Inspect is one plain string
   literal - no interpolation, no lexing error, nothing left over - whose content is exactly
   the original bytes. *)
Theorem C19_string_rt : forall (is_graphic is_letter : Z -> bool) (s : list Z),
  Forall (fun b => 0 <= b < 256) s ->
  lex_string_body is_letter (inspect_string is_graphic s) = Some s.
Proof. exact string_roundtrip. Qed.
Print Assumptions C19_string_rt.

(* Every Unicode scalar value printed by Char.Inspect is one char literal denoting it. *)
Theorem C19_char_rt : forall (is_graphic : Z -> bool) (c : Z),
  valid_rune c = true -> lex_char_body (inspect_char is_graphic c) = Some c.
Proof. intros ig c. exact (char_roundtrip ig (fun _ => false) c). Qed.
Print Assumptions C19_char_rt.

(* Every integer printed in decimal (SmallInt.Inspect / BigInt.Inspect) is read back by
   numberLiteral + ParseBigInt(lexeme, 0) (+ unary minus) as the same integer. *)
Theorem C19_int_rt : forall z : Z, eval_int_source (print_int z) = Some z.
Proof. exact int_roundtrip. Qed.
Print Assumptions C19_int_rt.

(* The unfixed String.Inspect loses information for every IsGraphic: either the valid
   string C2 80 or the invalid one-byte string 80 is read back as a different string. *)
Theorem C19_string_old_refuted : forall (is_graphic is_letter : Z -> bool),
  exists s, Forall (fun b => 0 <= b < 256) s /\
            lex_string_body is_letter (inspect_string_old is_graphic s) <> Some s.
Proof. exact string_old_refuted. Qed.
Print Assumptions C19_string_old_refuted.

(* The unfixed Char.Inspect: U+0080 (not graphic in Go's tables) is printed `\x80`, which the
   lexer turns into the byte 80 and the parser decodes as U+FFFD. *)
Theorem C19_char_old_refuted : forall (is_graphic : Z -> bool),
  is_graphic 128 = false ->
  exists c, valid_rune c = true /\ lex_char_body (inspect_char_old is_graphic c) <> Some c.
Proof. exact char_old_refuted. Qed.
Print Assumptions C19_char_old_refuted.

Example C19_nonvacuous :
  let ig := fun r => in_rng 32 126 r || in_rng 161 55295 r in
  let il := fun r => in_rng 65 90 r || in_rng 97 122 r in
  inspect_string ig [97; 36; 194; 128; 128; 10] = [34; 97; 92; 36; 92; 117; 48; 48; 56; 48; 92; 120; 56; 48; 92; 110; 34] /\
  lex_string_body il [34; 36; 97; 34] = None /\
  lex_string_body il (inspect_string_old ig [194; 128]) = Some [128] /\
  lex_char_body (inspect_char_old ig 128) = Some 65533 /\
  print_int (-1203) = [45; 49; 50; 48; 51] /\
  eval_int_literal [48; 120; 95; 70; 102] = Some 255.
Proof. repeat split; vm_compute; reflexivity. Qed.
