(* C15 — generators and async functions preserve the semantics of their body.
   Only statements here; the models are Model/C15_Gen.v (reference interpreter S = [exec]/[plain], the
   resumable machine behind `next`, the async wrapping) and Model/C15_GenState.v (suspend/resume of the
   frame slice on a thread's value stack); proofs in Proofs/C15_Gen.v, Proofs/C15_GenState.v; the
   settle-once statement is the one proved for the promise protocol in Proofs/C16_Await.v. *)
From Coq Require Import ZArith List Bool Arith.
From Elk Require Import Model.C15_Gen Proofs.C15_Gen Model.C15_GenState Proofs.C15_GenState.
From Elk Require Model.C16_Await Proofs.C16_Await.
Import ListNotations.
Open Scope nat_scope.

(* Wrapping a body WITHOUT yields: whatever S says the plain call produces (value or thrown error), the
   generator wrapping delivers through its single successful/failing `next` and then signals stop
   (for-in sees [v], or the error), and awaiting the async wrapping gives the same outcome.
   All bodies, all arguments, all sufficient fuel. *)
Theorem C15_wrap_equiv : forall f args fuel ys out,
  no_yield (body f) = true ->
  plain fuel f args = Some (ys, out) ->
  ys = [] /\
  exists F0, forall F, F0 <= F ->
    (forall R, 2 <= R -> forin R F (gen_init f args) = Some (forin_expect [] out)) /\
    (forall n, drive (1 + n) F (gen_init f args) = Some (gres_of out :: repeat GStop n)) /\
    await_async F f args = Some out.
Proof. exact wrap_equiv. Qed.
Print Assumptions C15_wrap_equiv.

(* A generator yields exactly the values the body yields, in order (one per `next`), then delivers the
   body's outcome (result or error), then signals stop on every further `next`. *)
Theorem C15_yield_sequence : forall f args fuel ys out,
  plain fuel f args = Some (ys, out) ->
  exists F0, forall F, F0 <= F -> forall n,
    drive (length ys + 1 + n) F (gen_init f args)
    = Some (map GYield ys ++ [gres_of out] ++ repeat GStop n).
Proof. exact yield_sequence. Qed.
Print Assumptions C15_yield_sequence.

(* What `for x in gen` collects: the yields followed by the result; or the yields, then the error escapes. *)
Theorem C15_forin_collects : forall f args fuel ys out,
  plain fuel f args = Some (ys, out) ->
  exists F0, forall F, F0 <= F -> forall R, length ys + 2 <= R ->
    forin R F (gen_init f args) = Some (forin_expect ys out).
Proof. exact forin_collects. Qed.
Print Assumptions C15_forin_collects.

(* After an error escaped the body, every further `next` signals stop. *)
Theorem C15_error_then_stop : forall f args fuel ys t,
  plain fuel f args = Some (ys, OThr t) ->
  exists F0, forall F, F0 <= F -> forall n,
    drive (length ys + 1 + n) F (gen_init f args)
    = Some (map GYield ys ++ [GError t] ++ repeat GStop n).
Proof. exact error_then_stop. Qed.
Print Assumptions C15_error_then_stop.

(* S itself does not depend on the fuel once it is sufficient. *)
Theorem C15_plain_fuel_independent : forall f args fuel fuel' r,
  plain fuel f args = Some r -> fuel <= fuel' -> plain fuel' f args = Some r.
Proof. exact plain_fuel_independent. Qed.
Print Assumptions C15_plain_fuel_independent.

(* Mechanism: suspend (generator: stack[fp:sp-1]; async: stack[fp:sp]) then resume on ANY thread — the
   frame slice (locals and operand temporaries), ip and sp-fp are back, every local reads as before, the
   new caller's stack is untouched below fp. *)
Theorem C15_save_restore_id : forall whole np t g t1,
  Inv whole t -> suspend whole np t = Some (g, t1) ->
  forall t2,
    let t3 := resume g t2 in
    skipn (fp t3) (stack t3) = (if whole then skipn (fp t) (stack t) else removelast (skipn (fp t) (stack t))) /\
    ip t3 = ip t /\
    length (stack t3) - fp t3 = length (stack t) - fp t - (if whole then 0 else 1) /\
    (forall i, i < length (stack t) - fp t - (if whole then 0 else 1) -> local i t3 = local i t) /\
    firstn (fp t3) (stack t3) = stack t2 /\
    frames t3 = mkCF (fp t2) (ip t2) (lc t2) :: frames t2.
Proof. exact save_restore_id. Qed.
Print Assumptions C15_save_restore_id.

(* The suspending caller gets its stack back with the yielded value on top, and its registers. *)
Theorem C15_suspend_caller : forall whole np t g t1 cf rest,
  frames t = cf :: rest -> suspend whole np t = Some (g, t1) ->
  stack t1 = firstn (fp t) (stack t) ++ [last (stack t) 0%Z] /\
  fp t1 = cf_fp cf /\ ip t1 = cf_ip cf /\ lc t1 = cf_lc cf /\ frames t1 = rest.
Proof. exact suspend_caller. Qed.
Print Assumptions C15_suspend_caller.

(* Resume followed at once by a suspension leaves the generator object unchanged. *)
Theorem C15_resume_suspend_id : forall g t2,
  fst (match suspend true (g_np g) (resume g t2) with Some p => p | None => (g, t2) end) = g.
Proof. exact resume_suspend_id. Qed.
Print Assumptions C15_resume_suspend_id.

(* The faithful mechanism does NOT preserve the link between a captured local and its closure:
   restoreLastFrame closes the frame's open upvalues at suspension and resume never re-opens them.
   Witness: local 1 (= 5) captured by upvalue 0; suspend, resume, the body writes 6; the closure still
   reads 5.  Replayed on the implementation this is the finding `suspend:closure-captured-local-diverges`. *)
Theorem C15_capture_coherent_refuted :
  Inv false wit /\ coherent wit 0 1 /\
  exists t', wit_roundtrip = Some t' /\ local 1 t' = 6%Z /\ read_uv t' 0 = Some 5%Z /\ ~ coherent t' 0 1.
Proof. exact capture_split_witness. Qed.
Print Assumptions C15_capture_coherent_refuted.

(* ... restricted to frames none of whose locals is captured by an open upvalue, suspension leaves every
   upvalue exactly as it was. *)
Theorem C15_capture_coherent_partial : forall whole np t g t1,
  no_frame_capture t -> suspend whole np t = Some (g, t1) ->
  open_uv t1 = open_uv t /\ closed_uv t1 = closed_uv t.
Proof. exact suspend_keeps_upvalues. Qed.
Print Assumptions C15_capture_coherent_partial.

(* The value stack is an ARRAY that is reallocated (capacity doubled, contents copied, old array abandoned)
   when more than 70 % of it is in use; a resume may be the operation that makes it grow.  Whatever the growth
   policy of the resume prologue decides (never = the code as it is, [needs_grow] = the 70 % rule, always),
   for EVERY capacity, stack level and saved frame that fits: pushing the frame at a destination computed in
   the array that is live AFTER the growth gives the old live stack followed by the saved frame slice, i.e.
   exactly the list-level [resume] of the theorems above (so depth and reallocation do not matter). *)
Theorem C15_resume_after_grow : forall policy g a,
  a_sp a + length (g_stack g) <= length (a_arr a) ->
  let a' := resume_arr policy g a in
  live a' = live a ++ g_stack g /\
  a_sp a' = a_sp a + length (g_stack g) /\
  skipn (a_sp a) (live a') = g_stack g /\
  firstn (a_sp a) (live a') = live a /\
  length (a_arr a') = (if policy (a_sp a + length (g_stack g)) (length (a_arr a)) then 2 * length (a_arr a) else length (a_arr a)).
Proof. exact resume_after_grow. Qed.
Print Assumptions C15_resume_after_grow.

Theorem C15_resume_arr_refines : forall policy g a t,
  a_sp a + length (g_stack g) <= length (a_arr a) ->
  stack t = live a -> stack (resume g t) = live (resume_arr policy g a).
Proof. exact resume_arr_refines. Qed.
Print Assumptions C15_resume_arr_refines.

(* A prologue that takes the destination slice BEFORE the growth check and copies through it afterwards writes
   the frame into the abandoned array: witness with capacity 10, sp = 7, frame [100; 5] (9 > 0.7 * 10): the
   resumed body sees the stale slots [0; 0].  Not the code of /repo (its prologue has no growth check); this is
   the class of defect the depth sweep of stream c15.wrap looks for. *)
Theorem C15_resume_before_grow_refuted :
  a_sp wit_arr + length (g_stack wit_gen) <= length (a_arr wit_arr) /\
  needs_grow (a_sp wit_arr + length (g_stack wit_gen)) (length (a_arr wit_arr)) = true /\
  live (resume_arr needs_grow wit_gen wit_arr) = [1; 2; 3; 4; 5; 6; 7; 100; 5]%Z /\
  live (resume_arr_stale needs_grow wit_gen wit_arr) = [1; 2; 3; 4; 5; 6; 7; 0; 0]%Z /\
  live (resume_arr_stale needs_grow wit_gen wit_arr) <> live wit_arr ++ g_stack wit_gen.
Proof. exact resume_before_grow_witness. Qed.
Print Assumptions C15_resume_before_grow_refuted.

(* Every promise settles exactly once, any pool size, any interleaving (C16 protocol model). *)
Theorem C15_settle_once : forall c s, C16_Await.reachable c s -> forall t, t < length (C16_Await.c_tasks c) ->
  nth t (C16_Await.s_settles s) 0 = (if C16_Await.is_done (C16_Await.st_of s t) then 1 else 0).
Proof. exact Proofs.C16_Await.settle_once. Qed.
Print Assumptions C15_settle_once.

(* Non-vacuity: the models compute something. sample(4): p = h0(4) = 5; yields 5, 0, 10, 20 while bumping p
   through a closure (5+0+1+2 = 8); result h1(8, 4) = 13.  sample(-1) yields 0, 0, 10, 20 and throws tag 2. *)
Example C15_nonvacuous :
  plain 100 sample [4%Z] = Some ([5; 0; 10; 20]%Z, ORet 13%Z) /\
  drive 7 100 (gen_init sample [4%Z])
    = Some [GYield 5%Z; GYield 0%Z; GYield 10%Z; GYield 20%Z; GFinish 13%Z; GStop; GStop] /\
  forin 10 100 (gen_init sample [4%Z]) = Some ([5; 0; 10; 20; 13]%Z, None) /\
  plain 100 sample [(-1)%Z] = Some ([0; 0; 10; 20]%Z, OThr 2%Z) /\
  forin 10 100 (gen_init sample [(-1)%Z]) = Some ([0; 0; 10; 20]%Z, Some 2%Z) /\
  await_async 100 (mkFunc 1 (SAssign 1 (ECall 2 (EVar 0) (EConst 0%Z))) (EMul (EVar 1) (EConst 3%Z))) [(-2)%Z] = Some (OThr 0%Z) /\
  await_async 100 (mkFunc 1 (SAssign 1 (ECall 2 (EVar 0) (EConst 0%Z))) (EMul (EVar 1) (EConst 3%Z))) [7%Z] = Some (ORet 21%Z) /\
  no_frame_capture (mkT [7; 100; 5; 9]%Z 1 40 2 [mkCF 0 11 1] [(0, 0)] []).
Proof. repeat split; vm_compute; reflexivity. Qed.
