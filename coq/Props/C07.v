(* C07 — Fixed-width integers wrap modulo 2^n; floats follow IEEE-754.
   Only statements here; proofs live in Proofs/C07_Strict.v and Proofs/C07_Float.v.
   An integer type is (s, w): s = true for Int8..Int64, false for UInt8..UInt64 and UInt;
   w is the width.  `fits s w a` says a is a value of the type.  All integer theorems are
   generic in w (any 1 < w <= 64, so in particular 8, 16, 32, 64) and in the signedness. *)
From Coq Require Import Reals.
From Flocq Require Import Core IEEE754.BinarySingleNaN IEEE754.Binary IEEE754.Bits.
From Elk Require Import Base.GoSem Model.C07_Strict Proofs.C07_Strict Model.C07_Float Proofs.C07_Float.
Open Scope Z_scope.

(* + - * & | ^ &~ ** : the result is a value of the type and is congruent modulo 2^w to the
   exact integer result (exponent <= 0 gives 1). *)
Theorem C07_arith_mod : forall o s w a b,
  1 < w -> is_divmod o = false -> fits s w a = true -> fits s w b = true ->
  exists r, bin_impl o s w a b = Ok r /\ fits s w r = true /\
            exists k, r = bin_exact o a b + k * 2 ^ w.
Proof. exact arith_mod. Qed.
Print Assumptions C07_arith_mod.

(* unary - ~ ++ -- : same statement *)
Theorem C07_unary_mod : forall o s w a, 0 < w ->
  fits s w (un_impl o s w a) = true /\ exists k, un_impl o s w a = un_exact o a + k * 2 ^ w.
Proof. exact unary_mod. Qed.
Print Assumptions C07_unary_mod.

(* / is truncated division; the quotient is a value of the type except for the single case
   MinInt / -1 of a signed type, which wraps to MinInt. *)
Theorem C07_div_trunc : forall s w a b,
  0 < w -> fits s w a = true -> fits s w b = true -> b <> 0 ->
  idiv s w a b = Ok (if div_overflows s w a b then a else Z.quot a b) /\
  (div_overflows s w a b = false -> fits s w (Z.quot a b) = true).
Proof. exact idiv_spec. Qed.
Print Assumptions C07_div_trunc.

(* % is the remainder of truncated division (sign of the dividend), always in range *)
Theorem C07_mod_trunc : forall s w a b,
  0 < w -> fits s w a = true -> fits s w b = true -> b <> 0 ->
  imod s w a b = Ok (Z.rem a b) /\ fits s w (Z.rem a b) = true.
Proof. exact imod_spec. Qed.
Print Assumptions C07_mod_trunc.

Theorem C07_div_by_zero : forall s w a,
  idiv s w a 0 = Err E_ZERO_DIV /\ imod s w a 0 = Err E_ZERO_DIV.
Proof. exact div_zero. Qed.
Print Assumptions C07_div_by_zero.

(* bitwise operators act bit by bit on the w low bits of the two's-complement patterns *)
Theorem C07_bitwise : forall s w a b i, 0 < w -> 0 <= i < w ->
  Z.testbit (iand s w a b) i = Z.testbit a i && Z.testbit b i /\
  Z.testbit (ior s w a b) i = Z.testbit a i || Z.testbit b i /\
  Z.testbit (ixor s w a b) i = xorb (Z.testbit a i) (Z.testbit b i) /\
  Z.testbit (iandnot s w a b) i = Z.testbit a i && negb (Z.testbit b i) /\
  Z.testbit (inot s w a) i = negb (Z.testbit a i).
Proof. exact bitwise_bits. Qed.
Print Assumptions C07_bitwise.

(* << >> <<< >>> for every admitted right-operand kind k holding any integer r of that kind:
   a << r = wrap(a * 2^r); a >> r = floor(a / 2^r) (arithmetic for signed, which is logical
   for unsigned); <<< and >>> shift the w-bit pattern; a negative r shifts the other way. *)
Theorem C07_shift_sem : forall o s w a k r,
  0 < w <= 64 -> fits s w a = true -> admitted k = true -> kind_fits k r = true ->
  shift_impl o s w a k r = Ok (shift_spec o s w a r).
Proof. exact shift_sem. Qed.
Print Assumptions C07_shift_sem.

(* every admitted right-operand kind yields a value of the type: neither TypeError nor panic *)
Theorem C07_operand_total : forall o s w a k r,
  0 < w <= 64 -> fits s w a = true -> admitted k = true -> kind_fits k r = true ->
  exists v, shift_impl o s w a k r = Ok v /\ fits s w v = true.
Proof. exact operand_total. Qed.
Print Assumptions C07_operand_total.

(* shifting left by the width or more gives 0; arithmetic right shift by the width or more
   gives the sign (-1 or 0) *)
Theorem C07_shl_out_of_width : forall s w a n, 0 < w -> w <= n -> wrap s w (a * 2 ^ n) = 0.
Proof. exact shl_out_of_width. Qed.
Print Assumptions C07_shl_out_of_width.

Theorem C07_ashr_out_of_width : forall s w a n, 0 < w -> fits s w a = true -> w <= n ->
  a / 2 ^ n = if a <? 0 then -1 else 0.
Proof. exact ashr_out_of_width. Qed.
Print Assumptions C07_ashr_out_of_width.

(* the same-type shift methods used by the Go backend (IntN.LeftBitshiftIntN ...) *)
Theorem C07_same_type_shift : forall s w a r, 0 < w -> fits s w a = true -> fits s w r = true ->
  same_left s w a r = Ok (shift_spec Shl s w a r) /\
  same_right s w a r = Ok (shift_spec Shr s w a r).
Proof. exact same_shift_spec. Qed.
Print Assumptions C07_same_type_shift.

(* Floats.  The model's operations ARE Flocq's IEEE-754 operations; what Flocq proves about
   them (one theorem, four clauses): on finite operands without overflow the result of
   + - * / is the exact real result rounded ONCE, to nearest-even, into the format of the
   operand type — binary32 for Float32 (no intermediate binary64 rounding), binary64 for
   Float and Float64; comparison of finite values is comparison of the reals; Int -> Float
   rounds the integer once. *)
Theorem C07_float_ieee :
  (forall o x y,
     fin32 x -> fin32 y -> (o = FDiv -> R32 y <> 0%R) ->
     (Rabs (rnd32 (exact o (R32 x) (R32 y))) < max32)%R ->
     R32 (f32_op o x y) = rnd32 (exact o (R32 x) (R32 y)) /\ fin32 (f32_op o x y)) /\
  (forall o x y,
     fin64 x -> fin64 y -> (o = FDiv -> R64 y <> 0%R) ->
     (Rabs (rnd64 (exact o (R64 x) (R64 y))) < max64)%R ->
     R64 (f64_op o x y) = rnd64 (exact o (R64 x) (R64 y)) /\ fin64 (f64_op o x y)) /\
  (forall x y, fin64 x -> fin64 y -> f64_cmp x y = Some (Rcompare (R64 x) (R64 y))) /\
  (forall z, (Rabs (rnd64 (IZR z)) < max64)%R ->
     R64 (f64_of_int z) = rnd64 (IZR z) /\ fin64 (f64_of_int z)).
Proof. exact float_ieee. Qed.
Print Assumptions C07_float_ieee.

(* non-vacuity: the hypotheses are satisfiable and the model computes non-trivial things,
   including the inputs that used to fail *)
Example C07_nonvacuous :
  fits true 8 (-128) = true /\ kind_fits KUInt 2 = true /\ admitted KUInt = true /\
  bin_impl OAdd true 8 1 127 = Ok (-128) /\
  bin_impl ODiv true 8 (-128) (-1) = Ok (-128) /\
  bin_impl OPow true 8 3 127 = Ok (-85) /\
  shift_impl LShl true 8 1 KUInt 2 = Ok 4 /\
  shift_impl Shl true 8 1 KInt64 (- 2 ^ 63) = Ok 0 /\
  shift_impl Shl true 8 (-1) KInt8 (-128) = Ok (-1) /\
  shift_impl Shr true 8 (-1) KBigInt (2 ^ 70) = Ok (-1) /\
  shift_impl LShl true 8 (-128) KBigInt (-1) = Ok 64 /\
  shift_impl LShr true 64 (-1) KSmallInt 1 = Ok (2 ^ 63 - 1) /\
  shift_impl Shl false 8 255 KInt16 9 = Ok 0 /\
  shift_impl Shl false 16 40000 KInt8 (-3) = Ok 5000.
Proof. repeat split; vm_compute; reflexivity. Qed.

Example C07_float_nonvacuous :
  (* 0.1 + 0.2 = 0.30000000000000004 ; 16777216f32 + 1f32 = 16777216f32 ; -0.0 == 0.0 *)
  f64_op_bits FAdd 4591870180066957722 4596373779694328218 = 4599075939470750516 /\
  f32_op_bits FAdd 1266679808 1065353216 = 1266679808 /\
  f64_cmp_bits 9223372036854775808 0 = Some Eq /\
  f64_nan_bits (f64_op_bits FDiv 0 0) = true /\
  f64_of_int_bits (2 ^ 63 - 1) = 4890909195324358656.
Proof. repeat split; vm_compute; reflexivity. Qed.
