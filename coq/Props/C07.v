(* C07 — Fixed-width integers wrap modulo 2^n; floats follow IEEE-754.
   Only statements here; proofs live in Proofs/C07_Strict.v and Proofs/C07_Float.v.
   An integer type is (s, w): s = true for Int8..Int64, false for UInt8..UInt64 and UInt;
   w is the width.  `fits s w a` says a is a value of the type.  All integer theorems are
   generic in w (any 1 < w <= 64, so in particular 8, 16, 32, 64) and in the signedness. *)
From Coq Require Import Reals.
From Flocq Require Import Core IEEE754.BinarySingleNaN IEEE754.Binary IEEE754.Bits.
From Elk Require Import Base.GoSem Model.C07_Strict Proofs.C07_Strict Model.C07_Float Proofs.C07_Float
  Model.C07_FloatPow Proofs.C07_FloatPow Proofs.C07_FloatPowR.
Open Scope Z_scope.

(* + - * & | ^ &~ ** : the result is a value of the type and is congruent modulo 2^w to the
   exact integer result (exponent <= 0 gives 1). *)
Theorem C07_arith_mod : forall o s w a b,
  1 < w -> is_divmod o = false -> fits s w a = true -> fits s w b = true ->
  exists r, bin_impl o s w a b = Ok r /\ fits s w r = true /\
            exists k, r = bin_exact o a b + k * 2 ^ w.
Proof. exact arith_mod. Qed.
Print Assumptions C07_arith_mod.

(* unary - ~ ++ -- : same statement *)
Theorem C07_unary_mod : forall o s w a, 0 < w ->
  fits s w (un_impl o s w a) = true /\ exists k, un_impl o s w a = un_exact o a + k * 2 ^ w.
Proof. exact unary_mod. Qed.
Print Assumptions C07_unary_mod.

(* / is truncated division; the quotient is a value of the type except for the single case
   MinInt / -1 of a signed type, which wraps to MinInt. *)
Theorem C07_div_trunc : forall s w a b,
  0 < w -> fits s w a = true -> fits s w b = true -> b <> 0 ->
  idiv s w a b = Ok (if div_overflows s w a b then a else Z.quot a b) /\
  (div_overflows s w a b = false -> fits s w (Z.quot a b) = true).
Proof. exact idiv_spec. Qed.
Print Assumptions C07_div_trunc.

(* % is the remainder of truncated division (sign of the dividend), always in range *)
Theorem C07_mod_trunc : forall s w a b,
  0 < w -> fits s w a = true -> fits s w b = true -> b <> 0 ->
  imod s w a b = Ok (Z.rem a b) /\ fits s w (Z.rem a b) = true.
Proof. exact imod_spec. Qed.
Print Assumptions C07_mod_trunc.

Theorem C07_div_by_zero : forall s w a,
  idiv s w a 0 = Err E_ZERO_DIV /\ imod s w a 0 = Err E_ZERO_DIV.
Proof. exact div_zero. Qed.
Print Assumptions C07_div_by_zero.

(* bitwise operators act bit by bit on the w low bits of the two's-complement patterns *)
Theorem C07_bitwise : forall s w a b i, 0 < w -> 0 <= i < w ->
  Z.testbit (iand s w a b) i = Z.testbit a i && Z.testbit b i /\
  Z.testbit (ior s w a b) i = Z.testbit a i || Z.testbit b i /\
  Z.testbit (ixor s w a b) i = xorb (Z.testbit a i) (Z.testbit b i) /\
  Z.testbit (iandnot s w a b) i = Z.testbit a i && negb (Z.testbit b i) /\
  Z.testbit (inot s w a) i = negb (Z.testbit a i).
Proof. exact bitwise_bits. Qed.
Print Assumptions C07_bitwise.

(* << >> <<< >>> for every admitted right-operand kind k holding any integer r of that kind:
   a << r = wrap(a * 2^r); a >> r = floor(a / 2^r) (arithmetic for signed, which is logical
   for unsigned); <<< and >>> shift the w-bit pattern; a negative r shifts the other way. *)
Theorem C07_shift_sem : forall o s w a k r,
  0 < w <= 64 -> fits s w a = true -> admitted k = true -> kind_fits k r = true ->
  shift_impl o s w a k r = Ok (shift_spec o s w a r).
Proof. exact shift_sem. Qed.
Print Assumptions C07_shift_sem.

(* every admitted right-operand kind yields a value of the type: neither TypeError nor panic *)
Theorem C07_operand_total : forall o s w a k r,
  0 < w <= 64 -> fits s w a = true -> admitted k = true -> kind_fits k r = true ->
  exists v, shift_impl o s w a k r = Ok v /\ fits s w v = true.
Proof. exact operand_total. Qed.
Print Assumptions C07_operand_total.

(* shifting left by the width or more gives 0; arithmetic right shift by the width or more
   gives the sign (-1 or 0) *)
Theorem C07_shl_out_of_width : forall s w a n, 0 < w -> w <= n -> wrap s w (a * 2 ^ n) = 0.
Proof. exact shl_out_of_width. Qed.
Print Assumptions C07_shl_out_of_width.

Theorem C07_ashr_out_of_width : forall s w a n, 0 < w -> fits s w a = true -> w <= n ->
  a / 2 ^ n = if a <? 0 then -1 else 0.
Proof. exact ashr_out_of_width. Qed.
Print Assumptions C07_ashr_out_of_width.

(* the same-type shift methods used by the Go backend (IntN.LeftBitshiftIntN ...) *)
Theorem C07_same_type_shift : forall s w a r, 0 < w -> fits s w a = true -> fits s w r = true ->
  same_left s w a r = Ok (shift_spec Shl s w a r) /\
  same_right s w a r = Ok (shift_spec Shr s w a r).
Proof. exact same_shift_spec. Qed.
Print Assumptions C07_same_type_shift.

(* Float / Float64 / Float32 `**`: the table of exceptional cases of IEEE 754-2008 §9.2.1
   (`pow_special`, generic in the format: prec = 53, emax = 1024 for Float and Float64,
   24 / 128 for Float32).  Each clause is one group of lines of the standard's list; the
   last one says the table is total on exceptional operands: it is silent only when both
   operands are finite and non-zero and (x > 0 or y is an integer) — those pairs are NOT
   modelled (the harness compares them with Go's math.Pow). *)
Theorem C07_float_pow_special_table :
  forall prec emax,
  let pow := pow_special prec emax in
  (* pow(x, +-0) = 1 for every x, NaN included *)
  (forall x s, pow x (Binary.B754_zero _ _ s) = Some ROne) /\
  (* pow(+1, y) = 1 for every y, NaN included *)
  (forall x y, is_pos_one prec emax x = true -> pow x y = Some ROne) /\
  (* otherwise a NaN operand gives NaN *)
  (forall x y, Binary.is_nan prec emax x = true \/ Binary.is_nan prec emax y = true ->
     is_pos_one prec emax x = false -> (forall s, y <> Binary.B754_zero _ _ s) -> pow x y = Some RNaN) /\
  (* pow(+-0, y): y < 0 gives an infinity, y > 0 a zero; negative only for -0 and y an odd integer *)
  (forall sx y, pow (Binary.B754_zero _ _ sx) y =
     match y with
     | Binary.B754_zero _ _ _ => Some ROne
     | Binary.B754_nan _ _ _ _ _ => Some RNaN
     | Binary.B754_infinity _ _ sy => Some (if sy then RInf false else RZero false)
     | Binary.B754_finite _ _ sy m e _ =>
         Some (if sy then RInf (sx && is_odd_int m e) else RZero (sx && is_odd_int m e))
     end) /\
  (* pow(+-inf, y): y < 0 gives a zero, y > 0 an infinity; negative only for -inf and y an odd integer *)
  (forall sx y, pow (Binary.B754_infinity _ _ sx) y =
     match y with
     | Binary.B754_zero _ _ _ => Some ROne
     | Binary.B754_nan _ _ _ _ _ => Some RNaN
     | Binary.B754_infinity _ _ sy => Some (if sy then RZero false else RInf false)
     | Binary.B754_finite _ _ sy m e _ =>
         Some (if sy then RZero (sx && is_odd_int m e) else RInf (sx && is_odd_int m e))
     end) /\
  (* pow(x, +-inf), x finite and non-zero: by |x| against 1; |x| = 1 (so x = -1 too) gives 1 *)
  (forall s m e pf sy,
     pow (Binary.B754_finite _ _ s m e pf) (Binary.B754_infinity _ _ sy) =
     match abs_cmp_one prec emax (Binary.B754_finite _ _ s m e pf) with
     | Some Lt => Some (if sy then RInf false else RZero false)
     | Some Gt => Some (if sy then RZero false else RInf false)
     | _ => Some ROne
     end) /\
  (* finite x < 0 and finite non-integer y: NaN *)
  (forall mx ex px sy my ey py, is_int my ey = false ->
     pow (Binary.B754_finite _ _ true mx ex px) (Binary.B754_finite _ _ sy my ey py) = Some RNaN) /\
  (* totality on exceptional operands *)
  (forall x y, pow x y = None ->
     exists sx mx ex px sy my ey py,
       x = Binary.B754_finite _ _ sx mx ex px /\ y = Binary.B754_finite _ _ sy my ey py /\
       (sx = false \/ is_int my ey = true)).
Proof.
  intros prec emax pow. unfold pow.
  split; [apply pow_exponent_zero|]. split; [apply pow_base_one|]. split; [apply pow_nan|].
  split; [apply pow_base_zero|]. split; [apply pow_base_inf|]. split; [apply pow_exponent_inf|].
  split; [apply pow_neg_nonint|apply pow_special_none].
Qed.
Print Assumptions C07_float_pow_special_table.

(* what "integer" and "odd integer" mean in that table: m * 2^e is (an odd) integer n *)
Theorem C07_float_pow_integrality : forall m e,
  (is_int m e = true <->
     exists n, (0 <= e -> n = Zpos m * 2 ^ e) /\ (e < 0 -> Zpos m = n * 2 ^ (- e))) /\
  (is_odd_int m e = true <->
     exists n, Z.odd n = true /\ (0 <= e -> n = Zpos m * 2 ^ e) /\ (e < 0 -> Zpos m = n * 2 ^ (- e))).
Proof. intros m e. split; [apply is_int_true|apply is_odd_int_true]. Qed.
Print Assumptions C07_float_pow_integrality.

(* Float `%` on the aligned integers X = mx * 2^(ex-e), Y = my * 2^(ey-e), e = min ex ey
   (so x = X * 2^e and |y| = Y * 2^e): the model computes R with X = q*Y + R, |R| < Y,
   R of the sign of x or zero, and |R| < 2^p whenever the mantissas are (p = 53 or 24):
   R * 2^e is representable, the remainder is exact. *)
Theorem C07_float_mod_aligned : forall p mx ex my ey,
  0 <= p -> Z.abs mx < 2 ^ p -> Zpos my < 2 ^ p ->
  let e := Z.min ex ey in
  let X := mx * 2 ^ (ex - e) in
  let Y := Zpos my * 2 ^ (ey - e) in
  exists R q, fmod_int mx ex my ey = (R, e) /\
    X = q * Y + R /\ Z.abs R < Y /\ 0 <= Z.sgn R * Z.sgn mx /\ Z.abs R < 2 ^ p /\ Z.abs R <= Z.abs X.
Proof. exact fmod_int_spec. Qed.
Print Assumptions C07_float_mod_aligned.

(* Floats.  The model's operations ARE Flocq's IEEE-754 operations; what Flocq proves about
   them (ONE theorem for everything that rests on the real-number axioms; first four clauses): on finite operands without overflow the result of
   + - * / is the exact real result rounded ONCE, to nearest-even, into the format of the
   operand type — binary32 for Float32 (no intermediate binary64 rounding), binary64 for
   Float and Float64; comparison of finite values is comparison of the reals; Int -> Float
   rounds the integer once. *)
Theorem C07_float_ieee :
  (forall o x y,
     fin32 x -> fin32 y -> (o = FDiv -> R32 y <> 0%R) ->
     (Rabs (rnd32 (exact o (R32 x) (R32 y))) < max32)%R ->
     R32 (f32_op o x y) = rnd32 (exact o (R32 x) (R32 y)) /\ fin32 (f32_op o x y)) /\
  (forall o x y,
     fin64 x -> fin64 y -> (o = FDiv -> R64 y <> 0%R) ->
     (Rabs (rnd64 (exact o (R64 x) (R64 y))) < max64)%R ->
     R64 (f64_op o x y) = rnd64 (exact o (R64 x) (R64 y)) /\ fin64 (f64_op o x y)) /\
  (forall x y, fin64 x -> fin64 y -> f64_cmp x y = Some (Rcompare (R64 x) (R64 y))) /\
  (forall z, (Rabs (rnd64 (IZR z)) < max64)%R ->
     R64 (f64_of_int z) = rnd64 (IZR z) /\ fin64 (f64_of_int z)) /\
  (* `%` (any format; Float, Float64: 53 / 1024, Float32: 24 / 128): for finite x and finite
     non-zero y the result r is finite, x = q*y + r for an integer q, |r| < |y|, r has the
     sign of x even when it is zero — as real numbers, exactly: no rounding *)
  (forall prec emax (Hp : Prec_gt_0 prec) (Hm : Prec_lt_emax prec emax) (x y : binary_float prec emax),
     Binary.is_finite prec emax x = true -> Binary.is_finite_strict prec emax y = true ->
     exists r q, Bfmod prec emax Hp Hm x y = Some r /\
       Binary.is_finite prec emax r = true /\ Binary.Bsign prec emax r = Binary.Bsign prec emax x /\
       (Binary.B2R prec emax x = IZR q * Binary.B2R prec emax y + Binary.B2R prec emax r)%R /\
       (Rabs (Binary.B2R prec emax r) < Rabs (Binary.B2R prec emax y))%R) /\
  (* the "|x| against 1" of the `**` table is the comparison of the reals *)
  (forall prec emax s m e pf,
     abs_cmp_one prec emax (Binary.B754_finite prec emax s m e pf) =
     Some (Rcompare (Rabs (Binary.B2R prec emax (Binary.B754_finite prec emax s m e pf))) 1)) /\
  (* the table's test for x = +1 is exact *)
  (forall prec emax x, is_pos_one prec emax x = true <->
     (Binary.is_finite prec emax x = true /\ Binary.B2R prec emax x = 1%R)).
Proof.
  destruct float_ieee as (H1 & H2 & H3 & H4).
  split; [exact H1|]. split; [exact H2|]. split; [exact H3|]. split; [exact H4|].
  split; [exact Bfmod_correct|]. split; [exact abs_cmp_one_correct|exact is_pos_one_correct].
Qed.
Print Assumptions C07_float_ieee.

(* non-vacuity: the hypotheses are satisfiable and the model computes non-trivial things,
   including the inputs that used to fail *)
Example C07_nonvacuous :
  fits true 8 (-128) = true /\ kind_fits KUInt 2 = true /\ admitted KUInt = true /\
  bin_impl OAdd true 8 1 127 = Ok (-128) /\
  bin_impl ODiv true 8 (-128) (-1) = Ok (-128) /\
  bin_impl OPow true 8 3 127 = Ok (-85) /\
  shift_impl LShl true 8 1 KUInt 2 = Ok 4 /\
  shift_impl Shl true 8 1 KInt64 (- 2 ^ 63) = Ok 0 /\
  shift_impl Shl true 8 (-1) KInt8 (-128) = Ok (-1) /\
  shift_impl Shr true 8 (-1) KBigInt (2 ^ 70) = Ok (-1) /\
  shift_impl LShl true 8 (-128) KBigInt (-1) = Ok 64 /\
  shift_impl LShr true 64 (-1) KSmallInt 1 = Ok (2 ^ 63 - 1) /\
  shift_impl Shl false 8 255 KInt16 9 = Ok 0 /\
  shift_impl Shl false 16 40000 KInt8 (-3) = Ok 5000.
Proof. repeat split; vm_compute; reflexivity. Qed.

Example C07_float_nonvacuous :
  (* 0.1 + 0.2 = 0.30000000000000004 ; 16777216f32 + 1f32 = 16777216f32 ; -0.0 == 0.0 *)
  f64_op_bits FAdd 4591870180066957722 4596373779694328218 = 4599075939470750516 /\
  f32_op_bits FAdd 1266679808 1065353216 = 1266679808 /\
  f64_cmp_bits 9223372036854775808 0 = Some Eq /\
  f64_nan_bits (f64_op_bits FDiv 0 0) = true /\
  f64_of_int_bits (2 ^ 63 - 1) = 4890909195324358656.
Proof. repeat split; vm_compute; reflexivity. Qed.

Example C07_float_pow_mod_nonvacuous :
  (* (-0) ** 0.5 = +0 ; (-inf) ** 0.5 = +inf ; NaN ** 0 = 1 ; (-1) ** inf = 1 ; (-0) ** -3 = -inf ;
     (-8) ** (1/3) = NaN ; 2 ** 3 is not an exceptional case ; (-0f32) ** 0.5f32 = +0 ;
     5.5 % 2 = 1.5 ; -6 % 3 = -0 ; 1e308 % 1.5e-323 = 1e-323 ; inf % 2 = NaN *)
  f64_pow_special_bits 9223372036854775808 4602678819172646912 = Some 0 /\
  f64_pow_special_bits 18442240474082181120 4602678819172646912 = Some 9218868437227405312 /\
  f64_pow_special_bits 9221120237041090560 0 = Some 4607182418800017408 /\
  f64_pow_special_bits 13830554455654793216 9218868437227405312 = Some 4607182418800017408 /\
  f64_pow_special_bits 9223372036854775808 13837309855095848960 = Some 18442240474082181120 /\
  f64_nan_bits (match f64_pow_special_bits 13844628204490326016 4599676419421066581 with Some b => b | None => 0 end) = true /\
  f64_pow_special_bits 4611686018427387904 4613937818241073152 = None /\
  f32_pow_special_bits 2147483648 1056964608 = Some 0 /\
  f64_mod_bits 4617878467915022336 4611686018427387904 = 4609434218613702656 /\
  f64_mod_bits 13841813454723219456 4613937818241073152 = 9223372036854775808 /\
  f64_mod_bits 9214871658872686752 3 = 2 /\
  f64_nan_bits (f64_mod_bits 9218868437227405312 4611686018427387904) = true.
Proof. repeat split; vm_compute; reflexivity. Qed.
