(* C09 — the native Go backend behaves like the bytecode VM (PARTIAL by nature).
   What is proved here concerns (a) the Int runtime helpers the generated Go code calls and
   (b) the specification both back ends are held to (reference interpreter Sref, relation
   obs_equiv).  The 17k-line translator compiler/go_compiler.go is NOT modelled; it is compared
   with the VM and with Sref by running generated programs (stream c09.native). *)
From Elk Require Import Base.GoSem Model.C06_Int Proofs.C06_Int Model.C09_Backends
  Proofs.C09_Backends Proofs.C09_Fuel.
From Coq Require Import ZArith List String.
Import ListNotations.
Open Scope Z_scope.

(* value.AddInts / SubtractInts / MultiplyInts / DivideInts / ModuloInts (what the Go backend
   emits for typed Int arithmetic) return exactly the value - representation included - that
   the VM's Int operations (C06's `impl`, i.e. SmallInt/BigInt.AddVal ... ModuloVal behind
   ADD_INT ... MODULO_INT) return, for all canonical operands, small or big. *)
Theorem C09_helpers_eq : forall o x y,
  canonical x = true -> canonical y = true -> helper o x y = impl o x y.
Proof. exact helpers_eq. Qed.
Print Assumptions C09_helpers_eq.

(* ... and that value is the canonical representation of the exact integer result;
   ZeroDivisionError exactly when the divisor is 0; never a Go panic. *)
Theorem C09_helpers_exact : forall o x y,
  canonical x = true -> canonical y = true ->
  refines (helper o x y) (spec o (den x) (den y)).
Proof. exact helper_refines_spec. Qed.
Print Assumptions C09_helpers_exact.

(* value.GreaterThanInts / GreaterThanEqualInts / LessThanInts / LessThanEqualInts / EqualInts
   decide the order of the denoted integers, whatever the representations *)
Theorem C09_helpers_cmp_exact : forall o x y, h_cmp o x y = hcmp_spec o (den x) (den y).
Proof. exact h_cmp_exact. Qed.
Print Assumptions C09_helpers_cmp_exact.

(* one arithmetic step of the reference interpreter (exact integers, `spec`) is what the
   helper computes on canonical representations *)
Theorem C09_S_step_matches_helpers : forall o x y,
  canonical x = true -> canonical y = true ->
  match helper o x y with
  | Ok v => spec o (den x) (den y) = Some (den v) /\ canonical v = true
  | Err e => spec o (den x) (den y) = None /\ e = E_ZERO_DIV
  | _ => False
  end.
Proof. exact S_step_matches_helper. Qed.
Print Assumptions C09_S_step_matches_helpers.

(* observational agreement (same stdout lines, same uncaught-error class and message, same
   zero / non-zero exit status) is an equivalence relation *)
Theorem C09_obs_equiv_equivalence :
  (forall a, obs_equiv a a) /\
  (forall a b, obs_equiv a b -> obs_equiv b a) /\
  (forall a b c, obs_equiv a b -> obs_equiv b c -> obs_equiv a c).
Proof. exact obs_equiv_equivalence. Qed.
Print Assumptions C09_obs_equiv_equivalence.

(* hence two back ends that each agree with Sref on p agree with each other on p *)
Theorem C09_backends_agree : forall fuel (b1 b2 : backend) p,
  agrees_with_S fuel b1 p -> agrees_with_S fuel b2 p ->
  exists o1 o2, b1 p = Some o1 /\ b2 p = Some o2 /\ obs_equiv o1 o2.
Proof. exact backends_agree. Qed.
Print Assumptions C09_backends_agree.

(* the executable comparison decides obs_equiv *)
Theorem C09_obs_equivb_spec : forall a b, obs_equivb a b = true <-> obs_equiv a b.
Proof. exact obs_equivb_spec. Qed.
Print Assumptions C09_obs_equivb_spec.

(* the observation Sref assigns to a program does not depend on the fuel, once it suffices *)
Theorem C09_S_fuel_independent : forall n m p r,
  (n <= m)%nat -> Sref n p = r -> r <> SOutOfFuel -> Sref m p = r.
Proof. exact S_fuel_mono. Qed.
Print Assumptions C09_S_fuel_independent.

(* ---- non-vacuity ---- *)
Example C09_helpers_nonvacuous :
  helper OpAdd (Small (2 ^ 63 - 1)) (Small 1) = Ok (Big (2 ^ 63)) /\
  helper OpSub (Big (2 ^ 63)) (Small 1) = Ok (Small (2 ^ 63 - 1)) /\
  helper OpDiv (Small (- 2 ^ 63)) (Small (-1)) = Ok (Big (2 ^ 63)) /\
  helper OpMod (Small (-7)) (Big (2 ^ 64)) = Ok (Small (-7)) /\
  helper OpDiv (Big (2 ^ 70)) (Small 0) = Err E_ZERO_DIV /\
  h_cmp HLt (Small 5) (Big (2 ^ 64)) = true.
Proof. vm_compute. repeat split; reflexivity. Qed.

(* def f(a) = a * a ; main: l0 = 3037000500; println(f(l0).inspect); println((1 / (l0 - l0)).inspect) *)
Definition c09_demo : prog :=
  {| p_meths := [ {| m_params := 1; m_locals := []; m_body := [];
                     m_ret := EBin OpMul (EVar 0) (EVar 0) |} ];
     p_locals := [ EInt 3037000500 ];
     p_main := [ SPrint (EInspect (ECall 0 [EVar 0]));
                 SPrint (EInspect (EBin OpDiv (EInt 1) (EBin OpSub (EVar 0) (EVar 0))));
                 SPrint (EStr "unreachable") ] |}.
Example C09_S_nonvacuous :
  Sref 50 c09_demo = SDone {| o_out := ["9223372037000250000"%string];
                              o_err := Some (zero_div_class, zero_div_msg); o_status := 1 |}
  /\ Sref 2 c09_demo = SOutOfFuel.
Proof. vm_compute. split; reflexivity. Qed.
