(* C09 — the native Go backend behaves like the bytecode VM (PARTIAL by nature).
   What is proved here concerns (a) the Int runtime helpers the generated Go code calls and
   (b) the specification both back ends are held to (reference interpreter Sref, relation
   obs_equiv).  The 17k-line translator compiler/go_compiler.go is NOT modelled; it is compared
   with the VM and with Sref by running generated programs (stream c09.native). *)
From Elk Require Import Base.GoSem Model.C06_Int Proofs.C06_Int Model.C09_Backends
  Proofs.C09_Backends Proofs.C09_Fuel Proofs.C09_Dispatch Proofs.C09_Range.
From Coq Require Import ZArith List String.
Import ListNotations.
Open Scope Z_scope.

(* value.AddInts / SubtractInts / MultiplyInts / DivideInts / ModuloInts (what the Go backend
   emits for typed Int arithmetic) return exactly the value - representation included - that
   the VM's Int operations (C06's `impl`, i.e. SmallInt/BigInt.AddVal ... ModuloVal behind
   ADD_INT ... MODULO_INT) return, for all canonical operands, small or big. *)
Theorem C09_helpers_eq : forall o x y,
  canonical x = true -> canonical y = true -> helper o x y = impl o x y.
Proof. exact helpers_eq. Qed.
Print Assumptions C09_helpers_eq.

(* ... and that value is the canonical representation of the exact integer result;
   ZeroDivisionError exactly when the divisor is 0; never a Go panic. *)
Theorem C09_helpers_exact : forall o x y,
  canonical x = true -> canonical y = true ->
  refines (helper o x y) (spec o (den x) (den y)).
Proof. exact helper_refines_spec. Qed.
Print Assumptions C09_helpers_exact.

(* value.GreaterThanInts / GreaterThanEqualInts / LessThanInts / LessThanEqualInts / EqualInts
   decide the order of the denoted integers, whatever the representations *)
Theorem C09_helpers_cmp_exact : forall o x y, h_cmp o x y = hcmp_spec o (den x) (den y).
Proof. exact h_cmp_exact. Qed.
Print Assumptions C09_helpers_cmp_exact.

(* one arithmetic step of the reference interpreter (exact integers, `spec`) is what the
   helper computes on canonical representations *)
Theorem C09_S_step_matches_helpers : forall o x y,
  canonical x = true -> canonical y = true ->
  match helper o x y with
  | Ok v => spec o (den x) (den y) = Some (den v) /\ canonical v = true
  | Err e => spec o (den x) (den y) = None /\ e = E_ZERO_DIV
  | _ => False
  end.
Proof. exact S_step_matches_helper. Qed.
Print Assumptions C09_S_step_matches_helpers.

(* observational agreement (same stdout lines, same uncaught-error class and message, same
   zero / non-zero exit status) is an equivalence relation *)
Theorem C09_obs_equiv_equivalence :
  (forall a, obs_equiv a a) /\
  (forall a b, obs_equiv a b -> obs_equiv b a) /\
  (forall a b c, obs_equiv a b -> obs_equiv b c -> obs_equiv a c).
Proof. exact obs_equiv_equivalence. Qed.
Print Assumptions C09_obs_equiv_equivalence.

(* hence two back ends that each agree with Sref on p agree with each other on p *)
Theorem C09_backends_agree : forall fuel (b1 b2 : backend) p,
  agrees_with_S fuel b1 p -> agrees_with_S fuel b2 p ->
  exists o1 o2, b1 p = Some o1 /\ b2 p = Some o2 /\ obs_equiv o1 o2.
Proof. exact backends_agree. Qed.
Print Assumptions C09_backends_agree.

(* the executable comparison decides obs_equiv *)
Theorem C09_obs_equivb_spec : forall a b, obs_equivb a b = true <-> obs_equiv a b.
Proof. exact obs_equivb_spec. Qed.
Print Assumptions C09_obs_equivb_spec.

(* the observation Sref assigns to a program does not depend on the fuel, once it suffices *)
Theorem C09_S_fuel_independent : forall n m p r,
  (n <= m)%nat -> Sref n p = r -> r <> SOutOfFuel -> Sref m p = r.
Proof. exact S_fuel_mono. Qed.
Print Assumptions C09_S_fuel_independent.

(* dynamic dispatch of the reference interpreter (second generation of the fragment: user
   classes, overriding, sends): an override always wins, whatever the ancestors define ... *)
Theorem C09_dispatch_own : forall cs c k name m,
  nth_error cs c = Some k -> assoc_nat name (c_meths k) = Some m -> dispatch cs c name = Some m.
Proof. exact dispatch_own. Qed.
Print Assumptions C09_dispatch_own.

(* ... a class that does not define the name behaves like its superclass (in a well-formed
   class table: superclasses precede subclasses) ... *)
Theorem C09_dispatch_inherited : forall cs c k q name, wf_classes cs ->
  nth_error cs c = Some k -> assoc_nat name (c_meths k) = None -> c_parent k = Some q ->
  dispatch cs c name = dispatch cs q name.
Proof. exact dispatch_inherited. Qed.
Print Assumptions C09_dispatch_inherited.

(* ... and a send runs exactly the method selected for the receiver's RUNTIME class, with
   self :: arguments ++ locals as its frame; the interpreter keeps no call-site state, so the
   classes seen earlier at the same call site cannot matter *)
Theorem C09_send_by_runtime_class : forall n p env out r name args,
  eval (S n) p env out (ESend r name args) =
  rbind (eval n p env out r) (fun vr out0 =>
    match vr with
    | VObj c _ =>
      match dispatch (p_classes p) c name with
      | None => RStuck out0
      | Some m =>
        rbind (map_eval (fun o e1 => eval n p env o e1) args out0) (fun vs out1 =>
          if negb (Nat.eqb (List.length vs) (m_params m)) then RStuck out1 else
          rbind (map_eval (fun o e1 => eval n p [] o e1) (m_locals m) out1) (fun ls out2 =>
            rbind (exec n p (vr :: vs ++ ls) out2 (m_body m)) (fun fl out3 =>
              match fl with
              | FReturn v => ROk v out3
              | FNormal env'' => eval n p env'' out3 (m_ret m)
              end)))
      end
    | _ => RStuck out0
    end).
Proof. exact send_unfold. Qed.
Print Assumptions C09_send_by_runtime_class.

(* ---- non-vacuity ---- *)
Example C09_helpers_nonvacuous :
  helper OpAdd (Small (2 ^ 63 - 1)) (Small 1) = Ok (Big (2 ^ 63)) /\
  helper OpSub (Big (2 ^ 63)) (Small 1) = Ok (Small (2 ^ 63 - 1)) /\
  helper OpDiv (Small (- 2 ^ 63)) (Small (-1)) = Ok (Big (2 ^ 63)) /\
  helper OpMod (Small (-7)) (Big (2 ^ 64)) = Ok (Small (-7)) /\
  helper OpDiv (Big (2 ^ 70)) (Small 0) = Err E_ZERO_DIV /\
  h_cmp HLt (Small 5) (Big (2 ^ 64)) = true.
Proof. vm_compute. repeat split; reflexivity. Qed.

(* def f(a) = a * a ; main: l0 = 3037000500; println(f(l0).inspect); println((1 / (l0 - l0)).inspect) *)
Definition c09_demo : prog :=
  {| p_meths := [ {| m_params := 1; m_locals := []; m_body := [];
                     m_ret := EBin OpMul (EVar 0) (EVar 0) |} ];
     p_locals := [ EInt 3037000500 ];
     p_main := [ SPrint (EInspect (ECall 0 [EVar 0]));
                 SPrint (EInspect (EBin OpDiv (EInt 1) (EBin OpSub (EVar 0) (EVar 0))));
                 SPrint (EStr "unreachable") ];
     p_classes := [] |}.
Example C09_S_nonvacuous :
  Sref 50 c09_demo = SDone {| o_out := ["9223372037000250000"%string];
                              o_err := Some (zero_div_class, zero_div_msg); o_status := 1 |}
  /\ Sref 2 c09_demo = SOutOfFuel.
Proof. vm_compute. split; reflexivity. Qed.

(* class K0; def n0: String then "k0"; def n1: String then "<" + self.n0 + @k.inspect + ">" end
   K1 < K0, K2 < K0, K3 < K1, K4 < K0 override n0 (K2 does not);
   for x in [K0 K1 K2 K3 K3 K4 K4 K0]: println(x.n1) - a megamorphic call site inside n1 that sees
   a fourth and a fifth class twice in a row; then dynamic inspect over six builtin classes *)
Definition c09_m (r : expr) : meth := {| m_params := 0; m_locals := []; m_body := []; m_ret := r |}.
Definition c09_classes : list cls :=
  [ {| c_parent := None;
       c_meths := [ (0, c09_m (EStr "k0"));
                    (1, c09_m (ECat (EStr "<") (ECat (ESend (EVar 0) 0 []) (ECat (EInspect EField) (EStr ">"))))) ]%nat |};
    {| c_parent := Some 0%nat; c_meths := [ (0%nat, c09_m (EStr "k1")) ] |};
    {| c_parent := Some 0%nat; c_meths := [] |};
    {| c_parent := Some 1%nat; c_meths := [ (0%nat, c09_m (EStr "k3")) ] |};
    {| c_parent := Some 0%nat; c_meths := [ (0%nat, c09_m (EStr "k4")) ] |} ].
Definition c09_demo2 : prog :=
  {| p_meths := [];
     p_locals := [ EList (map (fun c => ENew c (EInt (Z.of_nat c))) [0; 1; 2; 3; 3; 4; 4; 0]%nat);
                   EList [EInt 1; EStr "x"; ESym "a"; EChar "c"; EChar "d"; EBool true; ENil; ENil];
                   ENil ];
     p_main := [ SForIn 2 (EVar 0) [ SPrint (ESend (EVar 2) 1 []) ];
                 SForIn 2 (EVar 1) [ SPrint (EInspect (EVar 2)) ] ];
     p_classes := c09_classes |}.
Example C09_dispatch_nonvacuous :
  wf_classes c09_classes /\
  Sref 50 c09_demo2 =
    SDone {| o_out := ["<k00>"; "<k11>"; "<k02>"; "<k33>"; "<k33>"; "<k44>"; "<k44>"; "<k00>";
                       "1"; """x"""; ":a"; "`c`"; "`d`"; "true"; "nil"; "nil"]%string;
             o_err := None; o_status := 0 |}.
Proof.
  split.
  - intros c k q Ek Eq.
    do 5 (destruct c as [|c]; [cbn in Ek; inversion Ek; subst k; cbn in Eq; inversion Eq; lia|]).
    destruct c; discriminate Ek.
  - vm_compute. reflexivity.
Qed.

(* Third generation: bounded Int ranges.  The integers Sref iterates for `for x in a OP b` are exactly
   those the bounds describe - the start is included for `...` and `..<`, excluded for `<..` and
   `<.<`; the end is included for `...` and `<..`, excluded for `..<` and `<.<` - each once, in
   increasing order, consecutive (the i-th element is first + i). *)
Theorem C09_range_elements_exact : forall o a b,
  (forall z, In z (relements o a b) <->
     (match o with RClosed | RRightOpen => a <= z | RLeftOpen | ROpen => a < z end) /\
     (match o with RClosed | RLeftOpen => z <= b | RRightOpen | ROpen => z < b end)) /\
  (forall i, (i < List.length (relements o a b))%nat ->
     nth i (relements o a b) 0 = range_first o a + Z.of_nat i).
Proof. exact relements_exact. Qed.
Print Assumptions C09_range_elements_exact.

(* Sref's for-in over an expression that evaluates to a range runs the body once for every element
   of relements, in that order, binding the loop variable to it, threading environment and output;
   a `return` in the body ends the loop (iter_list) *)
Theorem C09_forin_range_elements : forall n p env out x e body rest o a b out1,
  eval n p env out e = ROk (VRange o a b) out1 ->
  exec (S n) p env out (SForIn x e body :: rest) =
  rbind (iter_list (fun v1 env1 o1 => exec n p (set_nth x v1 env1) o1 body)
           (map VInt (relements o a b)) env out1)
    (fun fl out2 => match fl with
                    | FReturn r => ROk (FReturn r) out2
                    | FNormal env' => exec n p env' out2 rest
                    end).
Proof. exact forin_range_elements. Qed.
Print Assumptions C09_forin_range_elements.

(* var l0 = 3; var l1: LeftOpenRange[Int] = 0<..2
   for x in 1...3 / 1..<3 / 1<..3 / 1<.<3 / 5...1 / 2<..2 / -2<..(l0 - 3) / l1: println(x.inspect) *)
Definition c09_demo3 : prog :=
  {| p_meths := [];
     p_locals := [ EInt 3; ERange RLeftOpen (EInt 0) (EInt 2); EInt 0 ];
     p_main := map (fun e => SForIn 2 e [ SPrint (EInspect (EVar 2)) ])
                 [ ERange RClosed (EInt 1) (EInt 3); ERange RRightOpen (EInt 1) (EInt 3);
                   ERange RLeftOpen (EInt 1) (EInt 3); ERange ROpen (EInt 1) (EInt 3);
                   ERange RClosed (EInt 5) (EInt 1); ERange RLeftOpen (EInt 2) (EInt 2);
                   ERange RLeftOpen (EInt (-2)) (EBin OpSub (EVar 0) (EInt 3)); EVar 1 ];
     p_classes := [] |}.
Example C09_range_nonvacuous :
  Sref 50 c09_demo3 =
    SDone {| o_out := ["1"; "2"; "3"; "1"; "2"; "2"; "3"; "2"; "-1"; "0"; "1"; "2"]%string;
             o_err := None; o_status := 0 |}.
Proof. vm_compute. reflexivity. Qed.
