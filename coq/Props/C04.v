(* C04 - Lexing partitions the source faithfully; colouring never alters text.
   Only statements here; proofs live in Proofs/C04_Spans.v (and Proofs/Utf8_Decode.v).

   Sources are arbitrary byte lists (valid UTF-8 or not). A token is
   (start, end_incl, line, col, end_line, end_col, sgr-parameters). `chain_ok src 0 toks` says that the
   local step condition L (`step_code = 0`: starts at or after the previous end+1, non-negative
   length, inside the input, start and end+1 on rune boundaries of Go's decoding of src, start
   line/column = recount of src[0..start) with lines ending at '\n' and one column per rune,
   end line/column as tokenWithValue derives them from the position at end+1) holds at every
   step. The correspondence stream evaluates exactly this executable `chain_first_bad` on every
   token the real lexer emits (a proved monitor); the theorems lift the local checks to the
   global property for token streams of any length. *)
From Elk Require Import Base.GoSem Base.Utf8 Model.C04_Spans Proofs.Utf8_Decode Proofs.C04_Spans.
Open Scope Z_scope.

(* The monitor's verdict "no bad step" is the chain condition. *)
Theorem C04_monitor : forall src toks,
  chain_first_bad src 0 toks 0 = None <-> chain_ok src 0 toks = true.
Proof. intros. apply chain_first_bad_ok. Qed.
Print Assumptions C04_monitor.

(* Partition: every span lies inside the input, tokens come in source order (for ANY two tokens
   i < j, all of i's bytes precede all of j's), hence spans are pairwise disjoint. *)
Theorem C04_partition : forall src toks,
  chain_ok src 0 toks = true ->
  Forall (fun t => 0 <= t_start t /\ t_start t <= t_end t + 1 /\ t_end t + 1 <= len src) toks /\
  ForallOrdPairs (fun a b => t_end a + 1 <= t_start b) toks /\
  ForallOrdPairs (fun a b => forall k, ~ (t_start a <= k <= t_end a /\ t_start b <= k <= t_end b)) toks.
Proof. exact partition_all. Qed.
Print Assumptions C04_partition.

(* What the recount `pos_at` means: it answers (line, col) for offset n exactly when n is a rune
   boundary of the decoding of the whole source - the decoding steps split as dpre ++ (steps of
   the rest) - and (line, col) is the lexer's counting rule folded over the steps before n. *)
Theorem C04_pos_spec : forall src n p,
  pos_at src n = Some p <->
  exists pre post dpre,
    src = pre ++ post /\ len pre = n /\
    decode_steps src = dpre ++ decode_steps post /\ fold_left bump dpre (1, 1) = p.
Proof. intros. split; [apply pos_at_sound|apply pos_at_complete]. Qed.
Print Assumptions C04_pos_spec.

(* Colouring is the identity after stripping: for every source without ESC bytes and every token
   stream satisfying the chain condition (SGR parameters being digits and ';'), Colorize does not
   panic and strip (Colorize src) = src, byte for byte. *)
Theorem C04_colorize_id : forall src toks,
  chain_ok src 0 toks = true -> no_esc src = true -> sgr_ok toks = true ->
  exists out, colorize src toks = Ok out /\ strip out = src.
Proof. exact colorize_id. Qed.
Print Assumptions C04_colorize_id.

(* Even with ESC bytes in the source, Colorize never hits a slice-bounds panic on a chain. *)
Theorem C04_colorize_total : forall src toks,
  chain_ok src 0 toks = true -> exists out, colorize src toks = Ok out.
Proof. intros src toks H. apply (colorize_total src toks 0); [lia|apply len_nonneg|exact H]. Qed.
Print Assumptions C04_colorize_total.

(* Cursor primitives: any run of advanceChar / backupChars(n) / saveCursor / restoreCursor /
   token emission in which a backup only crosses single-byte advances made since the token start
   and the last newline, and an advance that is not followed by the newline check never consumes
   '\n' (`safe`), keeps 0 <= start <= cursor <= |src|, start and cursor on rune boundaries, and
   the line/column counters equal to the recount of the source up to the cursor. *)
Theorem C04_cursor_inv : forall src ops,
  safe src cinit ops = true ->
  let st := crun src cinit ops in
  0 <= s_start st /\ s_start st <= p_cur (s_pos st) /\ p_cur (s_pos st) <= len src /\
  pos_at src (p_cur (s_pos st)) = Some (p_line (s_pos st), p_col (s_pos st)) /\
  pos_at src (s_start st) <> None.
Proof. exact cursor_inv. Qed.
Print Assumptions C04_cursor_inv.

(* The guard is necessary, and the lexer AS FOUND violated it:
   scanStringLiteralContent on  "\€"  advanced over '\' and the 3-byte '€' and then called
   backupChars(2): the cursor lands inside the rune and the column is off. (Fixed by
   fixes/C04-escape-rewind.patch: saveCursor / restoreCursor.) *)
Theorem C04_cursor_backup_refuted :
  exists src ops,
    safe src cinit ops = false /\
    let st := crun src cinit ops in
    p_cur (s_pos st) = 3 /\ pos_at src (p_cur (s_pos st)) = None /\ cur_ok src st = false.
Proof.
  exists [34; 92; 226; 130; 172; 34], [Adv; Emit; Adv; Adv; Back 2]. vm_compute. repeat split.
Qed.
Print Assumptions C04_cursor_backup_refuted.

(* character() as found consumed the character of  `<LF>`  with a bare advanceChar: the line
   counter stays at 1 although the cursor is on line 2. (Fixed by fixes/C04-line-count.patch.) *)
Theorem C04_cursor_newline_refuted :
  exists src ops,
    safe src cinit ops = false /\
    let st := crun src cinit ops in
    pos_at src (p_cur (s_pos st)) = Some (2, 2) /\ (p_line (s_pos st), p_col (s_pos st)) = (1, 4) /\
    cur_ok src st = false.
Proof.
  exists [96; 10; 96], [AdvRaw; AdvRaw; AdvRaw]. vm_compute. repeat split.
Qed.
Print Assumptions C04_cursor_newline_refuted.

(* ---- non-vacuity ---- *)

(* source  é =<LF>1  with the four tokens the lexer emits: the chain condition holds, the tokens
   are coloured and stripping gives the source back *)
Example C04_chain_nonvacuous :
  let src := [195; 169; 32; 61; 10; 49] in
  let toks := [mkTok 0 1 1 1 1 1 []; mkTok 3 3 1 3 1 3 [57; 53]; mkTok 4 4 1 4 1 4 []; mkTok 5 5 2 1 2 1 [57; 52]] in
  chain_ok src 0 toks = true /\ no_esc src = true /\ sgr_ok toks = true /\
  colorize src toks =
    Ok ([27; 91; 109; 195; 169; 27; 91; 48; 109; 32; 27; 91; 57; 53; 109; 61; 27; 91; 48; 109;
         27; 91; 109; 10; 27; 91; 48; 109; 27; 91; 57; 52; 109; 49; 27; 91; 48; 109]) /\
  chain_first_bad src 0 (mkTok 0 1 1 1 1 1 [] :: mkTok 3 3 1 2 1 2 [] :: nil) 0 = Some (1, 5) /\
  pos_at src 1 = None /\ pos_at src 5 = Some (2, 1).
Proof. vm_compute. repeat split. Qed.

(* the FIXED lexer's cursor trace on  "\€"  (STRING_BEG, empty STRING_CONTENT after the rewind,
   ERROR over \€, STRING_END) is safe and ends at the end of the source *)
Example C04_cursor_nonvacuous :
  let src := [34; 92; 226; 130; 172; 34] in
  let ops := [Adv; Emit; Save; Adv; Adv; Restore; Emit; Adv; Adv; Emit; Adv; Emit] in
  safe src cinit ops = true /\ p_cur (s_pos (crun src cinit ops)) = 6 /\
  cur_ok src (crun src cinit ops) = true /\
  safe src cinit [Adv; Emit; Adv; Adv; Adv; Back 2] = false /\
  safe [34; 92; 120; 90] cinit [Adv; Emit; Adv; Adv; Back 2] = true.
Proof. vm_compute. repeat split. Qed.
