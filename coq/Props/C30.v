(* C30 — pattern matching selects the first matching case and binds correctly.
   Only statements here; proofs live in Proofs/C30_Pattern.v; the matcher in Model/C30_Pattern.v. *)
From Coq Require Import ZArith List Bool Permutation.
From Elk Require Import Model.C30_Pattern Proofs.C30_Pattern.
Import ListNotations.
Open Scope Z_scope.

(* For every clause list and every value: `switch` selects clause i with environment e exactly
   when clause i matches with e and no earlier clause matches; and it selects nothing (the
   `else` branch runs) exactly when no clause matches. *)
Theorem C30_first_match : forall cs v i e,
  switch cs v = Some (i, e) <->
  exists p, nth_error cs i = Some p /\ matches p v = Some e /\
            forall j q, (j < i)%nat -> nth_error cs j = Some q -> matches q v = None.
Proof. exact first_match. Qed.
Print Assumptions C30_first_match.

Theorem C30_no_match_iff_else : forall cs v,
  switch cs v = None <-> (forall p, In p cs -> matches p v = None).
Proof. exact no_match. Qed.
Print Assumptions C30_no_match_iff_else.

(* Bindings, domain. A successful match binds only variables of the pattern; when every
   alternative `p || q` binds the same variables on both sides (balanced — the Elk checker does
   NOT require this: it types variables under `||` as nilable instead) the bound variables
   are exactly bound_vars p in binding order; without alternatives that is vars p. *)
Theorem C30_bindings : forall p v e,
  matches p v = Some e ->
  incl (map fst e) (vars p) /\
  (balanced p = true -> map fst e = bound_vars p) /\
  (orfree p = true -> map fst e = vars p).
Proof. exact bindings_domain. Qed.
Print Assumptions C30_bindings.

(* Bindings, values. Every bound value is a part of the scrutinee: the scrutinee itself, an
   element of a list/tuple part, a contiguous slice of one (rest element), or `part[key]`
   of a map/record part (nil for a missing key). *)
Theorem C30_bindings_are_parts : forall p v e x w,
  matches p v = Some e -> In (x, w) e -> part v w.
Proof. exact bindings_part. Qed.
Print Assumptions C30_bindings_are_parts.

(* Alternatives are left-biased and `as` binds the whole matched value. *)
Theorem C30_or_left_biased : forall p q v,
  matches (POr p q) v = match matches p v with Some e => Some e | None => matches q v end.
Proof. exact or_left_biased. Qed.
Print Assumptions C30_or_left_biased.

(* Rest element: the sequence is prefix ++ rest ++ suffix, the prefix is matched by the patterns
   before the rest, the suffix by those after it, and the rest variable holds the middle. *)
Theorem C30_rest_partition : forall t pre x post v e,
  matches (PSeq t pre (RNamed x) post) v = Some e ->
  exists l a m b e1 e3,
    seq_elems t v = Some l /\ l = a ++ m ++ b /\
    length a = length pre /\ length b = length post /\
    match_all matches pre a = Some e1 /\ match_all matches post b = Some e3 /\
    e = e1 ++ [(x, VList m)] ++ e3.
Proof. exact rest_partition. Qed.
Print Assumptions C30_rest_partition.

Theorem C30_norest_exact_length : forall t pre post v e,
  matches (PSeq t pre RNone post) v = Some e ->
  exists l, seq_elems t v = Some l /\ length l = (length pre + length post)%nat.
Proof. exact norest_length. Qed.
Print Assumptions C30_norest_exact_length.

(* Determinism. The matcher is a function, so the selected clause and its environment are
   unique (stated for completeness); the substantive part: the selected clause does not depend
   on the entry order of a map/record scrutinee with distinct keys. *)
Theorem C30_matcher_deterministic : forall cs v i1 e1 i2 e2,
  switch cs v = Some (i1, e1) -> switch cs v = Some (i2, e2) -> i1 = i2 /\ e1 = e2.
Proof. exact switch_deterministic. Qed.
Print Assumptions C30_matcher_deterministic.

Theorem C30_selection_ignores_entry_order : forall cs mk kvs kvs',
  (mk = VMap \/ mk = VRec) ->
  Permutation kvs kvs' -> NoDup (map fst kvs) ->
  option_map fst (switch cs (mk kvs)) = option_map fst (switch cs (mk kvs')).
Proof. exact dict_order_selection. Qed.
Print Assumptions C30_selection_ignores_entry_order.

(* Known finding (keys starting with unbalanced-or). With unbalanced alternatives a successful match leaves the
   variables of the alternative that did not match unassigned: the checker accepts this and types
   them as nilable, but the compiled code reads the never-initialised slot (`undefined`) or a value
   left by the failed alternative. The witness below is the input class of the finding; the
   theorem after it is the property restricted to balanced patterns, where every variable of the
   pattern is assigned, to a part of the scrutinee. *)
Theorem C30_unbalanced_or_refuted :
  exists p v e x, matches p v = Some e /\ In x (vars p) /\ env_get x e = None.
Proof. exact unbalanced_or_witness. Qed.
Print Assumptions C30_unbalanced_or_refuted.

Theorem C30_bindings_total_partial : forall p v e,
  balanced p = true -> matches p v = Some e ->
  forall x, In x (bound_vars p) -> exists w, env_get x e = Some w /\ part v w.
Proof. exact bindings_total_balanced. Qed.
Print Assumptions C30_bindings_total_partial.

(* Non-vacuity: the model computes non-trivial matches. *)
Example C30_nonvacuous :
  (* switch [1, *r, {a: 3 || 4 as y}] / %[x, _] / z  on  [1, 7, 8, {a: 4}] , %[5, 6] and 9 *)
  let c0 := PSeq false [PLit (AInt 1)] (RNamed 10) [PDict false [(ASym 1, POr (PLit (AInt 3)) (PAs (PLit (AInt 4)) 11))]] in
  let c1 := PSeq true [PBind 12; PWild] RNone [] in
  let c2 := PBind 13 in
  switch [c0; c1; c2] (VList [VAtom (AInt 1); VAtom (AInt 7); VAtom (AInt 8); VMap [(ASym 1, VAtom (AInt 4))]])
    = Some (0%nat, [(10, VList [VAtom (AInt 7); VAtom (AInt 8)]); (11, VAtom (AInt 4))]) /\
  switch [c0; c1; c2] (VTuple [VAtom (AInt 5); VAtom (AInt 6)]) = Some (1%nat, [(12, VAtom (AInt 5))]) /\
  switch [c0; c1; c2] (VAtom (AInt 9)) = Some (2%nat, [(13, VAtom (AInt 9))]) /\
  switch [c0; c1] (VAtom (AInt 9)) = None /\
  balanced (POr (PSeq false [PBind 1; PLit (AInt 1)] RNone []) (PSeq false [PLit (AInt 2); PBind 1] RNone [])) = true /\
  orfree c1 = true /\
  matches (PRange RLeftOpen (Some 9) (Some 11)) (VAtom (AInt 9)) = None /\
  matches (PRange RLeftOpen (Some 9) (Some 11)) (VAtom (AInt 11)) = Some [].
Proof. repeat split; vm_compute; reflexivity. Qed.
