(* C28 - std headers and native implementations agree (arity part: proved; types: sampled, see checks/C28.py) *)
From Coq Require Import List Bool Arith NArith.
From Elk Require Import Model.C28_Arity Proofs.C28_Arity Gen.C28_Headers.
Import ListNotations.

(* For ALL declarations d, runtime methods r, surface argument counts argc the signature admits and
   caller stacks: if `compatible d r` and the method exists, the native function receives exactly
   receiver + parameterCount slots: args[0] is the receiver, argument i is at args[i+1], every other
   slot is a rest tuple / named-rest record / `undefined` for an omitted OPTIONAL parameter / a filler for a
   runtime-optional parameter; nothing of the caller's stack is read, and the stack is balanced afterwards. *)
Theorem C28_arity_safe : forall d r argc below,
  compatible d r = true -> r_found r = true -> admitted d argc = true ->
  call d r argc below = Some (mkCall (expected_args d r argc) (SResult :: below))
  /\ length (expected_args d r argc) = r_pc r + 1
  /\ hd SFill (expected_args d r argc) = SRecv
  /\ forallb (fun s => negb (is_junk s)) (expected_args d r argc) = true
  /\ (forall i, In (SOmitted i) (expected_args d r argc) -> d_req d <= i < d_req d + d_opt d)
  /\ (forall i, i < Nat.min argc (d_req d + d_opt d) -> nth (S i) (expected_args d r argc) SFill = SArg i)
  /\ r_pc r - total d <= r_opc r.
Proof. exact arity_safe. Qed.
Print Assumptions C28_arity_safe.

(* The argument window never reaches below the bottom of the value stack, compatible or not:
   a count mismatch shows as misalignment (next three theorems), not as an out-of-bounds read. *)
Theorem C28_call_in_bounds : forall d r argc below,
  r_found r = true -> call d r argc below <> None.
Proof. exact call_in_bounds. Qed.
Print Assumptions C28_call_in_bounds.

(* why `compatible` must hold - each way of failing it is a concrete hazard: *)
Theorem C28_too_few_params_misaligned : forall d r argc below,
  r_found r = true -> r_pc r < total d ->
  exists args after, call d r argc below = Some (mkCall args after)
    /\ length args = r_pc r + 1 /\ ~ In SRecv args
    /\ length after = length below + 1 + (total d - r_pc r).
Proof. exact too_few_misaligned. Qed.
Print Assumptions C28_too_few_params_misaligned.

Theorem C28_too_many_params_required_filler : forall d r argc below,
  r_found r = true -> r_pc r - total d > r_opc r ->
  exists args after, call d r argc below = Some (mkCall args after)
    /\ nth (total d + 1) args SRecv = SFill /\ total d + 1 <= r_pc r - r_opc r.
Proof. exact too_many_required_filler. Qed.
Print Assumptions C28_too_many_params_required_filler.

Theorem C28_no_runtime_init_leaves_arguments : forall d r argc below,
  r_found r = false -> d_init d = true -> 0 < total d ->
  exists after, call d r argc below = Some (mkCall [] after)
    /\ hd SRecv after <> SRecv /\ length after = length below + 1 + total d.
Proof. exact no_init_leaves_arguments. Qed.
Print Assumptions C28_no_runtime_init_leaves_arguments.

Theorem C28_incompatible_found_is_hazard : forall d r,
  r_found r = true -> compatible d r = false ->
  r_pc r < total d \/ r_pc r - total d > r_opc r.
Proof. exact compatible_complete. Qed.
Print Assumptions C28_incompatible_found_is_hazard.

(* The regenerated table (finite: one row per declared / inherited std method of the current tree).
   The exception list written by the harness (its own copy of the compatibility test) is EXACTLY the list of
   rows the Coq definition `compatible` rejects, in table order: harness and model agree on every row.
   checks/C28.py fails unless each exception is a recorded known finding. *)
Theorem C28_exceptions_are_the_incompatible_rows : incompatible_keys rows = exceptions.
Proof. vm_compute. reflexivity. Qed.
Print Assumptions C28_exceptions_are_the_incompatible_rows.

(* hence every row of the table is compatible or is one of the listed exceptions *)
Theorem C28_all_compatible : all_compatible exceptions rows = true.
Proof. rewrite <- C28_exceptions_are_the_incompatible_rows. exact (all_compatible_incompatible_keys rows). Qed.
Print Assumptions C28_all_compatible.

(* table + protocol: every non-excepted row with a runtime method is called safely with every admitted count *)
Theorem C28_table_calls_safe : forall x argc below,
  In x rows -> ~ In (row_key x) exceptions -> r_found (row_rt x) = true ->
  admitted (row_decl x) argc = true ->
  call (row_decl x) (row_rt x) argc below
  = Some (mkCall (expected_args (row_decl x) (row_rt x) argc) (SResult :: below)).
Proof.
  intros x argc below Hin Hex Hf Hadm.
  destruct (all_compatible_spec _ _ C28_all_compatible x Hin) as [Hc|Hc]; [|contradiction].
  exact (proj1 (arity_safe _ _ argc below Hc Hf Hadm)).
Qed.
Print Assumptions C28_table_calls_safe.

(* non-vacuity *)
Example C28_arity_safe_nonvacuous :
  let d := mkDecl 1 2 true false false true false in
  let r := mkRt true RNative 5 1 in
  compatible d r = true /\ admitted d 2 = true /\
  call d r 2 [SJunk 7] = Some (mkCall [SRecv; SArg 0; SArg 1; SOmitted 2; SRest 0; SFill] [SResult; SJunk 7]).
Proof. vm_compute. repeat split. Qed.

Example C28_mismatch_nonvacuous :
  (* Std::FS::Path#matches_glob as found: declared (pattern), registered with 0 parameters *)
  call (mkDecl 1 0 false false false true false) (mkRt true RNative 0 0) 1 [SJunk 7]
  = Some (mkCall [SArg 0] [SResult; SRecv; SJunk 7]).
Proof. vm_compute. reflexivity. Qed.

Example C28_table_nonvacuous :
  Nat.leb 200 (length rows) = true /\
  existsb (fun x => r_found (row_rt x) && Nat.ltb 0 (d_opt (row_decl x))) rows = true /\
  existsb (fun x => r_found (row_rt x) && d_rest (row_decl x)) rows = true.
Proof. vm_compute. repeat split. Qed.
