(* C20 - String operations agree with code-point, byte and grapheme models.
   Only statements here; proofs live in Proofs/C20_String.v and Proofs/Utf8_*.v.

   Strings are arbitrary byte lists (valid UTF-8 or not). `chars s` is the reference list of
   characters of s: one per Go decoding step, an invalid byte counting as the character with
   that byte's value (what char_at and inspect show). `gseg` is uniseg's grapheme segmentation,
   an oracle about which only two laws are assumed: the clusters are non-empty and concatenate
   to the string. Every Go string has at most 2^63-1 bytes (`byte_count s <= max64`). *)
From Elk Require Import Base.GoSem Base.Utf8 Model.C20_String Model.C20_Iter
  Proofs.Utf8_Decode Proofs.Utf8_Encode Proofs.Utf8_Append Proofs.C20_String Proofs.C20_Iter.
Open Scope Z_scope.

(* ---- shared UTF-8 base (Base/Utf8.v) ---- *)

(* DecodeRune inverts EncodeRune: for every rune r (non-scalar values are written as U+FFFD),
   decoding the encoding followed by anything returns the normalised rune and consumes exactly
   the encoding. *)
Theorem Utf8_decode_encode : forall r t,
  decode_rune (encode_rune r ++ t) = (norm_rune r, rune_len r) /\
  Z.of_nat (length (encode_rune r)) = rune_len r /\
  (valid_rune r = true -> norm_rune r = r).
Proof. exact utf8_decode_encode_all. Qed.
Print Assumptions Utf8_decode_encode.

(* The decoding loop consumes the whole string: sizes add up to the byte length, each size is
   1..4, the rune count never exceeds the byte count, and the consumed chunks concatenate back
   to the string. *)
Theorem Utf8_sizes : forall s,
  zsum (map snd (decode_all s)) = Z.of_nat (length s) /\
  Forall (fun x => 1 <= st_size x <= 4) (decode_steps s) /\
  0 <= rune_count s <= Z.of_nat (length s) /\
  concat (chunks (decode_steps s) s) = s.
Proof. exact utf8_sizes_all. Qed.
Print Assumptions Utf8_sizes.

(* Valid strings are exactly the encodings of rune lists. *)
Theorem Utf8_valid_roundtrip :
  (forall rs, runes (encode_all rs) = map norm_rune rs /\ valid_string (encode_all rs) = true) /\
  (forall s, Forall (fun b => 0 <= b) s -> valid_string s = true -> encode_all (runes s) = s).
Proof. exact utf8_valid_roundtrip_all. Qed.
Print Assumptions Utf8_valid_roundtrip.

(* ---- C20 ---- *)

(* length, byte_count and grapheme_count equal the number of elements their iterators yield,
   and the iterators (run until :stop_iteration; `Some` = they terminate) yield exactly the
   characters, the bytes and the grapheme clusters of the string. *)
Theorem C20_counts : forall (gseg : list Z -> list (list Z)),
  (forall s, concat (gseg s) = s) -> (forall s c, In c (gseg s) -> c <> []) ->
  forall s,
  char_count s = Z.of_nat (length (chars s)) /\
  byte_count s = Z.of_nat (length s) /\
  grapheme_count gseg s = Z.of_nat (length (gseg s)) /\
  char_iter_all s = Some (chars s) /\
  byte_iter_all s = Some s /\
  grapheme_iter_all gseg s = Some (gseg s).
Proof. exact counts_all. Qed.
Print Assumptions C20_counts.

(* char_at / byte_at / grapheme_at with index i on a sequence of n elements: for -n <= i < n the
   element at position i (counted from the end when negative); otherwise an IndexError. Never
   a panic, for any integer i (including ones that do not fit an int64). *)
Theorem C20_index : forall (gseg : list Z -> list (list Z)),
  (forall s, concat (gseg s) = s) -> (forall s c, In c (gseg s) -> c <> []) ->
  forall s i, byte_count s <= max64 ->
  (let n := Z.of_nat (length (chars s)) in
   (- n <= i < n ->
      exists c, nth_error (chars s) (Z.to_nat (norm_index n i)) = Some c /\ char_at s i = Ok c) /\
   (~ (- n <= i < n) -> char_at s i = Err E_INDEX)) /\
  (let n := Z.of_nat (length s) in
   (- n <= i < n ->
      exists b, nth_error s (Z.to_nat (norm_index n i)) = Some b /\ byte_at s i = Ok b) /\
   (~ (- n <= i < n) -> byte_at s i = Err E_INDEX)) /\
  (let n := Z.of_nat (length (gseg s)) in
   (- n <= i < n ->
      exists c, nth_error (gseg s) (Z.to_nat (norm_index n i)) = Some c /\ grapheme_at gseg s i = Ok c) /\
   (~ (- n <= i < n) -> grapheme_at gseg s i = Err E_INDEX)).
Proof. exact index_all. Qed.
Print Assumptions C20_index.

(* rjust / ljust to width w with padding char c: the result is the padding (the encoding of c
   repeated max(0, w - length s) times) before / after s; in CHARACTERS it is that many copies
   of c next to the characters of s, and its length is max(w, length s). For every string
   (valid or not), every integer w, every rune c (non-scalar values pad as U+FFFD). *)
Theorem C20_just : forall s w c,
  let k := Z.to_nat (w - char_count s) in
  rjust s w c = padding (w - char_count s) c ++ s /\
  ljust s w c = s ++ padding (w - char_count s) c /\
  chars (rjust s w c) = List.repeat (norm_rune c) k ++ chars s /\
  chars (ljust s w c) = chars s ++ List.repeat (norm_rune c) k /\
  char_count (rjust s w c) = Z.max w (char_count s) /\
  char_count (ljust s w c) = Z.max w (char_count s).
Proof. exact just_all. Qed.
Print Assumptions C20_just.

(* s + t: byte counts add; character counts add and the characters are the concatenation of
   the characters whenever s is valid UTF-8 or t does not begin with a continuation byte
   (see C20_concat_chars_need_guard below); s + char appends exactly one character. *)
Theorem C20_concat_len : forall s t c,
  byte_count (concat_string s t) = byte_count s + byte_count t /\
  (valid_string s = true \/ starts_fresh t = true ->
     chars (concat_string s t) = chars s ++ chars t /\
     char_count (concat_string s t) = char_count s + char_count t) /\
  concat_char s c = concat_string s (encode_rune c) /\
  chars (concat_char s c) = chars s ++ [norm_rune c] /\
  char_count (concat_char s c) = char_count s + 1.
Proof. exact concat_all. Qed.
Print Assumptions C20_concat_len.

(* s * n: OutOfRangeError for negative n and for n that is not an int64; otherwise s repeated
   n times, with n * byte_count bytes and (for valid s) n * length characters - PROVIDED the byte
   length fits an int (the guard is a resource limit of Go strings, not a defect class). When it
   does not fit, strings.Repeat panics (fourth clause: this is what the code does; a result
   cannot exist). Memory exhaustion for large representable results is outside the model. *)
Theorem C20_repeat : forall s n,
  (fits64 n = false -> repeat s n = Err E_RANGE) /\
  (fits64 n = true -> n < 0 -> repeat s n = Err E_RANGE) /\
  (fits64 n = true -> 0 <= n -> byte_count s * n <= max64 ->
     repeat s n = Ok (repeat_list s (Z.to_nat n)) /\
     byte_count (repeat_list s (Z.to_nat n)) = n * byte_count s /\
     (valid_string s = true -> char_count (repeat_list s (Z.to_nat n)) = n * char_count s)) /\
  (fits64 n = true -> 2 <= n -> byte_count s * n > max64 -> repeat s n = Panic P_REPEAT_OVERFLOW).
Proof. exact repeat_all. Qed.
Print Assumptions C20_repeat.

(* s - suffix: removes the suffix when s ends with it, otherwise returns s; a Char suffix is its
   UTF-8 encoding, so (s + c) - c = s for every string and every char. *)
Theorem C20_remove_suffix :
  (forall p t, remove_suffix (p ++ t) t = p) /\
  (forall s t, (forall p, s <> p ++ t) -> remove_suffix s t = s) /\
  (forall s c, remove_suffix_char s c = remove_suffix s (encode_rune c)) /\
  (forall s c, remove_suffix_char (concat_char s c) c = s).
Proof. exact remove_all. Qed.
Print Assumptions C20_remove_suffix.

(* <=> is a total order on byte strings (reflexive, antisymmetric, transitive, total), with
   values in {-1,0,1}, anti-symmetric under swapping, and < <= > >= == are its projections. *)
Theorem C20_cmp_total_order :
  (forall x, cmp x x = 0) /\
  (forall x y, cmp x y <= 0 -> cmp y x <= 0 -> x = y) /\
  (forall x y z, cmp x y <= 0 -> cmp y z <= 0 -> cmp x z <= 0) /\
  (forall x y, cmp x y <= 0 \/ cmp y x <= 0) /\
  (forall x y, cmp y x = - cmp x y /\ (cmp x y = -1 \/ cmp x y = 0 \/ cmp x y = 1)) /\
  (forall x y, lt x y = (cmp x y =? -1) /\ le x y = negb (cmp x y =? 1) /\
               gt x y = (cmp x y =? 1) /\ ge x y = negb (cmp x y =? -1) /\
               (eqs x y = true <-> x = y)).
Proof. exact cmp_total_order. Qed.
Print Assumptions C20_cmp_total_order.

(* uppercase / lowercase (strings.Map with any rune mapping f, e.g. unicode.ToUpper): the runes
   of the result are f applied to the runes of s (as Go ranges over them: an invalid byte is
   U+FFFD), so the character count is preserved, and the result is valid UTF-8. *)
Theorem C20_case_mapping : forall (f : Z -> Z) s,
  runes (map_runes f s) = map (fun r => norm_rune (f r)) (runes s) /\
  char_count (map_runes f s) = char_count s /\
  valid_string (map_runes f s) = true.
Proof. exact case_all. Qed.
Print Assumptions C20_case_mapping.

(* ---- iterator protocol (Model/C20_Iter.v): histories of operations on iterator OBJECTS ----

   `gstep` is uniseg.FirstGraphemeClusterInString (rest, state) -> (cluster, rest', state'), an
   oracle about which one law is assumed (`gstep_law`): on a non-empty rest the cluster is a
   non-empty prefix and rest' is what follows it. The clusters of a string, `gseg_of gstep s`,
   are DEFINED as GraphemeClusterCount / GraphemeAtInt / a fresh iterator compute them: steps
   from (s, -1). A grapheme iterator's state is the Go struct's (Rest, State). *)

(* the clusters defined from the step function satisfy the two laws assumed of `gseg` above, so
   C20_counts and C20_index hold with gseg := gseg_of gstep *)
Theorem C20_gseg_of_laws : forall gstep, gstep_law gstep ->
  (forall t, concat (gseg_of gstep t) = t) /\ (forall t c, In c (gseg_of gstep t) -> c <> []).
Proof. exact gseg_of_laws. Qed.
Print Assumptions C20_gseg_of_laws.

(* For ANY history h of operations on a pool of iterators over s - create an iterator of any of
   the three kinds, next, reset, copy, `for` (next until :stop_iteration), in any interleaving
   and on any iterator of the pool, ill-formed indices included - the iterator objects
   (ByteOffset / (Rest, State) machines) yield, operation by operation, exactly what positions
   in the element lists yield: next = the element at the current position (then position + 1)
   or :stop_iteration at the end; reset = back to position 0; copy = same position, independent
   afterwards. The element lists are the characters, the bytes and the grapheme clusters of s. *)
Theorem C20_iter_history : forall gstep, gstep_law gstep ->
  forall s (h : list (pop ikind)), iter_run gstep s h = iter_spec gstep s h.
Proof. exact iter_history. Qed.
Print Assumptions C20_iter_history.

(* the element lists have length / byte_count / grapheme_count elements, and they are the lists
   C20_index indexes (chars s, s, gseg_of gstep s) *)
Theorem C20_iter_elems : forall gstep, gstep_law gstep -> forall s,
  elems gstep s KChar = map EChar (chars s) /\
  elems gstep s KByte = map EByte s /\
  elems gstep s KGr = map EStr (gseg_of gstep s) /\
  Z.of_nat (length (elems gstep s KChar)) = char_count s /\
  Z.of_nat (length (elems gstep s KByte)) = byte_count s /\
  Z.of_nat (length (elems gstep s KGr)) = grapheme_count (gseg_of gstep) s.
Proof. exact iter_elems_all. Qed.
Print Assumptions C20_iter_elems.

(* after ANY history, if iterator i exists and has kind k, `it.reset` followed by `for x in it`
   yields the whole element list of kind k - as many elements as the *_count method says - and
   then stops (S (length s) steps always suffice) *)
Theorem C20_iter_reiterate : forall gstep, gstep_law gstep ->
  forall s h i k p, nth_error (spec_state gstep s h) i = Some (k, p) ->
  iter_run gstep s (h ++ [PReset i; PDrain i]) =
    iter_run gstep s h ++ [[QUnit]; map QElem (elems gstep s k) ++ [QStop]].
Proof. exact iter_reiterate. Qed.
Print Assumptions C20_iter_reiterate.

(* grapheme_at with the clusters defined from the step function (C20_index instantiated) *)
Theorem C20_iter_grapheme_at : forall gstep, gstep_law gstep ->
  forall s i, byte_count s <= max64 ->
  let n := Z.of_nat (length (gseg_of gstep s)) in
  (- n <= i < n ->
     exists c, nth_error (gseg_of gstep s) (Z.to_nat (norm_index n i)) = Some c /\
               grapheme_at (gseg_of gstep) s i = Ok c) /\
  (~ (- n <= i < n) -> grapheme_at (gseg_of gstep) s i = Err E_INDEX).
Proof. exact iter_grapheme_at. Qed.
Print Assumptions C20_iter_grapheme_at.

(* the step law is satisfiable by an oracle with a STATE-DEPENDENT rule (toy GB3: 13,10 is one
   cluster unless the state is 0), and the machines compute: "\r\na" - next, reset, for, a copy
   taken mid-way, two iterators interleaved *)
Example C20_iter_nonvacuous :
  gstep_law gstep_crlf /\
  gseg_of gstep_crlf [13; 10; 97] = [[13; 10]; [97]] /\
  iter_run gstep_crlf [13; 10; 97] [PNew KGr; PNext 0; PReset 0; PDrain 0; PNext 0; PReset 0; PNext 0] =
    [[QUnit]; [QElem (EStr [13; 10])]; [QUnit]; [QElem (EStr [13; 10]); QElem (EStr [97]); QStop];
     [QStop]; [QUnit]; [QElem (EStr [13; 10])]] /\
  iter_run gstep_crlf [195; 169; 255] [PNew KChar; PNew KByte; PNext 0; PNext 1; PCopy 0; PReset 0; PNext 2; PNext 0; PDrain 1; PNext 7] =
    [[QUnit]; [QUnit]; [QElem (EChar 233)]; [QElem (EByte 195)]; [QUnit]; [QUnit]; [QElem (EChar 255)];
     [QElem (EChar 233)]; [QElem (EByte 169); QElem (EByte 255); QStop]; [QBad]].
Proof. split; [exact gstep_crlf_law|]. repeat split; vm_compute; reflexivity. Qed.

(* the initial sentinel matters: a Reset that leaves State = 0 (the zero value of the struct
   field) instead of -1 makes the re-iteration of "\r\na" split the leading cluster - 3 elements
   where grapheme_count is 2 - so the faithful model distinguishes the two resets *)
Example C20_iter_reset_sentinel_matters :
  iter_run_reset_to (-1) gstep_crlf [13; 10; 97] [PNew KGr; PReset 0; PDrain 0] =
    iter_spec gstep_crlf [13; 10; 97] [PNew KGr; PReset 0; PDrain 0] /\
  iter_run_reset_to 0 gstep_crlf [13; 10; 97] [PNew KGr; PReset 0; PDrain 0] =
    [[QUnit]; [QUnit]; [QElem (EStr [13]); QElem (EStr [10]); QElem (EStr [97]); QStop]] /\
  iter_spec gstep_crlf [13; 10; 97] [PNew KGr; PReset 0; PDrain 0] =
    [[QUnit]; [QUnit]; [QElem (EStr [13; 10]); QElem (EStr [97]); QStop]].
Proof. repeat split; vm_compute; reflexivity. Qed.

(* ---- non-vacuity and witnesses (vm_compute on concrete strings) ---- *)

(* a grapheme oracle satisfying both laws exists (one cluster per byte), so the hypotheses of
   C20_counts / C20_index are satisfiable; and the model computes non-trivial results *)
(* gseg_bytes (Proofs/C20_String.v): one cluster per byte *)
Example C20_oracle_laws_nonvacuous :
  (forall s, concat (gseg_bytes s) = s) /\ (forall s c, In c (gseg_bytes s) -> c <> []).
Proof. exact gseg_bytes_laws. Qed.

(* "é" = C3 A9; "€" = E2 82 AC; 0xFF is an invalid byte; ED A0 80 is an encoded surrogate *)
Example C20_nonvacuous :
  char_count [195; 169] = 1 /\ byte_count [195; 169] = 2 /\
  rjust [195; 169] 3 120 = [120; 120; 195; 169] /\
  char_count (rjust [195; 169] 3 120) = 3 /\
  ljust [97; 255] 4 8364 = [97; 255; 226; 130; 172; 226; 130; 172] /\
  chars [97; 255; 226; 130; 172; 237; 160; 128] = [97; 255; 8364; 237; 160; 128] /\
  char_iter_all [255; 195; 169] = Some [255; 233] /\
  char_at [255; 195; 169] (-2) = Ok 255 /\
  char_at [255; 195; 169] 2 = Err E_INDEX /\
  byte_at [255; 195; 169] (-1) = Ok 169 /\
  grapheme_at gseg_bytes [1; 2; 3] (-3) = Ok [1] /\
  repeat [195; 169] 2 = Ok [195; 169; 195; 169] /\
  repeat [195; 169] (-1) = Err E_RANGE /\
  repeat [195; 169] (2 ^ 62) = Panic P_REPEAT_OVERFLOW /\
  remove_suffix_char [255] 65533 = [255] /\
  remove_suffix_char [97; 239; 191; 189] 65533 = [97] /\
  cmp [195; 169] [195] = 1 /\
  map_runes (fun r => if r =? 233 then 201 else r) [255; 195; 169] = [239; 191; 189; 195; 137].
Proof. repeat split; vm_compute; reflexivity. Qed.

(* without the guard of C20_concat_len characters are NOT additive: "\xC3" + "\xA9" = "é" *)
Example C20_concat_chars_need_guard :
  char_count [195] = 1 /\ char_count [169] = 1 /\ char_count (concat_string [195] [169]) = 1 /\
  valid_string [195] = false /\ starts_fresh [169] = false.
Proof. repeat split; vm_compute; reflexivity. Qed.
