(* C33 — cancellation stops any running program (verified validator + observed run time).
   Only statements here; proofs live in Proofs/Cfg_Abort.v.  [abort_safe] (Base/Cfg.v) is RUN on
   every function compiled with AdditionalAbortChecks (stream c33.static). *)
From Coq Require Import NArith ZArith List Bool.
From Elk Require Import Base.Cfg Model.C29_Decode Proofs.Cfg_Verify Proofs.Cfg_Abort Gen.C29_Opcodes.
Import ListNotations.
Open Scope N_scope.

(* If the validator accepts f, every control-flow path of f (ordinary, exception-handler and
   finally edges) that visits no stop node -- CHECK_ABORT, a context-aware blocking opcode
   (SELECT), or a suspension point (YIELD / STOP_ITERATION) -- has at most |f| offsets.
   Hence after cancellation an activation of f executes fewer than |f| + 1 further
   instructions of f before it runs an abort check, suspends, calls out, or leaves f. *)
Theorem C33_validator_sound : forall f, abort_safe f = true ->
  forall p, cpath f p ->
  (forall o, In o p -> forall i, instr_at f o = Some i -> stop i = false) ->
  (length p <= length (f_instrs f))%nat.
Proof. exact abort_safe_loops. Qed.
Print Assumptions C33_validator_sound.

(* Lifting over calls: in an accepted function every path from the entry (or from a resume
   point after YIELD / AWAIT, or the body entry of a generator/promise) to a RETURN,
   RETURN_SELF, RETURN_FIRST_ARG or YIELD executes an abort check first (RETURN_FINALLY is not
   covered: see Base/Cfg.v is_exit).  So an activation that completes has
   run a check; recursion and native-driven iteration hit one check per completed call. *)
Theorem C33_exits_checked : forall f, abort_safe f = true ->
  forall a p, In a (starts f) -> epath f (a :: p) ->
  (forall o, In o (a :: p) -> forall i, instr_at f o = Some i -> i_check i = false) ->
  forall o, In o (a :: p) -> forall i, instr_at f o = Some i -> is_exit i = false.
Proof. exact abort_safe_exits. Qed.
Print Assumptions C33_exits_checked.

(* non-vacuity: `var a = 0; loop a += 1 end` compiled by the real compiler WITH abort checks is
   accepted; the same program compiled WITHOUT them is rejected (its loop has no check); and
   so is a LOOP instruction that jumps to itself in front of the check. *)
Example C33_nonvacuous :
  (exists f, build optable (mkraw [32; 1; 2; 215; 30; 217; 34; 40; 218; 9; 175; 34; 30; 248; 69; 0; 10; 248; 1] [VFun 0] [] 0 0) = Some f /\ verify f = true /\ abort_safe f = true) /\
  (exists f, build optable (mkraw [32; 1; 2; 215; 30; 217; 34; 40; 218; 9; 175; 34; 30; 69; 0; 9; 1] [VFun 0] [] 0 0) = Some f /\ verify f = true /\ loops_checked f = false) /\
  (exists f, build optable (mkraw [32; 1; 2; 215; 30; 217; 34; 69; 0; 3; 30; 248; 69; 0; 8; 248; 1] [VFun 0] [] 0 0) = Some f /\ verify f = true /\ loops_checked f = false).
Proof.
  split; [|split]; eexists; (split; [vm_compute; reflexivity|]); vm_compute; repeat split; reflexivity.
Qed.

(* REFUTED for tail calls (finding dynamic:hang:tail-recursion): `def rec(k: Int): Int; rec(k + 1); end`
   compiled by the real compiler with abort checks is SELF GET_LOCAL_1 INT_1 ADD_INT
   CALL_METHOD_BC8(tail call) CHECK_ABORT RETURN.  The function is accepted by the validator (its
   only exit is preceded by a check, it has no cycle), yet no check node sits at or before the
   tail call at offset 4, which replaces the frame: the check is never executed.  The two
   theorems above are per activation and therefore partial: they say nothing about an endless
   chain of tail calls, none of which completes. *)
Theorem C33_tailcall_refuted :
  exists f, build optable (mkraw [108; 40; 218; 9; 116; 0; 248; 1] [VCallBC] [] 1 0) = Some f /\
            abort_safe f = true /\
            forallb (fun i => negb (i_check i) || (4 <? i_off i)) (f_instrs f) = true.
Proof. eexists; (split; [vm_compute; reflexivity|]); vm_compute; split; reflexivity. Qed.
Print Assumptions C33_tailcall_refuted.
