(* C05 — printing a syntax tree and reparsing it gives the same tree: operator core.
   Only statements here; proofs live in Proofs/C05_Prec.v and Proofs/C05_Tables.v. *)
From Coq Require Import NArith List Bool.
From Elk Require Import Model.C05_Prec Proofs.C05_Prec Proofs.C05_Tables Gen.C05_PrecTables.
Import ListNotations.
Open Scope N_scope.

(* For ANY printer tables (precedence, parenthesisation rule per operator) and ANY parser
   behaviour matrices that agree pairwise (compat), every expression tree of any depth and
   shape over binary operators, prefix operators and atoms is printed to a token sequence
   that the parser accepts and turns back into the very same tree. *)
Theorem C05_roundtrip : forall T : Tables, compat T = true ->
  forall e, wf T e = true -> parse T (tokens (print T e)) = Some e.
Proof. exact roundtrip. Qed.
Print Assumptions C05_roundtrip.

(* The tables regenerated from /repo on this run (ExpressionPrecedence, the printers' effective
   parenthesisation rules, and the real parser's behaviour on every ordered operator pair)
   agree. Finite statement: all pairs of the discovered operators. *)
Theorem C05_tables_ok : compat tables = true.
Proof. exact tables_ok. Qed.
Print Assumptions C05_tables_ok.

(* No binary printer leaves both equal-precedence children bare. *)
Theorem C05_printer_unambiguous : ambiguous_printer = false.
Proof. exact printer_unambiguous. Qed.
Print Assumptions C05_printer_unambiguous.

(* Hence, for Elk's current operator tables, all trees round-trip. *)
Theorem C05_roundtrip_elk : forall e, wf tables e = true ->
  parse tables (tokens (print tables e)) = Some e.
Proof. exact roundtrip_elk. Qed.
Print Assumptions C05_roundtrip_elk.

(* Non-vacuity: there are operators; the model prints parentheses where needed, omits them
   where not, and the parser is not the identity on token lists (a badly parenthesised
   sequence parses to a different tree / is rejected). Operators 0 and 1 are ranges,
   the last binary operator is looked up from the tables. *)
Example C05_nonvacuous :
  (0 <? nb tables) = true /\ (0 <? nu tables) = true /\
  wf tables (Bin 0 (Bin 1 (Atom 0) (Atom 1)) (Un 0 (Un 0 (Atom 2)))) = true /\
  tokens (print tables (Bin 0 (Bin 1 (Atom 0) (Atom 1)) (Atom 2)))
    = [TL; TA 0; TB 1; TA 1; TR; TB 0; TA 2] /\
  parse tables [TA 0; TB 1; TA 1; TB 0; TA 2] = None /\
  parse tables [TA 0; TB 4; TA 1; TB 6; TA 2] = Some (Bin 6 (Bin 4 (Atom 0) (Atom 1)) (Atom 2)) /\
  parse tables [TA 0; TB 6; TA 1; TB 4; TA 2] = Some (Bin 6 (Atom 0) (Bin 4 (Atom 1) (Atom 2))).
Proof. repeat split; vm_compute; reflexivity. Qed.
