(* C02 - static types describe runtime values.
   Only statements here; proofs in Proofs/C02_Types.v, C02_Classes.v, C02_Iface.v, C02_IfaceRec.v; the models in
   Model/C02_Types.v (core), C02_Classes.v (class narrowing), C02_Iface.v (generic classes, implicit
   interfaces), C02_IfaceRec.v (recursion guard for self-referential interfaces). *)
From Coq Require Import ZArith List Bool.
From Elk Require Import Model.C02_Types Proofs.C02_Types Model.C02_Classes Proofs.C02_Classes.
From Elk Require Import Model.C02_Iface Proofs.C02_Iface Model.C02_IfaceRec Proofs.C02_IfaceRec.
Import ListNotations.
Open Scope Z_scope.

(* The subtype relation (mirror of isSubtype on Int Float String bool Std::Bool nil any never,
   literal types, t?, a | b) is sound for the value-set semantics: for ALL types and values. *)
Theorem C02_subtype_sound : forall s t,
  subtype s t = true -> forall v, mem s v = true -> mem t v = true.
Proof. intros s t H v. apply subtype_sound; exact H. Qed.
Print Assumptions C02_subtype_sound.

(* Narrowing, type level: the value of a narrowed local belongs to the narrowed type.
   then-branch of `if x`  : t & ~nil & ~false;   else-branch : t & (nil | false);
   then-branch of `if x == nil` (else-branch of `x != nil`): t & nil;  `x ?? e` result: t & ~nil. *)
Theorem C02_narrow_sound : forall t v, mem t v = true ->
  (forall t', non_falsy t = Some t' -> truthy v = true -> mem t' v = true) /\
  (truthy v = false -> mem (non_truthy t) v = true) /\
  (is_nil v = true -> mem (only_nil t) v = true) /\
  (forall t', non_nil t = Some t' -> is_nil v = false -> mem t' v = true).
Proof.
  intros t v Hm. repeat split; intros.
  - eapply non_falsy_sound; eauto.
  - apply non_truthy_sound; auto.
  - apply only_nil_sound; auto.
  - eapply non_nil_sound; eauto.
Qed.
Print Assumptions C02_narrow_sound.

(* Narrowing, environment level: for every condition form the checker model narrows on
   (`x`, `!c`, `x == nil`, `x != nil`), if the condition evaluated to a truthy (resp. falsy) value
   then the environment extended with the narrowed level for the then- (resp. else-) branch still
   describes the runtime values. G0 = environment of the condition, G = environment at branch entry. *)
Theorem C02_narrow_env_sound : forall c a G0 G r n vc,
  env_ok G0 r -> env_ok G r ->
  narrow G0 G c a = Some n -> eval_e r c = Some vc -> truthy vc = assumed a ->
  env_ok (push_opt n G) r.
Proof. exact narrow_ok. Qed.
Print Assumptions C02_narrow_env_sound.

(* Preservation for expressions (every sub-expression, since the statement is closed under
   sub-terms): literals, locals, + - * < <= == on Int/Float/String, unary - and !, == nil / != nil,
   && || ?? with narrowing of the right operand. *)
Theorem C02_expr_preservation : forall e G r t v,
  env_ok G r -> check_e G e = Some t -> eval_e r e = Some v -> mem t v = true.
Proof. exact check_e_sound. Qed.
Print Assumptions C02_expr_preservation.

(* The checker's own truthiness questions are answered soundly (they decide result types of && ||). *)
Theorem C02_truthiness_sound : forall t v, mem t v = true ->
  (is_truthy t = true -> truthy v = true) /\ (is_falsy t = true -> truthy v = false).
Proof. intros t v Hm. split; intros H; [eapply is_truthy_sound | eapply is_falsy_sound]; eauto. Qed.
Print Assumptions C02_truthiness_sound.

(* The faithful rule is UNSOUND once a closure can assign a local that is narrowed at the call site:
     var a: Int? = 1;  f := -> a = nil;  if a;  f.();  var t: Int = a  (prints nil);  end
   The program is accepted by the checker model and the probe logs the value nil at static type Int. *)
Definition closure_witness : stmt :=
  SSeq (SDecl 1 (TNilable TInt) (ELitI 1))
  (SSeq (SClosure 9 (SAssign 1 ENilLit))
        (SIf (EVar 1) (SSeq (SCall 9) (SProbe 0 TInt (EVar 1))) SSkip)).

Theorem C02_narrow_closure_refuted : exists s G' fuel st',
  check_s [] s = Some G' /\ exec fuel init_state s = Some st' /\ log_ok (st_log st') = false.
Proof. exists closure_witness. eexists. exists 20%nat. eexists. vm_compute. repeat split; reflexivity. Qed.
Print Assumptions C02_narrow_closure_refuted.

(* ... and once a loop body assigns a local that was narrowed outside the loop, after using it:
     var a: Int? = 1;  i := 0;  if a;  while i < 2;  var t: Int = a;  a = nil;  i = i + 1;  end;  end
   The body is checked once with a : Int; the widening caused by `a = nil` comes too late for the
   statements before it, which run again on the second iteration. *)
Definition loop_witness : stmt :=
  SSeq (SDecl 1 (TNilable TInt) (ELitI 1))
  (SSeq (SInfer 2 (ELitI 0))
        (SIf (EVar 1)
             (SWhile (EBin Lt (EVar 2) (ELitI 2))
                     (SSeq (SProbe 0 TInt (EVar 1))
                     (SSeq (SAssign 1 ENilLit) (SAssign 2 (EBin Add (EVar 2) (ELitI 1))))))
             SSkip)).

Theorem C02_narrow_loop_refuted : exists s G' fuel st',
  check_s [] s = Some G' /\ exec fuel init_state s = Some st' /\ log_ok (st_log st') = false.
Proof. exists loop_witness. eexists. exists 30%nat. eexists. vm_compute. repeat split; reflexivity. Qed.
Print Assumptions C02_narrow_loop_refuted.

(* Preservation for statements, under the guard that excludes the two finding classes (and, more
   coarsely than strictly necessary, every loop, closure definition and closure call): whenever an
   accepted program runs, every variable's value inhabits every level of its type chain at every
   step's end and every probe `var t: T = e` logged a value of type T. Any fuel, any start state. *)
Theorem C02_preservation_partial : forall fuel s G G' st st',
  flow_simple s = true ->
  check_s G s = Some G' ->
  exec fuel st s = Some st' ->
  env_ok G (st_vars st) -> log_ok (st_log st) = true ->
  env_ok G' (st_vars st') /\ log_ok (st_log st') = true.
Proof. exact preservation_s. Qed.
Print Assumptions C02_preservation_partial.

Corollary C02_preservation_partial_program : forall fuel s G' st',
  flow_simple s = true -> check_s [] s = Some G' -> exec fuel init_state s = Some st' ->
  env_ok G' (st_vars st') /\ log_ok (st_log st') = true.
Proof.
  intros fuel s G' st' Hs Hc He.
  exact (preservation_s fuel s [] G' init_state st' Hs Hc He (env_ok_empty _) eq_refl).
Qed.
Print Assumptions C02_preservation_partial_program.

(* ---- non-vacuity: the model accepts, runs and narrows something *)
Example C02_subtype_nonvacuous :
  subtype (TUnion (TLitI 1) TNil) (TNilable TInt) = true /\ subtype (TNilable TInt) TInt = false /\
  subtype TBoolC TBool = true /\ subtype TBool (TUnion TTrue TFalse) = false /\
  mem (TNilable TInt) VNil = true /\ mem TInt VNil = false.
Proof. vm_compute. repeat split; reflexivity. Qed.

(* var a: Int | String | nil = 1; if a; var t: Int | String = a; a = nil; else var u: nil = a; end *)
Definition sample_prog : stmt :=
  SSeq (SDecl 1 (TUnion TInt (TUnion TString TNil)) (ELitI 1))
       (SIf (EVar 1)
            (SSeq (SProbe 0 (TUnion TInt TString) (EVar 1)) (SAssign 1 ENilLit))
            (SProbe 1 TNil (EVar 1))).

Example C02_preservation_nonvacuous :
  flow_simple sample_prog = true /\
  check_s [] sample_prog = Some [(1, [TUnion TInt (TUnion TString TNil)])] /\
  exec 10 init_state sample_prog =
    Some ([(1, VNil); (1, VInt 1)], [], [(0, TUnion TInt TString, VInt 1)]).
Proof. vm_compute. repeat split; reflexivity. Qed.

Example C02_narrow_nonvacuous :
  narrow [(1, [TNilable TInt])] [(1, [TNilable TInt])] (EVar 1) ATruthy = Some (Some (1, TInt)) /\
  narrow [(1, [TNilable TInt])] [(1, [TNilable TInt])] (ENot (EVar 1)) ATruthy = Some (Some (1, TNil)) /\
  narrow [(1, [TNilable TBool])] [(1, [TNilable TBool])] (EIsNil true (EVar 1)) AFalsy = Some (Some (1, TNil)) /\
  check_e [(1, [TNilable TBool])] (ENilCo (EVar 1) (ELitI 5)) = Some (TUnion (TUnion TTrue TFalse) (TLitI 5)).
Proof. vm_compute. repeat split; reflexivity. Qed.

(* ======================================================================================
   Classes, subclassing, and narrowing by the is-a / instance-of operators
   (Model/C02_Classes.v). Value sets: [[C]] = instances of C or of a subclass, [[exact C]] =
   direct instances of C only; ct ranges over ALL class tables (any depth, any shape). *)

(* The four narrowing operators `x <: C`, `C :> x`, `x <<: C`, `C :>> x` as narrowBinary
   dispatches them (instance-of else-branch as in fixes/C02-instance-of-else.patch): whichever way
   the test goes at run time, the tested value belongs to the type the local is narrowed to in the
   branch that is taken. *)
Theorem C02_cls_narrow_sound : forall ct o c cur v,
  kmem ct cur v = true ->
  (test_val ct o v c = true -> kmem ct (narrow_tok true o true c cur) v = true) /\
  (test_val ct o v c = false -> kmem ct (narrow_tok true o false c cur) v = true).
Proof.
  intros ct o c cur v Hm.
  pose proof (narrow_tok_sound true ct [(0, v)] o 0 c cur v (or_introl eq_refl) eq_refl Hm) as H.
  split; intros E; rewrite E in H; exact H.
Qed.
Print Assumptions C02_cls_narrow_sound.

(* Conditions built from the four tests with !, &&, || (narrowUnary / narrowLogicalAnd /
   narrowLogicalOr): the environment narrowed for the branch that is taken still describes the
   runtime values. *)
Theorem C02_cls_cond_sound : forall ct r k G b,
  kenv_ok ct G r -> eval_c ct r k = Some b -> kenv_ok ct (narrow_c true G k b) r.
Proof. intros ct r k G b Hok He. eapply narrow_c_ok; eauto. left; reflexivity. Qed.
Print Assumptions C02_cls_cond_sound.

(* Preservation: every probe executed by any program of the fragment (nested if/else over such
   conditions) sees a value that belongs to the probe's static type. *)
Theorem C02_cls_preservation : forall ct G r s lg,
  kenv_ok ct G r -> krun true ct G r s = Some lg -> klog_ok ct lg = true.
Proof. intros ct G r s lg Hok Hr. eapply krun_sound; eauto. left; reflexivity. Qed.
Print Assumptions C02_cls_preservation.

(* ... and the static type logged with an executed probe is the one the annotation pass reports. *)
Theorem C02_cls_probe_types : forall fx ct r s G lg,
  krun fx ct G r s = Some lg -> incl (map fst lg) (kannot fx G s).
Proof. exact krun_types_annot. Qed.
Print Assumptions C02_cls_probe_types.

(* The rule AS FOUND (else-branch of `x <<: C` / `C :>> x` narrows to `T & ~C` instead of
   `T & ~exact C`) is unsound as soon as a proper subclass exists:
     class Foo; class Bar < Foo;  a : Foo | Int holding a Bar;  if a <<: Foo ... else probe a
   the probe has static type (Foo | Int) & ~Foo (the checker prints Int) and sees a Bar. *)
Definition instof_else_witness : kstmt := KIf (CTest TInstOf 0 1) KSkip (KProbe 0 0).

Theorem C02_cls_instance_of_else_refuted : exists ct G r s lg,
  kenv_ok ct G r /\ krun false ct G r s = Some lg /\ klog_ok ct lg = false.
Proof.
  exists [(2, 1)], [(0, KUnion (KClass 1) (KClass 100))], [(0, VObj 2)], instof_else_witness.
  eexists. split; [|split; [vm_compute; reflexivity|vm_compute; reflexivity]].
  intros x t H. cbn in H. destruct x; try discriminate.
  inversion H; subst t. exists (VObj 2). split; reflexivity.
Qed.
Print Assumptions C02_cls_instance_of_else_refuted.

(* The rule as found is sound exactly outside that class: when no local holds an instance of a
   PROPER subclass of a class that the program uses as an instance-of operand. *)
Theorem C02_cls_preservation_partial : forall ct G r s lg,
  no_proper_sub ct r (instof_ops s) ->
  kenv_ok ct G r -> krun false ct G r s = Some lg -> klog_ok ct lg = true.
Proof. intros ct G r s lg Hn Hok Hr. eapply krun_sound; eauto. right; exact Hn. Qed.
Print Assumptions C02_cls_preservation_partial.

(* Static binding (compileCallMethod binds the call when the receiver type is `exact C` or a class
   without children): a value of such a type is a DIRECT instance of C, so the statically chosen
   method is the one dynamic dispatch would have run. *)
Theorem C02_cls_static_binding_sound : forall ct t c v,
  static_target ct t = Some c -> kmem ct t v = true ->
  v = VObj c /\ forall ovr d, v = VObj d -> resolve ct ovr d = resolve ct ovr c.
Proof.
  intros ct t c v Hs Hm. pose proof (static_target_sound ct t c v Hs Hm) as H.
  split; [exact H|]. intros ovr d Hd. rewrite H in Hd. inversion Hd. reflexivity.
Qed.
Print Assumptions C02_cls_static_binding_sound.

(* ---- non-vacuity. Hierarchy: 2 < 1, 3 < 2 (three levels), 4 a root, 100 = Int. *)
Definition ct3 : ctable := [(2, 1); (3, 2)].

Example C02_cls_values_nonvacuous :
  kmem ct3 (KClass 1) (VObj 3) = true /\ kmem ct3 (KExact 1) (VObj 3) = false /\
  kmem ct3 (KExact 1) (VObj 1) = true /\ kmem ct3 (KClass 2) (VObj 1) = false /\
  kmem ct3 (KAnd (KClass 1) (KNot (KExact 1))) (VObj 2) = true /\
  kmem ct3 (KAnd (KClass 1) (KNot (KExact 1))) (VObj 1) = false /\
  resolve ct3 [1; 3] 2 = Some 1 /\ resolve ct3 [1; 3] 3 = Some 3 /\
  static_target ct3 (KClass 1) = None /\ static_target ct3 (KClass 3) = Some 3 /\
  static_target ct3 (KExact 1) = Some 1.
Proof. vm_compute. repeat split; reflexivity. Qed.

(* narrowing the reversed is-a test `C :> x` to the EXACT class would be unsound: the model
   distinguishes the two rules (a direct-class-3 object passes `1 :> x` but is no `exact 1`) *)
Example C02_cls_rev_isa_is_not_exact :
  test_val ct3 TRevIsA (VObj 3) 1 = true /\
  narrow_tok true TRevIsA true 1 (KUnion (KClass 1) (KClass 100)) = KClass 1 /\
  kmem ct3 (KExact 1) (VObj 3) = false /\
  narrow_tok true TRevInstOf true 1 (KUnion (KClass 1) (KClass 100)) = KExact 1.
Proof. vm_compute. repeat split; reflexivity. Qed.

(* if v0 <: 2; P0; if 3 :>> v0; P1 else P2 end else P3; if !(1 :> v0) P4 else P5 end end *)
Definition cls_sample : kstmt :=
  KIf (CTest TIsA 0 2)
      (KSeq (KProbe 0 0) (KIf (CTest TRevInstOf 0 3) (KProbe 1 0) (KProbe 2 0)))
      (KSeq (KProbe 3 0) (KIf (CNot (CTest TRevIsA 0 1)) (KProbe 4 0) (KProbe 5 0))).

Example C02_cls_preservation_nonvacuous :
  let G := [(0, KUnion (KClass 1) (KUnion (KClass 4) KNil))] in
  krun true ct3 G [(0, VObj 2)] cls_sample =
    Some [(0, KClass 2, VObj 2); (2, KAnd (KClass 2) (KNot (KExact 3)), VObj 2)] /\
  krun true ct3 G [(0, VObj 1)] cls_sample =
    Some [(3, KAnd (KUnion (KClass 1) (KUnion (KClass 4) KNil)) (KNot (KClass 2)), VObj 1);
          (5, KClass 1, VObj 1)] /\
  length (kannot true G cls_sample) = 6%nat.
Proof. vm_compute. repeat split; reflexivity. Qed.

(* ================================================================================================
   GENERIC classes, GENERIC interfaces, IMPLICIT (structural) implementation - Model/C02_Iface.v.
   For ALL class tables whose method bodies fit their declared signatures (ctab_ok - what the real
   checker verifies on the class definition), ALL interface tables, types and values:
   `isub` (C[s] <: C[t] and I[s] <: I[t] with INVARIANT type arguments; C[s] <: I[t] and J[s] <: I[t]
   structurally: every method of I[t] has a same-named method of the same arity whose parameter type
   is contravariant and whose return type is covariant after substituting the type arguments) is sound
   for the value-set semantics in which [[I[t]]] is the set of objects that RESPOND to every method
   of I[t] with results of the declared return type (a behavioural definition). *)
Theorem C02_iface_subtype_sound : forall ct it a b v,
  ctab_ok ct = true -> isub ct it a b = true -> gmem ct it a v -> gmem ct it b v.
Proof. exact iface_subtype_sound. Qed.
Print Assumptions C02_iface_subtype_sound.

(* Preservation for a call `s.m(x)` / `s.m` through a receiver of interface type I[t]: the result is a
   value of the method's declared return type after substitution of t. *)
Theorem C02_iface_call_preservation : forall ct it i t d item m p R arg,
  gmem ct it (GI i t) (VO d item) ->
  In (m, (p, R)) (imeths it i) ->
  arg_fits (bat [] t) p arg ->
  exists r, gcall ct d item m arg = Some r /\ bmem (bat [] t) R r = true.
Proof. exact iface_call_preservation. Qed.
Print Assumptions C02_iface_call_preservation.

(* ... and end to end: a value of ANY type the checker accepts where I[t] is expected (an argument for a
   parameter `s: I[t]`) is an object, the call is defined for it and returns a value of the static
   return type. *)
Theorem C02_iface_pass_call_sound : forall ct it a i t v m p R arg,
  ctab_ok ct = true ->
  isub ct it a (GI i t) = true ->
  gmem ct it a v ->
  In (m, (p, R)) (imeths it i) ->
  arg_fits (bat [] t) p arg ->
  exists d item r, v = VO d item /\ gcall ct d item m arg = Some r /\ bmem (bat [] t) R r = true.
Proof. exact iface_pass_call_sound. Qed.
Print Assumptions C02_iface_pass_call_sound.

(* the executable membership used by the correspondence (one representative argument per atom)
   decides the behavioural value sets exactly *)
Theorem C02_iface_gmem_decided : forall ct it ty v, gmem_b ct it ty v = true <-> gmem ct it ty v.
Proof. exact gmem_b_iff. Qed.
Print Assumptions C02_iface_gmem_decided.

(* Histories: the specification of a checker run that answers a list of subtype questions about one
   pair of tables answers the k-th question as if it were asked alone - whatever came before. *)
Theorem C02_iface_history_independent : forall ct it pre q post,
  nth (length pre) (hist ct it (pre ++ q :: post)) false = isub ct it (fst q) (snd q) /\
  length (hist ct it (pre ++ q :: post)) = length (pre ++ q :: post).
Proof. intros; split; [apply hist_independent | apply hist_length]. Qed.
Print Assumptions C02_iface_history_independent.

(* ---- non-vacuity.  interface 1 = Source[T] { m0: T }, interface 2 = Sink[T] { m1(x: T): Int };
   class 1 = Cell[T] { m0: T = @item; m1(x: T): Int = 1 }, class 2 = IntBox { m0: Int = 3 }. *)
Definition it_demo : itab := [(1, [(0, (None, BVar))]); (2, [(1, (Some BVar, BAtom AInt))])].
Definition ct_demo : ctab :=
  [(1, [(0, ((None, BVar), BdItem)); (1, ((Some BVar, BAtom AInt), BdConst (AInt, 1)))]);
   (2, [(0, ((None, BAtom AInt), BdConst (AInt, 3)))])].
Definition bIS : bty := BOr (BAtom AInt) (BAtom AStr).

Example C02_iface_nonvacuous :
  ctab_ok ct_demo = true /\
  (* the two steps of the history `Cell[Int] as Source[Int]` then `Cell[Int] as Source[String]` *)
  hist ct_demo it_demo [(GC 1 (BAtom AInt), GI 1 (BAtom AInt)); (GC 1 (BAtom AInt), GI 1 (BAtom AStr))]
    = [true; false] /\
  isub ct_demo it_demo (GC 1 (BAtom AInt)) (GI 1 bIS) = true /\          (* covariant return *)
  isub ct_demo it_demo (GC 1 bIS) (GI 2 (BAtom AInt)) = true /\          (* contravariant parameter *)
  isub ct_demo it_demo (GC 1 (BAtom AInt)) (GI 2 bIS) = false /\
  isub ct_demo it_demo (GC 1 (BAtom AInt)) (GC 1 bIS) = false /\         (* invariant class argument *)
  isub ct_demo it_demo (GI 1 (BAtom AInt)) (GI 1 bIS) = false /\
  isub ct_demo it_demo (GC 2 (BAtom AInt)) (GI 1 (BAtom AInt)) = true /\
  isub ct_demo it_demo (GC 2 (BAtom AInt)) (GI 2 (BAtom AInt)) = false /\
  gmem_b ct_demo it_demo (GI 1 (BAtom AInt)) (VO 1 (AInt, 41)) = true /\
  gmem_b ct_demo it_demo (GI 1 (BAtom AStr)) (VO 1 (AInt, 41)) = false /\
  gcall ct_demo 1 (AInt, 41) 0 None = Some (AInt, 41).
Proof. vm_compute. repeat split; reflexivity. Qed.

(* ================================================================================================
   Self-referential interfaces (Model/C02_IfaceRec.v): interface I[T] { ...; def rec: I[t0] },
   class K[T] { ...; def rec: K[s0] then K::[s0](lit) }.  While K[s] <: I[t] is being established the
   checker answers every nested question between the same two NAMESPACES with true (typesAreIdentical
   ignores type arguments), so K[s0] <: I[t0] is never looked at.  The rule AS FOUND is refuted:
       interface I[T]  def m0: T; end  def rec: I[String]; end  end
       class K[T]      def m0: T then @item   def rec: K[Int] then K::[Int](7)  end
   K[Int] <: I[Int] is accepted, `s.rec.m0` has static type String and evaluates to the Int 7
   (reproduced on the binary; known finding ifc-rec:...). *)
Definition rec_witness : rtab :=
  {| r_cls := 1; r_ifc := 1; r_cm := [(0, ((None, BVar), BdItem))]; r_im := [(0, (None, BVar))];
     r_s0 := BAtom AInt; r_t0 := BAtom AStr; r_lit := (AInt, 7) |}.

Theorem C02_iface_rec_guard_refuted : exists R s t m R0 r,
  rtab_ok R = true /\ rsub false R s t = true /\ In (m, (None, R0)) (r_im R) /\
  rcall R m None = Some r /\ bmem (bat [] (r_t0 R)) R0 r = false.
Proof.
  exists rec_witness, (BAtom AInt), (BAtom AInt), 0, BVar, (AInt, 7).
  vm_compute. repeat split; try reflexivity. left; reflexivity.
Qed.
Print Assumptions C02_iface_rec_guard_refuted.

(* The rule as found is sound exactly when the nested instantiation itself conforms (in particular when
   `rec` mentions the SAME arguments, `def rec: I[T]` / `def rec: K[T]`, the case the guard was written
   for); with the nested pair compared once with its own arguments (rsub true) no guard is needed. *)
Theorem C02_iface_rec_guard_partial : forall R s t m p R0 arg,
  isub (r_ct R) (r_it R) (GC (r_cls R) (r_s0 R)) (GI (r_ifc R) (r_t0 R)) = true ->
  rtab_ok R = true -> rsub false R s t = true ->
  In (m, (p, R0)) (r_im R) -> arg_fits (bat [] (r_t0 R)) p arg ->
  exists r, rcall R m arg = Some r /\ bmem (bat [] (r_t0 R)) R0 r = true.
Proof. intros R s t m p R0 arg Hn Hok _ Hin Ha. eapply rec_nested_sound; eauto. Qed.
Print Assumptions C02_iface_rec_guard_partial.

Theorem C02_iface_rec_fixed_sound : forall R s t m p R0 arg,
  rtab_ok R = true -> rsub true R s t = true ->
  In (m, (p, R0)) (r_im R) -> arg_fits (bat [] (r_t0 R)) p arg ->
  exists r, rcall R m arg = Some r /\ bmem (bat [] (r_t0 R)) R0 r = true.
Proof. exact rsub_fixed_sound. Qed.
Print Assumptions C02_iface_rec_fixed_sound.

Example C02_iface_rec_nonvacuous :
  rsub true rec_witness (BAtom AInt) (BAtom AInt) = false /\
  rsub true {| r_cls := 1; r_ifc := 1; r_cm := r_cm rec_witness; r_im := r_im rec_witness;
               r_s0 := BAtom AInt; r_t0 := BOr (BAtom AInt) (BAtom AStr); r_lit := (AInt, 7) |}
       (BAtom AStr) (BAtom AStr) = true.
Proof. vm_compute. split; reflexivity. Qed.
