(* C08 — results do not depend on which evaluation path the compiler chose.
   Only statements; proofs in Proofs/C08_Paths.v. The paths (Model/C08_Paths.v) mirror
   vm/thread.go, compiler/resolve.go, vm/int.go, vm/float.go, value/value.go (XInts), value/small_int.go
   and value/big_int.go (XInt helpers), value/exact_compare.go after
   fixes/C08-typed-float-opcodes.patch; IEEE arithmetic (farith fpow fcmp) and the Int->Float
   conversion (i2f) are arbitrary: the equalities hold whatever they compute; Int/Float comparisons
   are the exact three-way comparison ifcmp3 on the bit pattern.
   right_ok o r: r is Int or Float for arithmetic/comparisons, Int for shifts and & | ^ &~. *)
From Elk Require Import Base.GoSem Model.C06_Int Model.C08_Paths Proofs.C08_Paths.
Open Scope Z_scope.

(* the type-specialised Int instruction computes what the generic instruction computes *)
Theorem C08_typed_int_eq : forall farith fpow fcmp i2f o l r,
  is_int l = true -> right_ok o r = true ->
  typed_int farith fpow fcmp i2f o l r = generic farith fpow fcmp i2f o l r.
Proof. exact typed_int_eq. Qed.
Print Assumptions C08_typed_int_eq.

(* the type-specialised Float instructions (+ - * / % and comparisons) likewise *)
Theorem C08_typed_float_eq : forall farith fpow fcmp i2f o l r,
  is_float l = true -> has_float_opcode o = true -> right_ok o r = true ->
  typed_float farith fpow fcmp i2f o l r = generic farith fpow fcmp i2f o l r.
Proof. exact typed_float_eq. Qed.
Print Assumptions C08_typed_float_eq.

(* The instruction the compiler SELECTS from the static type (`typed`): on the unchanged code it
   emits EQUAL_INT for `==` between Floats, whose type assertion crashes (known finding
   eq:F/F:variant-crash:typed; a compiler test pins that opcode, so it is recorded, not fixed) *)
Theorem C08_typed_selection_refuted : forall farith fpow fcmp i2f, exists o l r,
  is_float l = true /\ has_float_opcode o = true /\ right_ok o r = true /\
  typed farith fpow fcmp i2f o l r <> generic farith fpow fcmp i2f o l r.
Proof. exact typed_refuted. Qed.
Print Assumptions C08_typed_selection_refuted.

(* the full statement restricted to exclude exactly that input class: `==` with a Float on the left *)
Theorem C08_typed_selection_partial : forall farith fpow fcmp i2f o l r,
  (is_int l || is_float l) = true ->
  (is_int l = true \/ (has_float_opcode o = true /\ o <> OCmp CEq)) ->
  right_ok o r = true ->
  typed farith fpow fcmp i2f o l r = generic farith fpow fcmp i2f o l r.
Proof. exact typed_partial. Qed.
Print Assumptions C08_typed_selection_partial.

(* constant folding yields v exactly when the generic instruction returns v ... *)
Theorem C08_fold_eq : forall farith fpow fcmp i2f o l r v,
  fold farith fpow fcmp i2f o l r = Some v <-> generic farith fpow fcmp i2f o l r = Ok v.
Proof. exact fold_eq. Qed.
Print Assumptions C08_fold_eq.

(* ... and declines (leaving the expression to run time) exactly when it errors *)
Theorem C08_fold_declines : forall farith fpow fcmp i2f o l r,
  fold farith fpow fcmp i2f o l r = None <-> (forall v, generic farith fpow fcmp i2f o l r <> Ok v).
Proof. exact fold_declines. Qed.
Print Assumptions C08_fold_declines.

(* an explicit method call a.op(b), including the overloads op@1 / op@2 *)
Theorem C08_by_name_eq : forall farith fpow fcmp i2f o l r,
  (is_int l || is_float l) = true -> right_ok o r = true ->
  by_name farith fpow fcmp i2f o l r = generic farith fpow fcmp i2f o l r.
Proof. exact by_name_eq. Qed.
Print Assumptions C08_by_name_eq.

(* the statically bound Int overloads: value.XInts -> SmallInt.XInt / BigInt.XInt (AddInt SubtractInt
   MultiplyInt DivideInt ModuloInt ExponentiateInt, the comparison, shift and bitwise XInt helpers),
   separate Go functions from the XVal family, reached by `a.op(b)` with both operands typed Int
   (natives op@1) and by the Go backend: on Int operands they return what the generic path returns *)
Theorem C08_static_overload_eq : forall farith fpow fcmp i2f o l r,
  is_int l = true -> is_int r = true ->
  x_ints o l r = generic farith fpow fcmp i2f o l r.
Proof. exact static_overload_eq. Qed.
Print Assumptions C08_static_overload_eq.

(* hypotheses satisfiable, paths compute something; and the accessor mix-up of the unfixed
   opSubtractFloat is expressible in the model: reading Float bits as an integer differs *)
Example C08_nonvacuous :
  let fa := fun (_ : binop) (x y : Z) => x + y in
  let fp := fun x y : Z => x in let fc := fun (_ : cmpop) (x y : Z) => x <? y in let cv := fun z : Z => z in
  right_ok (OArith OpSub) (VFloat 7) = true /\
  typed_float fa fp fc cv (OArith OpSub) (VFloat 5) (VFloat 7) = Ok (VFloat 12) /\
  typed_int fa fp fc cv OShl (VSmall 1) (VSmall 64) = Ok (VBig (2 ^ 64)) /\
  by_name fa fp fc cv (OArith OpDiv) (VBig (2 ^ 70)) (VSmall 0) = Err E_ZERO_DIV /\
  fold fa fp fc cv (OArith OpDiv) (VSmall 1) (VSmall 0) = None /\
  as_small_int (VFloat 4615063718147915776) <> as_float (VSmall 3).
Proof. repeat split; try (vm_compute; reflexivity). vm_compute. discriminate. Qed.

(* the static helpers compute: MinSmallInt / 2**63 = -1 (the quotient of a SmallInt by a BigInt is
   not always 0), MinSmallInt % 2**63 = 0, a non-Int right operand is a wild pointer; and Int/Float
   comparisons are exact: 2**53 + 1 > 2**53 as a Float although both round to the same double *)
Example C08_static_nonvacuous :
  let fa := fun (_ : binop) (x y : Z) => x + y in
  let fp := fun x y : Z => x in let fc := fun (_ : cmpop) (x y : Z) => x <? y in let cv := fun z : Z => z in
  divide_ints (VSmall (- 2 ^ 63)) (VBig (2 ^ 63)) = Ok (VSmall (-1)) /\
  divide_ints (VSmall 7) (VBig (2 ^ 63)) = Ok (VSmall 0) /\
  modulo_ints (VSmall (- 2 ^ 63)) (VBig (2 ^ 63)) = Ok (VSmall 0) /\
  multiply_ints (VSmall (- 2 ^ 63)) (VSmall (-1)) = Ok (VBig (2 ^ 63)) /\
  divide_ints (VBig (2 ^ 64)) (VSmall 0) = Err E_ZERO_DIV /\
  x_ints OShl (VSmall 1) (VFloat 0) = Panic P_NIL /\
  generic fa fp fc cv (OCmp CGt) (VSmall (2 ^ 53 + 1)) (VFloat 4845873199050653696) = Ok (VBool true) /\
  generic fa fp fc cv (OCmp CLt) (VFloat 4845873199050653696) (VBig (2 ^ 64)) = Ok (VBool true) /\
  generic fa fp fc cv (OCmp CGe) (VFloat 9221120237041090560) (VSmall 0) = Ok (VBool false).
Proof. repeat split; vm_compute; reflexivity. Qed.
