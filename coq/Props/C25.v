(* C25 — channels and sync primitives keep their contracts under any schedule.
   Only statements here; proofs live in Proofs/C25_Sync.v; the model is Model/C25_Sync.v.
   [crun/mrun/rrun/wrun/orun fx sched init] range over every reachable state: a schedule is
   any list of (thread label, action), any number of threads, any interleaving, any
   arguments; blocked calls are disabled steps.  fx = true is the code after
   fixes/C25-mutex-unlock, C25-select-closed-send, C25-waitgroup-negative; fx = false the
   code as found.  Go's channel, sync.Mutex, sync.RWMutex, sync.WaitGroup, sync.Once are the
   modelled (trusted) base. *)
From Coq Require Import ZArith List Bool.
Import ListNotations.
From Elk Require Import Base.GoSem Model.C25_Sync Model.C25_Sched Proofs.C25_Sync Proofs.C25_Sched.
Open Scope Z_scope.

(* FIFO, exactly once, per channel, fixed or not: at every instant the sequence of values
   whose push completed (by `<<`/push, by a select send case, or by a rendezvous) is the
   sequence of values popped so far (by pop/<<ch/next/for-in, a select receive case, or a
   rendezvous) followed by the buffer, which never exceeds the capacity.  Hence the popped
   sequence is a prefix of the pushed sequence: nothing lost, duplicated or reordered. *)
Theorem C25_chan_fifo_once : forall fx caps sched ch,
  let s := crun fx sched (cinit caps) in
  pushes_of ch (ctrace s) = pops_of ch (ctrace s) ++ buf (chans s ch) /\
  (length (buf (chans s ch)) <= caps ch)%nat.
Proof. intros. split; [apply chan_fifo | apply chan_cap_bound]. Qed.
Print Assumptions C25_chan_fifo_once.

(* A closed channel, in every reachable state and for every thread: push returns the
   closed-push error, close the closed-close error, pop hands out the buffered values in
   order and then the closed-pop error; none of them blocks or changes any other channel; a
   select whose chosen case pushes to it throws the closed-push error; the channel stays
   closed and no push completes on it in any continuation of the schedule. *)
Theorem C25_closed_contract : forall caps sched1 ch,
  let s := crun true sched1 (cinit caps) in
  closed (chans s ch) = true ->
  (forall t v, exists s', cstep true s t (CPush ch v) = Some s' /\
       ctrace s' = CEv t (CPush ch v) (Err E_CLOSED_PUSH) :: ctrace s /\ forall k, chans s' k = chans s k) /\
  (forall t, exists s', cstep true s t (CClose ch) = Some s' /\
       ctrace s' = CEv t (CClose ch) (Err E_CLOSED_CLOSE) :: ctrace s /\ forall k, chans s' k = chans s k) /\
  (forall t, exists s', cstep true s t (CPop ch) = Some s' /\
       match buf (chans s ch) with
       | x :: r => ctrace s' = CEv t (CPop ch) (Ok (Some x)) :: ctrace s /\
                   buf (chans s' ch) = r /\ forall k, k <> ch -> chans s' k = chans s k
       | [] => ctrace s' = CEv t (CPop ch) (Err E_CLOSED_POP) :: ctrace s /\ forall k, chans s' k = chans s k
       end) /\
  (forall t cases dflt i v, nth_error cases i = Some (SSend ch v) -> exists s',
       cstep true s t (CSelect cases dflt (Some i)) = Some s' /\
       ctrace s' = CEv t (CSelect cases dflt (Some i)) (Err E_CLOSED_PUSH) :: ctrace s /\
       forall k, chans s' k = chans s k) /\
  (forall sched2, let s2 := crun true (sched1 ++ sched2) (cinit caps) in
       closed (chans s2 ch) = true /\ pushes_of ch (ctrace s2) = pushes_of ch (ctrace s)).
Proof. exact closed_contract. Qed.
Print Assumptions C25_closed_contract.

(* No channel operation of the fixed wrappers (push, pop, next, close, select) ever ends
   in a Go panic or fatal error, in any schedule. *)
Theorem C25_chan_no_crash : forall caps sched,
  Forall (fun e => crash (cev_res e) = false) (ctrace (crun true sched (cinit caps))).
Proof. exact chan_no_crash. Qed.
Print Assumptions C25_chan_no_crash.

(* As found: a select whose send case targets a closed channel is a Go panic. *)
Theorem C25_select_closed_send_refuted : exists caps sched,
  existsb (fun e => crash (cev_res e)) (ctrace (crun false sched (cinit caps))) = true.
Proof.
  exists (fun _ => 1%nat), [(0%nat, CClose 0%nat); (0%nat, CSelect [SSend 0%nat 7] false (Some 0%nat))].
  vm_compute. reflexivity.
Qed.
Print Assumptions C25_select_closed_send_refuted.

(* select takes only ready cases: in every reachable state a select step with chosen case i
   exists only if case i's channel operation would not block; the else branch only if there
   is one and no case is ready.  Conversely select never blocks when a case is ready or
   there is an else branch.  (Rendezvous with a select as one party is the CRdv step.) *)
Theorem C25_select_ready : forall fx caps sched t cases dflt choice,
  let s := crun fx sched (cinit caps) in
  (forall s', cstep fx s t (CSelect cases dflt choice) = Some s' ->
     match choice with
     | Some i => exists k, nth_error cases i = Some k /\ case_ready (chans s) k = true
     | None => dflt = true /\ forall k, In k cases -> case_ready (chans s) k = false
     end) /\
  (forall i k, nth_error cases i = Some k -> case_ready (chans s) k = true ->
     cstep fx s t (CSelect cases dflt (Some i)) <> None) /\
  (dflt = true -> (forall k, In k cases -> case_ready (chans s) k = false) ->
     cstep fx s t (CSelect cases dflt None) <> None).
Proof.
  intros. split; [intros s'; apply select_ready | apply select_enabled].
Qed.
Print Assumptions C25_select_ready.

(* Mutex (fixed wrapper), every schedule: completed Locks minus completed Unlocks is 0 or 1
   at every instant (so a Lock returns only after the previous holder's Unlock: mutual
   exclusion), it is 1 only while the native mutex is locked, no step is a fatal error, and
   Unlock of a mutex nobody holds returns UnlockedError and changes nothing. *)
Theorem C25_mutex_excl : forall sched,
  let s := mrun true sched minit in
  0 <= mheld (mtrace s) <= 1 /\
  (mheld (mtrace s) = 1 -> m_native s = true) /\
  Forall (fun e => mev_fatal e = false) (mtrace s) /\
  (forall t, mheld (mtrace s) = 0 ->
     mstep true s t MUnlock = Some (mkM (m_native s) (m_flag s) (m_acq s) (m_rel s) (MUnlockErr t :: mtrace s))).
Proof. exact mutex_excl. Qed.
Print Assumptions C25_mutex_excl.

(* As found: Unlock of an unlocked Mutex is Go's unrecoverable fatal error. *)
Theorem C25_unlock_old_refuted : exists sched,
  existsb mev_fatal (mtrace (mrun false sched minit)) = true.
Proof. exists [(0%nat, MUnlock)]. vm_compute. reflexivity. Qed.
Print Assumptions C25_unlock_old_refuted.

(* RWMutex and ROMutex (fixed wrapper), every schedule: at most one writer, no reader while
   a writer holds the lock, never a fatal error; Unlock with no writer and ReadUnlock with no
   reader return UnlockedError and change nothing. *)
Theorem C25_rwmutex_excl : forall sched,
  let s := rrun true sched rinit in
  0 <= wheld (rtrace s) <= 1 /\ 0 <= rheld (rtrace s) /\
  (wheld (rtrace s) = 1 -> rheld (rtrace s) = 0) /\
  Forall (fun e => rev_fatal e = false) (rtrace s) /\
  (forall t, wheld (rtrace s) = 0 -> exists s', rstep true s t RUnlock = Some s' /\
      rtrace s' = RWUnlockErr t :: rtrace s /\ r_w s' = r_w s /\ r_r s' = r_r s /\
      r_wflag s' = r_wflag s /\ r_rcount s' = r_rcount s) /\
  (forall t, rheld (rtrace s) = 0 -> exists s', rstep true s t RRUnlock = Some s' /\
      rtrace s' = RRUnlockErr t :: rtrace s /\ r_w s' = r_w s /\ r_r s' = r_r s /\
      r_wflag s' = r_wflag s /\ r_rcount s' = r_rcount s).
Proof. exact rwmutex_excl. Qed.
Print Assumptions C25_rwmutex_excl.

(* As found: write unlock, read unlock of an unlocked RWMutex, and read unlock of a
   write-locked one are fatal errors. *)
Theorem C25_rw_unlock_old_refuted :
  (exists sched, existsb rev_fatal (rtrace (rrun false sched rinit)) = true /\ sched = [(0%nat, RUnlock)]) /\
  (exists sched, existsb rev_fatal (rtrace (rrun false sched rinit)) = true /\ sched = [(0%nat, RRUnlock)]) /\
  (exists sched, existsb rev_fatal (rtrace (rrun false sched rinit)) = true /\ sched = [(0%nat, RLock); (0%nat, RRUnlock)]).
Proof. repeat split; eexists; (split; [|reflexivity]); vm_compute; reflexivity. Qed.
Print Assumptions C25_rw_unlock_old_refuted.

(* WaitGroup (fixed wrapper), every schedule: the counter is the sum of the deltas of the
   operations that succeeded, a refused operation changes nothing, the counter stays within
   0..MaxInt32, no operation panics, Wait can return exactly when the counter is 0 and every
   Wait that returned did so at such an instant. *)
Theorem C25_waitgroup : forall sched,
  let s := wrun true sched winit in
  w_cnt s = wsum (wtrace s) /\ 0 <= w_cnt s <= MAX32 /\ waits_at_zero (wtrace s) /\
  Forall (fun e => wev_crash e = false) (wtrace s) /\
  (forall t, wstep true s t WWait <> None <-> wsum (wtrace s) = 0).
Proof. exact waitgroup_ok. Qed.
Print Assumptions C25_waitgroup.

(* As found: `end` on a fresh WaitGroup, and `remove 2` after `start`, are Go panics. *)
Theorem C25_waitgroup_old_refuted :
  existsb wev_crash (wtrace (wrun false [(0%nat, WEnd)] winit)) = true /\
  existsb wev_crash (wtrace (wrun false [(0%nat, WStart); (1%nat, WRemove 2)] winit)) = true.
Proof. split; vm_compute; reflexivity. Qed.
Print Assumptions C25_waitgroup_old_refuted.

(* Once, every schedule of any number of callers: the body starts at most once, and every
   return of `call` (first caller, late callers, callers that were blocked meanwhile)
   happens after that one run has completed. *)
Theorem C25_once : forall sched,
  let s := orun sched oinit in
  nbody (otrace s) <= 1 /\ nbodydone (otrace s) <= nbody (otrace s) /\ rets_after_body (otrace s) /\
  (o_done s = true <-> nbodydone (otrace s) = 1).
Proof. exact once_ok. Qed.
Print Assumptions C25_once.

(* ---------------------------------------------------------------- non-vacuity *)

(* two producers, one consumer, capacity 1, a rendezvous channel, a select, close and drain *)
Example C25_chan_nonvacuous :
  let caps := fun k => match k with 0%nat => 1%nat | _ => 0%nat end in
  let s := crun true
    [ (1%nat, CPush 0%nat 10); (2%nat, CPush 0%nat 20) (* blocked: full *); (3%nat, CPop 0%nat);
      (2%nat, CPush 0%nat 20); (1%nat, CRdv 1%nat 77 3%nat);
      (3%nat, CSelect [SRecv 1%nat; SRecv 0%nat] false (Some 0%nat)) (* not ready: stays blocked *);
      (3%nat, CSelect [SRecv 1%nat; SRecv 0%nat] false (Some 1%nat));
      (1%nat, CClose 0%nat); (2%nat, CPush 0%nat 30); (3%nat, CPop 0%nat); (1%nat, CClose 0%nat) ] (cinit caps) in
  pushes_of 0%nat (ctrace s) = [10; 20] /\ pops_of 0%nat (ctrace s) = [10; 20] /\
  pushes_of 1%nat (ctrace s) = [77] /\ pops_of 1%nat (ctrace s) = [77] /\
  map cev_res (ctrace s) = [Err E_CLOSED_CLOSE; Err E_CLOSED_POP; Err E_CLOSED_PUSH; Ok None; Ok (Some 20);
                            Ok (Some 77); Ok None; Ok (Some 10); Ok None].
Proof. vm_compute. repeat split. Qed.

Example C25_mutex_nonvacuous :
  let s := mrun true [ (1%nat, MLock); (2%nat, MLock) (* blocked *); (1%nat, MLockDone); (2%nat, MUnlock);
                       (3%nat, MUnlock) (* already being released: error *); (2%nat, MUnlockDone);
                       (2%nat, MLock); (2%nat, MLockDone); (9%nat, MUnlock); (9%nat, MUnlockDone); (9%nat, MUnlock) ] minit in
  mtrace s = [MUnlockErr 9; MUnlocked 9; MLocked 2; MUnlocked 2; MUnlockErr 3; MLocked 1] /\ m_native s = false.
Proof. vm_compute. split; reflexivity. Qed.

Example C25_rwmutex_nonvacuous :
  let s := rrun true [ (1%nat, RRLock); (2%nat, RRLock); (1%nat, RRLockDone); (2%nat, RRLockDone);
                       (3%nat, RLock) (* blocked by readers *); (1%nat, RRUnlock); (1%nat, RRUnlockDone);
                       (2%nat, RRUnlock); (2%nat, RRUnlockDone); (2%nat, RRUnlock); (3%nat, RLock); (3%nat, RLockDone);
                       (4%nat, RRLock) (* blocked by the writer *); (4%nat, RRUnlock); (3%nat, RUnlock); (3%nat, RUnlockDone);
                       (3%nat, RUnlock) ] rinit in
  rtrace s = [RWUnlockErr 3; RWUnlocked 3; RRUnlockErr 4; RWLocked 3; RRUnlockErr 2; RRUnlocked 2; RRUnlocked 1;
              RRLocked 2; RRLocked 1] /\ r_w s = false /\ r_r s = 0%nat.
Proof. vm_compute. repeat split. Qed.

Example C25_waitgroup_nonvacuous :
  let s := wrun true [ (0%nat, WAdd 2); (1%nat, WWait) (* blocked *); (1%nat, WEnd); (2%nat, WRemove 5);
                       (2%nat, WEnd); (2%nat, WEnd); (0%nat, WWait); (0%nat, WAdd 2147483648) ] winit in
  map (fun e => match e with WEvDelta _ _ r d => (Some r, d) | WEvWait _ => (None, 0) end) (wtrace s) =
    [(Some (Err E_WG_RANGE), 0); (None, 0); (Some (Err E_WG_NEG), 0); (Some (Ok None), -1);
     (Some (Err E_WG_NEG), 0); (Some (Ok None), -1); (Some (Ok None), 2)] /\ w_cnt s = 0.
Proof. vm_compute. split; reflexivity. Qed.

Example C25_once_nonvacuous :
  let s := orun [ (1%nat, OCall); (2%nat, OCall); (2%nat, OEnter); (1%nat, OEnter) (* blocked *);
                  (3%nat, OCall); (2%nat, OBodyEnd); (4%nat, OCall) (* fast path *); (2%nat, OExit);
                  (1%nat, OEnter); (1%nat, OExit); (3%nat, OEnter); (3%nat, OExit) ] oinit in
  otrace s = [ORet 3; ORet 1; ORet 2; ORet 4; OBodyDone 2; OBody 2] /\ o_done s = true /\ o_locked s = false.
Proof. vm_compute. repeat split. Qed.

(* ================================================================ the mirrored lock state, blocked calls *)

(* The wrappers keep a mirror of the native lock (RWMutex.writer / RWMutex.readers, Mutex.locked)
   to decide whether an unlock is legal.  In EVERY reachable state of the micro-step machines
   (any schedule, any number of threads; Lock/ReadLock = native acquire, THEN mirror update; a
   call that blocks in the native acquire is a disabled step and has changed nothing): the native
   holders are exactly the mirrored flag/counter plus the calls between their two halves, and
   the mirror (plus calls in the middle of releasing) is exactly "lock calls that returned minus
   unlock calls that succeeded".  So a call blocked in read_lock / lock is never counted. *)
Theorem C25_mirror_agrees : forall sched,
  let s := rrun true sched rinit in
  Z.b2z (r_w s) = Z.b2z (r_wflag s) + Z.of_nat (r_wacq s) + Z.of_nat (r_wrel s) /\
  Z.of_nat (r_r s) = Z.of_nat (r_rcount s) + Z.of_nat (r_racq s) + Z.of_nat (r_rrel s) /\
  wheld (rtrace s) = Z.b2z (r_wflag s) + Z.of_nat (r_wrel s) /\
  rheld (rtrace s) = Z.of_nat (r_rcount s) + Z.of_nat (r_rrel s).
Proof. exact mirror_agrees. Qed.
Print Assumptions C25_mirror_agrees.

Theorem C25_mutex_mirror_agrees : forall sched,
  let s := mrun true sched minit in
  Z.b2z (m_native s) = Z.b2z (m_flag s) + Z.of_nat (m_acq s) + Z.of_nat (m_rel s) /\
  mheld (mtrace s) = Z.b2z (m_flag s) + Z.of_nat (m_rel s).
Proof. exact mutex_mirror_agrees. Qed.
Print Assumptions C25_mutex_mirror_agrees.

(* The variant "ReadLock bumps the mirrored counter BEFORE the native RLock" (rstep_early) is
   refuted: a writer holds, one reader is blocked in ReadLock; nobody holds a read lock (no
   ReadLock has returned, the native lock has no reader) but the mirror says 1, a ReadUnlock by a
   third thread is accepted without UnlockedError and releases a native read lock nobody holds. *)
Theorem C25_mirror_early_refuted : exists sched t,
  let s := rrun_v true sched rinit in
  rheld (rtrace s) = 0 /\ r_r s = 0%nat /\ r_rcount s = 1%nat /\
  (exists s', rstep_v true s t RRUnlock = Some s' /\ rtrace s' = rtrace s /\ r_rcount s' = 0%nat) /\
  existsb rev_fatal (rtrace (rrun_v true (sched ++ [(t, RRUnlock); (t, RRUnlockDone)]) rinit)) = true.
Proof.
  exists [(0%nat, RLock); (0%nat, RLockDone); (1%nat, RRLock); (1%nat, RRLockDone) (* blocked *)], 2%nat.
  vm_compute. repeat split. eexists. repeat split.
Qed.
Print Assumptions C25_mirror_early_refuted.

(* Controlled scripts (Model/C25_Sched.v): any list of (thread, call) over any number of threads,
   calls that block stay blocked as part of the state while the script goes on, releases wake
   them (Go's discipline: all blocked readers, then one blocked writer, writers pending on
   readers), every resolution [In (toks, s) (srun false script sinit)] of the "which writer"
   choices.  At every script boundary the lock state is a state of the proved micro-step
   machine (so C25_rwmutex_excl applies to it), and the mirrored flag/counter EQUAL the native
   holders and the number of lock calls that returned and were not released. *)
Theorem C25_sched_mirror_agrees : forall script toks s,
  In (toks, s) (srun false script sinit) ->
  (exists sched, s_lock s = rrun true sched rinit) /\
  r_wflag (s_lock s) = r_w (s_lock s) /\ r_rcount (s_lock s) = r_r (s_lock s) /\
  wheld (rtrace (s_lock s)) = Z.b2z (r_w (s_lock s)) /\
  rheld (rtrace (s_lock s)) = Z.of_nat (r_r (s_lock s)).
Proof. exact sched_mirror_agrees. Qed.
Print Assumptions C25_sched_mirror_agrees.

(* Hence, whatever is blocked: read_unlock / unlock by a thread that is not itself blocked
   returns UnlockedError (and does nothing else) exactly when no read / write lock call has
   returned without being released, and succeeds otherwise. *)
Theorem C25_sched_unlock_outcomes : forall script toks s t,
  In (toks, s) (srun false script sinit) -> sbusy s t = false ->
  (rheld (rtrace (s_lock s)) = 0 ->
     scall false s t SRUnlock = [(stp false s t RRUnlock, mkRes (IErr E_RW_UNLOCKED_R) [])]) /\
  (rheld (rtrace (s_lock s)) > 0 -> forall p, In p (scall false s t SRUnlock) -> sr_imm (snd p) = IOk) /\
  (wheld (rtrace (s_lock s)) = 0 ->
     scall false s t SUnlock = [(stp false s t RUnlock, mkRes (IErr E_RW_UNLOCKED_W) [])]) /\
  (wheld (rtrace (s_lock s)) > 0 -> forall p, In p (scall false s t SUnlock) -> sr_imm (snd p) = IOk).
Proof. exact sched_unlock_outcomes. Qed.
Print Assumptions C25_sched_unlock_outcomes.

Theorem C25_mutex_sched_mirror_agrees : forall script toks s,
  In (toks, s) (xrun script xinit) ->
  (exists sched, x_lock s = mrun true sched minit) /\
  m_flag (x_lock s) = m_native (x_lock s) /\ mheld (mtrace (x_lock s)) = Z.b2z (m_native (x_lock s)).
Proof. exact mutex_sched_mirror_agrees. Qed.
Print Assumptions C25_mutex_sched_mirror_agrees.

(* No lost wake-up, every script, every run: calls are blocked only while a writer holds or is
   pending (so once the lock is free nobody is left waiting), and a writer is pending only while
   the lock is held by readers.  Mutex: Lock calls are blocked only while the mutex is held. *)
Theorem C25_sched_no_lost_wakeup : forall script toks s,
  In (toks, s) (srun false script sinit) ->
  (s_blk s <> [] -> r_w (s_lock s) = true \/ s_pw s <> None) /\
  (forall x, s_pw s = Some x -> r_w (s_lock s) = false /\ r_r (s_lock s) <> 0%nat).
Proof. exact sched_no_lost_wakeup. Qed.
Print Assumptions C25_sched_no_lost_wakeup.

Theorem C25_mutex_sched_no_lost_wakeup : forall script toks s,
  In (toks, s) (xrun script xinit) -> x_blk s <> [] -> m_native (x_lock s) = true.
Proof. exact mutex_sched_no_lost_wakeup. Qed.
Print Assumptions C25_mutex_sched_no_lost_wakeup.

(* the witness script of the refuted ReadLock order: the faithful machine answers UnlockedError,
   the early-increment machine accepts the read_unlock *)
Example C25_sched_nonvacuous :
  map (fun r => map sr_imm (fst r)) (srun false [(0%nat, SLock); (1%nat, SRLock); (2%nat, SRUnlock); (0%nat, SUnlock)] sinit)
    = [[IOk; IBlocked; IErr E_RW_UNLOCKED_R; IOk]] /\
  map (fun r => (map sr_woken (fst r), sblocked (snd r)))
      (srun false [(0%nat, SLock); (1%nat, SRLock); (2%nat, SRUnlock); (0%nat, SUnlock)] sinit)
    = [([[]; []; []; [1%nat]], [])] /\
  map (fun r => map sr_imm (fst r)) (srun true [(0%nat, SLock); (1%nat, SRLock); (2%nat, SRUnlock)] sinit)
    = [[IOk; IBlocked; IOk]] /\
  (* readers hold, a writer is pending, a new reader blocks behind it; two blocked writers: either may be served *)
  map (fun r => (map sr_imm (fst r), map sr_woken (fst r), sblocked (snd r)))
      (srun false [(0%nat, SRLock); (1%nat, SLock); (2%nat, SRLock); (0%nat, SRUnlock); (1%nat, SUnlock)] sinit)
    = [([IOk; IBlocked; IBlocked; IOk; IOk], [[]; []; []; [1%nat]; [2%nat]], [])] /\
  length (srun false [(0%nat, SLock); (1%nat, SLock); (2%nat, SLock); (0%nat, SUnlock)] sinit) = 2%nat.
Proof. vm_compute. repeat split. Qed.
