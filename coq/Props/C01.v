(* C01 - programs the type checker accepts never crash the interpreter (partial: the core
   language of Model/C01_Core.v and the Mutex/RWMutex unlock wrappers).
   Only statements here; proofs live in Proofs/C01_Core.v, C01_Sound.v, C01_Thm.v. *)
From Coq Require Import ZArith List Bool.
From Elk Require Import Model.C01_Core Proofs.C01_Core Proofs.C01_Sound Proofs.C01_Thm.
From Elk Require Model.C15_Gen.
From Elk Require Import Model.C01_Proto Proofs.C01_Proto.
Import ListNotations.

(* Soundness of the checker's rules on the core for the typed-dispatch interpreter: a program
   that [wt] accepts never reaches a typed instruction with a value of another representation
   ([RCrash], a Go panic in the VM), whatever the fuel (= for every finite prefix of the run,
   recursion and loops included) - PROVIDED no closure body and no loop body assigns a local
   that some condition of the same method narrows.  Without that guard the statement is false
   for the rules as the checker applies them: see the two _refuted theorems. *)
Theorem C01_soundness_partial : forall p,
  wt p = true -> no_narrowed_local_assigned_in_closure_or_loop p = true ->
  forall fuel, run fuel p <> RCrash.
Proof. exact soundness_partial. Qed.
Print Assumptions C01_soundness_partial.

(* `var a: Int? = 1; c0 := -> a = nil; if a; c0.(); println(a + 1); end` is accepted (calling a
   closure invalidates no narrowing) and ADD_INT then meets nil. *)
Theorem C01_narrow_refuted : exists p fuel, wt p = true /\ run fuel p = RCrash.
Proof. exact narrow_refuted. Qed.
Print Assumptions C01_narrow_refuted.

(* `if a; while i < 2; println(a + 1); a = nil; i = i + 1; end; end`: a loop body is checked once,
   the assignment at its end does not invalidate the narrowing its beginning relies on. *)
Theorem C01_narrow_loop_refuted : exists p fuel, wt p = true /\ run fuel p = RCrash.
Proof. exact narrow_loop_refuted. Qed.
Print Assumptions C01_narrow_loop_refuted.

(* Mutex#unlock / RWMutex#unlock / #read_unlock with the lock state tracked next to the native
   lock: no single-threaded history of lock/unlock/read_lock/read_unlock reaches Go's
   fatal "unlock of unlocked mutex" (an unlock that is not owed returns UnlockedError). *)
Theorem C01_unlock_total : forall ops e, tracked e -> elk_run true e ops <> SFatal.
Proof. intros ops e. exact (unlock_total ops e). Qed.
Print Assumptions C01_unlock_total.

(* As found (defer recover(); Native.Unlock()): unlock of a fresh mutex is fatal. *)
Theorem C01_unlock_refuted : exists ops, elk_run false e_new ops = SFatal.
Proof. exact unlock_refuted. Qed.
Print Assumptions C01_unlock_refuted.

(* non-vacuity: a guarded, accepted program with a closure, a narrowing, a loop and a recursive
   method runs to completion and prints; the fresh mutex is tracked. *)
Definition sample : prog :=
  [ {| m_params := []; m_locals := [(tIntOpt, VInt 1); (tInt, VInt 0); (tInt, VInt 0)];
       m_clos := [SAssign 2 (EAdd (EVar 2) (EInt 10))];
       m_body := SSeq (SIf (CVar 0) (SSeq (SCallClo 0) (SPrint (EAdd (EVar 0) (EVar 2)))) SSkip)
                  (SSeq (SWhile (CLt (EVar 1) (EInt 3)) (SAssign 1 (EAdd (EVar 1) (EInt 1))))
                        (SCall 2 1 [EVar 1]));
       m_ret := EVar 2; m_rty := tInt |};
    {| m_params := [tInt]; m_locals := [(tInt, VInt 0)]; m_clos := [];
       m_body := SIf (CLt (EInt 0) (EVar 0))
                   (SSeq (SCall 1 1 [ESub (EVar 0) (EInt 1)]) (SAssign 1 (EAdd (EVar 1) (EVar 0))))
                   SSkip;
       m_ret := EVar 1; m_rty := tInt |} ].
Example C01_soundness_nonvacuous :
  wt sample = true /\ no_narrowed_local_assigned_in_closure_or_loop sample = true /\
  exists fr, run 100 sample = ROk fr [VInt 6; VInt 11].
Proof. vm_compute. repeat split; eauto. Qed.
Example C01_unlock_nonvacuous : tracked e_new /\ elk_run true e_new [MUnlock; MLock; MUnlock; MUnlock; MRUnlock] <> SFatal.
Proof. split; [split; reflexivity | vm_compute; discriminate]. Qed.

(* Protocol sequences on stateful std objects (Model/C01_Proto.v: generators over the body language and
   machine of Model/C15_Gen.v, collection / endless-range iterators, buffered channels, settled promises,
   Sync::Once).  Every operation is dispatched for the static kind of its receiver slot and every element
   it delivers is consumed by an Int-typed instruction.  For every history the checker accepts
   (each operation's slot exists and its kind has the method) the typed-dispatch machine never meets a
   slot of another kind, for all fuel: operations keep the kind of their receiver (next/reset/for-in with
   break on generators and iterators, push/pop/close on channels, await, Once#call).  This is a statement
   about the MODEL of the objects; the compiler (where a wrong entry point for `reset` lives) is outside it
   and is reached by the c01.proto stream only. *)
Theorem C01_proto_sound : forall ops h,
  wt_ops (map kind_of h) ops = true ->
  forall fuel acc out, run_ops fuel h ops acc out <> PCrash.
Proof. exact proto_sound. Qed.
Print Assumptions C01_proto_sound.

(* `reset` on a generator / iterator = start over: the rest of the history is the history of a fresh object
   (the reference the c01.proto stream compares the implementation with). *)
Theorem C01_proto_reset_restarts : forall fuel h i o ops acc out,
  nth_error h i = Some o -> (kind_of o = KGen \/ kind_of o = KIter) ->
  run_ops fuel h (PReset i :: ops) acc out = run_ops fuel (set_slot h i (fresh o)) ops acc ([EOk] :: out).
Proof. exact proto_reset_restarts. Qed.
Print Assumptions C01_proto_reset_restarts.

(* non-vacuity: the countdown generator with a local (the shape of generator the compiler prepends
   PREP_LOCALS to), consumed twice, reset, consumed by for-in with a break, then to the end; a channel and a
   Once next to it.  x0 = from, x1 = current. *)
Definition countdown : C15_Gen.func :=
  C15_Gen.mkFunc 1
    (C15_Gen.SSeq (C15_Gen.SAssign 1 (C15_Gen.EVar 0))
       (C15_Gen.SWhile (C15_Gen.CLt (C15_Gen.EConst 0) (C15_Gen.EVar 1))
          (C15_Gen.SSeq (C15_Gen.SYield (C15_Gen.EVar 1))
                        (C15_Gen.SAssign 1 (C15_Gen.ESub (C15_Gen.EVar 1) (C15_Gen.EConst 1))))))
    (C15_Gen.EConst 0).
Definition proto_heap : list obj :=
  [OGen countdown [3] (C15_Gen.gen_init countdown [3]); OChan 2 [] false; OOnce false 0].
Definition proto_ops : list op :=
  [PNext 0; PNext 0; PReset 0; PForIn 0 (Some 2%nat); PPush 1 7; PNext 0; PNext 0; PNext 0; PPop 1; PClose 1;
   PNext 1; PCall 2 5; PCall 2 9].
Example C01_proto_nonvacuous :
  wt_ops (map kind_of proto_heap) proto_ops = true /\
  exists h, run_ops 100 proto_heap proto_ops 0 [] =
    POk h 18 [[EVal 5]; [EVal 5]; [EStop]; [EOk]; [EVal 7]; [EStop]; [EVal 0]; [EVal 1]; [EOk];
              [EVal 3; EVal 2]; [EOk]; [EVal 2]; [EVal 3]].
Proof. vm_compute. split; eauto. Qed.
