(* C01 - programs the type checker accepts never crash the interpreter (partial: the core
   language of Model/C01_Core.v and the Mutex/RWMutex unlock wrappers).
   Only statements here; proofs live in Proofs/C01_Core.v, C01_Sound.v, C01_Thm.v. *)
From Coq Require Import ZArith List Bool.
From Elk Require Import Model.C01_Core Proofs.C01_Core Proofs.C01_Sound Proofs.C01_Thm.
Import ListNotations.

(* Soundness of the checker's rules on the core for the typed-dispatch interpreter: a program
   that [wt] accepts never reaches a typed instruction with a value of another representation
   ([RCrash], a Go panic in the VM), whatever the fuel (= for every finite prefix of the run,
   recursion and loops included) - PROVIDED no closure body and no loop body assigns a local
   that some condition of the same method narrows.  Without that guard the statement is false
   for the rules as the checker applies them: see the two _refuted theorems. *)
Theorem C01_soundness_partial : forall p,
  wt p = true -> no_narrowed_local_assigned_in_closure_or_loop p = true ->
  forall fuel, run fuel p <> RCrash.
Proof. exact soundness_partial. Qed.
Print Assumptions C01_soundness_partial.

(* `var a: Int? = 1; c0 := -> a = nil; if a; c0.(); println(a + 1); end` is accepted (calling a
   closure invalidates no narrowing) and ADD_INT then meets nil. *)
Theorem C01_narrow_refuted : exists p fuel, wt p = true /\ run fuel p = RCrash.
Proof. exact narrow_refuted. Qed.
Print Assumptions C01_narrow_refuted.

(* `if a; while i < 2; println(a + 1); a = nil; i = i + 1; end; end`: a loop body is checked once,
   the assignment at its end does not invalidate the narrowing its beginning relies on. *)
Theorem C01_narrow_loop_refuted : exists p fuel, wt p = true /\ run fuel p = RCrash.
Proof. exact narrow_loop_refuted. Qed.
Print Assumptions C01_narrow_loop_refuted.

(* Mutex#unlock / RWMutex#unlock / #read_unlock with the lock state tracked next to the native
   lock: no single-threaded history of lock/unlock/read_lock/read_unlock reaches Go's
   fatal "unlock of unlocked mutex" (an unlock that is not owed returns UnlockedError). *)
Theorem C01_unlock_total : forall ops e, tracked e -> elk_run true e ops <> SFatal.
Proof. intros ops e. exact (unlock_total ops e). Qed.
Print Assumptions C01_unlock_total.

(* As found (defer recover(); Native.Unlock()): unlock of a fresh mutex is fatal. *)
Theorem C01_unlock_refuted : exists ops, elk_run false e_new ops = SFatal.
Proof. exact unlock_refuted. Qed.
Print Assumptions C01_unlock_refuted.

(* non-vacuity: a guarded, accepted program with a closure, a narrowing, a loop and a recursive
   method runs to completion and prints; the fresh mutex is tracked. *)
Definition sample : prog :=
  [ {| m_params := []; m_locals := [(tIntOpt, VInt 1); (tInt, VInt 0); (tInt, VInt 0)];
       m_clos := [SAssign 2 (EAdd (EVar 2) (EInt 10))];
       m_body := SSeq (SIf (CVar 0) (SSeq (SCallClo 0) (SPrint (EAdd (EVar 0) (EVar 2)))) SSkip)
                  (SSeq (SWhile (CLt (EVar 1) (EInt 3)) (SAssign 1 (EAdd (EVar 1) (EInt 1))))
                        (SCall 2 1 [EVar 1]));
       m_ret := EVar 2; m_rty := tInt |};
    {| m_params := [tInt]; m_locals := [(tInt, VInt 0)]; m_clos := [];
       m_body := SIf (CLt (EInt 0) (EVar 0))
                   (SSeq (SCall 1 1 [ESub (EVar 0) (EInt 1)]) (SAssign 1 (EAdd (EVar 1) (EVar 0))))
                   SSkip;
       m_ret := EVar 1; m_rty := tInt |} ].
Example C01_soundness_nonvacuous :
  wt sample = true /\ no_narrowed_local_assigned_in_closure_or_loop sample = true /\
  exists fr, run 100 sample = ROk fr [VInt 6; VInt 11].
Proof. vm_compute. repeat split; eauto. Qed.
Example C01_unlock_nonvacuous : tracked e_new /\ elk_run true e_new [MUnlock; MLock; MUnlock; MUnlock; MRUnlock] <> SFatal.
Proof. split; [split; reflexivity | vm_compute; discriminate]. Qed.
