(* C22 — executable model of Elk's Date: proleptic Gregorian day numbers, Go's time.Date
   normalisation, the uint32 bit packing of value/date.go, Date +/- Date::Span, Date - Date,
   comparison, Format / ParseDate for the numeric directives, Date::Span#to_string pieces.
   Definitions only (no proofs) so that the model always runs.

   Mirrors /repo/value/date.go, datetime.go (AddDateSpan, SubtractDateSpan, DiffDate),
   date_span.go WITH the candidate fixes fixes/C22-datespan-arith.patch and
   fixes/C22-parse-signed-year.patch applied:
     - DateTime.AddDateSpan adds the days with time.AddDate (no int64 nanosecond overflow),
     - DateTime.SubtractDateSpan(s) = AddDateSpan(s.Negate()),
     - parseDateYear accepts a minus sign and, when the next format token cannot start with
       a digit, up to 8 characters.
   The missing range check on arithmetic results and d1 + (d2 - d1) <> d2 are NOT fixed: the
   model reproduces both (see Props/C22.v, *_refuted). *)
From Coq Require Import ZArith List Bool Lia.
From Elk Require Import Base.GoSem.
Import ListNotations.
Open Scope Z_scope.

(* ------------------------------------------------------------------ civil calendar *)

Definition D400 : Z := 146097.
Definition D100 : Z := 36524.
Definition D4 : Z := 1461.
Definition EPOCH_SHIFT : Z := 719468. (* days from 0000-03-01 to 1970-01-01 *)

(* number of days before March 1st of (March-based) year y, counted from 0000-03-01 *)
Definition days_before_year (y : Z) : Z := 365 * y + y / 4 - y / 100 + y / 400.

(* March-based month index 0..11 (March = 0) and March-based year *)
Definition mp_of (m : Z) : Z := if m <=? 2 then m + 9 else m - 3.
Definition yp_of (y m : Z) : Z := if m <=? 2 then y - 1 else y.
Definition days_before_mp (mp : Z) : Z := (153 * mp + 2) / 5.

(* day number (days since 1970-01-01) of the civil date y-m-d *)
Definition days_from_civil (y m d : Z) : Z :=
  days_before_year (yp_of y m) + days_before_mp (mp_of m) + (d - 1) - EPOCH_SHIFT.

Definition civil_from_days (z : Z) : Z * Z * Z :=
  let n := z + EPOCH_SHIFT in
  let a := n / D400 in
  let r0 := n mod D400 in
  let b := Z.min (r0 / D100) 3 in
  let r1 := r0 - b * D100 in
  let c := r1 / D4 in
  let r2 := r1 - c * D4 in
  let e := Z.min (r2 / 365) 3 in
  let doy := r2 - e * 365 in
  let yp := 400 * a + 100 * b + 4 * c + e in
  let mp := (5 * doy + 2) / 153 in
  let d := doy - days_before_mp mp + 1 in
  let m := if mp <? 10 then mp + 3 else mp - 9 in
  ((if m <=? 2 then yp + 1 else yp), m, d).

Definition is_leap (y : Z) : bool :=
  ((y mod 4 =? 0) && negb (y mod 100 =? 0)) || (y mod 400 =? 0).

Definition days_in_month (y m : Z) : Z :=
  if m =? 2 then (if is_leap y then 29 else 28)
  else if (m =? 4) || (m =? 6) || (m =? 9) || (m =? 11) then 30 else 31.

Definition valid_date (y m d : Z) : Prop := 1 <= m <= 12 /\ 1 <= d <= days_in_month y m.
Definition valid_dateb (y m d : Z) : bool :=
  (1 <=? m) && (m <=? 12) && (1 <=? d) && (d <=? days_in_month y m).

(* ------------------------------------------------------------------ Go's time package *)

(* time.Date(year, month, day, 0,0,0,0, loc).{Year,Month,Day}: the month is normalised into
   1..12 carrying into the year, then day-1 days are added to the first of that month.
   (TRUSTED: that Go's time package computes this; validated by the c22.dates stream.) *)
Definition go_date (y m d : Z) : Z * Z * Z :=
  let t := y * 12 + (m - 1) in
  civil_from_days (days_from_civil (t / 12) (t mod 12 + 1) 1 + (d - 1)).

(* t.AddDate(0, 0, n) on a midnight value *)
Definition go_add_days (ymd : Z * Z * Z) (n : Z) : Z * Z * Z :=
  let '(y, m, d) := ymd in go_date y m (d + n).

(* t.YearDay() *)
Definition year_day (y m d : Z) : Z := days_from_civil y m d - days_from_civil y 1 1 + 1.

(* ------------------------------------------------------------------ bit packing (date.go:89-169) *)

Definition YEAR_BIAS : Z := 2 ^ 22.
Definition MIN_YEAR : Z := - 2 ^ 22.
Definition MAX_YEAR : Z := 2 ^ 22 - 1.
Definition u32 (z : Z) : Z := z mod 2 ^ 32.

(* MakeDate: y := uint32(year + bias); bits := (y << 9) | (m << 5) | d   — all in uint32 *)
Definition pack (y m d : Z) : Z :=
  Z.lor (Z.lor (u32 (u32 (y + YEAR_BIAS) * 2 ^ 9)) (u32 (u32 m * 2 ^ 5))) (u32 d).

(* Year(): int32(bits >> 9) - bias ; Month(): (bits >> 5) & 15 ; Day(): bits & 31 *)
Definition unpack (bits : Z) : Z * Z * Z :=
  (Z.shiftr bits 9 - YEAR_BIAS, Z.land (Z.shiftr bits 5) 15, Z.land bits 31).

Definition year_in_range (y : Z) : bool := (MIN_YEAR <=? y) && (y <=? MAX_YEAR).

(* d.ToGoTime(): time.Date(Year, Month, Day) of the stored fields *)
Definition to_civil (bits : Z) : Z * Z * Z :=
  let '(y, m, d) := unpack bits in go_date y m d.

(* ------------------------------------------------------------------ spans (date_span.go) *)

(* Date::Span = { months int32 ; days int32 } *)
Definition wrap32 (z : Z) : Z := wrap_s 32 z.
Definition span := (Z * Z)%type.
Definition make_span (years months days : Z) : span := (wrap32 (months + years * 12), wrap32 days).
Definition span_negate (s : span) : span := (wrap32 (- fst s), wrap32 (- snd s)).

(* DateTime.AddDateSpan on a midnight value (fixed: days added with AddDate) *)
Definition add_span_ymd (ymd : Z * Z * Z) (s : span) : Z * Z * Z :=
  let '(months, days) := s in
  let '(y1, m1, d1) := go_add_days ymd days in
  let month0 := m1 + months in
  let year := y1 + Z.quot month0 12 in       (* Go's / truncates *)
  let month := Z.rem month0 12 in            (* Go's % has the dividend's sign *)
  (* daysOfMonth(year, month): (first of month+1) minus 24h, .Day() *)
  let '(_, dom) := go_add_days (go_date year (month + 1) 1) (-1) in
  let new_day := Z.min d1 dom in
  go_date year month new_day.

(* Date.AddDateSpan: ToDateTimeValue().AddDateSpan(s).Date() — MakeDate without range check *)
Definition add_span (bits : Z) (s : span) : Z :=
  let '(y, m, d) := add_span_ymd (to_civil bits) s in pack y m d.

(* Date.SubtractDateSpan (fixed): AddDateSpan(s.Negate()) *)
Definition sub_span (bits : Z) (s : span) : Z := add_span bits (span_negate s).

(* Date.ToDateSpan: MakeDateSpan(Year, Month-1, Day-1) *)
Definition to_date_span (y m d : Z) : span := make_span y (m - 1) (d - 1).

(* a.DiffDate(b) = a.ToDateTime().ToDateTimeSpan().SubtractDateSpan(b.ToDateSpan()).DateSpan *)
Definition diff (a b : Z) : span :=
  let '(ya, ma, da) := to_civil a in
  let '(yb, mb, db) := unpack b in
  let sa := to_date_span ya ma da in
  let nb := span_negate (to_date_span yb mb db) in
  (wrap32 (fst sa + fst nb), wrap32 (snd sa + snd nb)).

(* Date.Cmp: time.Time.Compare of the two midnights: -1 / 0 / 1 *)
Definition cmp (a b : Z) : Z :=
  let '(ya, ma, da) := to_civil a in
  let '(yb, mb, db) := to_civil b in
  match days_from_civil ya ma da ?= days_from_civil yb mb db with
  | Lt => -1 | Eq => 0 | Gt => 1
  end.

(* the mathematical meaning of date + span: add the days on the day line, then move by whole
   months keeping the day of month, clamped to the length of the target month *)
Definition add_spec (ymd : Z * Z * Z) (s : span) : Z * Z * Z :=
  let '(y, m, d) := ymd in
  let '(months, days) := s in
  let '(y1, m1, d1) := civil_from_days (days_from_civil y m d + days) in
  let t := y1 * 12 + (m1 - 1) + months in
  let y2 := t / 12 in
  let m2 := t mod 12 + 1 in
  (y2, m2, Z.min d1 (days_in_month y2 m2)).

(* Date::Span#to_string prints months/12, months%12, days (Go truncation); ParseDateSpan adds
   years*12 + months in int32 *)
Definition span_parts (s : span) : Z * Z * Z := (Z.quot (fst s) 12, Z.rem (fst s) 12, snd s).
Definition span_of_parts (p : Z * Z * Z) : span :=
  let '(yy, mm, dd) := p in (wrap32 (wrap32 (wrap32 yy * 12) + wrap32 mm), wrap32 dd).

(* ------------------------------------------------------------------ strings *)

(* strings are lists of byte values *)
Definition str := list Z.
Definition is_digit (c : Z) : bool := (48 <=? c) && (c <=? 57).
Definition zlen {A} (l : list A) : Z := Z.of_nat (length l).

Fixpoint digits_fuel (fuel : nat) (n : Z) : str :=
  match fuel with
  | O => []
  | S f => if n <? 10 then [48 + n] else digits_fuel f (n / 10) ++ [48 + n mod 10]
  end.
Definition digits (n : Z) : str := digits_fuel 25 n.

Inductive pad := PZero | PNone | PSpace.

(* own copies of repeat / flat_map so that extraction does not emit a List module *)
Fixpoint rep (c : Z) (n : nat) : str := match n with O => [] | S k => c :: rep c k end.

(* fmt.Fprintf("%0wd" / "%d" / "%wd", z) *)
Definition fmt_num (p : pad) (w : Z) (z : Z) : str :=
  let ds := digits (Z.abs z) in
  let sg := if z <? 0 then [45] else [] in
  let padn := Z.to_nat (w - zlen sg - zlen ds) in
  match p with
  | PNone => sg ++ ds
  | PZero => sg ++ rep 48 padn ++ ds
  | PSpace => rep 32 padn ++ sg ++ ds
  end.

(* the modelled directives: %Y %C %y %m %d(%e) %j with their - and _ variants, %F, %D, and
   literal text (which also stands for %% %n %t) *)
Inductive tok :=
| TYear (p : pad) | TCent (p : pad) | TY2 (p : pad)
| TMonth (p : pad) | TDay (p : pad) | TYday (p : pad)
| TIso | TUS | TText (s : str).

Definition format_tok (bits : Z) (t : tok) : str :=
  let '(y, m, d) := unpack bits in
  match t with
  | TYear p => fmt_num p 4 y
  | TCent p => fmt_num p 2 (Z.quot y 100)
  | TY2 p => fmt_num p 2 (Z.rem y 100)
  | TMonth p => fmt_num p 2 m
  | TDay p => fmt_num p 2 d
  | TYday p => let '(yn, mn, dn) := to_civil bits in fmt_num p 3 (year_day yn mn dn)
  | TIso => fmt_num PZero 4 y ++ [45] ++ fmt_num PZero 2 m ++ [45] ++ fmt_num PZero 2 d
  | TUS => fmt_num PZero 2 m ++ [47] ++ fmt_num PZero 2 d ++ [47] ++ fmt_num PZero 2 (Z.rem y 100)
  | TText s => s
  end.

Fixpoint format (fmt : list tok) (bits : Z) : str :=
  match fmt with [] => [] | t :: r => format_tok bits t ++ format r bits end.

(* --- parsing *)

Fixpoint skip_spaces (budget : nat) (s : str) : Z * str :=
  match budget, s with
  | S b, c :: t => if c =? 32 then let '(n, r) := skip_spaces b t in (n + 1, r) else (0, s)
  | _, _ => (0, s)
  end.

(* returns (value, digits consumed, rest) *)
Fixpoint parse_digits (budget : nat) (acc cnt : Z) (s : str) : Z * Z * str :=
  match budget, s with
  | S b, c :: t => if is_digit c then parse_digits b (acc * 10 + (c - 48)) (cnt + 1) t else (acc, cnt, s)
  | _, _ => (acc, cnt, s)
  end.

(* time.go parseTemporalDigitsOk(s, maxChars, spacePadded) *)
Definition parse_num (maxc : Z) (sp : bool) (s : str) : option (Z * str) :=
  match s with
  | [] => None
  | _ =>
    let '(i, s1) := if sp then skip_spaces (Z.to_nat maxc) s else (0, s) in
    let '(n, cnt, rest) := parse_digits (Z.to_nat (maxc - i)) 0 0 s1 in
    if i + cnt =? 0 then None else Some (n, rest)
  end.

(* (fixed) parseDateYearDigits(s, spacePadded, greedy): optional spaces, optional '-', at
   least one digit; spaces, sign and digits share a budget of 4 characters, 8 when greedy *)
Definition parse_year_num (sp greedy : bool) (s : str) : option (Z * str) :=
  let maxc := if greedy then 8 else 4 in
  let '(i, s1) := if sp then skip_spaces (Z.to_nat maxc) s else (0, s) in
  let '(neg, j, s2) :=
    match s1 with
    | c :: t => if (c =? 45) && (i <? maxc) then (true, i + 1, t) else (false, i, s1)
    | [] => (false, i, s1)
    end in
  let '(n, cnt, rest) := parse_digits (Z.to_nat (maxc - j)) 0 0 s2 in
  if cnt =? 0 then None else Some ((if neg then - n else n), rest).

Fixpoint match_text (t s : str) : option str :=
  match t, s with
  | [], _ => Some s
  | c :: t', c' :: s' => if c =? c' then match_text t' s' else None
  | _ :: _, [] => None
  end.

Record tmp := mkTmp {
  t_cent : option Z; t_year : option Z; t_month : option Z; t_day : option Z; t_yday : option Z }.
Definition tmp0 := mkTmp None None None None None.

(* whether the format token after a year lets the year be read greedily
   (temporalNextTokenIsNotDigit): end of format, or text not starting with a digit *)
Definition next_not_digit (rest : list tok) : bool :=
  match rest with
  | [] => true
  | TText (c :: _) :: _ => negb (is_digit c)
  | _ => false
  end.

Inductive perr := EFormat | ENeedsNow.

Definition in_range (lo hi n : Z) : bool := (lo <=? n) && (n <=? hi).

Definition p_year (sp greedy : bool) (st : tmp * str) : perr + (tmp * str) :=
  let '(t, s) := st in
  match parse_year_num sp greedy s with
  | None => inl EFormat
  | Some (n, r) => inr (mkTmp (t_cent t) (Some n) (t_month t) (t_day t) (t_yday t), r)
  end.
Definition p_month (sp : bool) (st : tmp * str) : perr + (tmp * str) :=
  let '(t, s) := st in
  match parse_num 2 sp s with
  | None => inl EFormat
  | Some (n, r) => if in_range 1 12 n then inr (mkTmp (t_cent t) (t_year t) (Some n) (t_day t) (t_yday t), r) else inl EFormat
  end.
Definition p_day (sp : bool) (st : tmp * str) : perr + (tmp * str) :=
  let '(t, s) := st in
  match parse_num 2 sp s with
  | None => inl EFormat
  | Some (n, r) => if in_range 0 31 n then inr (mkTmp (t_cent t) (t_year t) (t_month t) (Some n) (t_yday t), r) else inl EFormat
  end.
Definition p_yday (sp : bool) (st : tmp * str) : perr + (tmp * str) :=
  let '(t, s) := st in
  match parse_num 3 sp s with
  | None => inl EFormat
  | Some (n, r) => if in_range 0 366 n then inr (mkTmp (t_cent t) (t_year t) (t_month t) (t_day t) (Some n), r) else inl EFormat
  end.
Definition p_cent (sp : bool) (st : tmp * str) : perr + (tmp * str) :=
  let '(t, s) := st in
  match parse_num 2 sp s with
  | None => inl EFormat
  | Some (n, r) => inr (mkTmp (Some n) (t_year t) (t_month t) (t_day t) (t_yday t), r)
  end.
(* %y without a preceding %C takes the century of today's date: outside the model *)
Definition p_y2 (sp : bool) (st : tmp * str) : perr + (tmp * str) :=
  let '(t, s) := st in
  match parse_num 2 sp s with
  | None => inl EFormat
  | Some (n, r) =>
    match t_cent t with
    | None => inl ENeedsNow
    | Some _ => inr (mkTmp (t_cent t) (Some n) (t_month t) (t_day t) (t_yday t), r)
    end
  end.
Definition p_text (x : str) (st : tmp * str) : perr + (tmp * str) :=
  let '(t, s) := st in
  match match_text x s with None => inl EFormat | Some r => inr (t, r) end.

Definition andthen (a : perr + (tmp * str)) (f : tmp * str -> perr + (tmp * str)) :=
  match a with inl e => inl e | inr st => f st end.

Definition parse_tok (t : tok) (rest : list tok) (st : tmp * str) : perr + (tmp * str) :=
  match t with
  | TYear p => p_year (match p with PSpace => true | _ => false end) (next_not_digit rest) st
  | TCent p => p_cent (match p with PSpace => true | _ => false end) st
  | TY2 p => p_y2 (match p with PSpace => true | _ => false end) st
  | TMonth p => p_month (match p with PSpace => true | _ => false end) st
  | TDay p => p_day (match p with PSpace => true | _ => false end) st
  | TYday p => p_yday (match p with PSpace => true | _ => false end) st
  | TIso => andthen (andthen (andthen (andthen (p_year false true st) (p_text [45])) (p_month false)) (p_text [45])) (p_day false)
  | TUS => andthen (andthen (andthen (andthen (p_month false st) (p_text [47])) (p_day false)) (p_text [47])) (p_y2 false)
  | TText x => p_text x st
  end.

Fixpoint parse_toks (fmt : list tok) (st : tmp * str) : perr + (tmp * str) :=
  match fmt with
  | [] => inr st
  | t :: rest => andthen (parse_tok t rest st) (parse_toks rest)
  end.

Definition set_year (bits v : Z) : Z := let '(_, m, d) := unpack bits in pack v m d.
Definition set_month (bits v : Z) : Z := let '(y, _, d) := unpack bits in pack y v d.
Definition set_day (bits v : Z) : Z := let '(y, m, _) := unpack bits in pack y m v.
Definition oget (o : option Z) : Z := match o with Some v => v | None => 0 end.
Definition ohas (o : option Z) : bool := match o with Some _ => true | None => false end.

(* constructDateFromTmp restricted to the modelled fields; the branches that read today's
   date answer ENeedsNow *)
Definition construct (t : tmp) : perr + Z :=
  let r := 0 in
  let r := if ohas (t_cent t) then set_year r (oget (t_cent t) * 100) else r in
  let r := if ohas (t_year t) then set_year r (oget (t_cent t) * 100 + oget (t_year t)) else r in
  let r := if ohas (t_yday t)
           then let '(y, _, _) := unpack r in
                let '(y', m', d') := go_date y 1 (1 + (oget (t_yday t) - 1)) in pack y' m' d'
           else r in
  let r := if ohas (t_month t) then set_month r (oget (t_month t)) else r in
  let r := if ohas (t_day t) then set_day r (oget (t_day t)) else r in
  let r := let '(_, _, d) := unpack r in if (d =? 0) && ohas (t_month t) then set_day r 1 else r in
  if negb (ohas (t_cent t) || ohas (t_year t)) then inl ENeedsNow
  else let '(y, m, d) := unpack r in
       if (m =? 0) || (d =? 0) then inl ENeedsNow
       else let '(y', m', d') := go_date y m d in inr (pack y' m' d').

Definition parse (fmt : list tok) (s : str) : perr + Z :=
  match parse_toks fmt (tmp0, s) with
  | inl e => inl e
  | inr (t, rest) => match rest with [] => construct t | _ :: _ => inl EFormat end
  end.

(* Date#to_string: fmt.Sprintf("%04d-%02d-%02d") ; Date.parse default format "%Y-%m-%d" *)
Definition default_format : list tok := [TYear PZero; TText [45]; TMonth PZero; TText [45]; TDay PZero].
Definition to_string (bits : Z) : str := format [TIso] bits.
