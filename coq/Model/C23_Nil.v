(* C23 — the generic iterable operations of Model/C23_Iter.v instantiated at a NILABLE element type
   (Elk `Int?`): an element is `None` (nil) or `Some z`.  In this instance "the selected element is
   nil" (`first` = Val None, printed `nil`) and "no element selected" (`first` = Thrown E_NF) are
   different results; `try_first` of an empty iterable is Val None (absent) and of [nil] is
   Val (Some None) — both printed `nil`, as Elk does.  No proofs here so the model always runs. *)
From Elk Require Export Model.C23_Iter.
Open Scope Z_scope.

Definition elem : Type := option Z.
(* Equal(vm, elem, val) on Int?: nil == nil, ints by value *)
Definition elem_eqb (a b : elem) : bool :=
  match a, b with
  | None, None => true
  | Some x, Some y => x =? y
  | _, _ => false
  end.

(* the generated Elk closures over Int? *)
Inductive npred : Type :=
| NIsNil                        (* |x| -> x == nil *)
| NNotNil                       (* |x| -> x != nil *)
| NEq (c : Z)                   (* |x| -> x == c *)
| NNe (c : Z)                   (* |x| -> x != c *)
| NConst (b : bool)
| NThrowAt (t : elem) (p : npred).   (* throws "boom" when x == t (t may be nil) *)

Fixpoint eval_npred (p : npred) (x : elem) : res bool :=
  match p with
  | NIsNil => Val (elem_eqb x None)
  | NNotNil => Val (negb (elem_eqb x None))
  | NEq c => Val (elem_eqb x (Some c))
  | NNe c => Val (negb (elem_eqb x (Some c)))
  | NConst b => Val b
  | NThrowAt t p' => if elem_eqb x t then Thrown E_BOOM else eval_npred p' x
  end.

(* |x| -> x ?? d *)
Definition elem_or (d : Z) (x : elem) : Z := match x with Some z => z | None => d end.

Inductive nopreq : Type :=
| NContains (x : elem) | NIsEmpty | NFirst | NTryFirst | NLast | NTryLast
| NMapOr (d : Z) | NFilter (p : npred) | NReject (p : npred) | NCount (p : npred)
| NAny (p : npred) | NEvery (p : npred) | NFind (p : npred) | NTryFind (p : npred)
| NIndexOf (x : elem) | NFindIndex (p : npred) | NDrop (n : Z) | NDropWhile (p : npred)
| NTake (n : Z) | NTakeWhile (p : npred)
| NFold (i c d : Z)             (* fold(i, |a, x| -> a * c + (x ?? d)) *)
| NToList | NToTuple | NLength.

Inductive nval : Type :=
| NVElem (e : elem)             (* an element: nil or an Int *)
| NVOpt (o : option elem)       (* try_*: absent, or an element (which may be nil) *)
| NVBool (b : bool) | NVInt (z : Z)
| NVList (l : list elem) | NVTuple (l : list elem) | NVZList (l : list Z).

Definition run_nimpl {St} (fuel : nat) (nx : St -> step elem St) (s : St) (o : nopreq) : res nval :=
  match o with
  | NContains x => rmap NVBool (contains_impl nx elem_eqb fuel x s)
  | NIsEmpty => rmap NVBool (is_empty_impl nx fuel s)
  | NFirst => rmap NVElem (first_impl nx fuel s)
  | NTryFirst => rmap NVOpt (try_first_impl nx fuel s)
  | NLast => rmap NVElem (last_impl nx fuel s)
  | NTryLast => rmap NVOpt (try_last_impl nx fuel s)
  | NMapOr d => rmap NVZList (map_impl nx fuel (fun x => Val (elem_or d x)) s)
  | NFilter p => rmap NVList (filter_impl nx fuel (eval_npred p) s)
  | NReject p => rmap NVList (reject_impl nx fuel (eval_npred p) s)
  | NCount p => rmap NVInt (count_impl nx fuel (eval_npred p) s)
  | NAny p => rmap NVBool (any_impl nx fuel (eval_npred p) s)
  | NEvery p => rmap NVBool (every_impl nx fuel (eval_npred p) s)
  | NFind p => rmap NVElem (find_impl nx fuel (eval_npred p) s)
  | NTryFind p => rmap NVOpt (try_find_impl nx fuel (eval_npred p) s)
  | NIndexOf x => rmap NVInt (index_of_impl nx elem_eqb fuel x s)
  | NFindIndex p => rmap NVInt (find_index_impl nx fuel (eval_npred p) s)
  | NDrop n => rmap NVList (drop_impl nx fuel n s)
  | NDropWhile p => rmap NVList (drop_while_impl nx fuel (eval_npred p) s)
  | NTake n => rmap NVList (take_impl nx fuel n s)
  | NTakeWhile p => rmap NVList (take_while_impl nx fuel (eval_npred p) s)
  | NFold i c d => rmap NVInt (fold_impl nx fuel i (fun a x => Val (a * c + elem_or d x)) s)
  | NToList => rmap NVList (to_list_impl nx fuel s)
  | NToTuple => rmap NVTuple (to_list_impl nx fuel s)
  | NLength => rmap NVInt (length_impl nx fuel s)
  end.

Definition run_nlist (l : list elem) (o : nopreq) : res nval :=
  match o with
  | NContains x => rmap NVBool (contains_list elem_eqb x l)
  | NIsEmpty => rmap NVBool (is_empty_list l)
  | NFirst => rmap NVElem (first_list l)
  | NTryFirst => rmap NVOpt (try_first_list l)
  | NLast => rmap NVElem (last_list l)
  | NTryLast => rmap NVOpt (try_last_list l)
  | NMapOr d => rmap NVZList (map_list (fun x => Val (elem_or d x)) l)
  | NFilter p => rmap NVList (filter_list (eval_npred p) l)
  | NReject p => rmap NVList (reject_list (eval_npred p) l)
  | NCount p => rmap NVInt (count_list (eval_npred p) l)
  | NAny p => rmap NVBool (any_list (eval_npred p) l)
  | NEvery p => rmap NVBool (every_list (eval_npred p) l)
  | NFind p => rmap NVElem (find_list (eval_npred p) l)
  | NTryFind p => rmap NVOpt (try_find_list (eval_npred p) l)
  | NIndexOf x => rmap NVInt (index_of_list elem_eqb x l)
  | NFindIndex p => rmap NVInt (find_index_list (eval_npred p) l)
  | NDrop n => rmap NVList (drop_list n l)
  | NDropWhile p => rmap NVList (drop_while_list (eval_npred p) l)
  | NTake n => rmap NVList (take_list n l)
  | NTakeWhile p => rmap NVList (take_while_list (eval_npred p) l)
  | NFold i c d => rmap NVInt (fold_list (fun a x => Val (a * c + elem_or d x)) i l)
  | NToList => rmap NVList (to_list_list l)
  | NToTuple => rmap NVTuple (to_list_list l)
  | NLength => rmap NVInt (length_list l)
  end.

(* entry points used by the extracted driver *)
Definition run_nlistiter (fuel : nat) (l : list elem) (o : nopreq) : res nval :=
  run_nimpl fuel list_next l o.
Definition run_nfailiter (fuel : nat) (l : list elem) (o : nopreq) : res nval :=
  run_nimpl fuel (fail_next E_BOOM) l o.
