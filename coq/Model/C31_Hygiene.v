(* C31 — macro expansion is hygienic except where explicitly unhygienic.
   Executable model only (no proofs here).

   Mirrors /repo/types/checker/local.go:
     localEnvironment{parent, locals, typ}         -> frame / env (head = current, tail = parents)
     addLocal / getLocal                           -> add / get
     localEnvironment.resolveLocal(name, unhyg)    -> resolve
     pushNestedLocalEnv / pushMacroBoundaryLocalEnv / pushConditionalLocalEnv / popLocalEnv -> push / pop
   and /repo/types/checker/checker.go:
     checkMacroBoundaryNode (push boundary frame, check body, pop)       -> SBoundary
     checkExpressionUnhygienicNode (set the flag, check, restore)        -> EUnhyg / SUnhyg
     checkShortVariableDeclaration (`x := e`: assignment when x is in the CURRENT frame, else a new
       local of the current frame; the initialiser is checked before the local is added)  -> EBind
     checkLocalVariableAssignment (`x = e`: resolveLocal)                -> ESet
     (both are EXPRESSIONS and may stand in operands, call arguments and conditions; as statements
      they are SLet / SAssign = SExpr (EBind ..) / SExpr (ESet ..))
     checkIfExpressionNode (default frame for the condition, one conditional frame per branch) -> SIf
   The bytecode compiler keeps one scope per frame and resolves names the same way
   (compiler/bytecode_compiler.go resolveLocal / defineLocal), so the same frames give the run-time
   meaning: `run Dynamic` is the reference interpreter, `run Static` visits both branches of every
   `if` and is the checker's verdict (Some = accepted, None = "undefined local"). *)
From Coq Require Import ZArith NArith List Bool.
Import ListNotations.
Open Scope Z_scope.

Definition name := N.

Inductive ftype := FDefault | FBoundary | FCond.

Record frame := mkFrame { ftyp : ftype; fvars : list (name * Z) }.

(* head = current local environment, tail = chain of parents *)
Definition env := list frame.

Fixpoint lookup (l : list (name * Z)) (x : name) : option Z :=
  match l with
  | [] => None
  | (y, v) :: l' => if N.eqb x y then Some v else lookup l' x
  end.

(* l.locals[name] = local : replace an existing entry or add a new one *)
Fixpoint set (l : list (name * Z)) (x : name) (v : Z) : list (name * Z) :=
  match l with
  | [] => [(x, v)]
  | (y, w) :: l' => if N.eqb x y then (y, v) :: l' else (y, w) :: set l' x v
  end.

(* store into an existing local only *)
Fixpoint replace (l : list (name * Z)) (x : name) (v : Z) : list (name * Z) :=
  match l with
  | [] => []
  | (y, w) :: l' => if N.eqb x y then (y, v) :: l' else (y, w) :: replace l' x v
  end.

Definition get (f : frame) (x : name) : option Z := lookup (fvars f) x.
Definition add (f : frame) (x : name) (v : Z) : frame := mkFrame (ftyp f) (set (fvars f) x v).

Definition shift (r : option (nat * Z)) : option (nat * Z) :=
  match r with Some (d, v) => Some (S d, v) | None => None end.

(* resolveLocal: the frame (as its distance from the current one) and the value found *)
Fixpoint resolve (r : env) (x : name) (unhyg : bool) : option (nat * Z) :=
  match r with
  | [] => None
  | f :: r' =>
    match get f x with
    | Some v => Some (O, v)
    | None =>
      match ftyp f with
      | FBoundary => if unhyg then shift (resolve r' x unhyg) else None
      | _ => shift (resolve r' x unhyg)
      end
    end
  end.

Fixpoint update (r : env) (d : nat) (x : name) (v : Z) : env :=
  match r, d with
  | [], _ => []
  | f :: r', O => mkFrame (ftyp f) (replace (fvars f) x v) :: r'
  | f :: r', S d' => f :: update r' d' x v
  end.

Definition push (t : ftype) (r : env) : env := mkFrame t [] :: r.
Definition pop (r : env) : env := tl r.

Inductive expr :=
| ELit (z : Z)
| EVar (x : name)
| EAdd (a b : expr)
| EUnhyg (e : expr)
| EBind (x : name) (e : expr)        (* (x := e): declares/assigns x in the CURRENT frame, value = e *)
| ESet (x : name) (e : expr).        (* (x = e): assigns the resolved local, value = e *)

Inductive stmt :=
| SSkip
| SSeq (a b : stmt)
| SExpr (e : expr)                   (* expression statement, value dropped *)
| SPrint (e : expr)                  (* println(e): e is a call argument *)
| SBlock (s : stmt)                  (* do ... end *)
| SIf (c : expr) (t e : stmt)        (* if c > 0 ... else ... end *)
| SBoundary (s : stmt)               (* the expansion of a macro call *)
| SUnhyg (s : stmt).                 (* Macro.unhygienic(quote s) spliced as a statement *)

(* the two statement forms of the first version of this model are expression statements *)
Definition SLet (x : name) (e : expr) : stmt := SExpr (EBind x e).      (* x := e *)
Definition SAssign (x : name) (e : expr) : stmt := SExpr (ESet x e).    (* x = e  *)

(* Expressions bind: `(x := e) + x`, `println((x := e) + x)`, `if (x := e) > 0`.  Operands are
   evaluated left to right and every binder acts on the frame that is current where the expression
   stands (checkShortVariableDeclaration / defineLocal do not depend on the nesting depth inside an
   expression), so evaluation threads the environment. *)
Definition eres := option (env * Z).

Fixpoint eval (r : env) (u : bool) (e : expr) : eres :=
  match e with
  | ELit z => Some (r, z)
  | EVar x => match resolve r x u with Some (_, v) => Some (r, v) | None => None end
  | EAdd a b =>
    match eval r u a with
    | Some (r1, x) =>
      match eval r1 u b with
      | Some (r2, y) => Some (r2, x + y)
      | None => None
      end
    | None => None
    end
  | EUnhyg e' => eval r true e'
  | EBind x e' =>
    match eval r u e' with
    | Some (f :: r', v) => Some (add f x v :: r', v)
    | _ => None
    end
  | ESet x e' =>
    match eval r u e' with
    | Some (r1, v) =>
      match resolve r1 x u with
      | Some (d, _) => Some (update r1 d x v, v)
      | None => None
      end
    | None => None
    end
  end.

Inductive mode := Static | Dynamic.

Definition result := option (env * list Z).

Definition bind (a : result) (k : env -> result) : result :=
  match a with
  | None => None
  | Some (r, o) => match k r with None => None | Some (r', o') => Some (r', o ++ o') end
  end.

Definition scoped (t : ftype) (r : env) (k : env -> result) : result :=
  match k (push t r) with
  | None => None
  | Some (r', o) => Some (pop r', o)
  end.

Fixpoint run (m : mode) (r : env) (u : bool) (s : stmt) : result :=
  match s with
  | SSkip => Some (r, [])
  | SSeq a b => bind (run m r u a) (fun r' => run m r' u b)
  | SExpr e =>
    match eval r u e with
    | Some (r', _) => Some (r', [])
    | None => None
    end
  | SPrint e =>
    match eval r u e with
    | Some (r', v) => Some (r', [v])
    | None => None
    end
  | SBlock b => scoped FDefault r (fun r' => run m r' u b)
  | SIf c t e =>
    scoped FDefault r (fun r0 =>
      match eval r0 u c with
      | None => None
      | Some (r1, v) =>
        match m with
        | Dynamic =>
          if Z.ltb 0 v then scoped FCond r1 (fun r2 => run m r2 u t)
          else scoped FCond r1 (fun r2 => run m r2 u e)
        | Static =>
          bind (scoped FCond r1 (fun r2 => run m r2 u t))
               (fun r1' => scoped FCond r1' (fun r2 => run m r2 u e))
        end
      end)
  | SBoundary b => scoped FBoundary r (fun r' => run m r' u b)
  | SUnhyg b => run m r true b
  end.

(* the checker's verdict: every name of every branch resolves *)
Definition accepts (r : env) (s : stmt) : bool :=
  match run Static r false s with Some _ => true | None => false end.

(* ---- renaming of a macro body: expansion written by hand ----
   sc = names declared so far in the frames opened since (and including) the boundary frame,
   head = current frame.  A hygienic occurrence always becomes sg x; an unhygienic occurrence is
   renamed exactly when it refers to a local of the expansion. *)
Definition scope := list (list name).

Definition in_names (l : list name) (x : name) : bool := existsb (N.eqb x) l.
Definition bound (sc : scope) (x : name) : bool := existsb (fun l => in_names l x) sc.

Definition declare (sc : scope) (x : name) : scope :=
  match sc with
  | [] => []
  | l :: sc' => (if in_names l x then l else l ++ [x]) :: sc'
  end.

Definition ren_name (sg : name -> name) (sc : scope) (u : bool) (x : name) : name :=
  if u then (if bound sc x then sg x else x) else sg x.

(* sc is threaded through expressions: a binder inside an operand declares for what follows *)
Fixpoint rename_expr (sg : name -> name) (sc : scope) (u : bool) (e : expr) : expr * scope :=
  match e with
  | ELit z => (ELit z, sc)
  | EVar x => (EVar (ren_name sg sc u x), sc)
  | EAdd a b =>
    let (a', sc1) := rename_expr sg sc u a in
    let (b', sc2) := rename_expr sg sc1 u b in
    (EAdd a' b', sc2)
  | EUnhyg e' => let (e'', sc') := rename_expr sg sc true e' in (EUnhyg e'', sc')
  | EBind x e' => let (e'', sc') := rename_expr sg sc u e' in (EBind (sg x) e'', declare sc' x)
  | ESet x e' => let (e'', sc') := rename_expr sg sc u e' in (ESet (ren_name sg sc' u x) e'', sc')
  end.

Fixpoint rename (sg : name -> name) (sc : scope) (u : bool) (s : stmt) : stmt * scope :=
  match s with
  | SSkip => (SSkip, sc)
  | SSeq a b =>
    let (a', sc1) := rename sg sc u a in
    let (b', sc2) := rename sg sc1 u b in
    (SSeq a' b', sc2)
  | SExpr e => let (e', sc') := rename_expr sg sc u e in (SExpr e', sc')
  | SPrint e => let (e', sc') := rename_expr sg sc u e in (SPrint e', sc')
  | SBlock b => (SBlock (fst (rename sg ([] :: sc) u b)), sc)
  | SIf c t e =>
    let (c', sc1) := rename_expr sg ([] :: sc) u c in
    (SIf c' (fst (rename sg ([] :: sc1) u t)) (fst (rename sg ([] :: sc1) u e)), sc)
  | SBoundary b => (SBoundary (fst (rename sg ([] :: sc) u b)), sc)
  | SUnhyg b => let (b', sc') := rename sg sc true b in (SUnhyg b', sc')
  end.

(* the expansion written by hand: a plain block around the renamed body *)
Definition expand_by_hand (sg : name -> name) (u : bool) (b : stmt) : stmt :=
  SBlock (fst (rename sg [[]] u b)).

(* every macro boundary of a program expanded by hand, innermost first.  n is a bound above every
   name used so far: the boundary whose (already expanded) body uses names < n1 is renamed by
   sg x = x + n1, after which every name is < n1 + n1 *)
Fixpoint expand_all (n : N) (u : bool) (s : stmt) : stmt * N :=
  match s with
  | SSkip | SExpr _ | SPrint _ => (s, n)
  | SSeq a b =>
    let (a', n1) := expand_all n u a in
    let (b', n2) := expand_all n1 u b in
    (SSeq a' b', n2)
  | SBlock b => let (b', n1) := expand_all n u b in (SBlock b', n1)
  | SIf c t e =>
    let (t', n1) := expand_all n u t in
    let (e', n2) := expand_all n1 u e in
    (SIf c t' e', n2)
  | SBoundary b =>
    let (b', n1) := expand_all n u b in
    (expand_by_hand (fun x => (x + n1)%N) u b', (n1 + n1)%N)
  | SUnhyg b => let (b', n1) := expand_all n true b in (SUnhyg b', n1)
  end.

(* syntactic helpers used in the statements of the theorems *)
Fixpoint expr_below (K : N) (e : expr) : bool :=
  match e with
  | ELit _ => true
  | EVar x => N.ltb x K
  | EAdd a b => expr_below K a && expr_below K b
  | EUnhyg e' => expr_below K e'
  | EBind x e' | ESet x e' => N.ltb x K && expr_below K e'
  end.

Fixpoint stmt_below (K : N) (s : stmt) : bool :=
  match s with
  | SSkip => true
  | SSeq a b => stmt_below K a && stmt_below K b
  | SExpr e | SPrint e => expr_below K e
  | SBlock b | SBoundary b | SUnhyg b => stmt_below K b
  | SIf c t e => expr_below K c && stmt_below K t && stmt_below K e
  end.

Definition frame_below (K : N) (f : frame) : bool := forallb (fun p => N.ltb (fst p) K) (fvars f).
Definition env_below (K : N) (r : env) : bool := forallb (frame_below K) r.

Fixpoint expr_hyg (e : expr) : bool :=
  match e with
  | ELit _ | EVar _ => true
  | EAdd a b => expr_hyg a && expr_hyg b
  | EBind _ e' | ESet _ e' => expr_hyg e'
  | EUnhyg _ => false
  end.

(* no unhygienic splice anywhere *)
Fixpoint stmt_hyg (s : stmt) : bool :=
  match s with
  | SSkip => true
  | SSeq a b => stmt_hyg a && stmt_hyg b
  | SExpr e | SPrint e => expr_hyg e
  | SBlock b | SBoundary b => stmt_hyg b
  | SIf c t e => expr_hyg c && stmt_hyg t && stmt_hyg e
  | SUnhyg _ => false
  end.

Definition frame_names (f : frame) : list name := map fst (fvars f).
Definition shape (r : env) : list (ftype * list name) := map (fun f => (ftyp f, frame_names f)) r.
