(* Model/C29_Decode.v — executable decoder from raw bytes + tables to the abstract function of
   Base/Cfg.v.  Mirrors how the run loop of vm.Thread consumes operands (big-endian, fixed widths per
   opcode; CLOSURE / CLOSED_CLOSURE read upvalue descriptors up to the 0xff terminator).
   Definitions only; proofs are in Proofs/Cfg_Decode.v. *)
From Coq Require Import NArith ZArith List Bool.
From Elk Require Import Base.Cfg.
Import ListNotations.
Open Scope N_scope.

Definition lookup (tbl : list opinfo) (op : N) : option opinfo :=
  match nth_error tbl (N.to_nat op) with
  | Some oi => if op_code oi =? op then Some oi else None
  | None => None
  end.

Definition be (bs : list N) : N := fold_left (fun a b => a * 256 + b) bs 0.

Fixpoint read_ops (ops : list (role * N)) (bs : list N) : option (list (role * N) * list N) :=
  match ops with
  | [] => Some ([], bs)
  | (r, w) :: ops' =>
    let k := N.to_nat w in
    if (length bs <? k)%nat then None
    else match read_ops ops' (skipn k bs) with
         | Some (l, rest) => Some ((r, be (firstn k bs)) :: l, rest)
         | None => None
         end
  end.

Definition widths (ops : list (role * N)) : N := fold_right (fun rw a => snd rw + a) 0 ops.

(* upvalue descriptors: flags byte (bit0 = 16-bit index, bit1 = local), index; 0xff ends.
   Returns the index operands, the number of bytes consumed, the remaining bytes. *)
Fixpoint read_closure (bs : list N) : option (list (role * N) * N * list N) :=
  match bs with
  | [] => None
  | fl :: r =>
    if fl =? 255 then Some ([], 1, r)
    else
      let rl := if N.testbit fl 1 then RLocal else RUpv in
      match r with
      | [] => None
      | a :: r1 =>
        if N.testbit fl 0 then
          match r1 with
          | [] => None
          | b :: r2 =>
            match read_closure r2 with
            | Some (l, n, rest) => Some ((rl, a * 256 + b) :: l, n + 3, rest)
            | None => None
            end
          end
        else
          match read_closure r1 with
          | Some (l, n, rest) => Some ((rl, a) :: l, n + 2, rest)
          | None => None
          end
      end
  end.

Definition is_index_role (r : role) : bool :=
  match r with RVal | RSym | RCall | RCallBC | RCallNT | RLocal | RUpv | RPrep => true | _ => false end.

Definition first_role (r : role) (l : list (role * N)) : N :=
  match find (fun rv => match fst rv, r with RJumpF, RJumpF => true | RJumpB, RJumpB => true | _, _ => false end) l with
  | Some rv => snd rv | None => 0 end.

Definition decode_one (tbl : list opinfo) (off op : N) (rest : list N) : option (instr * list N) :=
  match lookup tbl op with
  | None => None
  | Some oi =>
    let imp := match op_implicit oi with Some rv => [rv] | None => [] end in
    match op_kind oi with
    | OUnknown => None
    | OClosure =>
      match read_closure rest with
      | Some (idx, n, rest') => Some (mkinstr off (1 + n) op KFall idx (op_check oi), rest')
      | None => None
      end
    | k =>
      match read_ops (op_operands oi) rest with
      | None => None
      | Some (vals, rest') =>
        let size := 1 + widths (op_operands oi) in
        let nx := off + size in
        let jf := nx + first_role RJumpF vals in
        let jb := first_role RJumpB vals in
        let idx := filter (fun rv => is_index_role (fst rv)) vals ++ imp in
        let mk kd := Some (mkinstr off size op kd idx (op_check oi), rest') in
        match k with
        | OFall => mk KFall
        | OJump => mk (KJump jf)
        | OBranch => mk (KBranch jf)
        | OLoop => if jb <=? nx then mk (KLoop (nx - jb)) else None
        | OReturn => mk KReturn
        | OThrow => mk KThrow
        | ORetFinally => mk KRetFinally
        | ODyn => mk (KDyn [])
        | OSkip1 => mk (KSkip (nx + 1))
        | OSpawn => mk (KSpawn (nx + 1))
        | OYield => mk KYield
        | OStop => mk KStop
        | OClosure | OUnknown => None
        end
      end
    end
  end.

Inductive dres := DOk (l : list instr) | DBad (off : N) | DFuel.

Fixpoint decode_from (tbl : list opinfo) (fuel : nat) (off : N) (bs : list N) : dres :=
  match bs with
  | [] => DOk []
  | op :: rest =>
    match fuel with
    | O => DFuel
    | S fuel' =>
      match decode_one tbl off op rest with
      | None => DBad off
      | Some (i, rest') =>
        match decode_from tbl fuel' (off + i_size i) rest' with
        | DOk l => DOk (i :: l)
        | e => e
        end
      end
    end
  end.

Definition decode (tbl : list opinfo) (bs : list N) : dres := decode_from tbl (length bs) 0 bs.

(* JUMP_TO_FINALLY takes its target from the stack.  The compiler only ever pushes it with
   LOAD_VALUE k ; <push count> ; JUMP_TO_FINALLY, where Values[k] is a patched SmallInt offset
   (compileBreakExpressionNode / compileContinueExpressionNode / patchLoopJumps).  Every such
   constant of the function is a possible target of every JUMP_TO_FINALLY (the finally blocks
   re-dispatch with whatever is on the stack).  A non-integer constant yields [bad]. *)
Fixpoint dyn_targets (vals : list vkind) (bad : N) (l : list instr) : list N :=
  match l with
  | [] => []
  | a :: tl =>
    (match tl with
     | _ :: c :: _ =>
       match i_kind c, i_idx a with
       | KDyn _, [(RVal, k)] =>
         [match nth_error vals (N.to_nat k) with
          | Some (VInt n) => if (0 <=? n)%Z then Z.to_N n else bad
          | _ => bad end]
       | _, _ => []
       end
     | _ => []
     end) ++ dyn_targets vals bad tl
  end.

Definition set_dyn (ts : list N) (i : instr) : instr :=
  match i_kind i with
  | KDyn _ => mkinstr (i_off i) (i_size i) (i_op i) (KDyn ts) (i_idx i) (i_check i)
  | _ => i
  end.

Definition prep_count (l : list instr) : N :=
  match l with
  | i :: _ => fold_right (fun rv a => match fst rv with RPrep => snd rv + a | _ => a end) 0 (i_idx i)
  | [] => 0
  end.

Record raw := mkraw {
  r_code : list N; r_vals : list vkind; r_catches : list catch; r_params : N; r_upvals : N
}.

Definition build (tbl : list opinfo) (r : raw) : option func :=
  match decode tbl (r_code r) with
  | DOk l =>
    let len := N.of_nat (length (r_code r)) in
    let ts := dyn_targets (r_vals r) len l in
    Some (mkfunc (map (set_dyn ts) l) len (r_catches r) (r_vals r)
                 (1 + r_params r + prep_count l) (r_upvals r))
  | _ => None
  end.

(* table self-consistency, evaluated at run time by the driver (not a theorem: a disagreement
   between the VM-derived hand table and the real disassembler is a finding, not a broken proof) *)
Definition op_size (oi : opinfo) : option N :=
  match op_kind oi with
  | OClosure => None
  | OUnknown => None
  | _ => Some (1 + widths (op_operands oi))
  end.

Definition op_agrees (oi : opinfo) : bool :=
  match op_size oi with
  | Some s => (op_dis_size oi =? s) && (op_dis_size_ff oi =? s)
  | None => match op_kind oi with OClosure => (op_dis_size oi =? 7) && (op_dis_size_ff oi =? 2) | _ => false end
  end.

Definition table_total (tbl : list opinfo) (n : N) : bool :=
  (N.of_nat (length tbl) =? n) &&
  forallb (fun op => match lookup tbl op with
                     | Some oi => match op_kind oi with OUnknown => false | _ => true end
                     | None => false end)
          (map N.of_nat (seq 0 (N.to_nat n))).
