(* C25 — controlled multi-thread scenarios on the lock wrappers: executable model ONLY.

   Model/C25_Sync.v gives the lock wrappers as micro-step machines ([mstep], [rstep]) in which a
   blocked call is a disabled step.  Here BLOCKED CALLS ARE STATE: a script is a list of
   (thread, call); a thread whose call cannot proceed stays recorded as blocked (it holds
   nothing, and the wrapper's mirrored flag/counter is untouched: ReadLock/Lock update it only
   AFTER the native acquire returned), later releases wake blocked calls, and every lock-state
   change is made by running the micro-steps of C25_Sync ([rstep'] / [mstep'], logged in a ghost
   schedule), so every state of this machine is a state of the proved machines.

   What is added on top of C25_Sync's sync.RWMutex base is Go's wake-up discipline (trusted,
   read off sync/rwmutex.go): a Lock that finds readers announces itself and is PENDING ([s_pw]);
   while a writer holds or is pending new RLocks and Locks block; Unlock hands the lock to ALL
   blocked readers and then lets ONE blocked writer (any: the list of alternatives) announce
   itself; the RUnlock that removes the last reader hands the lock to the pending writer;
   sync.Mutex.Unlock wakes ONE blocked Lock (any).

   [early = true] is the refuted variant "ReadLock bumps the mirrored counter BEFORE the native
   RLock": the registration step happens at call time even when the call then blocks. *)
From Elk Require Import Base.GoSem Model.C25_Sync.

(* ---------------------------------------------------------------- the refuted ReadLock variant *)

Definition rstep_early (s : rstate) (t : nat) (a : ract) : option rstate :=
  match a with
  | RRLock =>       (* readers.Add(1) first: never blocks *)
      Some (mkR (r_w s) (r_r s) (r_wflag s) (S (r_rcount s)) (r_wacq s) (r_wrel s) (S (r_racq s)) (r_rrel s) (rtrace s))
  | RRLockDone =>   (* then Native.RLock(): blocks while a writer holds *)
      match r_racq s with
      | S k => if go_rw_rlock (r_w s)
               then Some (mkR (r_w s) (S (r_r s)) (r_wflag s) (r_rcount s) (r_wacq s) (r_wrel s) k (r_rrel s) (RRLocked t :: rtrace s))
               else None
      | O => None
      end
  | _ => rstep true s t a
  end.

Definition rstep_v (early : bool) (s : rstate) (t : nat) (a : ract) : option rstate :=
  if early then rstep_early s t a else rstep true s t a.
Definition rstep_v' (early : bool) (s : rstate) (ta : nat * ract) : rstate :=
  match rstep_v early s (fst ta) (snd ta) with Some s' => s' | None => s end.
Definition rrun_v (early : bool) (sched : list (nat * ract)) (s : rstate) : rstate := fold_left (rstep_v' early) sched s.

(* ---------------------------------------------------------------- RWMutex / ROMutex scripts *)

Inductive sop := SLock | SUnlock | SRLock | SRUnlock.

(* what the caller sees at once *)
Inductive simm := IOk | IErr (c : Z) | IBlocked | IBusy.

(* outcome of one script step: the call's own outcome + the threads whose blocked call returned because of it *)
Record sres := mkRes { sr_imm : simm; sr_woken : list nat }.

Record sstate := mkS {
  s_lock : rstate;               (* native lock + mirrored flag/counter (C25_Sync) *)
  s_blk : list (nat * bool);     (* blocked calls in arrival order: (thread, true = Lock | false = ReadLock) *)
  s_pw : option nat;             (* the thread whose Lock is pending: announced, waits for the readers to leave *)
  s_log : list (nat * ract)      (* ghost: micro-steps taken so far, newest first *)
}.

Definition sinit : sstate := mkS rinit [] None [].

Definition stp (early : bool) (s : sstate) (t : nat) (a : ract) : sstate :=
  mkS (rstep_v' early (s_lock s) (t, a)) (s_blk s) (s_pw s) ((t, a) :: s_log s).
Definition set_blk (s : sstate) (b : list (nat * bool)) : sstate := mkS (s_lock s) b (s_pw s) (s_log s).
Definition set_pw (s : sstate) (p : option nat) : sstate := mkS (s_lock s) (s_blk s) p (s_log s).

Definition sbusy (s : sstate) (t : nat) : bool :=
  existsb (fun x : nat * bool => Nat.eqb (fst x) t) (s_blk s) || match s_pw s with Some x => Nat.eqb x t | None => false end.

Definition is_some {A} (o : option A) : bool := match o with Some _ => true | None => false end.

(* ReadLock: what is done at call time even if the call then blocks / what is done when the native lock is granted *)
Definition racq_pre (early : bool) (s : sstate) (t : nat) : sstate := if early then stp early s t RRLock else s.
Definition racq_post (early : bool) (s : sstate) (t : nat) : sstate :=
  if early then stp early s t RRLockDone else stp early (stp early s t RRLock) t RRLockDone.
Definition wacq (early : bool) (s : sstate) (t : nat) : sstate := stp early (stp early s t RLock) t RLockDone.

(* Unlock, part 1: every blocked reader is granted the lock *)
Definition wake_readers (early : bool) (s : sstate) : sstate * list nat :=
  let rs := map fst (filter (fun x : nat * bool => negb (snd x)) (s_blk s)) in
  (set_blk (fold_left (racq_post early) rs s) (filter (fun x : nat * bool => snd x) (s_blk s)), rs).

(* Unlock, part 2: one blocked writer (any) gets past the writers' mutex and announces itself *)
Definition next_writer (early : bool) (s : sstate) : list (sstate * list nat) :=
  match s_blk s with
  | [] => [(s, [])]
  | _ => map (fun x : nat * bool =>
                let s' := set_blk s (filter (fun y : nat * bool => negb (Nat.eqb (fst y) (fst x))) (s_blk s)) in
                if Nat.eqb (r_r (s_lock s')) 0 then (wacq early s' (fst x), [fst x])
                else (set_pw s' (Some (fst x)), []))
             (s_blk s)
  end.

Definition scall (early : bool) (s : sstate) (t : nat) (o : sop) : list (sstate * sres) :=
  if sbusy s t then [(s, mkRes IBusy [])] else
  match o with
  | SRLock =>
      let s0 := racq_pre early s t in
      if r_w (s_lock s0) || is_some (s_pw s0)
      then [(set_blk s0 (s_blk s0 ++ [(t, false)]), mkRes IBlocked [])]
      else [(racq_post early s0 t, mkRes IOk [])]
  | SLock =>
      if r_w (s_lock s) || is_some (s_pw s)
      then [(set_blk s (s_blk s ++ [(t, true)]), mkRes IBlocked [])]
      else if Nat.eqb (r_r (s_lock s)) 0 then [(wacq early s t, mkRes IOk [])]
      else [(set_pw s (Some t), mkRes IBlocked [])]
  | SUnlock =>
      if r_wflag (s_lock s) then
        let s1 := stp early (stp early s t RUnlock) t RUnlockDone in
        let sr := wake_readers early s1 in
        map (fun p => (fst p, mkRes IOk (snd sr ++ snd p))) (next_writer early (fst sr))
      else [(stp early s t RUnlock, mkRes (IErr E_RW_UNLOCKED_W) [])]
  | SRUnlock =>
      match r_rcount (s_lock s) with
      | O => [(stp early s t RRUnlock, mkRes (IErr E_RW_UNLOCKED_R) [])]
      | S _ =>
          let s1 := stp early (stp early s t RRUnlock) t RRUnlockDone in
          match s_pw s1 with
          | Some x => if Nat.eqb (r_r (s_lock s1)) 0 then [(wacq early (set_pw s1 None) x, mkRes IOk [x])]
                      else [(s1, mkRes IOk [])]
          | None => [(s1, mkRes IOk [])]
          end
      end
  end.

(* every run of a script: one element per resolution of the "which writer" choices *)
Fixpoint srun (early : bool) (script : list (nat * sop)) (s : sstate) : list (list sres * sstate) :=
  match script with
  | [] => [([], s)]
  | (t, o) :: rest =>
      flat_map (fun p => map (fun q => (snd p :: fst q, snd q)) (srun early rest (fst p))) (scall early s t o)
  end.

(* the threads still blocked at the end *)
Definition sblocked (s : sstate) : list nat :=
  map fst (s_blk s) ++ match s_pw s with Some x => [x] | None => [] end.

(* no call is between its two halves *)
Definition rquiet (l : rstate) : Prop :=
  r_wacq l = 0%nat /\ r_wrel l = 0%nat /\ r_racq l = 0%nat /\ r_rrel l = 0%nat.

(* ---------------------------------------------------------------- Mutex scripts *)

Record xstate := mkX {
  x_lock : mstate;
  x_blk : list nat;               (* threads blocked in Lock, arrival order *)
  x_log : list (nat * mact)
}.
Definition xinit : xstate := mkX minit [] [].

Definition xtp (s : xstate) (t : nat) (a : mact) : xstate :=
  mkX (mstep' true (x_lock s) (t, a)) (x_blk s) ((t, a) :: x_log s).
Definition xacq (s : xstate) (t : nat) : xstate := xtp (xtp s t MLock) t MLockDone.

Definition xcall (s : xstate) (t : nat) (o : mop) : list (xstate * sres) :=
  if existsb (Nat.eqb t) (x_blk s) then [(s, mkRes IBusy [])] else
  match o with
  | MOLock =>
      if m_native (x_lock s) then [(mkX (x_lock s) (x_blk s ++ [t]) (x_log s), mkRes IBlocked [])]
      else [(xacq s t, mkRes IOk [])]
  | MOUnlock =>
      if m_flag (x_lock s) then
        let s1 := xtp (xtp s t MUnlock) t MUnlockDone in
        match x_blk s1 with
        | [] => [(s1, mkRes IOk [])]
        | _ => map (fun x => (xacq (mkX (x_lock s1) (filter (fun y => negb (Nat.eqb y x)) (x_blk s1)) (x_log s1)) x,
                              mkRes IOk [x])) (x_blk s1)
        end
      else [(xtp s t MUnlock, mkRes (IErr E_UNLOCKED) [])]
  end.

Fixpoint xrun (script : list (nat * mop)) (s : xstate) : list (list sres * xstate) :=
  match script with
  | [] => [([], s)]
  | (t, o) :: rest =>
      flat_map (fun p => map (fun q => (snd p :: fst q, snd q)) (xrun rest (fst p))) (xcall s t o)
  end.

Definition mquiet (l : mstate) : Prop := m_acq l = 0%nat /\ m_rel l = 0%nat.

