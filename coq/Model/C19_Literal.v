(* C19 — integer LITERALS and String#to_int "denote exactly the written value".
   Executable model only (no proofs).  Extends Model/C19_Inspect.v (number_literal,
   parse_ubigint, parse_bigint, the "as written" digits) with

     number_token       Lexer.numberLiteral for an integer token that spans the whole input,
                        with the sized suffixes i8 i16 i32 i64 u8 u16 u32 u64 u
                        (FLOAT / BIG_FLOAT tokens are not integer tokens: None)
     strict_parse_uint  value.StrictParseUintWithErr (machine-word loop with its two overflow
                        tests, uint64 wrap-around modelled with mod 2^64)
     strict_parse_int   value.StrictParseIntWithErr
     eval_token         compiler: INT -> ParseBigInt(lexeme, 0); INT8.. -> StrictParseInt(lexeme, 0, bits);
                        UINT8.. -> StrictParseUint(lexeme, 0, bits); UINT -> StrictParseUint(lexeme, 0, 64)
     eval_literal       optional unary `-`/`+` applied to the literal's value
     to_int             String#to_int(base) = ParseInt(s, base); None = FormatError *)
From Coq Require Import ZArith List Bool Lia.
From Elk Require Import Base.Utf8 Model.C19_Inspect.
Import ListNotations.
Open Scope Z_scope.

Inductive itok : Type := TInt | TI8 | TI16 | TI32 | TI64 | TU8 | TU16 | TU32 | TU64 | TUInt.

Fixpoint zlist_eqb (a b : list Z) : bool :=
  match a, b with
  | [], [] => true
  | x :: a', y :: b' => (x =? y) && zlist_eqb a' b'
  | _, _ => false
  end.

(* the part of numberLiteral after consumeDigits, for a token that must end the input:
   `i` 8|16|32|64, `u` [8|16|32|64]; anything else (fraction, exponent, f32/f64, bf, garbage)
   is not an integer token that spans the input *)
Definition int_suffix (rest : list Z) : option itok :=
  if zlist_eqb rest [] then Some TInt
  else if zlist_eqb rest [105; 56] then Some TI8
  else if zlist_eqb rest [105; 49; 54] then Some TI16
  else if zlist_eqb rest [105; 51; 50] then Some TI32
  else if zlist_eqb rest [105; 54; 52] then Some TI64
  else if zlist_eqb rest [117] then Some TUInt
  else if zlist_eqb rest [117; 56] then Some TU8
  else if zlist_eqb rest [117; 49; 54] then Some TU16
  else if zlist_eqb rest [117; 51; 50] then Some TU32
  else if zlist_eqb rest [117; 54; 52] then Some TU64
  else None.

(* numberLiteral up to and including consumeDigits: (lexeme, remaining input) *)
Definition lex_number (src : list Z) : option (list Z * list Z) :=
  match src with
  | [] => None
  | d0 :: t =>
    if negb (in_rng 48 57 d0) then None
    else
      let p := peek t in
      let '(pre, base, t1) :=
        if d0 =? 48 then
          if (p =? 120) || (p =? 88) then ([120], 16, tl t)
          else if (p =? 100) || (p =? 68) then ([100], 12, tl t)
          else if (p =? 111) || (p =? 79) then ([111], 8, tl t)
          else if (p =? 113) || (p =? 81) then ([113], 4, tl t)
          else if (p =? 98) || (p =? 66) then ([98], 2, tl t)
          else ([], 10, t)
        else ([], 10, t) in
      let '(ds, rest) := consume_digits (S (length t1)) base t1 in
      Some (d0 :: pre ++ ds, rest)
  end.

Definition number_token (src : list Z) : option (itok * list Z) :=
  match lex_number src with
  | Some (lexeme, rest) =>
    match int_suffix rest with
    | Some k => Some (k, lexeme)
    | None => None
    end
  | None => None
  end.

(* the prefix switch shared by parseUBigInt and StrictParseUintWithErr: Some (base, digits) *)
Definition int_prefix (s : list Z) (base : Z) : option (Z * list Z) :=
  match s with
  | [] => None
  | c0 :: t =>
    if in_rng 2 36 base then Some (base, s)
    else if base =? 0 then
      let long := (3 <=? length s)%nat in
      let l1 := to_lower (hd 0 t) in
      if (c0 =? 48) && long && (l1 =? 98) then Some (2, tl t)
      else if (c0 =? 48) && long && (l1 =? 113) then Some (4, tl t)
      else if (c0 =? 48) && long && (l1 =? 111) then Some (8, tl t)
      else if (c0 =? 48) && long && (l1 =? 100) then Some (12, tl t)
      else if (c0 =? 48) && long && (l1 =? 120) then Some (16, tl t)
      else Some (10, s)
    else None
  end.

Definition digit_val (c : Z) : option Z :=
  if in_rng 48 57 c then Some (c - 48)
  else if in_rng 97 122 (to_lower c) then Some (to_lower c - 97 + 10)
  else None.

Definition two64 : Z := 18446744073709551616.
Definition max_u64 : Z := 18446744073709551615.

(* the digit loop of StrictParseUintWithErr; maxv = 1<<bitSize - 1; None = any error *)
Fixpoint strict_digits (base maxv : Z) (s : list Z) (n : Z) : option Z :=
  match s with
  | [] => Some n
  | c :: t =>
    if c =? 95 then strict_digits base maxv t n
    else
      match digit_val c with
      | None => None
      | Some d =>
        if base <=? d then None
        else if max_u64 / base + 1 <=? n then None          (* n >= cutoff: n*base overflows *)
        else
          let n0 := (n * base) mod two64 in
          let n1 := (n0 + d) mod two64 in
          if (n1 <? n0) || (maxv <? n1) then None             (* n+d overflows *)
          else strict_digits base maxv t n1
      end
  end.

Definition strict_parse_uint (s : list Z) (base bits : Z) : option Z :=
  match int_prefix s base with
  | Some (b, ds) => strict_digits b (2 ^ bits - 1) ds 0
  | None => None
  end.

Definition strict_parse_int (s : list Z) (base bits : Z) : option Z :=
  match s with
  | [] => None
  | c :: t =>
    let neg := c =? 45 in
    let body := if (c =? 43) || (c =? 45) then t else s in
    match strict_parse_uint body base bits with
    | None => None
    | Some un =>
      let cutoff := 2 ^ (bits - 1) in
      if negb neg && (cutoff <=? un) then None
      else if neg && (cutoff <? un) then None
      else Some (if neg then - un else un)
    end
  end.

Definition tok_signed (k : itok) : bool :=
  match k with TInt | TI8 | TI16 | TI32 | TI64 => true | _ => false end.

Definition eval_token (k : itok) (lexeme : list Z) : option Z :=
  match k with
  | TInt => parse_bigint lexeme 0
  | TI8 => strict_parse_int lexeme 0 8
  | TI16 => strict_parse_int lexeme 0 16
  | TI32 => strict_parse_int lexeme 0 32
  | TI64 => strict_parse_int lexeme 0 64
  | TU8 => strict_parse_uint lexeme 0 8
  | TU16 => strict_parse_uint lexeme 0 16
  | TU32 => strict_parse_uint lexeme 0 32
  | TU64 => strict_parse_uint lexeme 0 64
  | TUInt => strict_parse_uint lexeme 0 64
  end.

(* a literal as an expression: `-` LIT is unary minus applied to the literal's value (so
   `-128i8` is an error: 128i8 is range-checked first); `+` LIT is the value; a sign in front of
   an unsigned literal is outside the model (None) *)
Definition eval_literal (src : list Z) : option (itok * Z) :=
  let sign := hd 0 src in
  let signed_src := (sign =? 45) || (sign =? 43) in
  let body := if signed_src then tl src else src in
  match number_token body with
  | Some (k, lexeme) =>
    match eval_token k lexeme with
    | Some v =>
      if signed_src && negb (tok_signed k) then None
      else Some (k, if sign =? 45 then - v else v)
    | None => None
    end
  | None => None
  end.

(* String#to_int(base): value.String.ToInt -> ParseInt -> ParseBigIntWithErr *)
Definition to_int (s : list Z) (base : Z) : option Z := parse_bigint s base.

(* ---------- vocabulary of the theorems (Props/C19.v): numerals "as written" ----------
   A numeral is a list of written digits `wdigit` = (separator `_` in front?, upper case?, value),
   see render_digits / digits_value in Model/C19_Inspect.v. *)
(* every digit is a digit of base b *)
Definition wd_ok (b : Z) (w : wdigit) : Prop := 0 <= snd w < b.
(* a character that is neither `_` nor a digit of base b *)
Definition bad_digit (b c : Z) : Prop :=
  c <> 95 /\ match digit_val c with Some d => b <= d | None => True end.
(* optional sign: None, Some false = `+`, Some true = `-` *)
Definition sign_str (sg : option bool) : list Z :=
  match sg with None => [] | Some false => [43] | Some true => [45] end.
Definition sign_apply (sg : option bool) (v : Z) : Z :=
  match sg with Some true => - v | _ => v end.
(* the bases that have a prefix (0b 0q 0o 0d 0x); with 10 (no prefix) the bases of the lexer *)
Definition prefixed_base (b : Z) : Prop := b = 2 \/ b = 4 \/ b = 8 \/ b = 12 \/ b = 16.
Definition lexer_base (b : Z) : Prop := b = 10 \/ prefixed_base b.
(* an unprefixed (decimal) literal cannot start with a separator: `_1` is an identifier *)
Definition first_plain (ws : list wdigit) : Prop :=
  match ws with w :: _ => fst (fst w) = false | [] => False end.
(* suffix and range of every integer token kind *)
Definition tok_suffix (k : itok) : list Z :=
  match k with
  | TInt => [] | TI8 => [105; 56] | TI16 => [105; 49; 54] | TI32 => [105; 51; 50] | TI64 => [105; 54; 52]
  | TUInt => [117] | TU8 => [117; 56] | TU16 => [117; 49; 54] | TU32 => [117; 51; 50] | TU64 => [117; 54; 52]
  end.
(* the literal (before any unary sign) must be below this bound; Int is unbounded *)
Definition tok_bound (k : itok) : option Z :=
  match k with
  | TInt => None | TI8 => Some (2 ^ 7) | TI16 => Some (2 ^ 15) | TI32 => Some (2 ^ 31) | TI64 => Some (2 ^ 63)
  | TU8 => Some (2 ^ 8) | TU16 => Some (2 ^ 16) | TU32 => Some (2 ^ 32) | TU64 => Some (2 ^ 64) | TUInt => Some (2 ^ 64)
  end.
Definition in_bound (k : itok) (v : Z) : bool :=
  match tok_bound k with Some m => v <? m | None => true end.
