(* C01 - protocol sequences on the stateful std objects a checker-accepted program can hold.
   Executable definitions only; proofs are in Proofs/C01_Proto.v.

   Objects (a heap of slots, each slot has a static kind):
     generator   a generator method applied to arguments.  The body language and the resumable machine are
                 those of Model/C15_Gen.v (imported read-only): [next] = C15_Gen.next.
                 `reset` = start over: vm/generator.go "reset" puts ip back to the entry point that the
                 compiler registered as catch entry 0 of the body; the generated bodies never assign their
                 parameters and initialise every local before use, so re-running from the entry point with
                 the kept stack slice is observably a fresh generator.
     iterator    of a finite collection (element codes, position) or of an endless range (lo, position);
                 `next` delivers the element at the position or signals stop, `reset` = position 0.
     channel     buffered (capacity, queue, closed flag) as one thread observes it: push to a full channel
                 and pop/next from an empty open channel would wait for another thread = [QBlock].
     promise     settled (resolved v / rejected t): await delivers v / rethrows t, any number of times.
     once        Std::Sync::Once with the closure `-> n = n + d`: only the first call runs its closure.

   Typed dispatch: every operation is compiled for the static kind of its receiver slot, and every
   delivered element is consumed by an Int-typed instruction (acc := acc + v).  An operation that meets a
   slot of another kind is [QCrash] (a Go panic in the VM: interface conversion / "expected SmallInt"). *)
From Coq Require Import ZArith List Bool.
From Elk Require Model.C15_Gen.
Import ListNotations.
Open Scope Z_scope.

Inductive obj :=
| OGen (f : C15_Gen.func) (args : list Z) (st : C15_Gen.gstate)
| OIter (l : list Z) (pos : nat)
| OFrom (lo : Z) (pos : nat)
| OChan (cap : nat) (q : list Z) (closed : bool)
| OProm (s : C15_Gen.settled)
| OOnce (done : bool) (n : Z).

Inductive kind := KGen | KIter | KChan | KProm | KOnce.

Definition kind_of (o : obj) : kind :=
  match o with
  | OGen _ _ _ => KGen
  | OIter _ _ | OFrom _ _ => KIter
  | OChan _ _ _ => KChan
  | OProm _ => KProm
  | OOnce _ _ => KOnce
  end.

Inductive op :=
| PNext (i : nat)                       (* acc := acc + obj.next  (do/catch :stop_iteration, the error type) *)
| PReset (i : nat)
| PForIn (i : nat) (lim : option nat)   (* for v in obj ... end, `break` after lim elements *)
| PPush (i : nat) (v : Z)
| PPop (i : nat)
| PClose (i : nat)
| PLen (i : nat)                        (* length * 100 + left_capacity * 10 + capacity *)
| PAwait (i : nat)
| PCall (i : nat) (d : Z).

Definition op_slot (p : op) : nat :=
  match p with
  | PNext i | PReset i | PForIn i _ | PPush i _ | PPop i | PClose i | PLen i | PAwait i | PCall i _ => i
  end.

(* what the program prints for an operation *)
Inductive pev := EVal (v : Z) | EStop | EErr (t : Z) | EClosed | EOk.

Inductive pstep := QOk (o : obj) (evs : list pev) (add : Z) | QCrash | QFuel | QBlock.

Definition fresh (o : obj) : obj :=
  match o with
  | OGen f args _ => OGen f args (C15_Gen.gen_init f args)
  | OIter l _ => OIter l O
  | OFrom lo _ => OFrom lo O
  | _ => o
  end.

Definition step_next (fuel : nat) (o : obj) : pstep :=
  match o with
  | OGen f args st =>
      match C15_Gen.next fuel st with
      | None => QFuel
      | Some (C15_Gen.GYield v, st') | Some (C15_Gen.GFinish v, st') => QOk (OGen f args st') [EVal v] v
      | Some (C15_Gen.GError t, st') => QOk (OGen f args st') [EErr t] 0
      | Some (C15_Gen.GStop, st') => QOk (OGen f args st') [EStop] 0
      end
  | OIter l pos =>
      match nth_error l pos with
      | Some v => QOk (OIter l (S pos)) [EVal v] v
      | None => QOk o [EStop] 0
      end
  | OFrom lo pos => QOk (OFrom lo (S pos)) [EVal (lo + Z.of_nat pos)] (lo + Z.of_nat pos)
  | OChan cap q closed =>
      match q with
      | v :: r => QOk (OChan cap r closed) [EVal v] v
      | [] => if closed then QOk o [EStop] 0 else QBlock
      end
  | _ => QCrash
  end.

(* for v in obj: call next until stop; an error leaves the loop; `break` after [lim] elements *)
Definition single_val (e : list pev) : option Z := match e with [EVal v] => Some v | _ => None end.
Definition is_stop (e : list pev) : bool := match e with [EStop] => true | _ => false end.
(* the limit after one more element: None = break now *)
Definition lim_dec (lim : option nat) : option (option nat) :=
  match lim with
  | None => Some None
  | Some (S (S k)) => Some (Some (S k))
  | Some _ => None
  end.
Definition lim_zero (lim : option nat) : bool := match lim with Some O => true | _ => false end.

Fixpoint forin (rounds fuel : nat) (o : obj) (lim : option nat) (evs : list pev) (add : Z) : pstep :=
  match rounds with
  | O => QFuel
  | S r =>
      if lim_zero lim then QOk o evs add
      else
        match step_next fuel o with
        | QOk o' e a =>
            match single_val e with
            | Some _ =>
                match lim_dec lim with
                | None => QOk o' (evs ++ e) (add + a)
                | Some lim' => forin r fuel o' lim' (evs ++ e) (add + a)
                end
            | None => QOk o' (evs ++ (if is_stop e then [] else e)) add
            end
        | r' => r'
        end
  end.

Definition step (fuel : nat) (o : obj) (p : op) : pstep :=
  match p with
  | PNext _ => step_next fuel o
  | PReset _ =>
      match o with
      | OGen _ _ _ | OIter _ _ | OFrom _ _ => QOk (fresh o) [EOk] 0
      | _ => QCrash
      end
  | PForIn _ lim =>
      match o with
      | OGen _ _ _ | OIter _ _ | OFrom _ _ | OChan _ _ _ => forin fuel fuel o lim [] 0
      | _ => QCrash
      end
  | PPush _ v =>
      match o with
      | OChan cap q closed =>
          if closed then QOk o [EClosed] 0
          else if Nat.ltb (length q) cap then QOk (OChan cap (q ++ [v]) closed) [EOk] 0
          else QBlock
      | _ => QCrash
      end
  | PPop _ =>
      match o with
      | OChan cap q closed =>
          match q with
          | v :: r => QOk (OChan cap r closed) [EVal v] v
          | [] => if closed then QOk o [EClosed] 0 else QBlock
          end
      | _ => QCrash
      end
  | PClose _ =>
      match o with
      | OChan cap q closed => if closed then QOk o [EClosed] 0 else QOk (OChan cap q true) [EOk] 0
      | _ => QCrash
      end
  | PLen _ =>
      match o with
      | OChan cap q closed =>
          QOk o [EVal (Z.of_nat (length q) * 100 + (Z.of_nat cap - Z.of_nat (length q)) * 10 + Z.of_nat cap)] 0
      | _ => QCrash
      end
  | PAwait _ =>
      match o with
      | OProm (C15_Gen.Resolved v) => QOk o [EVal v] v
      | OProm (C15_Gen.Rejected t) => QOk o [EErr t] 0
      | _ => QCrash
      end
  | PCall _ d =>
      match o with
      | OOnce done n => if done then QOk o [EVal n] 0 else QOk (OOnce true (n + d)) [EVal (n + d)] 0
      | _ => QCrash
      end
  end.

(* the checker: the receiver slot exists and its static kind has the method *)
Definition op_ok (k : kind) (p : op) : bool :=
  match p, k with
  | PNext _, (KGen | KIter | KChan) => true
  | PReset _, (KGen | KIter) => true
  | PForIn _ _, (KGen | KIter | KChan) => true
  | (PPush _ _ | PPop _ | PClose _ | PLen _), KChan => true
  | PAwait _, KProm => true
  | PCall _ _, KOnce => true
  | _, _ => false
  end.

Definition wt_op (ks : list kind) (p : op) : bool :=
  match nth_error ks (op_slot p) with Some k => op_ok k p | None => false end.

Definition wt_ops (ks : list kind) (ops : list op) : bool := forallb (wt_op ks) ops.

Fixpoint set_slot (h : list obj) (i : nat) (o : obj) : list obj :=
  match h, i with
  | [], _ => []
  | _ :: r, O => o :: r
  | a :: r, S i' => a :: set_slot r i' o
  end.

Inductive pres := POk (h : list obj) (acc : Z) (out : list (list pev)) | PCrash | PFuel | PBlock.

(* a history; [out] collects the printed events per operation, most recent first *)
Fixpoint run_ops (fuel : nat) (h : list obj) (ops : list op) (acc : Z) (out : list (list pev)) : pres :=
  match ops with
  | [] => POk h acc out
  | p :: r =>
      match nth_error h (op_slot p) with
      | None => PCrash
      | Some o =>
          match step fuel o p with
          | QOk o' evs add => run_ops fuel (set_slot h (op_slot p) o') r (acc + add) (evs :: out)
          | QCrash => PCrash
          | QFuel => PFuel
          | QBlock => PBlock
          end
      end
  end.
