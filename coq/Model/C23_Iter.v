(* C23 — executable model of Elk ranges (value/*range*.go, vm/*range*.go) and of the generic
   iterable operations (vm/iterable.go over vm/iterator.go Iterate/IterateIterator).

   An iterator is a state machine  nx : St -> step V St  (the `next` method: a value and the
   mutated iterator, :stop_iteration, or another thrown error).  Every Go operation is a
   `for elem, err := range Iterate(vm, self) { body }` loop: `loop` is that driver, each
   operation supplies the loop body (Cont = fall through / continue, Brk = break,
   Ret = return from inside the loop) and the code after the loop (`fin`).
   Loops over possibly-infinite iterators use fuel; NoFuel is the "did not finish" result.
   No proofs here so the model always runs. *)
From Elk Require Export Base.GoSem.
Open Scope Z_scope.

(* ---------------------------------------------------------------- iterators *)

Inductive step (V St : Type) : Type :=
| Yield (v : V) (s : St)     (* next returned v; iterator state is now s *)
| Stop                       (* next threw :stop_iteration *)
| Fail (e : Z).              (* next threw something else *)
Arguments Yield {V St}. Arguments Stop {V St}. Arguments Fail {V St}.

(* result of a closure call or of an operation *)
Inductive res (A : Type) : Type :=
| Val (a : A)
| Thrown (e : Z)             (* an Elk error value *)
| Undef                      (* Go returned value.Undefined with no error (invalid Elk value) *)
| NoFuel.
Arguments Val {A}. Arguments Thrown {A}. Arguments Undef {A}. Arguments NoFuel {A}.

(* error enum shared with the drivers *)
Definition E_OOR : Z := 3.       (* Std::OutOfRangeError *)
Definition E_NF : Z := 4.        (* Std::Iterable::NotFoundError *)
Definition E_BOOM : Z := 7.      (* the String thrown by the generated throwing closure *)

(* a non-Val result re-typed (error propagation `return value.Undefined, err`) *)
Definition prop {A B} (r : res A) : res B :=
  match r with Val _ => Undef | Thrown e => Thrown e | Undef => Undef | NoFuel => NoFuel end.

Inductive ctl (A R : Type) : Type :=
| Cont (a : A)               (* next loop iteration with accumulator a *)
| Brk (a : A)                (* break *)
| Ret (r : res R).           (* return r from inside the loop *)
Arguments Cont {A R}. Arguments Brk {A R}. Arguments Ret {A R}.

(* for elem, err := range Iterate(vm, self) { if err {return err}; body } ; fin *)
Fixpoint loop {V St A R} (fuel : nat) (nx : St -> step V St)
         (body : A -> V -> ctl A R) (fin : A -> res R) (a : A) (s : St) : res R :=
  match fuel with
  | O => NoFuel
  | S f =>
    match nx s with
    | Stop => fin a
    | Fail e => Thrown e
    | Yield v s' =>
      match body a v with
      | Cont a' => loop f nx body fin a' s'
      | Brk a' => fin a'
      | Ret r => r
      end
    end
  end.

(* call a closure and continue with its value; errors return from the loop *)
Definition call {A B R} (r : res B) (k : B -> ctl A R) : ctl A R :=
  match r with Val b => k b | other => Ret (prop other) end.

(* ---------------------------------------------------------------- the operations *)
Section Ops.
  Context {V St : Type}.
  Variable nx : St -> step V St.
  Variable eqb : V -> V -> bool.       (* Equal(vm, elem, val) on the element type *)

  Definition contains_impl (fuel : nat) (x : V) (s : St) : res bool :=
    loop fuel nx (fun (_ : unit) v => if eqb v x then Ret (Val true) else Cont tt)
         (fun _ => Val false) tt s.

  Definition is_empty_impl (fuel : nat) (s : St) : res bool :=
    loop fuel nx (fun (_ : bool) _ => Brk true) (fun any => Val (negb any)) false s.

  Definition first_impl (fuel : nat) (s : St) : res V :=
    loop fuel nx (fun (_ : unit) v => Ret (Val v)) (fun _ => Thrown E_NF) tt s.

  Definition try_first_impl (fuel : nat) (s : St) : res (option V) :=
    loop fuel nx (fun (_ : unit) v => Ret (Val (Some v))) (fun _ => Val None) tt s.

  (* `var last value.Value` starts as undefined = None *)
  Definition last_impl (fuel : nat) (s : St) : res V :=
    loop fuel nx (fun (_ : option V) v => Cont (Some v))
         (fun l => match l with Some v => Val v | None => Thrown E_NF end) None s.

  Definition try_last_impl (fuel : nat) (s : St) : res (option V) :=
    loop fuel nx (fun (_ : option V) v => Cont (Some v)) (fun l => Val l) None s.

  Definition map_impl {W} (fuel : nat) (f : V -> res W) (s : St) : res (list W) :=
    loop fuel nx (fun acc v => call (f v) (fun w => Cont (acc ++ [w]))) (fun acc => Val acc) [] s.

  Definition filter_impl (fuel : nat) (p : V -> res bool) (s : St) : res (list V) :=
    loop fuel nx (fun acc v => call (p v) (fun keep => Cont (if keep then acc ++ [v] else acc)))
         (fun acc => Val acc) [] s.

  Definition reject_impl (fuel : nat) (p : V -> res bool) (s : St) : res (list V) :=
    loop fuel nx (fun acc v => call (p v) (fun keep => Cont (if negb keep then acc ++ [v] else acc)))
         (fun acc => Val acc) [] s.

  Definition count_impl (fuel : nat) (p : V -> res bool) (s : St) : res Z :=
    loop fuel nx (fun c v => call (p v) (fun keep => Cont (if keep then c + 1 else c)))
         (fun c => Val c) 0 s.

  Definition any_impl (fuel : nat) (p : V -> res bool) (s : St) : res bool :=
    loop fuel nx (fun (_ : unit) v => call (p v) (fun ok => if ok then Ret (Val true) else Cont tt))
         (fun _ => Val false) tt s.

  Definition every_impl (fuel : nat) (p : V -> res bool) (s : St) : res bool :=
    loop fuel nx (fun (_ : unit) v => call (p v) (fun ok => if negb ok then Ret (Val false) else Cont tt))
         (fun _ => Val true) tt s.

  Definition find_impl (fuel : nat) (p : V -> res bool) (s : St) : res V :=
    loop fuel nx (fun (_ : unit) v => call (p v) (fun ok => if ok then Ret (Val v) else Cont tt))
         (fun _ => Thrown E_NF) tt s.

  Definition try_find_impl (fuel : nat) (p : V -> res bool) (s : St) : res (option V) :=
    loop fuel nx (fun (_ : unit) v => call (p v) (fun ok => if ok then Ret (Val (Some v)) else Cont tt))
         (fun _ => Val None) tt s.

  Definition index_of_impl (fuel : nat) (x : V) (s : St) : res Z :=
    loop fuel nx (fun i v => if eqb v x then Ret (Val i) else Cont (i + 1)) (fun _ => Val (-1)) 0 s.

  Definition find_index_impl (fuel : nat) (p : V -> res bool) (s : St) : res Z :=
    loop fuel nx (fun i v => call (p v) (fun ok => if ok then Ret (Val i) else Cont (i + 1)))
         (fun _ => Val (-1)) 0 s.

  Definition drop_impl (fuel : nat) (count : Z) (s : St) : res (list V) :=
    if count <? 0 then Thrown E_OOR else
    loop fuel nx (fun '(c, acc) v => if c >? 0 then Cont (c - 1, acc) else Cont (c, acc ++ [v]))
         (fun '(_, acc) => Val acc) (count, []) s.

  Definition drop_while_impl (fuel : nat) (p : V -> res bool) (s : St) : res (list V) :=
    loop fuel nx
         (fun '(collect, acc) v =>
            if (collect : bool) then Cont (true, acc ++ [v]) else
            call (p v) (fun ok => if ok then Cont (false, acc) else Cont (true, acc ++ [v])))
         (fun '(_, acc) => Val acc) (false, []) s.

  Definition take_impl (fuel : nat) (count : Z) (s : St) : res (list V) :=
    if count <? 0 then Thrown E_OOR else
    loop fuel nx (fun '(c, acc) v => if c <=? 0 then Brk (c, acc) else Cont (c - 1, acc ++ [v]))
         (fun '(_, acc) => Val acc) (count, []) s.

  Definition take_while_impl (fuel : nat) (p : V -> res bool) (s : St) : res (list V) :=
    loop fuel nx (fun acc v => call (p v) (fun ok => if negb ok then Brk acc else Cont (acc ++ [v])))
         (fun acc => Val acc) [] s.

  (* the accumulator starts as value.Undefined (None) and is RETURNED as such when the
     iterable is empty *)
  Definition reduce_impl (fuel : nat) (f : V -> V -> res V) (s : St) : res V :=
    loop fuel nx
         (fun acc v => match acc with
                       | None => Cont (Some v)
                       | Some a => call (f a v) (fun n => Cont (Some n))
                       end)
         (fun acc => match acc with Some a => Val a | None => Undef end) None s.

  Definition fold_impl {I} (fuel : nat) (init : I) (f : I -> V -> res I) (s : St) : res I :=
    loop fuel nx (fun acc v => call (f acc v) (fun n => Cont n)) (fun acc => Val acc) init s.

  (* to_list, to_collection, to_tuple, to_immutable_collection *)
  Definition to_list_impl (fuel : nat) (s : St) : res (list V) :=
    loop fuel nx (fun acc v => Cont (acc ++ [v])) (fun acc => Val acc) [] s.

  Definition length_impl (fuel : nat) (s : St) : res Z :=
    loop fuel nx (fun c _ => Cont (c + 1)) (fun c => Val c) 0 s.
End Ops.

(* local copies of List.firstn/skipn/existsb/hd_error (proved equal in Proofs/C23_Iter.v): the
   extracted model must not pull in Coq's List module, which would shadow OCaml's List *)
Fixpoint take_n {A} (n : nat) (l : list A) : list A :=
  match n, l with O, _ => [] | S _, [] => [] | S n', a :: l' => a :: take_n n' l' end.
Fixpoint drop_n {A} (n : nat) (l : list A) : list A :=
  match n, l with O, _ => l | S _, [] => [] | S n', _ :: l' => drop_n n' l' end.
Fixpoint exists_b {A} (f : A -> bool) (l : list A) : bool :=
  match l with [] => false | a :: l' => f a || exists_b f l' end.
Definition head_opt {A} (l : list A) : option A := match l with [] => None | a :: _ => Some a end.

(* ---------------------------------------------------------------- the list model *)
(* What each operation means on the materialised element list (closures may throw: the
   elements are visited left to right and the first throw wins). *)
Section Spec.
  Context {V : Type}.
  Variable eqb : V -> V -> bool.

  Definition contains_list (x : V) (l : list V) : res bool := Val (exists_b (fun v => eqb v x) l).
  Definition is_empty_list (l : list V) : res bool := Val (match l with [] => true | _ => false end).
  Definition first_list (l : list V) : res V := match l with [] => Thrown E_NF | v :: _ => Val v end.
  Definition try_first_list (l : list V) : res (option V) := Val (head_opt l).
  Fixpoint last_opt (l : list V) : option V :=
    match l with [] => None | [v] => Some v | _ :: l' => last_opt l' end.
  Definition last_list (l : list V) : res V := match last_opt l with Some v => Val v | None => Thrown E_NF end.
  Definition try_last_list (l : list V) : res (option V) := Val (last_opt l).

  Fixpoint map_list {W} (f : V -> res W) (l : list V) : res (list W) :=
    match l with
    | [] => Val []
    | v :: l' => match f v with
                 | Val w => match map_list f l' with Val r => Val (w :: r) | o => o end
                 | o => prop o
                 end
    end.

  (* keep v when p v = want *)
  Fixpoint select_list (want : bool) (p : V -> res bool) (l : list V) : res (list V) :=
    match l with
    | [] => Val []
    | v :: l' => match p v with
                 | Val b => match select_list want p l' with
                            | Val r => Val (if Bool.eqb b want then v :: r else r)
                            | o => o
                            end
                 | o => prop o
                 end
    end.
  Definition filter_list := select_list true.
  Definition reject_list := select_list false.

  Fixpoint count_list (p : V -> res bool) (l : list V) : res Z :=
    match l with
    | [] => Val 0
    | v :: l' => match p v with
                 | Val b => match count_list p l' with Val c => Val (if b then c + 1 else c) | o => o end
                 | o => prop o
                 end
    end.

  (* first element with p v = want, searched left to right *)
  Fixpoint search_list (want : bool) (p : V -> res bool) (l : list V) : res (option V) :=
    match l with
    | [] => Val None
    | v :: l' => match p v with
                 | Val b => if Bool.eqb b want then Val (Some v) else search_list want p l'
                 | o => prop o
                 end
    end.
  Definition any_list (p : V -> res bool) (l : list V) : res bool :=
    match search_list true p l with Val (Some _) => Val true | Val None => Val false | o => prop o end.
  Definition every_list (p : V -> res bool) (l : list V) : res bool :=
    match search_list false p l with Val (Some _) => Val false | Val None => Val true | o => prop o end.
  Definition find_list (p : V -> res bool) (l : list V) : res V :=
    match search_list true p l with Val (Some v) => Val v | Val None => Thrown E_NF | o => prop o end.
  Definition try_find_list (p : V -> res bool) (l : list V) : res (option V) := search_list true p l.

  Fixpoint find_index_list (p : V -> res bool) (l : list V) : res Z :=
    match l with
    | [] => Val (-1)
    | v :: l' => match p v with
                 | Val true => Val 0
                 | Val false => match find_index_list p l' with
                                | Val i => Val (if i <? 0 then -1 else i + 1)
                                | o => o
                                end
                 | o => prop o
                 end
    end.
  Definition index_of_list (x : V) (l : list V) : res Z := find_index_list (fun v => Val (eqb v x)) l.

  Definition drop_list (n : Z) (l : list V) : res (list V) :=
    if n <? 0 then Thrown E_OOR else Val (drop_n (Z.to_nat n) l).
  Definition take_list (n : Z) (l : list V) : res (list V) :=
    if n <? 0 then Thrown E_OOR else Val (take_n (Z.to_nat n) l).

  Fixpoint drop_while_list (p : V -> res bool) (l : list V) : res (list V) :=
    match l with
    | [] => Val []
    | v :: l' => match p v with
                 | Val true => drop_while_list p l'
                 | Val false => Val (v :: l')
                 | o => prop o
                 end
    end.
  Fixpoint take_while_list (p : V -> res bool) (l : list V) : res (list V) :=
    match l with
    | [] => Val []
    | v :: l' => match p v with
                 | Val true => match take_while_list p l' with Val r => Val (v :: r) | o => o end
                 | Val false => Val []
                 | o => prop o
                 end
    end.

  Fixpoint fold_list {I} (f : I -> V -> res I) (acc : I) (l : list V) : res I :=
    match l with
    | [] => Val acc
    | v :: l' => match f acc v with Val n => fold_list f n l' | o => prop o end
    end.
  (* reduce of an empty list is an error in the list model (nothing to return) *)
  Definition reduce_list (f : V -> V -> res V) (l : list V) : res V :=
    match l with [] => Thrown E_NF | v :: l' => fold_list f v l' end.

  Definition to_list_list (l : list V) : res (list V) := Val l.
  Definition length_list (l : list V) : res Z := Val (Z.of_nat (length l)).
End Spec.

(* ---------------------------------------------------------------- materialisation *)
Inductive tail : Type := TStop | TFail (e : Z).

(* run the iterator to its end: the elements it yields and how it ends *)
Fixpoint unroll {V St} (fuel : nat) (nx : St -> step V St) (s : St) : option (list V * tail) :=
  match fuel with
  | O => None
  | S f => match nx s with
           | Stop => Some ([], TStop)
           | Fail e => Some ([], TFail e)
           | Yield v s' => match unroll f nx s' with Some (l, t) => Some (v :: l, t) | None => None end
           end
  end.

(* the first n elements, when the iterator yields at least n *)
Fixpoint prefix {V St} (n : nat) (nx : St -> step V St) (s : St) : option (list V * St) :=
  match n with
  | O => Some ([], s)
  | S n' => match nx s with
            | Yield v s' => match prefix n' nx s' with Some (l, s2) => Some (v :: l, s2) | None => None end
            | _ => None
            end
  end.

(* list-backed iterator (ArrayList/ArrayTuple/HashSet iterators, seen as their element list) *)
Definition list_next {V} (l : list V) : step V (list V) :=
  match l with [] => Stop | v :: l' => Yield v l' end.

(* an iterator that yields l and whose next `next` then throws e (a user-defined iterator) *)
Definition fail_next {V} (e : Z) (l : list V) : step V (list V) :=
  match l with [] => Fail e | v :: l' => Yield v l' end.

(* ---------------------------------------------------------------- ranges *)
Inductive rkind : Type :=
| Closed | OpenR | LeftOpen | RightOpen        (* a...b  a<.<b  a<..b  a..<b *)
| EndlessClosed | EndlessOpen                  (* a...   a<..  *)
| BeginlessClosed | BeginlessOpen.             (* ...b   ..<b  *)

(* XxxRangeContains: GreaterThan(Equal)(val, Start) then LessThan(Equal)(val, End) *)
Definition rcontains (k : rkind) (a b x : Z) : bool :=
  match k with
  | Closed => if negb (x >=? a) then false else x <=? b
  | OpenR => if negb (x >? a) then false else x <? b
  | LeftOpen => if negb (x >? a) then false else x <=? b
  | RightOpen => if negb (x >=? a) then false else x <? b
  | EndlessClosed => x >=? a
  | EndlessOpen => x >? a
  | BeginlessClosed => x <=? b
  | BeginlessOpen => x <? b
  end.

Definition iterable (k : rkind) : bool :=
  match k with BeginlessClosed | BeginlessOpen => false | _ => true end.
Definition finite (k : rkind) : bool :=
  match k with Closed | OpenR | LeftOpen | RightOpen => true | _ => false end.

(* XxxRangeIteratorNext; the state is CurrentElement (initially Start); `succ` is
   Increment(vm, x): x+1 for Int, wrap-around for the fixed-width integer types. *)
Definition range_next (succ : Z -> Z) (k : rkind) (b : Z) (cur : Z) : step Z Z :=
  match k with
  | Closed => if cur >? b then Stop else Yield cur (succ cur)
  | RightOpen => if cur >=? b then Stop else Yield cur (succ cur)
  | OpenR => let n := succ cur in if n >=? b then Stop else Yield n n
  | LeftOpen => let n := succ cur in if n >? b then Stop else Yield n n
  | EndlessClosed => Yield cur (succ cur)
  | EndlessOpen => let n := succ cur in Yield n n
  | BeginlessClosed | BeginlessOpen => Fail E_TYPE   (* no `iter` method *)
  end.

(* lo, lo+1, ... (n elements) *)
Fixpoint zr (lo : Z) (n : nat) : list Z :=
  match n with O => [] | S n' => lo :: zr (lo + 1) n' end.
Definition zrange (lo cnt : Z) : list Z := zr lo (Z.to_nat cnt).

(* the integers a finite range describes, in order *)
Definition relements (k : rkind) (a b : Z) : list Z :=
  match k with
  | Closed => zrange a (b - a + 1)
  | RightOpen => zrange a (b - a)
  | LeftOpen => zrange (a + 1) (b - a)
  | OpenR => zrange (a + 1) (b - a - 1)
  | _ => []
  end.
(* first element of an endless range *)
Definition rfirst (k : rkind) (a : Z) : Z :=
  match k with EndlessOpen => a + 1 | _ => a end.

(* Increment on Int8..Int64 / UInt8..: wraps *)
Definition succ_wrap_s (w : Z) (x : Z) : Z := wrap_s w (x + 1).

(* ---------------------------------------------------------------- closures of the tie *)
(* The generated Elk closures, as data (interpreted here so the extracted model runs them). *)
Inductive fn1 : Type :=            (* |x| -> ... : Int *)
| FAdd (c : Z) | FMul (c : Z) | FThrowAt (t : Z) (f : fn1).
Inductive pred : Type :=           (* |x| -> ... : bool *)
| PEven | PGt (c : Z) | PLt (c : Z) | PEq (c : Z) | PConst (b : bool) | PThrowAt (t : Z) (p : pred).
Inductive fn2 : Type :=            (* |a, x| -> ... : Int *)
| GAdd | GSub | GMulAdd (c : Z) | GThrowAt (t : Z) (g : fn2).   (* a+x, a-x, a*c+x; throws when x == t *)

Fixpoint eval_fn1 (f : fn1) (x : Z) : res Z :=
  match f with
  | FAdd c => Val (x + c)
  | FMul c => Val (x * c)
  | FThrowAt t f' => if x =? t then Thrown E_BOOM else eval_fn1 f' x
  end.
Fixpoint eval_pred (p : pred) (x : Z) : res bool :=
  match p with
  | PEven => Val (Z.even x)
  | PGt c => Val (x >? c)
  | PLt c => Val (x <? c)
  | PEq c => Val (x =? c)
  | PConst b => Val b
  | PThrowAt t p' => if x =? t then Thrown E_BOOM else eval_pred p' x
  end.
Fixpoint eval_fn2 (g : fn2) (a x : Z) : res Z :=
  match g with
  | GAdd => Val (a + x)
  | GSub => Val (a - x)
  | GMulAdd c => Val (a * c + x)
  | GThrowAt t g' => if x =? t then Thrown E_BOOM else eval_fn2 g' a x
  end.

(* one operation request of the tie, and its result rendered in a common shape *)
Inductive opreq : Type :=
| OContains (x : Z) | OIsEmpty | OFirst | OTryFirst | OLast | OTryLast
| OMap (f : fn1) | OFilter (p : pred) | OReject (p : pred) | OCount (p : pred)
| OAny (p : pred) | OEvery (p : pred) | OFind (p : pred) | OTryFind (p : pred)
| OIndexOf (x : Z) | OFindIndex (p : pred) | ODrop (n : Z) | ODropWhile (p : pred)
| OTake (n : Z) | OTakeWhile (p : pred) | OReduce (g : fn2) | OFold (i : Z) (g : fn2)
| OToList | OToTuple | OLength.

Inductive oval : Type := VInt (z : Z) | VBool (b : bool) | VNil | VList (l : list Z) | VTuple (l : list Z).

Definition rmap {A B} (f : A -> B) (r : res A) : res B :=
  match r with Val a => Val (f a) | o => prop o end.
Definition vopt (o : option Z) : oval := match o with Some z => VInt z | None => VNil end.

Definition run_impl {St} (fuel : nat) (nx : St -> step Z St) (s : St) (o : opreq) : res oval :=
  match o with
  | OContains x => rmap VBool (contains_impl nx Z.eqb fuel x s)
  | OIsEmpty => rmap VBool (is_empty_impl nx fuel s)
  | OFirst => rmap VInt (first_impl nx fuel s)
  | OTryFirst => rmap vopt (try_first_impl nx fuel s)
  | OLast => rmap VInt (last_impl nx fuel s)
  | OTryLast => rmap vopt (try_last_impl nx fuel s)
  | OMap f => rmap VList (map_impl nx fuel (eval_fn1 f) s)
  | OFilter p => rmap VList (filter_impl nx fuel (eval_pred p) s)
  | OReject p => rmap VList (reject_impl nx fuel (eval_pred p) s)
  | OCount p => rmap VInt (count_impl nx fuel (eval_pred p) s)
  | OAny p => rmap VBool (any_impl nx fuel (eval_pred p) s)
  | OEvery p => rmap VBool (every_impl nx fuel (eval_pred p) s)
  | OFind p => rmap VInt (find_impl nx fuel (eval_pred p) s)
  | OTryFind p => rmap vopt (try_find_impl nx fuel (eval_pred p) s)
  | OIndexOf x => rmap VInt (index_of_impl nx Z.eqb fuel x s)
  | OFindIndex p => rmap VInt (find_index_impl nx fuel (eval_pred p) s)
  | ODrop n => rmap VList (drop_impl nx fuel n s)
  | ODropWhile p => rmap VList (drop_while_impl nx fuel (eval_pred p) s)
  | OTake n => rmap VList (take_impl nx fuel n s)
  | OTakeWhile p => rmap VList (take_while_impl nx fuel (eval_pred p) s)
  | OReduce g => rmap VInt (reduce_impl nx fuel (eval_fn2 g) s)
  | OFold i g => rmap VInt (fold_impl nx fuel i (eval_fn2 g) s)
  | OToList => rmap VList (to_list_impl nx fuel s)
  | OToTuple => rmap VTuple (to_list_impl nx fuel s)
  | OLength => rmap VInt (length_impl nx fuel s)
  end.

Definition run_list (l : list Z) (o : opreq) : res oval :=
  match o with
  | OContains x => rmap VBool (contains_list Z.eqb x l)
  | OIsEmpty => rmap VBool (is_empty_list l)
  | OFirst => rmap VInt (first_list l)
  | OTryFirst => rmap vopt (try_first_list l)
  | OLast => rmap VInt (last_list l)
  | OTryLast => rmap vopt (try_last_list l)
  | OMap f => rmap VList (map_list (eval_fn1 f) l)
  | OFilter p => rmap VList (filter_list (eval_pred p) l)
  | OReject p => rmap VList (reject_list (eval_pred p) l)
  | OCount p => rmap VInt (count_list (eval_pred p) l)
  | OAny p => rmap VBool (any_list (eval_pred p) l)
  | OEvery p => rmap VBool (every_list (eval_pred p) l)
  | OFind p => rmap VInt (find_list (eval_pred p) l)
  | OTryFind p => rmap vopt (try_find_list (eval_pred p) l)
  | OIndexOf x => rmap VInt (index_of_list Z.eqb x l)
  | OFindIndex p => rmap VInt (find_index_list (eval_pred p) l)
  | ODrop n => rmap VList (drop_list n l)
  | ODropWhile p => rmap VList (drop_while_list (eval_pred p) l)
  | OTake n => rmap VList (take_list n l)
  | OTakeWhile p => rmap VList (take_while_list (eval_pred p) l)
  | OReduce g => rmap VInt (reduce_list (eval_fn2 g) l)
  | OFold i g => rmap VInt (fold_list (eval_fn2 g) i l)
  | OToList => rmap VList (to_list_list l)
  | OToTuple => rmap VTuple (to_list_list l)
  | OLength => rmap VInt (length_list l)
  end.

(* entry points used by the extracted driver *)
Definition run_range (fuel : nat) (w : Z) (k : rkind) (a b : Z) (o : opreq) : res oval :=
  run_impl fuel (range_next (if w =? 0 then Z.succ else succ_wrap_s w) k b) a o.
Definition run_listiter (fuel : nat) (l : list Z) (o : opreq) : res oval :=
  run_impl fuel list_next l o.
Definition run_failiter (fuel : nat) (l : list Z) (o : opreq) : res oval :=
  run_impl fuel (fail_next E_BOOM) l o.
