(* C21 - what an Elk regex denotes, and what the emitted Go (RE2) term denotes.

   Both semantics are total, structural functions.  A regex denotes a transformer of POSITION
   SETS of the subject string s (positions 0..|s|; a set is a bit vector of length |s|+1):
   `M S` = the positions where a match that started at some position of S can end.  Every
   construct distributes over unions of start sets, so this is the usual position-set (NFA
   style) simulation; concatenation is function composition, star is a closure iterated |s|+1
   times.  `matches` = Go's MatchString / Elk's Regex#matches: some substring matches.

   me    Elk: on the syntax tree, under Elk flags (i m s U x a), with flag groups changing the
         flags of the rest of the enclosing group (as in Perl/PCRE).  Predefined classes are
         defined as SETS: Unicode-aware by default, their intersection with ASCII under `a`.
         The flag x has no meaning here: extended mode is defined on the source text
         (comments and whitespace are removed before parsing), see Props/C21.v.
         U and the lazy quantifier variants do not change WHETHER a string matches.
   m2    Go regexp/syntax + regexp on the emitted subset (trusted specification, validated by
         the stream c21.match): Perl classes are ASCII (\s has no \v), (?flags) persist to the
         end of the enclosing group (also across |), case folding is closure under the
         simple-fold orbit, negation is applied after folding, [^..] matches \n.

   Oracles (Section variables, instantiated per case by the OCaml driver from the live Go
   tables): orbit (unicode.SimpleFold orbit), uni (Unicode category/script tables by name),
   posix ([:alpha:] ... tables by name). *)
From Coq Require Import ZArith List Bool Arith.
From Elk Require Import Model.C21_RegexSyntax.
Import ListNotations.
Open Scope Z_scope.

Section Sem.
Variable orbit : Z -> list Z.
Variable uni : list Z -> Z -> bool.
Variable posix : list Z -> Z -> bool.
Variable s : list Z.

Definition pset := list bool.
Definition slen : nat := length s.
Definition positions : list nat := seq 0 (S slen).
Definition tab (f : nat -> bool) : pset := map f positions.
Definition get (X : pset) (i : nat) : bool := nth i X false.
Definition tf := pset -> pset.

Definition full : pset := tab (fun _ => true).
Definition punion (A B : pset) : pset := tab (fun j => get A j || get B j).
Definition char_at (i : nat) : option Z := nth_error s i.

(* one character satisfying P *)
Definition one (P : Z -> bool) : tf :=
  fun X => tab (fun j => match j with
                         | O => false
                         | S i => get X i && match char_at i with Some c => P c | None => false end
                         end).
(* zero-width assertion *)
Definition guard (Q : nat -> bool) : tf := fun X => tab (fun j => get X j && Q j).
Definition tid : tf := fun X => X.
Definition tcomp (A B : tf) : tf := fun X => B (A X).
Definition talt (A B : tf) : tf := fun X => let a := A X in let b := B X in punion a b.
Fixpoint titer (k : nat) (A : tf) (X : pset) : pset :=
  match k with O => X | S k' => titer k' A (A X) end.
(* closure: X, A X, A (A X), ... accumulated |s|+1 times *)
Fixpoint tclos (k : nat) (A : tf) (X : pset) : pset :=
  match k with O => X | S k' => punion X (tclos k' A (A X)) end.
Definition tstar (A : tf) : tf := fun X => tclos (S slen) A X.
(* between 0 and k further repetitions *)
Fixpoint tupto (k : nat) (A : tf) (X : pset) : pset :=
  match k with O => X | S k' => punion X (tupto k' A (A X)) end.

(* decimal value of a digit string, capped at 1001 (Go rejects repeat counts > 1000) *)
Definition dec_val (ds : list Z) : Z := fold_left (fun acc d => Z.min 1001 (acc * 10 + (d - 48))) ds 0.
Definition count (ds : list Z) : nat := Z.to_nat (Z.min 1001 (Z.max 0 (dec_val ds))).

Definition trep (q : quant) (A : tf) : tf :=
  match q with
  | QOpt => fun X => punion X (A X)
  | QStar => tstar A
  | QPlus => fun X => tstar A (A X)
  | QN n => titer (count n) A
  | QNM n m =>
      match m with
      | [] => fun X => tstar A (titer (count n) A X)
      | _ => fun X => tupto (count m - count n) A (titer (count n) A X)
      end
  end.

Definition matches (M : tf) : bool := existsb (fun b => b) (M full).

(* ---- character sets *)

Definition fc (P : Z -> bool) (c : Z) : bool := P c || existsb P (orbit c).
(* a set under case-insensitivity, then its polarity: folding first, negation after *)
Definition pol (neg b : bool) : bool := if neg then negb b else b.
Definition signed (ci neg : bool) (P : Z -> bool) (c : Z) : bool := pol neg (if ci then fc P c else P c).

Definition in_range (lo hi c : Z) : bool := (lo <=? c) && (c <=? hi).
Definition ascii_word (c : Z) : bool := in_range 48 57 c || in_range 65 90 c || in_range 97 122 c || (c =? 95).
Definition is_ascii (c : Z) : bool := in_range 0 127 c.

Definition hex_digit_val (d : Z) : Z :=
  if in_range 48 57 d then d - 48 else if in_range 97 102 d then d - 87 else if in_range 65 70 d then d - 55 else 0.
Definition hex_val (ds : list Z) : Z := fold_left (fun acc d => Z.min 1114112 (acc * 16 + hex_digit_val d)) ds 0.
Definition oct_val (ds : list Z) : Z := fold_left (fun acc d => Z.min 1114112 (acc * 8 + (d - 48))) ds 0.

(* word boundary: Go's \b is ASCII; Elk's \b is emitted as Go's \b in every mode *)
Definition word_at (i : nat) : bool := match char_at i with Some c => ascii_word c | None => false end.
Definition boundary (j : nat) : bool :=
  xorb (match j with O => false | S i => word_at i end) (word_at j).
Definition at_bol (multi : bool) (j : nat) : bool :=
  match j with
  | O => true
  | S i => multi && match char_at i with Some c => c =? 10 | None => false end
  end.
Definition at_eol (multi : bool) (j : nat) : bool :=
  (j =? slen)%nat || (multi && match char_at j with Some c => c =? 10 | None => false end).
Definition dot_set (dotall : bool) (c : Z) : bool := dotall || negb (c =? 10).

Fixpoint tquoted (ci : bool) (txt : list Z) : tf :=
  match txt with
  | [] => tid
  | c :: t => tcomp (one (signed ci false (Z.eqb c))) (tquoted ci t)
  end.

(* =================================================================== Elk *)

Definition simple_val (k : simple) : Z :=
  match k with SBell => 7 | SFormFeed => 12 | STab => 9 | SNewline => 10 | SCR => 13 end.

(* the code point of an atom that stands for one code point *)
Definition atom_val (a : atom) : option Z :=
  match a with
  | AChar c => Some c
  | AMeta c => Some c
  | ASimple k => Some (simple_val k)
  | AHex ds => Some (hex_val ds)
  | AOct ds => Some (oct_val ds)
  | ACaret c => Some (letter_index c)
  | APre _ _ | AUni _ _ => None
  end.

(* Unicode-aware predefined classes *)
Definition upre (p : predef) (c : Z) : bool :=
  match p with
  | PWord => uni N_L c || uni N_Mn c || uni N_Nd c || uni N_Pc c
  | PDigit => uni N_Nd c
  | PSpace => in_range 9 13 c || (c =? 32) || (c =? 133) || uni N_Z c
  | PHoriz => (c =? 9) || uni N_Zs c
  | PVert => in_range 10 13 c || (c =? 133) || (c =? 8232) || (c =? 8233)
  end.
(* under `a` they only match ASCII characters: the ASCII members of the same classes
   (L, Mn, Nd, Pc, Z, Zs restricted to ASCII are written out).  One deliberate exception:
   the ASCII \s is the classic Perl/Go set [\t\n\f\r ] WITHOUT the vertical tab, although the
   Unicode-aware \s contains \v; this follows the implementation (and its tests, which pin
   `\s` -> `\s` under `a`) and is recorded as an observation, not as a defect. *)
Definition apre (p : predef) (c : Z) : bool :=
  match p with
  | PWord => ascii_word c
  | PDigit => in_range 48 57 c
  | PSpace => (c =? 9) || (c =? 10) || (c =? 12) || (c =? 13) || (c =? 32)
  | PHoriz => (c =? 9) || (c =? 32)
  | PVert => in_range 10 13 c
  end.
Definition elk_pre (ascii : bool) (p : predef) : Z -> bool := if ascii then apre p else upre p.

(* polarity and positive set of an atom *)
Definition atom_set (ascii : bool) (a : atom) : bool * (Z -> bool) :=
  match a with
  | APre neg p => (neg, elk_pre ascii p)
  | AUni neg name => (neg, uni name)
  | _ => (false, match atom_val a with Some v => Z.eqb v | None => fun _ => false end)
  end.

Definition atom_sem (f : flags) (a : atom) (c : Z) : bool :=
  let '(neg, P) := atom_set (fa f) a in signed (fi f) neg P c.

Definition citem_sem (f : flags) (it : citem) (c : Z) : bool :=
  match it with
  | CIAtom a => atom_sem f a c
  | CIRange l r =>
      match atom_val l, atom_val r with
      | Some lo, Some hi => signed (fi f) false (in_range lo hi) c
      | _, _ => false
      end
  | CINamed neg name => signed (fi f) neg (posix name) c
  end.

Definition class_sem (f : flags) (neg : bool) (items : list citem) (c : Z) : bool :=
  pol neg (existsb (fun it => citem_sem f it c) items).

Fixpoint me (f : flags) (r : re) {struct r} : tf * flags :=
  match r with
  | RAtom a => (one (atom_sem f a), f)
  | RAny => (one (dot_set (fs f)), f)
  | RBol => (guard (at_bol (fm f)), f)
  | REol => (guard (at_eol (fm f)), f)
  | RAbsBeg => (guard (fun j => (j =? 0)%nat), f)
  | RAbsEnd => (guard (fun j => (j =? slen)%nat), f)
  | RWordB => (guard boundary, f)
  | RNotWordB => (guard (fun j => negb (boundary j)), f)
  | RQuoted txt => (tquoted (fi f) txt, f)
  | RClass neg items => (one (class_sem f neg items), f)
  | RConcat l =>
      (fix go (f : flags) (l : list re) {struct l} : tf * flags :=
         match l with
         | [] => (tid, f)
         | x :: t => let '(A, f1) := me f x in let '(B, f2) := go f1 t in (tcomp A B, f2)
         end) f l
  | RUnion a b =>
      let '(A, f1) := me f a in
      let '(B, f2) := me f1 b in
      (talt A B, f2)
  | RGroup k body =>
      match body with
      | Some b =>
          (* a group with content: flags set by it or inside it end with the group *)
          let f1 := match k with GFlags st un => apply_flags f st un | _ => f end in
          (fst (me f1 b), f)
      | None =>
          (* (?flags): the rest of the enclosing group runs under the new flags *)
          (tid, match k with GFlags st un => apply_flags f st un | _ => f end)
      end
  | RQuant q alt r0 =>
      let '(A, f1) := me f r0 in (trep q A, f1)
  end.

Definition matches_elk (f : flags) (r : re) : bool := matches (fst (me f r)).

(* =================================================================== Go *)

Definition ctl_val (k : ctl) : Z :=
  match k with CA => 7 | CF => 12 | CT => 9 | CN => 10 | CR => 13 | CV => 11 end.
Definition lit_val (l : lit2) : Z :=
  match l with
  | L2Raw c => c
  | L2Esc c => c
  | L2Ctl k => ctl_val k
  | L2Hex ds => hex_val ds
  | L2Hex2 ds => hex_val ds
  | L2Oct ds => oct_val ds
  end.
(* Perl classes are ASCII in Go; \s = [\t\n\f\r ] *)
Definition perl_set (k : perlk) (c : Z) : bool :=
  match k with
  | KD => in_range 48 57 c
  | KW => ascii_word c
  | KS => (c =? 9) || (c =? 10) || (c =? 12) || (c =? 13) || (c =? 32)
  end.

Definition item2_sem (ci : bool) (it : item2) (c : Z) : bool :=
  match it with
  | I2Lit l => signed ci false (Z.eqb (lit_val l)) c
  | I2Range l r => signed ci false (in_range (lit_val l) (lit_val r)) c
  | I2BadRange _ => false
  | I2Perl neg k => signed ci neg (perl_set k) c
  | I2Uni neg name => signed ci neg (uni name) c
  | I2Posix neg name => signed ci neg (posix name) c
  | I2Err => false
  end.

Fixpoint m2 (g : gflags) (r : re2) {struct r} : tf * gflags :=
  match r with
  | R2Empty => (tid, g)
  | R2Lit l => (one (signed (gi g) false (Z.eqb (lit_val l))), g)
  | R2Any => (one (dot_set (gs g)), g)
  | R2Bol => (guard (at_bol (gm g)), g)
  | R2Eol => (guard (at_eol (gm g)), g)
  | R2BegText => (guard (fun j => (j =? 0)%nat), g)
  | R2EndText => (guard (fun j => (j =? slen)%nat), g)
  | R2WordB => (guard boundary, g)
  | R2NoWordB => (guard (fun j => negb (boundary j)), g)
  | R2Perl neg k => (one (signed (gi g) neg (perl_set k)), g)
  | R2Uni neg name => (one (signed (gi g) neg (uni name)), g)
  | R2Quoted txt => (tquoted (gi g) txt, g)
  | R2Class neg items => (one (fun c => pol neg (existsb (fun it => item2_sem (gi g) it c) items)), g)
  | R2Cat l =>
      (fix go (g : gflags) (l : list re2) {struct l} : tf * gflags :=
         match l with
         | [] => (tid, g)
         | x :: t => let '(A, g1) := m2 g x in let '(B, g2) := go g1 t in (tcomp A B, g2)
         end) g l
  | R2Alt a b =>
      let '(A, g1) := m2 g a in
      let '(B, g2) := m2 g1 b in
      (talt A B, g2)
  | R2Group k body =>
      let g1 := match k with G2Flags st un => apply_gflags g st un | _ => g end in
      (fst (m2 g1 body), g)
  | R2SetFlags st un => (tid, apply_gflags g st un)
  | R2Rep r0 q alt => let '(A, g1) := m2 g r0 in (trep q A, g1)
  | R2Err => (tid, g)
  end.

(* regexp.MustCompile(text).MatchString(s): compilation starts with no flags *)
Definition matches_re2 (r : re2) : bool := matches (fst (m2 no_gflags r)).

End Sem.
