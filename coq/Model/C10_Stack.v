(* C10 / C13 — executable model of the Elk VM's value stack, call frames and upvalues
   (vm/thread.go: push/pop, callBytecodeFunction, restoreLastFrame, captureUpvalue,
   opCloseUpvalues, opGetUpvalue/opSetUpvalue, growValueStack; vm/upvalue.go).

   `impl` layer (record st, function step): the machine works on *addresses*
   (base + W*i, W = unsafe.Sizeof(value.Value) = 24) in a flat memory `mem : Z -> Z`, so the
   pointer arithmetic of growValueStack is expressible.  uintptr arithmetic is modelled in
   unbounded Z (addresses are assumed far from 2^64; the wrap-around of the old, wrong
   formulas is equivalent to the negative numbers used here).
   `spec` layer (record sst, function sstep): store semantics; every variable instance is a
   heap cell, a closure (handle) holds a cell reference, there are no addresses.
   No proofs here so the model always runs. *)
From Elk Require Export Base.GoSem.
Open Scope Z_scope.

Definition W : Z := 24.   (* value.ValueSize *)

Inductive ucell : Type :=
| UOpen (a : Z)      (* Upvalue.slot points to a stack slot with address a *)
| UClosed (v : Z).   (* Upvalue.slot points to its own `closed` field holding v *)

Definition upd {A} (f : nat -> A) (k : nat) (x : A) : nat -> A :=
  fun n => if Nat.eqb n k then x else f n.
Definition updz {A} (f : Z -> A) (k : Z) (x : A) : Z -> A :=
  fun n => if Z.eqb n k then x else f n.

(* micro-operations; every read is appended to the output trace *)
Inductive op : Type :=
| OPush (v : Z)             (* vm.push *)
| OPop                      (* vm.pop *)
| OGetLocal (i : Z)         (* opGetLocal: reads *fpAdd(i) *)
| OSetLocal (i : Z) (v : Z) (* setLocalValue *)
| OCapture (i : Z)          (* captureUpvalue(fpAdd(i)); the result becomes the next handle *)
| OGetUp (h : nat)          (* Upvalue.Get through handle h *)
| OSetUp (h : nat) (v : Z)  (* Upvalue.Set through handle h *)
| OClose (i : Z)            (* opCloseUpvalues(fp + i) : CLOSE_UPVALUES_TO i *)
| OCall (n : Z)             (* callBytecodeFunction: the n = paramCount+1 top slots become the new frame *)
| ORet                      (* restoreLastFrame *)
| OGrow (nb : Z)            (* growValueStack; nb = address the allocator returns for the new array *)
| ONewVar (i : Z)           (* a NEW VARIABLE INSTANCE starts in the existing slot fp+i with the slot's current
                               contents (next loop iteration, slot reused by a later declaration).  The machine
                               executes nothing for it; only the store-semantics spec sees it. *)
| OTailCall (a lc : Z)      (* callBytecodeFunctionTCO with the fix (opCloseUpvalues(fp) first): a = paramCount+1
                               argument slots on top, lc = vm.localCount of the frame that is being reused *)
| OTailCallOld (a lc : Z)   (* callBytecodeFunctionTCO as found: the frame is reused without closing *)
| OUnwind.                  (* Thread.rethrow discarding ONE call frame while an error travels up: restoreLastFrame -
                               the upvalues at or above the POPPED frame's base are closed, the caller's registers are
                               restored and the caller's own open upvalues are untouched; whatever lies on top of the
                               stack lands in the slot where the frame began (the handler pops it).  rethrow repeats
                               this per frame and then pushes the stack trace and the error in the catching frame
                               (two OPush). *)

Record st : Type := mkst {
  base : Z;              (* &vm.stack[0] *)
  cap : Z;               (* len(vm.stack) in slots *)
  mem : Z -> Z;          (* memory: address -> value *)
  sp : Z;                (* vm.sp (address) *)
  fp : Z;                (* vm.fp (address) *)
  frames : list Z;       (* cf.fp of the live call frames, innermost first *)
  opens : list nat;      (* vm.openUpvalueHead linked list (upvalue ids), head first *)
  heap : nat -> ucell;   (* upvalue objects by id *)
  nheap : nat;           (* number of allocated upvalues *)
  handles : nat -> nat;  (* handle -> upvalue id (what closures hold) *)
  nh : nat;              (* number of handles *)
  out : list Z           (* observable reads, newest first *)
}.

Definition SENTINEL : Z := -7.

(* vm.New: zeroed array, the sentinel value in the last slot *)
Definition init_st (b c : Z) : st :=
  mkst b c (fun a => if a =? b + W * (c - 1) then SENTINEL else 0) b b [] []
       (fun _ => UClosed 0) 0 (fun _ => 0%nat) 0 [].

(* address stored in Upvalue.slot; for a closed upvalue it is a Go heap address outside the
   stack, represented by -1 (never compared equal to or above a stack address) *)
Definition addr_of (c : ucell) : Z := match c with UOpen a => a | UClosed _ => -1 end.

(* captureUpvalue: walk the list while current.slot > slot; share on equality, else insert *)
Fixpoint cap_ins (h : nat -> ucell) (slot : Z) (newid : nat) (l : list nat) : list nat * nat :=
  match l with
  | [] => ([newid], newid)
  | u :: r =>
      if addr_of (h u) <=? slot then
        (if addr_of (h u) =? slot then (l, u) else (newid :: l, newid))
      else let '(r', id) := cap_ins h slot newid r in (u :: r', id)
  end.

Definition close_cell (m : Z -> Z) (c : ucell) : ucell :=
  match c with UOpen a => UClosed (m a) | UClosed v => UClosed v end.

(* opCloseUpvalues(last): pop and Close() list heads while head.slot >= last *)
Fixpoint close_to (last : Z) (m : Z -> Z) (h : nat -> ucell) (l : list nat)
  : (nat -> ucell) * list nat :=
  match l with
  | [] => (h, [])
  | u :: r =>
      if addr_of (h u) <? last then (h, l)
      else close_to last m (upd h u (close_cell m (h u))) r
  end.

Definition uget (s : st) (u : nat) : Z :=
  match heap s u with UOpen a => mem s a | UClosed v => v end.

(* ---- growValueStack ---- *)
(* fixed helper: number of slots from `from` up to `to` *)
Definition off_from_to (from to : Z) : Z := Z.quot (to - from) W.
(* helper as written in the unfixed code: (from - to) / ValueSize *)
Definition off_from_to_old (from to : Z) : Z := Z.quot (from - to) W.

(* copy(newStack, vm.stack); zero tail; sentinel in the last slot *)
Definition copy_mem (m : Z -> Z) (ob nb c : Z) : Z -> Z :=
  fun a =>
    if a =? nb + W * (2 * c - 1) then SENTINEL
    else if (nb <=? a) && (a <? nb + W * c) then m (a - nb + ob)
    else if (nb <=? a) && (a <? nb + W * (2 * c)) then 0
    else m a.

Definition rebase_cell (offf : Z -> Z -> Z) (ob nb : Z) (c : ucell) : ucell :=
  match c with UOpen a => UOpen (nb + W * offf ob a) | UClosed v => UClosed v end.

(* growValueStack after the fix: live frames rebased with (fp - old)/W, every upvalue on
   the open list rebased exactly once, fp/sp from their offsets *)
Definition grow (s : st) (nb : Z) : st :=
  let ob := base s in
  mkst nb (2 * cap s) (copy_mem (mem s) ob nb (cap s))
       (nb + W * off_from_to ob (sp s))
       (nb + W * off_from_to ob (fp s))
       (map (fun a => nb + W * off_from_to ob a) (frames s))
       (opens s)
       (fold_left (fun h u => upd h u (rebase_cell off_from_to ob nb (h u))) (opens s) (heap s))
       (nheap s) (handles s) (nh s) (out s).

(* growValueStack as written before the fix: every call frame rebased with the helper
   that computes (old - fp)/W; the upvalues reached through cf.upvalues / vm.upvalues
   (`reach`, with multiplicity) rebased with the same helper; the open list is not walked *)
Definition grow_old (s : st) (nb : Z) (reach : list nat) : st :=
  let ob := base s in
  mkst nb (2 * cap s) (copy_mem (mem s) ob nb (cap s))
       (nb + W * Z.quot (sp s - ob) W)
       (nb + W * Z.quot (fp s - ob) W)
       (map (fun a => nb + W * off_from_to_old ob a) (frames s))
       (opens s)
       (fold_left (fun h u => upd h u (rebase_cell off_from_to_old ob nb (h u))) reach (heap s))
       (nheap s) (handles s) (nh s) (out s).

Definition zseq (n : Z) : list Z := map Z.of_nat (seq 0 (Z.to_nat n)).

(* callBytecodeFunctionTCO: for i := range localCount { *fpAdd(i) = *spAdd(-localCount + i) }, ascending *)
Definition tc_copy (m : Z -> Z) (f p a : Z) : Z -> Z :=
  fold_left (fun m' i => updz m' (f + W * i) (m' (p - W * a + W * i))) (zseq a) m.

(* ---- one step of the implementation machine ---- *)
Definition step (s : st) (o : op) : st :=
  match s with
  | mkst b c m p f fr ol h n hd k ou =>
    match o with
    | OPush v => mkst b c (updz m p v) (p + W) f fr ol h n hd k ou
    | OPop => mkst b c (updz m (p - W) 0) (p - W) f fr ol h n hd k ou
    | OGetLocal i => mkst b c m p f fr ol h n hd k (m (f + W * i) :: ou)
    | OSetLocal i v => mkst b c (updz m (f + W * i) v) p f fr ol h n hd k ou
    | OCapture i =>
        let '(ol', id) := cap_ins h (f + W * i) n ol in
        if Nat.eqb id n
        then mkst b c m p f fr ol' (upd h n (UOpen (f + W * i))) (S n) (upd hd k id) (S k) ou
        else mkst b c m p f fr ol' h n (upd hd k id) (S k) ou
    | OGetUp x => mkst b c m p f fr ol h n hd k (uget s (hd x) :: ou)
    | OSetUp x v =>
        match h (hd x) with
        | UOpen a => mkst b c (updz m a v) p f fr ol h n hd k ou
        | UClosed _ => mkst b c m p f fr ol (upd h (hd x) (UClosed v)) n hd k ou
        end
    | OClose i =>
        let '(h', ol') := close_to (f + W * i) m h ol in
        mkst b c m p f fr ol' h' n hd k ou
    | OCall a => mkst b c m p (p - W * a) (f :: fr) ol h n hd k ou
    | ORet =>
        let rv := m (p - W) in
        let '(h', ol') := close_to f m h ol in
        mkst b c (updz m f rv) (f + W) (List.hd f fr) (List.tl fr) ol' h' n hd k ou
    | OGrow nb => grow s nb
    | ONewVar _ => s
    | OTailCall a lc =>
        let '(h', ol') := close_to f m h ol in
        mkst b c (tc_copy m f p a) (p - W * lc) f fr ol' h' n hd k ou
    | OTailCallOld a lc =>
        mkst b c (tc_copy m f p a) (p - W * lc) f fr ol h n hd k ou
    | OUnwind =>
        let rv := m (p - W) in
        let '(h', ol') := close_to f m h ol in
        mkst b c (updz m f rv) (f + W) (List.hd f fr) (List.tl fr) ol' h' n hd k ou
    end
  end.

(* error unwinding that restores the caller's registers FIRST and then closes from the (caller's) frame pointer:
   every open upvalue of the frame the error propagates into is closed although its variables are still in scope *)
Definition unwind_from_caller (s : st) : st :=
  match s with
  | mkst b c m p f fr ol h n hd k ou =>
      let rv := m (p - W) in
      let '(h', ol') := close_to (List.hd f fr) m h ol in
      mkst b c (updz m f rv) (f + W) (List.hd f fr) (List.tl fr) ol' h' n hd k ou
  end.

Definition step_caller_close (s : st) (o : op) : st :=
  match o with OUnwind => unwind_from_caller s | _ => step s o end.

Definition run_caller_close (s : st) (t : list op) : st := fold_left step_caller_close t s.

(* a raw ADDRESS of a stack slot taken before a call and written through afterwards (what caching
   `vm.spAdd(-1)` across CallMethod does): a plain memory write, no rebasing *)
Definition poke (s : st) (a v : Z) : st :=
  match s with
  | mkst b c m p f fr ol h n hd k ou => mkst b c (updz m a v) p f fr ol h n hd k ou
  end.

Definition run (s : st) (t : list op) : st := fold_left step t s.

(* capacity guard: the Go code writes outside the array when this fails *)
Definition fits (s : st) (o : op) : bool :=
  match o with
  | OPush _ => sp s + W <=? base s + W * cap s
  | _ => true
  end.

Fixpoint fits_run (s : st) (t : list op) : bool :=
  match t with [] => true | o :: r => fits s o && fits_run (step s o) r end.

(* ---- offset view: what the program can observe, addresses forgotten ---- *)
Inductive acell : Type := AOpen (byteoff : Z) | AClosed (v : Z).
Definition acell_of (b : Z) (c : ucell) : acell :=
  match c with UOpen a => AOpen (a - b) | UClosed v => AClosed v end.

Record aview : Type := mkav {
  a_cap : Z; a_sp : Z; a_fp : Z; a_frames : list Z;   (* byte offsets from the base *)
  a_stack : list Z;                                   (* live slots 0 .. sp *)
  a_opens : list nat; a_heap : list acell;
  a_handles : list nat; a_out : list Z
}.

Definition abs (s : st) : aview :=
  mkav (cap s) (sp s - base s) (fp s - base s) (map (fun a => a - base s) (frames s))
       (map (fun j => mem s (base s + W * j)) (zseq (Z.quot (sp s - base s) W)))
       (opens s) (map (fun u => acell_of (base s) (heap s u)) (seq 0 (nheap s)))
       (map (handles s) (seq 0 (nh s))) (out s).

(* the same view with the capacity doubled: what growth is allowed to change *)
Definition abs_resized (s : st) : aview :=
  let v := abs s in
  mkav (2 * a_cap v) (a_sp v) (a_fp v) (a_frames v) (a_stack v) (a_opens v) (a_heap v)
       (a_handles v) (a_out v).

(* ---- spec: store semantics, every variable instance is a heap cell ---- *)
Record sst : Type := mksst {
  ssp : Z; sfp : Z;         (* slot offsets *)
  sframes : list Z;
  sslots : Z -> nat;        (* slot offset -> cell of the variable instance living there *)
  cells : nat -> Z;         (* the store *)
  nextc : nat;              (* next fresh cell *)
  shandles : nat -> nat;    (* handle -> cell *)
  snh : nat;
  sout : list Z
}.

Definition init_sst : sst :=
  mksst 0 0 [] (fun _ => 0%nat) (fun _ => 0) 0 (fun _ => 0%nat) 0 [].

Definition sstep (t : sst) (o : op) : sst :=
  match t with
  | mksst p f fr sl ce nx hd k ou =>
    match o with
    | OPush v => mksst (p + 1) f fr (updz sl p nx) (upd ce nx v) (S nx) hd k ou
    | OPop => mksst (p - 1) f fr sl ce nx hd k ou
    | OGetLocal i => mksst p f fr sl ce nx hd k (ce (sl (f + i)) :: ou)
    | OSetLocal i v => mksst p f fr sl (upd ce (sl (f + i)) v) nx hd k ou
    | OCapture i => mksst p f fr sl ce nx (upd hd k (sl (f + i))) (S k) ou
    | OGetUp x => mksst p f fr sl ce nx hd k (ce (hd x) :: ou)
    | OSetUp x v => mksst p f fr sl (upd ce (hd x) v) nx hd k ou
    | OClose i =>
        (* the variable instances in slots fp+i .. sp end here: the slots get fresh cells
           (same contents); closures keep the old cells *)
        let lo := f + i in
        let n := Z.to_nat (p - lo) in
        mksst p f fr
              (fun j => if (lo <=? j) && (j <? p) then (nx + Z.to_nat (j - lo))%nat else sl j)
              (fun c => if (nx <=? c)%nat && (c <? nx + n)%nat
                        then ce (sl (lo + Z.of_nat (c - nx))) else ce c)
              (nx + n)%nat hd k ou
    | OCall a => mksst p (p - a) (f :: fr) sl ce nx hd k ou
    | ORet =>
        (* the frame's variables die (their cells survive while closures hold them);
           the return value becomes a fresh temporary in the slot where the frame began *)
        mksst (f + 1) (List.hd 0 fr) (List.tl fr) (updz sl f nx) (upd ce nx (ce (sl (p - 1))))
              (S nx) hd k ou
    | OGrow _ => t
    | ONewVar i =>
        (* the old instance keeps its cell (closures holding it keep seeing it); the slot gets a
           fresh cell with the same contents *)
        mksst p f fr (updz sl (f + i) nx) (upd ce nx (ce (sl (f + i)))) (S nx) hd k ou
    | OUnwind =>
        (* as a return: the frame's variables die, the slot where the frame began holds a fresh temporary *)
        mksst (f + 1) (List.hd 0 fr) (List.tl fr) (updz sl f nx) (upd ce nx (ce (sl (p - 1))))
              (S nx) hd k ou
    | OTailCall a lc | OTailCallOld a lc =>
        (* every variable instance of the frame dies; the a argument values become the fresh
           parameter instances of the callee in slots fp .. fp+a-1 *)
        let n := Z.to_nat a in
        mksst (p - lc) f fr
              (fun j => if (f <=? j) && (j <? f + a) then (nx + Z.to_nat (j - f))%nat else sl j)
              (fun c => if (nx <=? c)%nat && (c <? nx + n)%nat
                        then ce (sl (p - a + Z.of_nat (c - nx))) else ce c)
              (nx + n)%nat hd k ou
    end
  end.

Definition srun (t : sst) (l : list op) : sst := fold_left sstep l t.

(* Discipline D + well-formedness, evaluated on the spec state: operands in range, and a
   slot is never popped, never given to a new variable instance and never handed to a
   tail-called function that does not close (as-found machine) while a closure still refers
   to the variable instance living in it (the compiler must have emitted CLOSE_UPVALUES_TO
   first).  Return and the FIXED tail call close by themselves, so they need no such guard. *)
Definition no_handle_on (t : sst) (c : nat) : bool :=
  forallb (fun x => negb (Nat.eqb (shandles t x) c)) (seq 0 (snh t)).

Definition no_handle_in_frame (t : sst) : bool :=
  forallb (fun k => no_handle_on t (sslots t (sfp t + k))) (zseq (ssp t - sfp t)).

Definition ok (t : sst) (o : op) : bool :=
  match o with
  | OPush _ => true
  | OPop => (sfp t <? ssp t) && no_handle_on t (sslots t (ssp t - 1))
  | OGetLocal i | OSetLocal i _ | OCapture i => (0 <=? i) && (sfp t + i <? ssp t)
  | OGetUp x | OSetUp x _ => (x <? snh t)%nat
  | OClose i => (0 <=? i) && (sfp t + i <=? ssp t)
  | OCall a => (0 <=? a) && (sfp t <=? ssp t - a)
  | ORet | OUnwind =>
            match sframes t with
            | [] => false
            | g :: _ => (0 <=? g) && (g <=? sfp t) && (sfp t <? ssp t)
            end
  | OGrow _ => true
  | ONewVar i => (0 <=? i) && (sfp t + i <? ssp t) && no_handle_on t (sslots t (sfp t + i))
  | OTailCall a lc => (0 <=? a) && (0 <=? lc) && (ssp t =? sfp t + lc + a)
  | OTailCallOld a lc => (0 <=? a) && (0 <=? lc) && (ssp t =? sfp t + lc + a) && no_handle_in_frame t
  end.

(* the as-found machine: tail calls do not close *)
Definition as_found (o : op) : op :=
  match o with OTailCall a lc => OTailCallOld a lc | _ => o end.

Fixpoint D (t : sst) (l : list op) : bool :=
  match l with [] => true | o :: r => ok t o && D (sstep t o) r end.
