(* C02 - static types describe runtime values: executable model (no proofs in this file).

   Types   Int Float String bool(types.Bool) Std::Bool(class) nil any never, literal types
           (`1`, `2.5`, `"ab"`, true, false), t?, a | b.
   mem     value-set semantics  [[t]] : value -> bool.
   subtype mirrors types/checker/predicate.go isSubtype (464-763) on these constructors:
             never <= everything; everything <= any; any <= only any;
             union on the left = all members, nilable on the left = t and nil;
             then union on the right = some member, nilable on the right = t or nil;
             then atoms: literal <= its class (the ToNonLiteral step, 578-581), literal = literal by
             value, true/false <= bool, bool and Std::Bool mutually, class = class.
   narrowing mirrors types/checker/narrow.go narrowLocal (480-502) / narrowEqual (350-359):
             ToNonFalsy = t & ~nil & ~false, ToNonTruthy = t & (nil | false), t & nil, ToNonNilable,
             computed member-wise as NewNormalisedIntersection distributes over unions (normalise.go
             1054-1157). Where the real result is not expressible here (Std::Bool & ~false, any & ~nil)
             the function returns None and the model checker rejects the program (outside the fragment).
   Unions are NOT re-normalised (NewNormalisedUnion only absorbs members that are subtypes of other
   members, which changes neither the value set nor - subtype being transitive on this fragment - any
   verdict); `mk_union` only drops never.
   Local environment: every variable has a CHAIN of types, head = the current (innermost narrowed)
   type, last = the declared type; this is the shadow chain of types/checker/local.go. An assignment
   walks the chain outwards to the first level that accepts the assigned type and widens all inner
   levels to it (checkLocalVariableAssignment, checker.go 6293-6340).
   Statements: declarations, assignment, if with narrowing (`if x`, `if !c`, `if x == nil`,
   `if x != nil`), probes (`var t: T = e` + print), and - for the refutations only - while loops and
   closures assigning outer variables. *)
From Coq Require Import ZArith List Bool.
Import ListNotations.
Open Scope Z_scope.

Definition var := Z.
Definition str := list Z.

Inductive ty : Type :=
| TInt | TFloat | TString | TBool | TBoolC | TNil | TAny | TNever
| TLitI (z : Z) | TLitF (m e : Z) | TLitS (s : str) | TTrue | TFalse
| TNilable (t : ty) | TUnion (a b : ty).

(* VFloat m e = m / 2^e (e >= 0): dyadic rationals, exact for + - * *)
Inductive value : Type :=
| VInt (z : Z) | VFloat (m e : Z) | VStr (s : str) | VBool (b : bool) | VNil.

Fixpoint str_eqb (a b : str) : bool :=
  match a, b with
  | [], [] => true
  | x :: a', y :: b' => (x =? y) && str_eqb a' b'
  | _, _ => false
  end.

Definition feq (m1 e1 m2 e2 : Z) : bool := m1 * 2 ^ e2 =? m2 * 2 ^ e1.
Definition flt (m1 e1 m2 e2 : Z) : bool := m1 * 2 ^ e2 <? m2 * 2 ^ e1.
Definition fle (m1 e1 m2 e2 : Z) : bool := m1 * 2 ^ e2 <=? m2 * 2 ^ e1.

Definition is_nil (v : value) : bool := match v with VNil => true | _ => false end.
Definition truthy (v : value) : bool := match v with VNil | VBool false => false | _ => true end.

(* ---------------------------------------------------------------- value sets *)
Fixpoint mem (t : ty) (v : value) : bool :=
  match t with
  | TInt => match v with VInt _ => true | _ => false end
  | TFloat => match v with VFloat _ _ => true | _ => false end
  | TString => match v with VStr _ => true | _ => false end
  | TBool | TBoolC => match v with VBool _ => true | _ => false end
  | TNil => is_nil v
  | TAny => true
  | TNever => false
  | TLitI z => match v with VInt z' => z =? z' | _ => false end
  | TLitF m e => match v with VFloat m' e' => feq m e m' e' | _ => false end
  | TLitS s => match v with VStr s' => str_eqb s s' | _ => false end
  | TTrue => match v with VBool true => true | _ => false end
  | TFalse => match v with VBool false => true | _ => false end
  | TNilable t1 => is_nil v || mem t1 v
  | TUnion a b => mem a v || mem b v
  end.

(* ---------------------------------------------------------------- subtype *)
Definition atom_sub (a b : ty) : bool :=
  match a, b with
  | TInt, TInt | TFloat, TFloat | TString, TString | TNil, TNil => true
  | TBool, TBool | TBool, TBoolC | TBoolC, TBool | TBoolC, TBoolC => true
  | TTrue, TTrue | TTrue, TBool | TTrue, TBoolC => true
  | TFalse, TFalse | TFalse, TBool | TFalse, TBoolC => true
  | TLitI z, TLitI z' => z =? z'
  | TLitI _, TInt => true
  | TLitF m e, TLitF m' e' => (m =? m') && (e =? e')
  | TLitF _ _, TFloat => true
  | TLitS s, TLitS s' => str_eqb s s'
  | TLitS _, TString => true
  | _, _ => false
  end.

(* a is an atom: not never / any / union / nilable *)
Fixpoint sub_r (a b : ty) : bool :=
  match b with
  | TAny => true
  | TUnion b1 b2 => sub_r a b1 || sub_r a b2
  | TNilable b1 => sub_r a b1 || atom_sub a TNil
  | _ => atom_sub a b
  end.

(* any <= b only when b IS any. A declared `any | T` / `any?` is normalised to `any` by the checker
   before isSubtype sees it (NewNormalisedUnion / normaliseNilable), so "is any" here means "has any
   as a member". *)
Fixpoint is_any (t : ty) : bool :=
  match t with
  | TAny => true
  | TUnion a b => is_any a || is_any b
  | TNilable a => is_any a
  | _ => false
  end.

Fixpoint subtype (a b : ty) : bool :=
  match a with
  | TNever => true
  | TAny => is_any b
  | TUnion a1 a2 => subtype a1 b && subtype a2 b
  | TNilable a1 => subtype a1 b && sub_r TNil b
  | _ => sub_r a b
  end.

(* ---------------------------------------------------------------- narrowing *)
Definition mk_union (a b : ty) : ty :=
  match a, b with
  | TNever, _ => b
  | _, TNever => a
  | _, _ => TUnion a b
  end.

(* ToNonFalsy: t & ~nil & ~false *)
Fixpoint non_falsy (t : ty) : option ty :=
  match t with
  | TNil | TFalse | TNever => Some TNever
  | TBool => Some TTrue
  | TBoolC | TAny => None
  | TNilable t1 => non_falsy t1
  | TUnion a b =>
      match non_falsy a, non_falsy b with
      | Some x, Some y => Some (mk_union x y)
      | _, _ => None
      end
  | _ => Some t
  end.

(* ToNonTruthy: t & (nil | false) *)
Fixpoint non_truthy (t : ty) : ty :=
  match t with
  | TNil => TNil
  | TFalse | TBool | TBoolC => TFalse
  | TAny => TUnion TNil TFalse
  | TNilable t1 => mk_union (non_truthy t1) TNil
  | TUnion a b => mk_union (non_truthy a) (non_truthy b)
  | _ => TNever
  end.

(* t & nil  (narrowEqual with the literal nil on the other side) *)
Fixpoint only_nil (t : ty) : ty :=
  match t with
  | TNil | TAny | TNilable _ => TNil
  | TUnion a b => mk_union (only_nil a) (only_nil b)
  | _ => TNever
  end.

(* ToNonNilable: t & ~nil (the `~` makes the checker expand bool into true | false) *)
Fixpoint non_nil (t : ty) : option ty :=
  match t with
  | TNil | TNever => Some TNever
  | TAny => None
  | TBool => Some (TUnion TTrue TFalse)
  | TNilable t1 => non_nil t1
  | TUnion a b =>
      match non_nil a, non_nil b with
      | Some x, Some y => Some (mk_union x y)
      | _, _ => None
      end
  | _ => Some t
  end.

Definition can_be_falsy (t : ty) : bool := subtype TFalse t || subtype TNil t.
Fixpoint can_be_truthy (t : ty) : bool :=
  match t with
  | TNil | TFalse | TNever => false
  | TNilable t1 => can_be_truthy t1
  | TUnion a b => can_be_truthy a || can_be_truthy b
  | _ => true
  end.
Definition is_truthy (t : ty) : bool := negb (can_be_falsy t).
Definition is_falsy (t : ty) : bool := negb (can_be_truthy t).
Definition is_nilable (t : ty) : bool := subtype TNil t.

(* ToNonLiteral(t, false) applied to inferred variable types (`x := e`) *)
Fixpoint nonlit (t : ty) : ty :=
  match t with
  | TLitI _ => TInt
  | TLitF _ _ => TFloat
  | TLitS _ => TString
  | TTrue | TFalse => TBool
  | TUnion a b => TUnion (nonlit a) (nonlit b)
  | _ => t
  end.

(* ---------------------------------------------------------------- expressions *)
Inductive binop : Type := Add | Sub | Mul | Lt | Le | Eq.

Inductive expr : Type :=
| ELitI (z : Z) | ELitF (m e : Z) | ELitS (s : str) | EBoolLit (b : bool) | ENilLit
| EVar (x : var)
| EBin (o : binop) (a b : expr)
| ENeg (a : expr)
| ENot (a : expr)
| EIsNil (neg : bool) (a : expr)       (* a == nil / a != nil *)
| EAnd (a b : expr) | EOr (a b : expr) | ENilCo (a b : expr).

Definition tenv := list (var * list ty).
Definition venv := list (var * value).

Fixpoint lookup {A : Type} (x : var) (l : list (var * A)) : option A :=
  match l with
  | [] => None
  | (y, a) :: r => if y =? x then Some a else lookup x r
  end.

Definition cur (G : tenv) (x : var) : option ty :=
  match lookup x G with Some (t :: _) => Some t | _ => None end.

Definition upd (x : var) (f : list ty -> list ty) (G : tenv) : tenv :=
  map (fun p => if fst p =? x then (fst p, f (snd p)) else p) G.

Definition push_opt (n : option (var * ty)) (G : tenv) : tenv :=
  match n with
  | None => G
  | Some (x, t) => upd x (fun ch => t :: ch) G
  end.

Inductive assume : Type := ATruthy | AFalsy.
Definition negate (a : assume) : assume := match a with ATruthy => AFalsy | AFalsy => ATruthy end.

(* narrowCondition. G0 = environment in which the condition was checked (narrowLocal uses the type
   recorded on the identifier node), G = environment at the time the branch is entered
   (narrowToIntersectWith reads the local's current type).
   None = outside the modelled fragment; Some None = nothing is narrowed. *)
Fixpoint narrow (G0 G : tenv) (c : expr) (a : assume) : option (option (var * ty)) :=
  match c with
  | EVar x =>
      match cur G0 x with
      | None => None
      | Some t =>
          match a with
          | ATruthy => match non_falsy t with Some t' => Some (Some (x, t')) | None => None end
          | AFalsy => Some (Some (x, non_truthy t))
          end
      end
  | ENot c1 => narrow G0 G c1 (negate a)
  | EIsNil neg (EVar x) =>
      match (if neg then negate a else a) with
      | ATruthy => match cur G x with Some t => Some (Some (x, only_nil t)) | None => None end
      | AFalsy => Some None
      end
  | EAnd _ _ | EOr _ _ | ENilCo _ _ => None
  | _ => Some None
  end.

Inductive kind : Type := KInt | KFloat | KStr | KOther.
Definition kind_of (t : ty) : kind :=
  match t with
  | TInt | TLitI _ => KInt
  | TFloat | TLitF _ _ => KFloat
  | TString | TLitS _ => KStr
  | _ => KOther
  end.

Definition bin_type (o : binop) (ta tb : ty) : option ty :=
  match o with
  | Add | Sub | Mul =>
      match kind_of ta, kind_of tb with
      | KInt, KInt => Some TInt
      | KInt, KFloat | KFloat, KInt | KFloat, KFloat => Some TFloat
      | KStr, KStr => match o with Add => Some TString | _ => None end
      | _, _ => None
      end
  | Lt | Le =>
      match kind_of ta, kind_of tb with
      | KInt, KInt | KFloat, KFloat => Some TBoolC
      | _, _ => None
      end
  | Eq =>
      match kind_of ta, kind_of tb with
      | KInt, KInt | KFloat, KFloat | KStr, KStr => Some TBoolC
      | _, _ => None
      end
  end.

Fixpoint check_e (G : tenv) (e : expr) : option ty :=
  match e with
  | ELitI z => Some (TLitI z)
  | ELitF m x => Some (TLitF m x)
  | ELitS s => Some (TLitS s)
  | EBoolLit b => Some (if b then TTrue else TFalse)
  | ENilLit => Some TNil
  | EVar x => cur G x
  | EBin o a b =>
      match check_e G a, check_e G b with
      | Some ta, Some tb => bin_type o ta tb
      | _, _ => None
      end
  | ENeg a =>
      match check_e G a with
      | Some ta => match kind_of ta with KInt => Some TInt | KFloat => Some TFloat | _ => None end
      | None => None
      end
  | ENot a => match check_e G a with Some _ => Some TBoolC | None => None end
  | EIsNil _ a => match check_e G a with Some _ => Some TBoolC | None => None end
  | EAnd a b =>
      match check_e G a, narrow G G a ATruthy with
      | Some ta, Some n =>
          match check_e (push_opt n G) b with
          | Some tb =>
              if is_truthy ta then Some tb
              else if is_falsy ta then Some ta
              else Some (mk_union (non_truthy ta) tb)
          | None => None
          end
      | _, _ => None
      end
  | EOr a b =>
      match check_e G a, narrow G G a AFalsy with
      | Some ta, Some n =>
          match check_e (push_opt n G) b with
          | Some tb =>
              if is_truthy ta then Some ta
              else if is_falsy ta then Some tb
              else match non_falsy ta with Some nf => Some (mk_union nf tb) | None => None end
          | None => None
          end
      | _, _ => None
      end
  | ENilCo a b =>
      match a with
      | EVar x =>
          match cur G x with
          | Some ta =>
              match check_e (push_opt (Some (x, TNil)) G) b with
              | Some tb =>
                  if negb (is_nilable ta) then Some ta
                  else match non_nil ta with Some nn => Some (mk_union nn tb) | None => None end
              | None => None
              end
          | None => None
          end
      | _ => None
      end
  end.

(* ---------------------------------------------------------------- evaluation of expressions *)
Definition fadd (m1 e1 m2 e2 : Z) : value :=
  let e := Z.max e1 e2 in VFloat (m1 * 2 ^ (e - e1) + m2 * 2 ^ (e - e2)) e.
Definition fsub (m1 e1 m2 e2 : Z) : value := fadd m1 e1 (- m2) e2.
Definition fmul (m1 e1 m2 e2 : Z) : value := VFloat (m1 * m2) (e1 + e2).

Definition bin_val (o : binop) (a b : value) : option value :=
  match o, a, b with
  | Add, VInt x, VInt y => Some (VInt (x + y))
  | Sub, VInt x, VInt y => Some (VInt (x - y))
  | Mul, VInt x, VInt y => Some (VInt (x * y))
  | Add, VFloat m1 e1, VFloat m2 e2 => Some (fadd m1 e1 m2 e2)
  | Sub, VFloat m1 e1, VFloat m2 e2 => Some (fsub m1 e1 m2 e2)
  | Mul, VFloat m1 e1, VFloat m2 e2 => Some (fmul m1 e1 m2 e2)
  | Add, VInt x, VFloat m2 e2 => Some (fadd x 0 m2 e2)
  | Sub, VInt x, VFloat m2 e2 => Some (fsub x 0 m2 e2)
  | Mul, VInt x, VFloat m2 e2 => Some (fmul x 0 m2 e2)
  | Add, VFloat m1 e1, VInt y => Some (fadd m1 e1 y 0)
  | Sub, VFloat m1 e1, VInt y => Some (fsub m1 e1 y 0)
  | Mul, VFloat m1 e1, VInt y => Some (fmul m1 e1 y 0)
  | Add, VStr s, VStr t => Some (VStr (s ++ t))
  | Lt, VInt x, VInt y => Some (VBool (x <? y))
  | Le, VInt x, VInt y => Some (VBool (x <=? y))
  | Lt, VFloat m1 e1, VFloat m2 e2 => Some (VBool (flt m1 e1 m2 e2))
  | Le, VFloat m1 e1, VFloat m2 e2 => Some (VBool (fle m1 e1 m2 e2))
  | Eq, VInt x, VInt y => Some (VBool (x =? y))
  | Eq, VFloat m1 e1, VFloat m2 e2 => Some (VBool (feq m1 e1 m2 e2))
  | Eq, VStr s, VStr t => Some (VBool (str_eqb s t))
  | _, _, _ => None
  end.

Fixpoint eval_e (r : venv) (e : expr) : option value :=
  match e with
  | ELitI z => Some (VInt z)
  | ELitF m x => Some (VFloat m x)
  | ELitS s => Some (VStr s)
  | EBoolLit b => Some (VBool b)
  | ENilLit => Some VNil
  | EVar x => lookup x r
  | EBin o a b =>
      match eval_e r a, eval_e r b with
      | Some va, Some vb => bin_val o va vb
      | _, _ => None
      end
  | ENeg a =>
      match eval_e r a with
      | Some (VInt x) => Some (VInt (- x))
      | Some (VFloat m x) => Some (VFloat (- m) x)
      | _ => None
      end
  | ENot a => match eval_e r a with Some v => Some (VBool (negb (truthy v))) | None => None end
  | EIsNil neg a => match eval_e r a with Some v => Some (VBool (xorb neg (is_nil v))) | None => None end
  | EAnd a b => match eval_e r a with Some v => if truthy v then eval_e r b else Some v | None => None end
  | EOr a b => match eval_e r a with Some v => if truthy v then Some v else eval_e r b | None => None end
  | ENilCo a b => match eval_e r a with Some v => if is_nil v then eval_e r b else Some v | None => None end
  end.

(* ---------------------------------------------------------------- statements *)
Inductive stmt : Type :=
| SSkip
| SSeq (a b : stmt)
| SDecl (x : var) (t : ty) (e : expr)      (* var x: t = e *)
| SInfer (x : var) (e : expr)              (* x := e *)
| SAssign (x : var) (e : expr)             (* x = e *)
| SIf (c : expr) (a b : stmt)
| SProbe (k : Z) (t : ty) (e : expr)       (* var t_k: t = e; println(pr(t_k)) *)
| SWhile (c : expr) (b : stmt)
| SClosure (f : var) (b : stmt)            (* f := -> do b end *)
| SCall (f : var).                         (* f.() *)

Definition declared (G : tenv) (x : var) : bool :=
  match lookup x G with Some _ => true | None => false end.

(* checkLocalVariableAssignment: first level (from the innermost) that accepts the assigned type;
   all inner levels are widened to it. The extra test that the outer levels accept the type as well
   never fails on chains built by narrowing (outer levels are supersets); it keeps the invariant
   "the value inhabits every level" without a separate monotonicity argument. *)
Fixpoint assign_chain (te : ty) (ch : list ty) : option (list ty) :=
  match ch with
  | [] => None
  | t :: rest =>
      if subtype te t then (if forallb (subtype te) rest then Some ch else None)
      else match assign_chain te rest with
           | Some (t' :: rest') => Some (t' :: t' :: rest')
           | _ => None
           end
  end.

(* leaving a conditional scope: variables of G keep the chains they have in G' (widenings persist),
   the level pushed for the narrowed variable is dropped, locals declared inside are forgotten *)
Definition leave (G : tenv) (n : option (var * ty)) (G' : tenv) : tenv :=
  map (fun p =>
         let ch := match lookup (fst p) G' with Some c => c | None => snd p end in
         match n with
         | Some (x, _) => if fst p =? x then (fst p, tl ch) else (fst p, ch)
         | None => (fst p, ch)
         end) G.

(* the expression of a statement: a statement of type never makes checkStatements treat the rest of
   the body as unreachable and the enclosing `if` switch to in-place narrowing (checker.go 3828-3840);
   such programs (they only arise in statically dead branches) are outside the modelled fragment *)
Definition check_st (G : tenv) (e : expr) : option ty :=
  match check_e G e with
  | Some t => if subtype t TNever then None else Some t
  | None => None
  end.

Fixpoint check_s (G : tenv) (s : stmt) : option tenv :=
  match s with
  | SSkip => Some G
  | SSeq a b => match check_s G a with Some G1 => check_s G1 b | None => None end
  | SDecl x t e =>
      if declared G x then None
      else match check_st G e with
           | Some te => if subtype te t then Some ((x, [t]) :: G) else None
           | None => None
           end
  | SInfer x e =>
      if declared G x then None
      else match check_st G e with
           | Some te => Some ((x, [nonlit te]) :: G)
           | None => None
           end
  | SAssign x e =>
      match lookup x G, check_st G e with
      | Some ch, Some te =>
          match assign_chain te ch with
          | Some ch' => Some (upd x (fun _ => ch') G)
          | None => None
          end
      | _, _ => None
      end
  | SIf c a b =>
      match check_e G c, narrow G G c ATruthy with
      | Some _, Some nt =>
          match check_s (push_opt nt G) a with
          | Some Ga =>
              let G1 := leave G nt Ga in
              match narrow G G1 c AFalsy with
              | Some nf =>
                  match check_s (push_opt nf G1) b with
                  | Some Gb => Some (leave G1 nf Gb)
                  | None => None
                  end
              | None => None
              end
          | None => None
          end
      | _, _ => None
      end
  | SProbe k t e =>
      match check_st G e with
      | Some te => if subtype te t then Some G else None
      | None => None
      end
  | SWhile c b =>
      match check_e G c, narrow G G c ATruthy with
      | Some _, Some nt =>
          match check_s (push_opt nt G) b with
          | Some Gb => Some (leave G nt Gb)
          | None => None
          end
      | _, _ => None
      end
  | SClosure f b =>
      match check_s G b with
      | Some Gb => Some (leave G None Gb)
      | None => None
      end
  | SCall f => Some G
  end.

(* the same traversal, filling every probe's annotation with the inferred type of its expression
   (used by the driver to tell the generator the static types; not part of any theorem) *)
Fixpoint annot_s (G : tenv) (s : stmt) : option (tenv * stmt) :=
  match s with
  | SSeq a b =>
      match annot_s G a with
      | Some (G1, a') => match annot_s G1 b with Some (G2, b') => Some (G2, SSeq a' b') | None => None end
      | None => None
      end
  | SIf c a b =>
      match check_e G c, narrow G G c ATruthy with
      | Some _, Some nt =>
          match annot_s (push_opt nt G) a with
          | Some (Ga, a') =>
              let G1 := leave G nt Ga in
              match narrow G G1 c AFalsy with
              | Some nf =>
                  match annot_s (push_opt nf G1) b with
                  | Some (Gb, b') => Some (leave G1 nf Gb, SIf c a' b')
                  | None => None
                  end
              | None => None
              end
          | None => None
          end
      | _, _ => None
      end
  | SProbe k _ e => match check_st G e with Some te => Some (G, SProbe k te e) | None => None end
  | SWhile c b =>
      match check_e G c, narrow G G c ATruthy with
      | Some _, Some nt =>
          match annot_s (push_opt nt G) b with
          | Some (Gb, b') => Some (leave G nt Gb, SWhile c b')
          | None => None
          end
      | _, _ => None
      end
  | SClosure f b =>
      match annot_s G b with
      | Some (Gb, b') => Some (leave G None Gb, SClosure f b')
      | None => None
      end
  | _ => match check_s G s with Some G' => Some (G', s) | None => None end
  end.

(* ---------------------------------------------------------------- execution *)
Definition probe_log := list (Z * ty * value).
Definition state := (venv * list (var * stmt) * probe_log)%type.

Definition set_var (x : var) (v : value) (r : venv) : venv := (x, v) :: r.

Fixpoint exec (fuel : nat) (st : state) (s : stmt) : option state :=
  match fuel with
  | O => None
  | S f =>
      let '(r, k, lg) := st in
      match s with
      | SSkip => Some st
      | SSeq a b => match exec f st a with Some st1 => exec f st1 b | None => None end
      | SDecl x _ e | SInfer x e | SAssign x e =>
          match eval_e r e with Some v => Some (set_var x v r, k, lg) | None => None end
      | SIf c a b =>
          match eval_e r c with
          | Some v => if truthy v then exec f st a else exec f st b
          | None => None
          end
      | SProbe id t e =>
          match eval_e r e with Some v => Some (r, k, (id, t, v) :: lg) | None => None end
      | SWhile c b =>
          match eval_e r c with
          | Some v =>
              if truthy v then match exec f st b with Some st1 => exec f st1 (SWhile c b) | None => None end
              else Some st
          | None => None
          end
      | SClosure g b => Some (r, (g, b) :: k, lg)
      | SCall g => match lookup g k with Some b => exec f st b | None => None end
      end
  end.

(* programs without loops, closure definitions and closure calls *)
Fixpoint flow_simple (s : stmt) : bool :=
  match s with
  | SSeq a b | SIf _ a b => flow_simple a && flow_simple b
  | SWhile _ _ | SClosure _ _ | SCall _ => false
  | _ => true
  end.

Definition log_ok (lg : probe_log) : bool :=
  forallb (fun p => mem (snd (fst p)) (snd p)) lg.

(* ---------------------------------------------------------------- specification predicates *)
(* the runtime environment r agrees with the static environment G: every variable of G has a value
   that inhabits EVERY level of its chain (current narrowed type ... declared type) *)
Definition env_ok (G : tenv) (r : venv) : Prop :=
  forall x ch, lookup x G = Some ch ->
    exists v, lookup x r = Some v /\ Forall (fun t => mem t v = true) ch.

Definition assumed (a : assume) : bool := match a with ATruthy => true | AFalsy => false end.
Definition st_vars (st : state) : venv := fst (fst st).
Definition st_log (st : state) : probe_log := snd st.
Definition init_state : state := ([], [], []).
