(* C15 — mechanism model: how a generator / async body is suspended and resumed on a thread's value stack.
   Definitions only.

   Mirrors vm/thread.go:
     [resume]   the common prologue of CallGeneratorNext and callBytecodePromise:
                createCurrentCallFrame(true); fp := sp; ip := generator.ip;
                localCount := parameterCount + 1; push generator.stack at fp.
     [suspend]  whole = false: CallGeneratorNext after run():   generator.stack := stack[fp : sp-1],
                               generator.ip := ip, restoreLastFrame (the value on top is returned);
                whole = true : callBytecodePromise, awaitState: generator.stack := stack[fp : sp]
                               (the awaited promise stays on top of the saved slice), restoreLastFrame.
     restoreLastFrame closes every open upvalue that points at or above fp (opCloseUpvalues(vm.fp)),
     pops down to fp and leaves the top value there; the registers come back from the call frame.
   The locals of the body live IN the saved slice (slot fp+i), together with the operand temporaries.
   Stack values are abstract (Z); index 0 is the bottom of the value stack, sp = length. *)
From Coq Require Import ZArith List Bool Arith.
Import ListNotations.

Record cframe := mkCF { cf_fp : nat; cf_ip : nat; cf_lc : nat }.

Record thread := mkT {
  stack : list Z;
  fp : nat;
  ip : nat;
  lc : nat;                           (* vm.localCount *)
  frames : list cframe;               (* innermost first *)
  open_uv : list (nat * nat);         (* open upvalues: (id, absolute slot) *)
  closed_uv : list (nat * Z) }.       (* closed upvalues: (id, own copy of the value) *)

Record gen := mkG { g_stack : list Z; g_ip : nat; g_np : nat }.

Definition resume (g : gen) (t : thread) : thread :=
  mkT (stack t ++ g_stack g) (length (stack t)) (g_ip g) (g_np g + 1)
      (mkCF (fp t) (ip t) (lc t) :: frames t) (open_uv t) (closed_uv t).

Definition slice (whole : bool) (t : thread) : list Z :=
  firstn (length (stack t) - (if whole then 0 else 1) - fp t) (skipn (fp t) (stack t)).

Definition below (n : nat) (u : nat * nat) : bool := snd u <? n.

Definition suspend (whole : bool) (np : nat) (t : thread) : option (gen * thread) :=
  match frames t with
  | [] => None
  | cf :: rest =>
      Some (mkG (slice whole t) (ip t) np,
            mkT (firstn (fp t) (stack t) ++ [last (stack t) 0%Z]) (cf_fp cf) (cf_ip cf) (cf_lc cf) rest
                (filter (below (fp t)) (open_uv t))
                (closed_uv t ++
                 map (fun u => (fst u, nth (snd u) (stack t) 0%Z))
                     (filter (fun u => negb (below (fp t) u)) (open_uv t))))
  end.

(* a thread that is running a generator / async body and is about to be suspended *)
Definition Inv (whole : bool) (t : thread) : Prop :=
  frames t <> [] /\ fp t + (if whole then 0 else 1) <= length (stack t).

Definition local (i : nat) (t : thread) : Z := nth (fp t + i) (stack t) 0%Z.

Fixpoint set_nth (n : nat) (v : Z) (l : list Z) : list Z :=
  match l, n with
  | [], _ => []
  | _ :: r, O => v :: r
  | a :: r, S n' => a :: set_nth n' v r
  end.

Definition set_local (i : nat) (v : Z) (t : thread) : thread :=
  mkT (set_nth (fp t + i) v (stack t)) (fp t) (ip t) (lc t) (frames t) (open_uv t) (closed_uv t).

Fixpoint lookup {A} (u : nat) (l : list (nat * A)) : option A :=
  match l with
  | [] => None
  | (k, a) :: r => if Nat.eqb k u then Some a else lookup u r
  end.

(* what a closure holding upvalue u reads *)
Definition read_uv (t : thread) (u : nat) : option Z :=
  match lookup u (open_uv t) with
  | Some slot => Some (nth slot (stack t) 0%Z)
  | None => lookup u (closed_uv t)
  end.

(* the closure and the body agree on the captured local i *)
Definition coherent (t : thread) (u i : nat) : Prop := read_uv t u = Some (local i t).

Definition no_frame_capture (t : thread) : Prop := forallb (below (fp t)) (open_uv t) = true.

(* witness for the refutation: main frame [7], a body frame at fp = 1 with self, one local (= 5) captured
   by upvalue 0, and the yielded value 9 on top *)
Definition wit : thread :=
  mkT [7; 100; 5; 9]%Z 1 40 2 [mkCF 0 11 1] [(0, 2)] [].

Definition wit_roundtrip : option thread :=
  match suspend false 0 wit with
  | Some (g, t1) => Some (set_local 1 6%Z (resume g t1))
  | None => None
  end.

(* ---- the value stack as an ARRAY of fixed capacity that is reallocated when it is 70 % full --------------
   vm/thread.go: growValueStackIfNeeded / growValueStack (capacity doubles, the old contents are copied, the
   registers are rebased; the old array is abandoned).  An array thread is the backing array plus sp; the live
   stack of the list model above is its first sp slots.  The prologue of CallGeneratorNext / callBytecodePromise
   pushes the saved frame at sp; [policy] says whether a growth check runs in that prologue (the code as it is:
   never; a prologue that calls growValueStackIfNeeded: [needs_grow]).  What matters is WHERE the frame is
   written when the check fires: [resume_arr] computes the destination in the array that is live after the
   growth, [resume_arr_stale] took the destination slice before the growth check and copies through it
   afterwards, i.e. into the abandoned array. *)

Record athread := mkA { a_arr : list Z; a_sp : nat }.

Definition live (a : athread) : list Z := firstn (a_sp a) (a_arr a).

(* 0.7 * capacity < sp *)
Definition needs_grow (sp cap : nat) : bool := 7 * cap <? 10 * sp.

Definition grow_arr (arr : list Z) : list Z := arr ++ repeat 0%Z (length arr).

(* arr[at .. at+|src|) := src   (slots beyond the capacity are not written: the caller guarantees room) *)
Definition write_at (at_ : nat) (src arr : list Z) : list Z :=
  firstn at_ arr ++ firstn (length arr - at_) src ++ skipn (at_ + length src) arr.

Definition resume_arr (policy : nat -> nat -> bool) (g : gen) (a : athread) : athread :=
  let sp' := a_sp a + length (g_stack g) in
  let arr' := if policy sp' (length (a_arr a)) then grow_arr (a_arr a) else a_arr a in
  mkA (write_at (a_sp a) (g_stack g) arr') sp'.

Definition resume_arr_stale (policy : nat -> nat -> bool) (g : gen) (a : athread) : athread :=
  let sp' := a_sp a + length (g_stack g) in
  if policy sp' (length (a_arr a))
  then mkA (grow_arr (a_arr a)) sp'          (* the frame went into the abandoned array *)
  else mkA (write_at (a_sp a) (g_stack g) (a_arr a)) sp'.

(* witness: capacity 10, seven slots in use (stale 0s above), a saved frame [100; 5] resumed at sp = 7:
   9 > 0.7 * 10, the resume itself triggers the reallocation *)
Definition wit_arr : athread := mkA [1; 2; 3; 4; 5; 6; 7; 0; 0; 0]%Z 7.
Definition wit_gen : gen := mkG [100; 5]%Z 40 1.
