(* C32 — executable model of the run-length line table (bytecode/line_info.go).

   Go: `type LineInfoList []*LineInfo`, LineInfo{LineNumber, InstructionCount}.
   Representation choice: every mutating operation of the Go code touches only the LAST
   element of the slice, so the model keeps the slice NEWEST-FIRST (head = l.Last());
   `entries` gives the slice in Go order and the lookup (GetLineInfo) walks `entries`.
   Go `int` is modelled by unbounded Z (counts never approach 2^63: they are bounded by
   the size of one function's bytecode).  No proofs here so the model always runs. *)
From Coq Require Import ZArith List.
From Elk Require Export Base.GoSem.
Import ListNotations.
Open Scope Z_scope.

Record line_info : Type := LI { li_line : Z; li_count : Z }.
Definition table := list line_info.            (* newest first *)
Definition entries (t : table) : list line_info := rev t.   (* Go slice order *)

(* panic("cannot remove a byte from an empty line info list") *)
Definition P_EMPTY_REMOVE : Z := 320.

(* GetLineInfo: cumulative search over the slice in order *)
Fixpoint get_line_info_from (fl : list line_info) (acc i : Z) : option line_info :=
  match fl with
  | [] => None
  | e :: r =>
      let acc' := acc + li_count e in
      if acc' - 1 >=? i then Some e else get_line_info_from r acc' i
  end.
Definition get_line_info (t : table) (i : Z) : option line_info :=
  get_line_info_from (entries t) 0 i.
(* GetLineNumber: -1 when not found *)
Definition get_line_number (t : table) (i : Z) : Z :=
  match get_line_info t i with None => -1 | Some e => li_line e end.

(* AddLineNumber(lineNumber, bytes) *)
Definition add_line_number (t : table) (line bytes : Z) : table :=
  match t with
  | e :: r => if li_line e =? line then LI (li_line e) (li_count e + bytes) :: r
              else LI line bytes :: t
  | [] => [LI line bytes]
  end.

(* AddBytesToLastLine(bytes): l.Last() is nil on an empty list -> nil dereference *)
Definition add_bytes_to_last_line (t : table) (bytes : Z) : outcome table :=
  match t with
  | e :: r => Ok (LI (li_line e) (li_count e + bytes) :: r)
  | [] => Panic P_NIL
  end.

(* RemoveByte *)
Definition remove_byte (t : table) : outcome table :=
  match t with
  | [] => Panic P_EMPTY_REMOVE
  | e :: r => if li_count e =? 1 then Ok r else Ok (LI (li_line e) (li_count e - 1) :: r)
  end.

(* RemoveBytes(count): `for range count` = count iterations, none when count <= 0 *)
Fixpoint remove_bytes_n (k : nat) (t : table) : outcome table :=
  match k with
  | O => Ok t
  | S k' => bind (remove_byte t) (remove_bytes_n k')
  end.
Definition remove_bytes (t : table) (count : Z) : outcome table :=
  remove_bytes_n (Z.to_nat count) t.

(* compiler.prepLocals: the PREP_LOCALS8/16 prologue (n = 2 or 3 bytes) is inserted IN FRONT of
   the function's bytecode and credited to the FIRST run of the slice:
       lineInfo := c.bytecode.LineInfoList.First()
       if lineInfo != nil { lineInfo.InstructionCount += newBytes }
   The model's list is newest-first, so the first run of the Go slice is the LAST element. *)
Fixpoint prologue (t : table) (n : Z) : table :=
  match t with
  | [] => []
  | [e] => [LI (li_line e) (li_count e + n)]
  | e :: r => e :: prologue r n
  end.

(* operations a compiler run performs on one function's table *)
Inductive op : Type :=
| OpAdd (line bytes : Z)        (* AddInstruction -> AddLineNumber(line, len(bytes)+1) *)
| OpAddBytes (bytes : Z)        (* AddBytes / AppendUint16 / AppendUint32 *)
| OpRemove (count : Z)          (* RemoveByte (count = 1) / RemoveBytes *)
| OpPrologue (bytes : Z).       (* prepLocals: bytes inserted at offset 0, credited to the first run *)

Definition apply_op (t : table) (o : op) : outcome table :=
  match o with
  | OpAdd line bytes => Ok (add_line_number t line bytes)
  | OpAddBytes bytes => add_bytes_to_last_line t bytes
  | OpRemove count => remove_bytes t count
  | OpPrologue bytes => Ok (prologue t bytes)
  end.

Definition step (st : outcome table) (o : op) : outcome table := bind st (fun t => apply_op t o).
Definition run_impl (ops : list op) : outcome table := fold_left step ops (Ok []).

(* ---------------- specification: the plain byte -> line list ---------------- *)
Definition plain := list Z.     (* element i = source line of bytecode byte i *)

Definition spec_apply (ls : plain) (o : op) : outcome plain :=
  match o with
  | OpAdd line bytes => Ok (ls ++ repeat line (Z.to_nat bytes))
  | OpAddBytes bytes =>
      match ls with
      | [] => Panic P_NIL
      | _ => Ok (ls ++ repeat (last ls 0) (Z.to_nat bytes))
      end
  | OpRemove count =>
      if Z.max count 0 <=? Z.of_nat (length ls)
      then Ok (firstn (length ls - Z.to_nat count) ls)
      else Panic P_EMPTY_REMOVE
  | OpPrologue bytes =>
      (* the inserted bytes come first and carry the line of the old byte 0 *)
      match ls with
      | [] => Ok []
      | x :: _ => Ok (repeat x (Z.to_nat bytes) ++ ls)
      end
  end.
Definition spec_step (st : outcome plain) (o : op) : outcome plain := bind st (fun ls => spec_apply ls o).
Definition run_spec (ops : list op) : outcome plain := fold_left spec_step ops (Ok []).

(* line of byte i in the plain list; -1 outside *)
Definition spec_line (ls : plain) (i : Z) : Z :=
  if i <? 0 then nth 0 ls (-1) else nth (Z.to_nat i) ls (-1).

(* preconditions the callers guarantee (documented at NewLineInfo: counts > 0) *)
Definition wf_op (o : op) : Prop :=
  match o with
  | OpAdd _ bytes => 1 <= bytes
  | OpAddBytes bytes => 0 <= bytes
  | OpRemove _ => True
  | OpPrologue bytes => 0 <= bytes
  end.

(* abstraction function: expand the runs, in Go slice order *)
Definition run_of (e : line_info) : list Z := repeat (li_line e) (Z.to_nat (li_count e)).
Definition expand (t : table) : plain := flat_map run_of (entries t).
Definition total_bytes (t : table) : Z := fold_right (fun e a => li_count e + a) 0 t.
