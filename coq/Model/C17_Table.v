(* C17 — executable model of Elk's open-addressing hash tables with tombstones
   (vm/hash_map.go HashMapOfValue*, vm/hash_set.go HashSetOfValue*, vm/hash_record.go wrappers).
   Generic in the key type, its hash and its equality; a set is the instance val := unit.
   `fx = true` mirrors the code with the three C17 fixes applied (copy counts only new keys,
   Get tests the key, Index returns the first tombstone after a full cycle);
   `fx = false` mirrors the code as found.  No proofs here so the model always runs. *)
From Elk Require Export Base.GoSem.
From Coq Require Export NArith Permutation.
Open Scope Z_scope.

Definition P_DIVZERO : Z := 104.   (* hash % 0 : Go runtime panic "integer divide by zero" *)
Definition P_NOROOM : Z := 117.    (* panic("no room in target hashmap ...") *)

Section Table.
Variables key val : Type.
Variable hash : key -> N.
Variable eqb : key -> key -> bool.
Variable veqb : val -> val -> bool.
Variable fx : bool.

(* PairOfValue{key,value}: Empty = (undefined, undefined); Tomb = (undefined, true) *)
Inductive slot : Type := Empty | Tomb | Live (k : key) (v : val).

Record table : Type := mk { slots : list slot; elements : Z; occupied : Z }.

Definition cap (t : table) : nat := length (slots t).
Definition is_live (s : slot) : bool := match s with Live _ _ => true | _ => false end.
Definition new_table (c : nat) : table := mk (repeat Empty c) 0 0.

(* live pairs in table order: what All()/Iterate() yield *)
Fixpoint entries (sl : list slot) : list (key * val) :=
  match sl with
  | [] => []
  | Live k v :: r => (k, v) :: entries r
  | _ :: r => entries r
  end.

Fixpoint upd (sl : list slot) (i : nat) (x : slot) : list slot :=
  match sl, i with
  | [], _ => []
  | _ :: r, O => x :: r
  | s :: r, S i' => s :: upd r i' x
  end.

(* hash % capacity *)
Definition home (c : nat) (k : key) : nat := N.to_nat (hash k mod N.of_nat c).
(* the p-th slot visited by a probe that starts at h *)
Definition slot_at (sl : list slot) (h p : nat) : slot := nth ((h + p) mod length sl) sl Empty.

(* HashMapOfValueIndex / HashSetIndex loop: n slots left to visit, p visited so far,
   del = offset of the first tombstone seen *)
Fixpoint scan (sl : list slot) (k : key) (h : nat) (n p : nat) (del : option nat) : option nat :=
  match n with
  | O => if fx then del else None
  | S n' =>
    match slot_at sl h p with
    | Empty => Some (match del with Some d => d | None => p end)
    | Tomb => scan sl k h n' (S p) (match del with Some _ => del | None => Some p end)
    | Live k' _ => if eqb k' k then Some p else scan sl k h n' (S p) del
    end
  end.

(* Ok None = -1 *)
Definition index (sl : list slot) (k : key) : outcome (option nat) :=
  match length sl with
  | O => Panic P_DIVZERO
  | c => let h := home c k in
         Ok (option_map (fun p => ((h + p) mod c)%nat) (scan sl k h c 0 None))
  end.

(* one iteration of the rehash / copy loops: table[i] = entry; also returns the old slot *)
Definition place (sl : list slot) (k : key) (v : val) : outcome (list slot * slot) :=
  bind (index sl k) (fun oi =>
  match oi with
  | Some i => Ok (upd sl i (Live k v), nth i sl Empty)
  | None => Panic P_NOROOM
  end).

Fixpoint rehash (es : list (key * val)) (sl : list slot) (n : Z) : outcome (list slot * Z) :=
  match es with
  | [] => Ok (sl, n)
  | (k, v) :: r => bind (place sl k v) (fun x => rehash r (fst x) (n + 1))
  end.

(* HashMapOfValueSetCapacity *)
Definition set_capacity (t : table) (c : nat) : outcome table :=
  if Nat.eqb (cap t) c then Ok t else
  bind (rehash (entries (slots t)) (repeat Empty c) 0) (fun x => Ok (mk (fst x) (snd x) (snd x))).

Definition grow (t : table) (n : nat) : outcome table := set_capacity t (cap t + n).

(* HashMapOfValueSetWithMaxLoad / HashSetOfValueAppendWithMaxLoad, max load = num/den;
   the boolean is Append's "new value" result *)
Definition set_with_max_load (t : table) (k : key) (v : val) (num den : Z) : outcome (table * bool) :=
  bind (if Nat.eqb (cap t) 0 then set_capacity t 5
        else if Z.of_nat (cap t) * num <=? occupied t * den then set_capacity t (Z.to_nat (occupied t * 2))
        else Ok t) (fun t1 =>
  bind (index (slots t1) k) (fun oi =>
  match oi with
  | None => Panic P_NOROOM
  | Some i =>
    let old := nth i (slots t1) Empty in
    let el := if is_live old then elements t1 else elements t1 + 1 in
    let oc := match old with Empty => occupied t1 + 1 | _ => occupied t1 end in
    Ok (mk (upd (slots t1) i (Live k v)) el oc, negb (is_live old))
  end)).

Definition set (t : table) (k : key) (v : val) : outcome (table * bool) := set_with_max_load t k v 3 4.

(* HashMapOfValueDelete / HashSetOfValueDelete *)
Definition delete (t : table) (k : key) : outcome (table * bool) :=
  if elements t =? 0 then Ok (t, false) else
  bind (index (slots t) k) (fun oi =>
  match oi with
  | None => Ok (t, false)
  | Some i =>
    if is_live (nth i (slots t) Empty)
    then Ok (mk (upd (slots t) i Tomb) (elements t - 1) (occupied t), true)
    else Ok (t, false)
  end).

(* result of a lookup: GMarker is the tombstone's `true` leaking out of the code as found *)
Inductive gres : Type := GAbsent | GVal (v : val) | GMarker.

(* HashMapOfValueGet *)
Definition get (t : table) (k : key) : outcome gres :=
  if elements t =? 0 then Ok GAbsent else
  bind (index (slots t) k) (fun oi =>
  match oi with
  | None => Ok GAbsent
  | Some i =>
    match nth i (slots t) Empty with
    | Live _ v => Ok (GVal v)
    | Tomb => Ok (if fx then GAbsent else GMarker)
    | Empty => Ok GAbsent
    end
  end).

(* HashMapOfValueContainsKey / HashSetOfValueContains *)
Definition contains_key (t : table) (k : key) : outcome bool :=
  if elements t =? 0 then Ok false else
  bind (index (slots t) k) (fun oi =>
  match oi with
  | None => Ok false
  | Some i => Ok (is_live (nth i (slots t) Empty))
  end).

(* loop of HashMapOfValueCopy / HashSetOfValueCopy *)
Fixpoint copy_loop (es : list (key * val)) (sl : list slot) (el oc : Z) : outcome (list slot * (Z * Z)) :=
  match es with
  | [] => Ok (sl, (el, oc))
  | (k, v) :: r =>
    bind (place sl k v) (fun x =>
      let old := snd x in
      let el' := if fx then (if is_live old then el else el + 1) else el + 1 in
      let oc' := if fx then (match old with Empty => oc + 1 | _ => oc end) else oc + 1 in
      copy_loop r (fst x) el' oc')
  end.

Definition copy (t s : table) : outcome table :=
  let required := elements t + elements s in
  bind (if Z.of_nat (cap t) <? required then set_capacity t (Z.to_nat required) else Ok t) (fun t1 =>
  bind (copy_loop (entries (slots s)) (slots t1) (elements t1) (occupied t1)) (fun x =>
  Ok (mk (fst x) (fst (snd x)) (snd (snd x))))).

(* Concat = Copy into a Clone (the clone keeps tombstones and counters) *)
Definition concat (x y : table) : outcome table := copy x y.

Fixpoint set_all (t : table) (es : list (key * val)) (num den : Z) : outcome table :=
  match es with
  | [] => Ok t
  | (k, v) :: r => bind (set_with_max_load t k v num den) (fun x => set_all (fst x) r num den)
  end.

(* HashMapOfValueCopyTable: SetWithMaxLoad(..., 1) per live source pair *)
Definition copy_table (t s : table) : outcome table := set_all t (entries (slots s)) 1 1.

Fixpoint equal_loop (es : list (key * val)) (y : table) : outcome bool :=
  match es with
  | [] => Ok true
  | (k, v) :: r =>
    bind (get y k) (fun g =>
    match g with
    | GVal v' => if veqb v v' then equal_loop r y else Ok false
    | _ => Ok false
    end)
  end.

(* HashMapOfValueEqual *)
Definition equal (x y : table) : outcome bool :=
  if elements x =? elements y then equal_loop (entries (slots x)) y else Ok false.

Fixpoint subset_loop (es : list (key * val)) (y : table) : outcome bool :=
  match es with
  | [] => Ok true
  | (k, _) :: r => bind (contains_key y k) (fun b => if b then subset_loop r y else Ok false)
  end.

(* HashSetOfValueEqual *)
Definition set_equal (x y : table) : outcome bool :=
  if elements x =? elements y then subset_loop (entries (slots x)) y else Ok false.

(* HashSetOfValueUnion *)
Definition union (x y : table) : outcome table :=
  let longer := if elements y <? elements x then x else y in
  let shorter := if elements y <? elements x then y else x in
  bind (copy (new_table (Z.to_nat (elements shorter + elements longer))) longer) (fun t =>
  set_all t (entries (slots shorter)) 3 4).

Fixpoint inter_loop (t : table) (es : list (key * val)) (longer : table) : outcome table :=
  match es with
  | [] => Ok t
  | (k, v) :: r =>
    bind (contains_key longer k) (fun b =>
    if b then bind (set_with_max_load t k v 3 4) (fun x => inter_loop (fst x) r longer)
    else inter_loop t r longer)
  end.

(* HashSetOfValueIntersection *)
Definition intersection (x y : table) : outcome table :=
  let longer := if elements y <? elements x then x else y in
  let shorter := if elements y <? elements x then y else x in
  inter_loop (new_table 5) (entries (slots shorter)) longer.

(* ---------------- histories: two registers, one op at a time ---------------- *)
Inductive reg : Type := RA | RB.
Inductive op : Type :=
| ONew (r : reg) (n : nat)
| OSet (r : reg) (k : key) (v : val)
| ODel (r : reg) (k : key)
| OCat (r : reg)            (* r := r + other   (set: union) *)
| OInt (r : reg)            (* set: r := r & other; no-op for maps *)
| OCpy (r : reg)            (* Copy(r, other) in place *)
| OCln (r : reg)            (* r := other.Clone() *)
| OCtab (r : reg)           (* CopyTable(r, other's pairs) *)
| OGrow (r : reg) (n : nat).

Definition state : Type := (table * table)%type.
Definition rd (st : state) (r : reg) : table := match r with RA => fst st | RB => snd st end.
Definition other (r : reg) : reg := match r with RA => RB | RB => RA end.
Definition wr (st : state) (r : reg) (t : table) : state :=
  match r with RA => (t, snd st) | RB => (fst st, t) end.

Variable isset : bool.

(* the op's own return value (Delete / Append report a boolean) *)
Definition step (st : state) (o : op) : outcome (state * option bool) :=
  match o with
  | ONew r n => Ok (wr st r (new_table n), None)
  | OSet r k v => bind (set (rd st r) k v) (fun x => Ok (wr st r (fst x), if isset then Some (snd x) else None))
  | ODel r k => bind (delete (rd st r) k) (fun x => Ok (wr st r (fst x), Some (snd x)))
  | OCat r => bind (if isset then union (rd st r) (rd st (other r)) else concat (rd st r) (rd st (other r)))
                   (fun t => Ok (wr st r t, None))
  | OInt r => if isset then bind (intersection (rd st r) (rd st (other r))) (fun t => Ok (wr st r t, None))
              else Ok (st, None)
  | OCpy r => bind (copy (rd st r) (rd st (other r))) (fun t => Ok (wr st r t, None))
  | OCln r => Ok (wr st r (rd st (other r)), None)
  | OCtab r => bind (copy_table (rd st r) (rd st (other r))) (fun t => Ok (wr st r t, None))
  | OGrow r n => bind (grow (rd st r) n) (fun t => Ok (wr st r t, None))
  end.

(* everything a program can see of one table, for the key universe u *)
Record snap : Type := mkSnap { sn_len : Z; sn_gets : list gres; sn_has : list bool; sn_iter : list (key * val) }.

Fixpoint map_o {A B} (f : A -> outcome B) (l : list A) : outcome (list B) :=
  match l with
  | [] => Ok []
  | a :: r => bind (f a) (fun b => bind (map_o f r) (fun bs => Ok (b :: bs)))
  end.

Definition snapshot (u : list key) (t : table) : outcome snap :=
  bind (map_o (get t) u) (fun gs =>
  bind (map_o (contains_key t) u) (fun hs =>
  Ok (mkSnap (elements t) gs hs (entries (slots t))))).

Record obs : Type := mkObs { ob_ret : option bool; ob_a : snap; ob_b : snap; ob_eq_ab : bool; ob_eq_ba : bool }.

Definition observe (u : list key) (st : state) (ret : option bool) : outcome obs :=
  let eq := if isset then set_equal else equal in
  bind (snapshot u (fst st)) (fun sa =>
  bind (snapshot u (snd st)) (fun sb =>
  bind (eq (fst st) (snd st)) (fun e1 =>
  bind (eq (snd st) (fst st)) (fun e2 =>
  Ok (mkObs ret sa sb e1 e2))))).

(* run a history; stops at the first panic keeping what was observed before it *)
Fixpoint run (u : list key) (st : state) (ops : list op) : list obs * option Z :=
  match ops with
  | [] => ([], None)
  | o :: r =>
    match bind (step st o) (fun x => bind (observe u (fst x) (snd x)) (fun ob => Ok (fst x, ob))) with
    | Ok (st', ob) => let (l, e) := run u st' r in (ob :: l, e)
    | Err c | Panic c | Fatal c => ([], Some c)
    end
  end.

Definition init : state := (new_table 0, new_table 0).

(* ---------------- specification: duplicate-free association lists modulo eqb ---------------- *)
Definition amap : Type := list (key * val).

Definition s_get (m : amap) (k : key) : gres :=
  match find (fun kv => eqb (fst kv) k) m with Some kv => GVal (snd kv) | None => GAbsent end.
Definition s_mem (m : amap) (k : key) : bool := existsb (fun kv => eqb (fst kv) k) m.
Definition s_delete (m : amap) (k : key) : amap := filter (fun kv => negb (eqb (fst kv) k)) m.
Definition s_set (m : amap) (k : key) (v : val) : amap := (k, v) :: s_delete m k.
Definition s_concat (x y : amap) : amap := fold_left (fun acc kv => s_set acc (fst kv) (snd kv)) y x.
Definition s_equal (x y : amap) : bool :=
  (length x =? length y)%nat &&
  forallb (fun kv => match s_get y (fst kv) with GVal v' => veqb (snd kv) v' | _ => false end) x.
Definition s_set_equal (x y : amap) : bool :=
  (length x =? length y)%nat && forallb (fun kv => s_mem y (fst kv)) x.
Definition s_union (x y : amap) : amap :=
  if (length y <? length x)%nat then s_concat x y else s_concat y x.
Definition s_inter (x y : amap) : amap :=
  let longer := if (length y <? length x)%nat then x else y in
  let shorter := if (length y <? length x)%nat then y else x in
  s_concat [] (filter (fun kv => s_mem longer (fst kv)) shorter).

Definition sstate : Type := (amap * amap)%type.
Definition srd (st : sstate) (r : reg) : amap := match r with RA => fst st | RB => snd st end.
Definition swr (st : sstate) (r : reg) (m : amap) : sstate :=
  match r with RA => (m, snd st) | RB => (fst st, m) end.

Definition s_step (st : sstate) (o : op) : sstate * option bool :=
  match o with
  | ONew r _ => (swr st r [], None)
  | OSet r k v => (swr st r (s_set (srd st r) k v), if isset then Some (negb (s_mem (srd st r) k)) else None)
  | ODel r k => (swr st r (s_delete (srd st r) k), Some (s_mem (srd st r) k))
  | OCat r => (swr st r ((if isset then s_union else s_concat) (srd st r) (srd st (other r))), None)
  | OInt r => (if isset then swr st r (s_inter (srd st r) (srd st (other r))) else st, None)
  | OCpy r | OCtab r => (swr st r (s_concat (srd st r) (srd st (other r))), None)
  | OCln r => (swr st r (srd st (other r)), None)
  | OGrow r _ => (st, None)
  end.

Definition s_snapshot (u : list key) (m : amap) : snap :=
  mkSnap (Z.of_nat (length m)) (map (s_get m) u) (map (s_mem m) u) m.

Definition s_observe (u : list key) (st : sstate) (ret : option bool) : obs :=
  let eq := if isset then s_set_equal else s_equal in
  mkObs ret (s_snapshot u (fst st)) (s_snapshot u (snd st)) (eq (fst st) (snd st)) (eq (snd st) (fst st)).

Fixpoint s_run (u : list key) (st : sstate) (ops : list op) : list obs :=
  match ops with
  | [] => []
  | o :: r => let (st', ret) := s_step st o in s_observe u st' ret :: s_run u st' r
  end.

End Table.

Arguments Empty {key val}.
Arguments Tomb {key val}.
Arguments Live {key val}.
Arguments GAbsent {val}.
Arguments GVal {val}.
Arguments GMarker {val}.
Arguments ONew {key val}. Arguments OSet {key val}. Arguments ODel {key val}. Arguments OCat {key val}.
Arguments OInt {key val}. Arguments OCpy {key val}. Arguments OCln {key val}. Arguments OCtab {key val}.
Arguments OGrow {key val}.
Arguments ob_ret {key val}. Arguments ob_a {key val}. Arguments ob_b {key val}.
Arguments ob_eq_ab {key val}. Arguments ob_eq_ba {key val}.
Arguments sn_len {key val}. Arguments sn_gets {key val}. Arguments sn_has {key val}. Arguments sn_iter {key val}.


(* ---------------- the instance used by the correspondence: Int keys, Int values ---------------- *)
Definition zhash (tbl : list (Z * N)) (k : Z) : N :=
  match find (fun e => Z.eqb (fst e) k) tbl with Some e => snd e | None => 0%N end.

Definition zrun (tbl : list (Z * N)) (fx isset : bool) (u : list Z) (ops : list (op Z Z)) :=
  run Z Z (zhash tbl) Z.eqb Z.eqb fx isset u (init Z Z) ops.
Definition zsrun (isset : bool) (u : list Z) (ops : list (op Z Z)) :=
  s_run Z Z Z.eqb Z.eqb isset u ([], []) ops.
