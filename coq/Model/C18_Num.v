(* C18 — executable model of Elk's equality (==, ===), lax equality (=~), ordering
   (<, <=, >, >=, <=>) and hashing on numbers of every fixed kind, strings, chars and symbols
   (value/value.go dispatchers; value/small_int.go, big_int.go, float.go, float64.go,
   float32.go, int8..uint64.go, strict_numeric.go, exact_compare.go, string.go, char.go,
   symbol.go), 64-bit platform (all sized numbers are inline values).

   The model mirrors the code AFTER fixes/C18-exact-int-float-compare.patch:
   * every Int/Float comparison goes through CompareInt64WithFloat64 / CompareUint64WithFloat64 /
     CompareBigIntWithFloat64 (exact), mirrored by [ifcmp] / [bfcmp];
   * Float/Float64/Float32 hash the bit pattern with the sign of zero cleared.
   Floats are carried as IEEE-754 bit patterns (that is what Hash sees) and decoded to
   [fl]: NaN, +-Inf or an exact integer multiple of 2^-1074 (every finite binary32/binary64
   value and every integer is such a multiple, so all comparisons are integer comparisons).
   Hardware float comparison is modelled by [ffcmp] (IEEE: NaN unordered, -0 = +0, otherwise
   the order of the real values); math/big comparisons by Z.compare.
   No proofs here so the model always runs. *)
From Elk Require Export Base.GoSem.
Open Scope Z_scope.

Inductive skind := S8 | S16 | S32 | S64.
Inductive ukind := U8 | U16 | U32 | U64 | UW.          (* UW = Std::UInt *)
Definition sbits (k : skind) : Z := match k with S8 => 8 | S16 => 16 | S32 => 32 | S64 => 64 end.
Definition ubits (k : ukind) : Z := match k with U8 => 8 | U16 => 16 | U32 => 32 | U64 => 64 | UW => 64 end.
Definition sbytes (k : skind) : nat := match k with S8 => 1 | S16 => 2 | S32 => 4 | S64 => 8 end%nat.
Definition ubytes (k : ukind) : nat := match k with U8 => 1 | U16 => 2 | U32 => 4 | U64 => 8 | UW => 8 end%nat.
Definition skind_eqb (a b : skind) : bool :=
  match a, b with S8, S8 | S16, S16 | S32, S32 | S64, S64 => true | _, _ => false end.
Definition ukind_eqb (a b : ukind) : bool :=
  match a, b with U8, U8 | U16, U16 | U32, U32 | U64, U64 | UW, UW => true | _, _ => false end.

Inductive val : Type :=
| VInt (z : Z)                 (* Std::Int: SmallInt when fits64 z, *BigInt otherwise *)
| VFloat (b : Z)               (* Std::Float, binary64 bit pattern *)
| VF64 (b : Z)                 (* Std::Float64, binary64 bit pattern *)
| VF32 (b : Z)                 (* Std::Float32, binary32 bit pattern *)
| VS (k : skind) (z : Z)       (* Int8..Int64 *)
| VU (k : ukind) (z : Z)       (* UInt8..UInt64, UInt *)
| VStr (bs : list Z)           (* String as bytes *)
| VChar (c : Z)                (* Char: a Go rune (int32), possibly not a valid code point *)
| VSym (id : Z).               (* Symbol: interned id *)

Fixpoint all_bytes (l : list Z) : bool :=
  match l with nil => true | x :: r => fits_u 8 x && all_bytes r end.

Definition wf (v : val) : bool :=
  match v with
  | VInt _ => true
  | VFloat b | VF64 b => fits_u 64 b
  | VF32 b => fits_u 32 b
  | VS k z => fits_s (sbits k) z
  | VU k z => fits_u (ubits k) z
  | VStr bs => all_bytes bs
  | VChar c => fits_s 32 c
  | VSym id => fits_u 64 id
  end.

(* ---------------------------------------------------------------- floats *)
Inductive fl : Type := FNaN | FInf (neg : bool) | FFin (s : Z).   (* s = value * 2^1074 *)
Definition SCALE : Z := 2 ^ 1074.

(* magnitude of a finite float in units of its smallest subnormal: P = 2^(fraction bits) *)
Definition mag (P ex fr : Z) : Z := if ex =? 0 then fr else (P + fr) * 2 ^ (ex - 1).

Definition decode64 (b : Z) : fl :=
  let neg := 2 ^ 63 <=? b in
  let ex := (b / 2 ^ 52) mod 2 ^ 11 in
  let fr := b mod 2 ^ 52 in
  if ex =? 2047 then (if fr =? 0 then FInf neg else FNaN)
  else let m := mag (2 ^ 52) ex fr in                       (* unit 2^-1074 *)
       FFin (if neg then - m else m).

Definition decode32 (b : Z) : fl :=
  let neg := 2 ^ 31 <=? b in
  let ex := (b / 2 ^ 23) mod 2 ^ 8 in
  let fr := b mod 2 ^ 23 in
  if ex =? 255 then (if fr =? 0 then FInf neg else FNaN)
  else let m := mag (2 ^ 23) ex fr * 2 ^ 925 in             (* unit 2^-149 = 2^925 * 2^-1074 *)
       FFin (if neg then - m else m).

(* extended values: the order all comparisons are measured against *)
Inductive xv : Type := XNInf | XFin (s : Z) | XPInf.
Definition xcompare (a b : xv) : comparison :=
  match a, b with
  | XNInf, XNInf => Eq | XNInf, _ => Lt
  | XFin _, XNInf => Gt | XFin x, XFin y => Z.compare x y | XFin _, XPInf => Lt
  | XPInf, XPInf => Eq | XPInf, _ => Gt
  end.
Definition xv_of_fl (f : fl) : option xv :=
  match f with FNaN => None | FInf true => Some XNInf | FInf false => Some XPInf | FFin s => Some (XFin s) end.

(* hardware comparison of two floats: None when unordered *)
Definition ffcmp (f g : fl) : option comparison :=
  match xv_of_fl f, xv_of_fl g with
  | Some x, Some y => Some (xcompare x y)
  | _, _ => None
  end.

(* CompareInt64WithFloat64 (lo = -2^63, hi = 2^63) / CompareUint64WithFloat64 (lo = 0, hi = 2^64):
     if NaN -> unordered; if f >= hi -> -1; if f < lo -> 1;
     t := int(f) (truncation); if i < t -> -1; if i > t -> 1;
     ft := float(t) (exact); if ft < f -> -1; if ft > f -> 1; 0 *)
Definition ifcmp (lo hi i : Z) (f : fl) : option comparison :=
  match f with
  | FNaN => None
  | FInf neg => Some (if neg then Gt else Lt)
  | FFin s =>
      if hi * SCALE <=? s then Some Lt
      else if s <? lo * SCALE then Some Gt
      else let t := Z.quot s SCALE in
           if i <? t then Some Lt
           else if t <? i then Some Gt
           else Some (Z.compare (t * SCALE) s)
  end.

(* CompareBigIntWithFloat64: infinities first, then big.Float.Cmp (exact) *)
Definition bfcmp (i : Z) (f : fl) : option comparison :=
  match f with
  | FNaN => None
  | FInf neg => Some (if neg then Gt else Lt)
  | FFin s => Some (Z.compare (i * SCALE) s)
  end.

(* ---------------------------------------------------------------- numeric views *)
Inductive ikind := KI | KS (k : skind) | KU (k : ukind).
Inductive fkind := KF | KD | KF32.
Inductive nview := NVInt (k : ikind) (z : Z) | NVFlt (k : fkind) (f : fl) | NVOther.
Definition view (v : val) : nview :=
  match v with
  | VInt z => NVInt KI z
  | VFloat b => NVFlt KF (decode64 b)
  | VF64 b => NVFlt KD (decode64 b)
  | VF32 b => NVFlt KF32 (decode32 b)       (* float64(f32) is exact *)
  | VS k z => NVInt (KS k) z
  | VU k z => NVInt (KU k) z
  | _ => NVOther
  end.

(* integer against float, by the integer's kind *)
Definition int_flt_cmp (k : ikind) (z : Z) (f : fl) : option comparison :=
  match k with
  | KI => if fits64 z then ifcmp (- 2 ^ 63) (2 ^ 63) z f else bfcmp z f
  | KS _ => ifcmp (- 2 ^ 63) (2 ^ 63) z f
  | KU _ => ifcmp 0 (2 ^ 64) z f
  end.

(* Exact comparison of two numbers of any kinds. Outer None: not both numeric.
   Inner None: unordered (a NaN is involved).
   Integer/integer: math/big Cmp, machine comparison after a value-preserving widening, or the
   guarded forms `if u > MaxInt64 {false} else int64(l) == int64(r)` — all are Z.compare on
   in-range values. Float on the left of an integer: the negated helper result. *)
Definition num_cmp (a b : val) : option (option comparison) :=
  match view a, view b with
  | NVInt _ x, NVInt _ y => Some (Some (Z.compare x y))
  | NVInt k x, NVFlt _ f => Some (int_flt_cmp k x f)
  | NVFlt _ f, NVInt k y => Some (option_map CompOpp (int_flt_cmp k y f))
  | NVFlt _ f, NVFlt _ g => Some (ffcmp f g)
  | _, _ => None
  end.

(* which pairs the ordering operators accept (else CoerceError): Int and Float mix freely,
   every sized kind only with itself. Some n = class id. *)
Definition ord_class (v : val) : option Z :=
  match v with
  | VInt _ | VFloat _ => Some 0
  | VF64 _ => Some 1
  | VF32 _ => Some 2
  | VS k _ => Some (2 + sbits k)          (* 10, 18, 34, 66 *)
  | VU U8 _ => Some 100 | VU U16 _ => Some 101 | VU U32 _ => Some 102
  | VU U64 _ => Some 103 | VU UW _ => Some 104
  | _ => None
  end.
Definition ordered_pair (a b : val) : bool :=
  match ord_class a, ord_class b with Some x, Some y => x =? y | _, _ => false end.

(* ---------------------------------------------------------------- the operators *)
Fixpoint list_eqb (a b : list Z) : bool :=
  match a, b with
  | nil, nil => true
  | x :: a', y :: b' => (x =? y) && list_eqb a' b'
  | _, _ => false
  end.

Definition feq (f g : fl) : bool := match ffcmp f g with Some Eq => true | _ => false end.

(* == (value.EqualVal: same class required, then per kind) and === (value.StrictEqualVal) *)
Definition equal (a b : val) : bool :=
  match a, b with
  | VInt x, VInt y => x =? y
  | VFloat x, VFloat y => feq (decode64 x) (decode64 y)
  | VF64 x, VF64 y => feq (decode64 x) (decode64 y)
  | VF32 x, VF32 y => feq (decode32 x) (decode32 y)
  | VS k x, VS k' y => skind_eqb k k' && (x =? y)
  | VU k x, VU k' y => ukind_eqb k k' && (x =? y)
  | VStr x, VStr y => list_eqb x y
  | VChar x, VChar y => x =? y
  | VSym x, VSym y => x =? y
  | _, _ => false
  end.
Definition strict_equal (a b : val) : bool := equal a b.

(* =~ (value.LaxEqualVal). None = not modelled (String against Char decodes UTF-8). *)
Definition lax_equal (a b : val) : option bool :=
  match num_cmp a b with
  | Some (Some Eq) => Some true
  | Some _ => Some false
  | None =>
      match a, b with
      | VStr _, VChar _ | VChar _, VStr _ => None
      | _, _ => Some (equal a b)       (* String/String, Char/Char, Symbol/Symbol; false otherwise *)
      end
  end.

Inductive cres := CCmp (c : comparison) | CNil | CErr | CUndef | CUnk.
Inductive rres := RB (b : bool) | RErr | RUndef | RUnk.

Definition is_text (v : val) : bool := match v with VStr _ | VChar _ => true | _ => false end.
Definition is_sym (v : val) : bool := match v with VSym _ => true | _ => false end.

(* the comparison the ordering operators are computed from; Some (Some c) / Some None (NaN) *)
Definition ord_cmp (a b : val) : option (option comparison) :=
  if ordered_pair a b then num_cmp a b else None.

(* <=> (value.CompareVal) *)
Definition cmp (a b : val) : cres :=
  match ord_cmp a b with
  | Some (Some c) => CCmp c
  | Some None => CNil
  | None => if is_sym a then CUndef
            else if is_text a && is_text b then CUnk      (* byte-wise string order: not modelled *)
            else CErr
  end.

Definition rel (test : comparison -> bool) (a b : val) : rres :=
  match ord_cmp a b with
  | Some (Some c) => RB (test c)
  | Some None => RB false
  | None => if is_sym a then RUndef
            else if is_text a && is_text b then RUnk
            else RErr
  end.
Definition lt := rel (fun c => match c with Lt => true | _ => false end).
Definition le := rel (fun c => match c with Gt => false | _ => true end).
Definition gt := rel (fun c => match c with Gt => true | _ => false end).
Definition ge := rel (fun c => match c with Lt => false | _ => true end).

(* ---------------------------------------------------------------- hashing *)
Fixpoint le_bytes (n : nat) (z : Z) : list Z :=
  match n with O => nil | S n' => (z mod 256) :: le_bytes n' (z / 256) end.
Fixpoint be_acc (fuel : nat) (z : Z) (acc : list Z) : list Z :=
  match fuel with
  | O => acc
  | S f => if z =? 0 then acc else be_acc f (z / 256) ((z mod 256) :: acc)
  end.
(* big.Int.Bytes(): big-endian magnitude without leading zeros *)
Definition be_bytes (z : Z) : list Z := be_acc (Z.to_nat (Z.log2 (Z.abs z) / 8 + 1)) (Z.abs z) nil.

(* sign of zero cleared before hashing *)
Definition canon64 (b : Z) : Z := if b mod 2 ^ 63 =? 0 then 0 else b.
Definition canon32 (b : Z) : Z := if b mod 2 ^ 31 =? 0 then 0 else b.

(* string(rune): UTF-8, U+FFFD for surrogates and out-of-range runes *)
Definition utf8 (c : Z) : list Z :=
  if (c <? 0) || (1114111 <? c) || ((55296 <=? c) && (c <=? 57343)) then 239 :: 191 :: 189 :: nil
  else if c <? 128 then c :: nil
  else if c <? 2048 then (192 + c / 64) :: (128 + c mod 64) :: nil
  else if c <? 65536 then (224 + c / 4096) :: (128 + (c / 64) mod 64) :: (128 + c mod 64) :: nil
  else (240 + c / 262144) :: (128 + (c / 4096) mod 64) :: (128 + (c / 64) mod 64) :: (128 + c mod 64) :: nil.

(* the byte string written to the hash function (xxhash64) by value.Hash *)
Definition hash_bytes (v : val) : list Z :=
  match v with
  | VInt z => if fits64 z then le_bytes 8 (z mod 2 ^ 64) else be_bytes z
  | VFloat b | VF64 b => le_bytes 8 (canon64 b)
  | VF32 b => le_bytes 4 (canon32 b)
  | VS k z => le_bytes (sbytes k) (z mod 2 ^ sbits k)
  | VU k z => le_bytes (ubytes k) z
  | VStr bs => bs
  | VChar c => utf8 c
  | VSym id => le_bytes 8 id
  end.

(* semantic reading used by the theorems: the exact value of a non-NaN number *)
Definition xval (v : val) : option xv :=
  match view v with
  | NVInt _ z => Some (XFin (z * SCALE))
  | NVFlt _ f => xv_of_fl f
  | NVOther => None
  end.
Definition numeric (v : val) : bool := match view v with NVOther => false | _ => true end.
Definition is_nan (v : val) : bool := match view v with NVFlt _ FNaN => true | _ => false end.
