(* C32 — executable model of stack-trace assembly (vm/thread.go BuildStackTrace,
   BuildStackTracePrepend, makeCallFrameObject; vm/call_frame.go ToCallFrameObject) and of
   the prepend performed when an awaited promise is rejected (AWAIT / AWAIT_RESULT /
   AWAIT_SYNC: rethrow(err, BuildStackTracePrepend(promise.stackTrace))).
   Function and file names are opaque ids (Z).  No proofs here. *)
From Coq Require Import ZArith List.
From Elk Require Export Model.C32_Lines.
Import ListNotations.
Open Scope Z_scope.

(* the parts of *BytecodeFunction a stack trace reads *)
Record bcfun : Type := BF { bf_name : Z; bf_file : Z; bf_lines : table }.

(* vm.CallFrame *)
Inductive frame : Type :=
| FEmpty                                   (* !isNative && bytecode == nil : state saved before any code ran *)
| FBytecode (f : bcfun) (ip tcc : Z)       (* ip = index of the NEXT instruction in f's bytecode *)
| FNative (file func line tcc : Z).        (* makeNativeCallFrame: names and line stored in the frame *)

(* value.CallFrame *)
Record entry : Type := EN { en_func : Z; en_file : Z; en_line : Z; en_tcc : Z }.

(* ToCallFrameObject / makeCallFrameObject: GetLineNumber(ip - 1) *)
Definition frame_entry (fr : frame) : option entry :=
  match fr with
  | FEmpty => None
  | FBytecode f ip tcc => Some (EN (bf_name f) (bf_file f) (get_line_number (bf_lines f) (ip - 1)) tcc)
  | FNative file func line tcc => Some (EN func file line tcc)
  end.

(* the VM registers of the running function: vm.bytecode (nil possible), vm.ip, vm.tailCallCounter *)
Record thread : Type := TH { th_stack : list frame;        (* callStack(), outermost first *)
                             th_cur : option (bcfun * Z * Z) }.

(* the loop of BuildStackTrace over callStack() *)
Fixpoint walk (cs : list frame) : list entry :=
  match cs with
  | [] => []
  | fr :: r => match frame_entry fr with
               | None => walk r                       (* continue *)
               | Some e => e :: walk r
               end
  end.

Definition cur_entries (c : option (bcfun * Z * Z)) : list entry :=
  match c with
  | None => []
  | Some (f, ip, tcc) => [EN (bf_name f) (bf_file f) (get_line_number (bf_lines f) (ip - 1)) tcc]
  end.

Definition build_trace (t : thread) : list entry := walk (th_stack t) ++ cur_entries (th_cur t).
Definition build_trace_prepend (t : thread) (base : list entry) : list entry :=
  (walk (th_stack t) ++ cur_entries (th_cur t)) ++ base.

(* An error thrown in the innermost thread and rethrown through a chain of awaiting
   threads; `awaiters` is innermost-awaiter first (the order in which the rethrows happen). *)
Definition trace_through_awaits (thrower : thread) (awaiters : list thread) : list entry :=
  fold_left (fun base th => build_trace_prepend th base) awaiters (build_trace thrower).

(* ---- specification side: what the frames mean, with plain line lists ---- *)
Record sfun : Type := SF { sf_name : Z; sf_file : Z; sf_plain : plain }.
Inductive sframe : Type :=
| SEmpty
| SBytecode (f : sfun) (ip tcc : Z)
| SNative (file func line tcc : Z).

Definition sframe_entry (fr : sframe) : option entry :=
  match fr with
  | SEmpty => None
  | SBytecode f ip tcc => Some (EN (sf_name f) (sf_file f) (spec_line (sf_plain f) (ip - 1)) tcc)
  | SNative file func line tcc => Some (EN func file line tcc)
  end.
Definition is_active (fr : sframe) : bool := match fr with SEmpty => false | _ => true end.
Definition opt_list {A} (o : option A) : list A := match o with None => [] | Some a => [a] end.
(* the specification: one entry per active frame, outermost first, current frame last *)
Definition spec_trace (cs : list sframe) (cur : option sframe) : list entry :=
  flat_map (fun fr => opt_list (sframe_entry fr)) (filter is_active cs)
  ++ match cur with None => [] | Some fr => opt_list (sframe_entry fr) end.

(* building a function's table by compiler operations *)
Definition compiled (ops : list op) (name file : Z) : option (bcfun * sfun) :=
  match run_impl ops, run_spec ops with
  | Ok t, Ok ls => Some (BF name file t, SF name file ls)
  | _, _ => None
  end.
