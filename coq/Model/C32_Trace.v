(* C32 — executable model of stack-trace assembly (vm/thread.go BuildStackTrace,
   BuildStackTracePrepend, makeCallFrameObject; vm/call_frame.go ToCallFrameObject) and of
   the prepend performed when an awaited promise is rejected (AWAIT / AWAIT_RESULT /
   AWAIT_SYNC: rethrow(err, BuildStackTracePrepend(promise.stackTrace))).
   Function and file names are opaque ids (Z).  No proofs here. *)
From Coq Require Import ZArith List.
From Elk Require Export Model.C32_Lines.
Import ListNotations.
Open Scope Z_scope.

(* the parts of *BytecodeFunction a stack trace reads *)
Record bcfun : Type := BF { bf_name : Z; bf_file : Z; bf_lines : table }.

(* vm.CallFrame *)
Inductive frame : Type :=
| FEmpty                                   (* !isNative && bytecode == nil : state saved before any code ran *)
| FBytecode (f : bcfun) (ip tcc : Z)       (* ip = index of the NEXT instruction in f's bytecode *)
| FNative (file func line tcc : Z).        (* makeNativeCallFrame: names and line stored in the frame *)

(* value.CallFrame *)
Record entry : Type := EN { en_func : Z; en_file : Z; en_line : Z; en_tcc : Z }.

(* ToCallFrameObject / makeCallFrameObject: GetLineNumber(ip - 1) *)
Definition frame_entry (fr : frame) : option entry :=
  match fr with
  | FEmpty => None
  | FBytecode f ip tcc => Some (EN (bf_name f) (bf_file f) (get_line_number (bf_lines f) (ip - 1)) tcc)
  | FNative file func line tcc => Some (EN func file line tcc)
  end.

(* the VM registers of the running function: vm.bytecode (nil possible), vm.ip, vm.tailCallCounter *)
Record thread : Type := TH { th_stack : list frame;        (* callStack(), outermost first *)
                             th_cur : option (bcfun * Z * Z) }.

(* the loop of BuildStackTrace over callStack() *)
Fixpoint walk (cs : list frame) : list entry :=
  match cs with
  | [] => []
  | fr :: r => match frame_entry fr with
               | None => walk r                       (* continue *)
               | Some e => e :: walk r
               end
  end.

Definition cur_entries (c : option (bcfun * Z * Z)) : list entry :=
  match c with
  | None => []
  | Some (f, ip, tcc) => [EN (bf_name f) (bf_file f) (get_line_number (bf_lines f) (ip - 1)) tcc]
  end.

Definition build_trace (t : thread) : list entry := walk (th_stack t) ++ cur_entries (th_cur t).
Definition build_trace_prepend (t : thread) (base : list entry) : list entry :=
  (walk (th_stack t) ++ cur_entries (th_cur t)) ++ base.

(* An error thrown in the innermost thread and rethrown through a chain of awaiting
   threads; `awaiters` is innermost-awaiter first (the order in which the rethrows happen). *)
Definition trace_through_awaits (thrower : thread) (awaiters : list thread) : list entry :=
  fold_left (fun base th => build_trace_prepend th base) awaiters (build_trace thrower).

(* ---- specification side: what the frames mean, with plain line lists ---- *)
Record sfun : Type := SF { sf_name : Z; sf_file : Z; sf_plain : plain }.
Inductive sframe : Type :=
| SEmpty
| SBytecode (f : sfun) (ip tcc : Z)
| SNative (file func line tcc : Z).

Definition sframe_entry (fr : sframe) : option entry :=
  match fr with
  | SEmpty => None
  | SBytecode f ip tcc => Some (EN (sf_name f) (sf_file f) (spec_line (sf_plain f) (ip - 1)) tcc)
  | SNative file func line tcc => Some (EN func file line tcc)
  end.
Definition is_active (fr : sframe) : bool := match fr with SEmpty => false | _ => true end.
Definition opt_list {A} (o : option A) : list A := match o with None => [] | Some a => [a] end.
(* the specification: one entry per active frame, outermost first, current frame last *)
Definition spec_trace (cs : list sframe) (cur : option sframe) : list entry :=
  flat_map (fun fr => opt_list (sframe_entry fr)) (filter is_active cs)
  ++ match cur with None => [] | Some fr => opt_list (sframe_entry fr) end.

(* building a function's table by compiler operations *)
Definition compiled (ops : list op) (name file : Z) : option (bcfun * sfun) :=
  match run_impl ops, run_spec ops with
  | Ok t, Ok ls => Some (BF name file t, SF name file ls)
  | _, _ => None
  end.

(* ---- the stored-trace protocol (vm/thread.go: errStackTrace / errValue, throw, throwIfErr,
   rethrow at a stopVM frame, STOP_ITERATION) --------------------------------------------------
   A nested run of the VM (closure, method or generator called from native code) that ends with
   an uncaught error leaves the trace captured at the original throw in the thread
   (errStackTrace) together with the error value (errValue); the native code returns the error
   to the instruction that called it and throwIfErr reuses the stored trace when the values are
   equal (Go ==: references by address, inline values by payload).  Trace ASSEMBLY (build_trace)
   takes no error value at all; the value only enters the reuse decision below. *)
Inductive errval : Type :=
| VRef (addr : Z)          (* String, Error objects, big Int, collections ... *)
| VInline (bits : Z).      (* Symbol, small Int, Float, Bool, nil, Char, sized ints *)

Definition errval_eqb (a b : errval) : bool :=
  match a, b with
  | VRef x, VRef y => Z.eqb x y
  | VInline x, VInline y => Z.eqb x y
  | _, _ => false
  end.
Definition is_ref (v : errval) : bool := match v with VRef _ => true | VInline _ => false end.

(* errStackTrace + errValue; None = nil *)
Definition stored := option (list entry * errval).

(* variants of the code: cfg_clear = throwIfErr forgets the stored trace when the instruction
   finished without an error (the fix; false = as found), cfg_refonly = reuse only for
   reference values (the seeded variant of the strengthening round) *)
Record cfg : Type := CFG { cfg_clear : bool; cfg_refonly : bool }.

Inductive sop : Type :=
| OThrowOut (th : thread) (v : errval)    (* THROW / STOP_ITERATION at th, leaves its run: rethrow stores at the stopVM frame *)
| OIfErrOut (th : thread) (v : errval)    (* native code returned v to the instruction at th; leaves the run *)
| OIfErrCaught (th : thread) (v : errval) (* same, caught by a catch entry of the same run; the handler's instructions follow *)
| OSwallow.                               (* native code swallowed the error; the instruction finishes normally *)

Definition reuse (c : cfg) (s : stored) (v : errval) : option (list entry) :=
  match s with
  | Some (tr, v') => if (errval_eqb v' v && (negb (cfg_refonly c) || is_ref v))%bool then Some tr else None
  | None => None
  end.

Definition step (c : cfg) (s : stored) (o : sop) : stored :=
  match o with
  | OThrowOut th v => Some (build_trace th, v)
  | OIfErrOut th v =>
      match reuse c s v with
      | Some tr => Some (tr, v)
      | None => Some (build_trace th, v)
      end
  | OIfErrCaught th v =>
      match reuse c s v with
      | Some _ => None
      | None => if (cfg_clear c || cfg_refonly c)%bool then None else s
      end
  | OSwallow => if cfg_clear c then None else s
  end.

Definition run_stored (c : cfg) (s : stored) (ops : list sop) : stored := fold_left (step c) ops s.
Definition report (s : stored) : list entry := match s with Some (tr, _) => tr | None => [] end.

(* where an error comes from *)
Inductive origin : Type :=
| Direct (th : thread)                    (* a THROW instruction (or a generator's STOP_ITERATION) at th *)
| Native (th : thread)                    (* created by native code and returned to the instruction at th *)
| Crossed (inner : origin) (th : thread). (* the error of a nested run, handed back by native code to the instruction at th *)

Fixpoint origin_thread (o : origin) : thread :=
  match o with Direct th => th | Native th => th | Crossed i _ => origin_thread i end.

(* the operations of an error that propagates out of every run on its way *)
Fixpoint origin_ops (o : origin) (v : errval) : list sop :=
  match o with
  | Direct th => [OThrowOut th v]
  | Native th => [OIfErrOut th v]
  | Crossed i th => origin_ops i v ++ [OIfErrOut th v]
  end.

Inductive ending : Type := Swallowed | Caught.
(* an earlier error that did not end the program: swallowed by native code after leaving its
   runs, or caught by a catch entry of the outermost run it reached *)
Definition episode_ops (o : origin) (v : errval) (e : ending) : list sop :=
  match e with
  | Swallowed => origin_ops o v ++ [OSwallow]
  | Caught =>
      match o with
      | Direct _ => []                                     (* caught in its own run: nothing is stored *)
      | Native th => [OIfErrCaught th v]
      | Crossed i th => origin_ops i v ++ [OIfErrCaught th v]
      end
  end.

Fixpoint history_ops (h : list (origin * errval * ending)) : list sop :=
  match h with
  | [] => []
  | (o, v, e) :: r => episode_ops o v e ++ history_ops r
  end.

(* the trace printed for an uncaught error with origin o and value v after the history h *)
Definition reported (c : cfg) (h : list (origin * errval * ending)) (o : origin) (v : errval) : list entry :=
  report (run_stored c None (history_ops h ++ origin_ops o v)).
